package rules

import (
	"fmt"
	"go/constant"
	"go/token"
	"go/types"
	"strings"

	"golang.org/x/tools/go/ssa"

	"charonverif/internal/an"
	"charonverif/internal/rt"
)

// C08 — threshold BLS algebra (thin). The algebra itself lives in the cgo library; what the Go code
// contributes, and what is decided here, is (S1) that the share identifier handed to the library is
// exactly the decimal rendering of the share's index (loop variable on the split side, map key on
// the recover side), paired with the value of the same iteration, over ids 1..total, for a
// polynomial of degree threshold-1 whose constant term is the secret; and (S2) that the verify
// functions report success only on the true edge of the library's verdict.

const (
	c08File    = "tbls/herumi.go"
	c08BLS     = "github.com/herumi/bls-eth-go-binary/bls"
	c08SplitA  = "func (Herumi) ThresholdSplit(secret PrivateKey, total uint, threshold uint) (map[int]PrivateKey, error) {\n\tvar p bls.SecretKey\n\n\tif threshold <= 1 {\n\t\treturn nil, errors.New(\"threshold has to be greater than 1\")\n\t}\n\n\tif err := p.Deserialize(secret[:]); err != nil {\n\t\treturn nil, errors.Wrap(err, \"unmarshal bytes into Herumi secret key\")\n\t}\n\n\t// master key Polynomial\n\tpoly := make([]bls.SecretKey, "
	c08SplitLp = "\t\tpoly[i] = sk\n\t}\n\n\tret := make(map[int]PrivateKey)\n\n\tfor i := "
	c08InsecLp = "\t\tpoly[i] = secret\n\t}\n\n\tret := make(map[int]PrivateKey)\n\n\tfor i := 1; i <= int(total); i++ {\n\t\tvar blsID bls.ID\n\n\t\terr := blsID.SetDecString(strconv.Itoa("
)

func init() {
	Register(&Prop{
		ID: "C08",
		Decides: "tbls (Herumi backend): (S1) in ThresholdSplit/ThresholdSplitInsecure the bls.ID given to SecretKey.Set is SetDecString(strconv.Itoa(i)) of exactly the loop variable, " +
			"the loop runs i = 1, 2, .. total (identifier 0 would be the secret), the share is stored under key i and is the serialisation of the key evaluated with that identifier, " +
			"the polynomial has `threshold` coefficients with the deserialised secret as constant term which the coefficient loop (starting at 1) never overwrites; " +
			"in RecoverSecret/RecoverPubkey/ThresholdAggregate the identifier list and the value list handed to Recover are filled in the same iteration of the range over the input map, " +
			"the identifier being SetDecString(strconv.Itoa(key)) of exactly the map key and the value the checked Deserialize of the map value, and the result is the serialisation of the " +
			"receiver of the checked Recover; the package-level tbls functions forward their parameters unpermuted to the Implementation held in `impl`, which is Herumi and is not replaced by production code. " +
			"(S2) Herumi.Verify / Herumi.VerifyAggregate return nil only on the true edge of Sign.VerifyByte / Sign.FastAggregateVerify applied to the checked deserialisation of exactly their " +
			"signature / public key(s) / message parameters (every public key of the list, none skipped); tbls.Verify/VerifyAggregate return the implementation's verdict; " +
			"eth2util/signing.Verify rejects the all-zero signature before tbls.Verify (that it returns tbls.Verify's verdict for the same pubkey/root/signature is C09-G4).",
		NotDecided: "everything algebraic in the statement: that any t shares recover the same secret / group key / group signature, and that a foreign share, wrong index or different message never verifies " +
			"(field arithmetic inside the herumi C library); that strconv.Itoa/SetDecString are injective renderings (library semantics, trusted).",
		Run: c08,
		Mutants: append([]Mutant{
			{ID: "C08-S1-recover-secret-contiguous-counter", File: "tbls/herumi.go", Expect: "S1",
				Old: "\tfor idx, key := range shares {\n\t\tvar kpk bls.SecretKey\n\t\tif err := kpk.Deserialize(key[:]); err != nil {\n\t\t\treturn PrivateKey{}, errors.Wrap(\n\t\t\t\terr,\n\t\t\t\t\"unmarshal key with into Herumi secret key\",",
				New: "\tfor idx := 1; idx <= len(shares); idx++ {\n\t\tkey := shares[idx]\n\n\t\tvar kpk bls.SecretKey\n\t\tif err := kpk.Deserialize(key[:]); err != nil {\n\t\t\treturn PrivateKey{}, errors.Wrap(\n\t\t\t\terr,\n\t\t\t\t\"unmarshal key with into Herumi secret key\","},
			// ---- S1 split side
			{ID: "C08-S1-split-from-zero", File: c08File, Expect: "S1|ThresholdSplit identifiers start at 1",
				Old: c08SplitLp + "1; i <= int(total); i++ {", New: c08SplitLp + "0; i <= int(total); i++ {"},
			{ID: "C08-S1-split-bound-excludes-last", File: c08File, Expect: "S1|ThresholdSplit identifiers run to total",
				Old: c08SplitLp + "1; i <= int(total); i++ {", New: c08SplitLp + "1; i < int(total); i++ {"},
			{ID: "C08-S1-split-bound-threshold", File: c08File, Expect: "S1|ThresholdSplit identifiers run to total",
				Old: c08SplitLp + "1; i <= int(total); i++ {", New: c08SplitLp + "1; i <= int(threshold); i++ {"},
			{ID: "C08-S1-insecure-id-minus-one", File: c08File, Expect: "S1|ThresholdSplitInsecure share stored under its identifier",
				Old: c08InsecLp + "i))", New: c08InsecLp + "i - 1))"},
			{ID: "C08-S1-split-key-zero-based", File: c08File, Expect: "S1|ThresholdSplit share stored under its identifier",
				Old: "\t\tret[i] = *(*PrivateKey)(sk.Serialize())\n\t}\n\n\treturn ret, nil\n}\n\nfunc (Herumi) RecoverSecret(",
				New: "\t\tret[i-1] = *(*PrivateKey)(sk.Serialize())\n\t}\n\n\treturn ret, nil\n}\n\nfunc (Herumi) RecoverSecret("},
			{ID: "C08-S1-insecure-share-is-master", File: c08File, Expect: "S1|ThresholdSplitInsecure stored share is the evaluated key",
				Old: "\t\tret[i] = *(*PrivateKey)(sk.Serialize())\n\t}\n\n\treturn ret, nil\n}\n\nfunc (Herumi) ThresholdSplit(",
				New: "\t\tret[i] = *(*PrivateKey)(p.Serialize())\n\t}\n\n\treturn ret, nil\n}\n\nfunc (Herumi) ThresholdSplit("},
			{ID: "C08-S1-split-degree-total", File: c08File, Expect: "S1|ThresholdSplit polynomial has threshold coefficients",
				Old: c08SplitA + "threshold)", New: c08SplitA + "total)"},
			{ID: "C08-S1-split-coeff-loop-from-zero", File: c08File, Expect: "S1|ThresholdSplit constant term is the secret",
				Old: "\tfor i := 1; i < int(threshold); i++ {\n\t\tvar sk bls.SecretKey", New: "\tfor i := 0; i < int(threshold); i++ {\n\t\tvar sk bls.SecretKey"},
			{ID: "C08-S1-split-set-error-ignored", File: c08File, Expect: "S1|ThresholdSplitInsecure stored share is the evaluated key",
				Old: "\t\t\treturn nil, errors.Wrap(err, \"set ID on polynomial\", z.Int(\"id_number\", i))\n\t\t}\n\n\t\tret[i] = *(*PrivateKey)(sk.Serialize())\n\t}\n\n\treturn ret, nil\n}\n\nfunc (Herumi) ThresholdSplit(",
				New: "\t\t\tt.Log(errors.Wrap(err, \"set ID on polynomial\", z.Int(\"id_number\", i)))\n\t\t}\n\n\t\tret[i] = *(*PrivateKey)(sk.Serialize())\n\t}\n\n\treturn ret, nil\n}\n\nfunc (Herumi) ThresholdSplit("},
			// ---- S1 recover side
			{ID: "C08-S1-aggregate-idx-plus-one", File: c08File, Expect: "S1|ThresholdAggregate identifier is the map key",
				Old: "\t\tif err := id.SetDecString(strconv.Itoa(idx)); err != nil {\n\t\t\treturn Signature{},",
				New: "\t\tif err := id.SetDecString(strconv.Itoa(idx + 1)); err != nil {\n\t\t\treturn Signature{},"},
			{ID: "C08-S1-recoverpub-id-is-counter", File: c08File, Expect: "S1|RecoverPubkey identifier is the map key",
				Old: "\t\tif err := id.SetDecString(strconv.Itoa(idx)); err != nil {\n\t\t\treturn PublicKey{},",
				New: "\t\tif err := id.SetDecString(strconv.Itoa(len(rawIDs) + 1)); err != nil {\n\t\t\treturn PublicKey{},"},
			{ID: "C08-S1-recoversecret-continue-misaligns", File: c08File, Expect: "S1|RecoverSecret identifier and value appended in the same iteration",
				Old: "\t\t\treturn PrivateKey{}, errors.Wrap(\n\t\t\t\terr,\n\t\t\t\t\"private key isn't a number\",\n\t\t\t\tz.Int(\"key_number\", idx),\n\t\t\t)\n",
				New: "\t\t\tcontinue\n"},
			{ID: "C08-S1-recoversecret-id-error-ignored", File: c08File, Expect: "S1|RecoverSecret identifier is the map key",
				Old: "\t\tif err := id.SetDecString(strconv.Itoa(idx)); err != nil {\n\t\t\treturn PrivateKey{}, errors.Wrap(\n\t\t\t\terr,\n\t\t\t\t\"private key isn't a number\",\n\t\t\t\tz.Int(\"key_number\", idx),\n\t\t\t)\n\t\t}\n",
				New: "\t\t_ = id.SetDecString(strconv.Itoa(idx))\n"},
			{ID: "C08-S1-recoverpub-recover-error-dropped", File: c08File, Expect: "S1|RecoverPubkey result is the recovered value",
				Old: "\tif err := pk.Recover(rawKeys, rawIDs); err != nil {\n\t\treturn PublicKey{}, errors.Wrap(err, \"recover public key from shares\")\n\t}\n",
				New: "\t_ = pk.Recover(rawKeys, rawIDs)\n"},
			{ID: "C08-S1-aggregate-skip-undecodable", File: c08File, Expect: "S1|ThresholdAggregate value is the checked deserialisation",
				Old: "\t\tif err := signature.Deserialize(rawSignature[:]); err != nil {\n\t\t\treturn Signature{}, errors.Wrap(\n\t\t\t\terr,\n\t\t\t\t\"unmarshal signature into Herumi signature\",\n\t\t\t\tz.Int(\"signature_number\", idx),\n\t\t\t)\n\t\t}\n\n\t\trawSigns = append(rawSigns, signature)\n\n\t\tvar id bls.ID",
				New: "\t\t_ = signature.Deserialize(rawSignature[:])\n\n\t\trawSigns = append(rawSigns, signature)\n\n\t\tvar id bls.ID"},
			// ---- S1 wiring
			{ID: "C08-S1-forward-total-threshold-swapped", File: "tbls/tbls.go", Expect: "S1|tbls.ThresholdSplit forwards",
				Old: "return impl.ThresholdSplit(secret, total, threshold)", New: "return impl.ThresholdSplit(secret, threshold, total)"},
			{ID: "C08-S1-forward-insecure-swapped", File: "tbls/tbls.go", Expect: "S1|tbls.ThresholdSplitInsecure forwards",
				Old: "return impl.ThresholdSplitInsecure(t, secret, total, threshold, random)", New: "return impl.ThresholdSplitInsecure(t, secret, threshold, total, random)"},
			{ID: "C08-S1-impl-not-herumi", File: "tbls/tbls.go", Expect: "S1|tbls.impl is Herumi",
				Old: "\timpl     Implementation = Herumi{}\n", New: "\timpl     Implementation\n"},
			// ---- S2
			{ID: "C08-S2-verify-zero-pubkey-accepted", File: c08File, Expect: "S2|Herumi.Verify nil only on the true edge",
				Old: "\tif !signature.VerifyByte(&pubKey, data) {\n\t\treturn ErrSigNotVerified",
				New: "\tif !signature.VerifyByte(&pubKey, data) {\n\t\tif compressedPublicKey == (PublicKey{}) {\n\t\t\treturn nil\n\t\t}\n\n\t\treturn ErrSigNotVerified"},
			{ID: "C08-S2-verify-polarity", File: c08File, Expect: "S2|Herumi.Verify nil only on the true edge",
				Old: "\tif !signature.VerifyByte(&pubKey, data) {", New: "\tif signature.VerifyByte(&pubKey, data) {"},
			{ID: "C08-S2-verify-undecodable-sig-accepted", File: c08File, Expect: "S2|Herumi.Verify nil only on the true edge",
				Old: "\tif err := signature.Deserialize(rawSignature[:]); err != nil {\n\t\treturn errors.Wrap(err, \"unmarshal signature into Herumi signature\")",
				New: "\tif err := signature.Deserialize(rawSignature[:]); err != nil {\n\t\treturn nil"},
			{ID: "C08-S2-verify-pubkey-from-signature-bytes", File: c08File, Expect: "S2|Herumi.Verify public key operand",
				Old: "pubKey.Deserialize(compressedPublicKey[:])", New: "pubKey.Deserialize(rawSignature[:48])"},
			{ID: "C08-S2-aggverify-verdict-dropped", File: c08File, Expect: "S2|Herumi.VerifyAggregate nil only on the true edge",
				Old: "\tif !sig.FastAggregateVerify(rawShares, data) {\n\t\treturn errors.New(\"signature verification failed\")\n\t}\n",
				New: "\t_ = sig.FastAggregateVerify(rawShares, data)\n"},
			{ID: "C08-S2-aggverify-skip-bad-share", File: c08File, Expect: "S2|Herumi.VerifyAggregate public key operand",
				Old: "\t\tif err := pubKey.Deserialize(share[:]); err != nil {\n\t\t\treturn errors.Wrap(err, \"set compressed public key in Herumi format\")\n\t\t}",
				New: "\t\tif err := pubKey.Deserialize(share[:]); err != nil {\n\t\t\tcontinue\n\t\t}"},
			{ID: "C08-S2-aggverify-break-after-first", File: c08File, Expect: "S2|Herumi.VerifyAggregate public key operand",
				Old: "\t\trawShares = append(rawShares, pubKey)\n\t}", New: "\t\trawShares = append(rawShares, pubKey)\n\n\t\tif len(rawShares) == len(data) {\n\t\t\tbreak\n\t\t}\n\t}"},
			{ID: "C08-S2-forward-verify-verdict-dropped", File: "tbls/tbls.go", Expect: "S2|tbls.Verify forwards",
				Old: "\treturn impl.Verify(compressedPublicKey, data, signature)", New: "\t_ = impl.Verify(compressedPublicKey, data, signature)\n\n\treturn nil"},
			{ID: "C08-S2-signing-zero-check-weakened", File: "eth2util/signing/signing.go", Expect: "S2|signing.Verify rejects the zero signature",
				Old: "\tif signature == zeroSig {", New: "\tif signature == zeroSig && epoch == 0 {"},
			{ID: "C08-S2-signing-zero-check-logged", File: "eth2util/signing/signing.go", Expect: "S2|signing.Verify rejects the zero signature",
				Old: "\tif signature == zeroSig {\n\t\treturn errors.New(\"no signature found\")\n\t}",
				New: "\tif signature == zeroSig {\n\t\t_ = errors.New(\"no signature found\")\n\t}"},
			// ---- added with the provenance/path formulation (one per mechanism that was generalised)
			{ID: "C08-S1-split-zero-based-loop", File: c08File, Expect: "S1|ThresholdSplit identifiers start at 1",
				Old: c08SplitLp + "1; i <= int(total); i++ {", New: c08SplitLp + "0; i < int(total); i++ {"},
			{ID: "C08-S1-split-constant-term-redrawn-in-place", File: c08File, Expect: "S1|ThresholdSplit constant term is the secret",
				Old: c08SplitLp + "1; i <= int(total); i++ {", New: "\t\tpoly[i] = sk\n\t}\n\n\tpoly[0].SetByCSPRNG()\n\n\tret := make(map[int]PrivateKey)\n\n\tfor i := 1; i <= int(total); i++ {"},
			{ID: "C08-S1-aggregate-id-error-ignored-for-nonpositive", File: c08File, Expect: "S1|ThresholdAggregate identifier is the map key",
				Old: "\t\tif err := id.SetDecString(strconv.Itoa(idx)); err != nil {\n\t\t\treturn Signature{},",
				New: "\t\tif err := id.SetDecString(strconv.Itoa(idx)); err != nil && idx > 0 {\n\t\t\treturn Signature{},"},
			{ID: "C08-S1-aggregate-value-of-another-key", File: c08File, Expect: "S1|ThresholdAggregate value is the checked deserialisation",
				Old: "\tfor idx, rawSignature := range partialSignaturesByIndex {\n\t\tvar signature bls.Sign\n\t\tif err := signature.Deserialize(rawSignature[:]); err != nil {",
				New: "\tfor idx, rawSignature := range partialSignaturesByIndex {\n\t\tother := partialSignaturesByIndex[idx%len(partialSignaturesByIndex)+1]\n\t\t_ = rawSignature\n\n\t\tvar signature bls.Sign\n\t\tif err := signature.Deserialize(other[:]); err != nil {"},
			{ID: "C08-S2-aggverify-empty-key-list-accepted", File: c08File, Expect: "S2|Herumi.VerifyAggregate nil only on the true edge",
				Old: "\tif !sig.FastAggregateVerify(rawShares, data) {", New: "\tif len(rawShares) == 0 {\n\t\treturn nil\n\t}\n\n\tif !sig.FastAggregateVerify(rawShares, data) {"},
			{ID: "C08-S2-aggverify-single-key-bypass", File: c08File, Expect: "S2|Herumi.VerifyAggregate nil only on the true edge",
				Old: "\tif !sig.FastAggregateVerify(rawShares, data) {", New: "\tverified := sig.FastAggregateVerify(rawShares, data)\n\tverified = verified || len(rawShares) == 1\n\n\tif !verified {"},
			{ID: "C08-S2-forward-verify-error-dropped-for-empty-data", File: "tbls/tbls.go", Expect: "S2|tbls.Verify forwards",
				Old: "\treturn impl.Verify(compressedPublicKey, data, signature)", New: "\tif err := impl.Verify(compressedPublicKey, data, signature); err != nil && len(data) > 0 {\n\t\treturn err\n\t}\n\n\treturn nil"},
			// ---- identifier encoding: every site implements the same injective function of the index
			{ID: "C08-S1-recoverpub-decimal-digits-parsed-as-hex", File: c08File, Expect: "S1|share identifier encoding agrees",
				Old: "\t\tif err := id.SetDecString(strconv.Itoa(idx)); err != nil {\n\t\t\treturn PublicKey{},",
				New: "\t\tif err := id.SetHexString(strconv.Itoa(idx)); err != nil {\n\t\t\treturn PublicKey{},"},
			{ID: "C08-S1-insecure-decimal-digits-parsed-as-hex", File: c08File, Expect: "S1|share identifier encoding agrees",
				Old: c08InsecLp + "i))", New: strings.Replace(c08InsecLp, "SetDecString", "SetHexString", 1) + "i))"},
			{ID: "C08-S1-recoversecret-id-from-low-byte", File: c08File, Expect: "S1|RecoverSecret identifier is the map key",
				Old: "\t\tif err := id.SetDecString(strconv.Itoa(idx)); err != nil {\n\t\t\treturn PrivateKey{},",
				New: "\t\tif err := id.SetLittleEndian([]byte{byte(idx)}); err != nil {\n\t\t\treturn PrivateKey{},"},
			{ID: "C08-S1-aggregate-id-narrowed-before-decimal", File: c08File, Expect: "S1|ThresholdAggregate identifier is the map key",
				Old: "\t\tif err := id.SetDecString(strconv.Itoa(idx)); err != nil {\n\t\t\treturn Signature{},",
				New: "\t\tif err := id.SetDecString(strconv.Itoa(int(uint8(idx)))); err != nil {\n\t\t\treturn Signature{},"},
			{ID: "C08-S1-split-id-from-low-two-bytes", File: c08File, Expect: "S1|ThresholdSplit identifier is the loop variable",
				Old: "\t\tpoly[i] = sk\n\t}\n\n\tret := make(map[int]PrivateKey)\n\n\tfor i := 1; i <= int(total); i++ {\n\t\tvar blsID bls.ID\n\n\t\terr := blsID.SetDecString(strconv.Itoa(i))",
				New: "\t\tpoly[i] = sk\n\t}\n\n\tret := make(map[int]PrivateKey)\n\n\tfor i := 1; i <= int(total); i++ {\n\t\tvar blsID bls.ID\n\n\t\terr := blsID.SetLittleEndian([]byte{byte(i), byte(i >> 8)})"},
			// ---- every input share is used: the keys visited are the keys of the map
			{ID: "C08-S1-recoverpub-lowest-ids-skip-missing", File: c08File, Expect: "S1|RecoverPubkey every input share is used",
				Old: "\tfor idx, key := range shares {\n\t\tvar kpk bls.PublicKey\n",
				New: "\tfor idx := 1; idx <= len(shares); idx++ {\n\t\tkey, ok := shares[idx]\n\t\tif !ok {\n\t\t\tcontinue\n\t\t}\n\n\t\tvar kpk bls.PublicKey\n"},
			{ID: "C08-S1-aggregate-counts-down-from-len", File: c08File, Expect: "S1|ThresholdAggregate every input share is used",
				Old: "\tfor idx, rawSignature := range partialSignaturesByIndex {\n\t\tvar signature bls.Sign\n",
				New: "\tfor idx := len(partialSignaturesByIndex); idx >= 1; idx-- {\n\t\trawSignature, ok := partialSignaturesByIndex[idx]\n\t\tif !ok {\n\t\t\tcontinue\n\t\t}\n\n\t\tvar signature bls.Sign\n"},
			// ---- S3: the library is initialised before every entry point that calls into it
			{ID: "C08-S3-init-call-dropped", File: c08File, Expect: "S3|library initialised before",
				Old: "\t\tif err := bls.Init(bls.BLS12_381); err != nil {\n\t\t\tpanic(errors.Wrap(err, \"initialize Herumi BLS\"))\n\t\t}\n\n", New: ""},
			{ID: "C08-S3-init-func-never-run", File: c08File, Expect: "S3|library initialised before",
				Old: "func init() {\n\tinitOnce.Do(func() {", New: "func initHerumi() {\n\tinitOnce.Do(func() {"},
			{ID: "C08-S3-lazy-init-missing-in-sign", File: c08File, Expect: "S3|library initialised before tbls.Herumi.Sign",
				Old: "func init() {\n\tinitOnce.Do(func() {", New: "func (Herumi) ready() {\n\tinitOnce.Do(func() {",
				More: c08LazyInitExcept("Sign")},
			// ---- the key verified is the key given: a cache of decompressed keys serves the entry of its own key
			{ID: "C08-S2-verify-cache-never-evicts-index", File: c08File, Expect: "S2|Herumi.Verify public key operand",
				Old: c08HerumiDecl, New: c08HerumiDecl + strings.Replace(c08CacheText, "\tdelete(c.index, c.raws[c.next])\n", "", 1),
				More: [][2]string{{c08VerifyDeser, c08VerifyCached}}},
			{ID: "C08-S2-verify-cache-owner-read-after-overwrite", File: c08File, Expect: "S2|Herumi.Verify public key operand",
				Old: c08HerumiDecl, New: c08HerumiDecl + strings.Replace(c08CacheText,
					"\tdelete(c.index, c.raws[c.next])\n\tc.raws[c.next] = compressed\n", "\tslot := c.next\n\tc.raws[slot] = compressed\n\tevicted := c.raws[slot]\n\tdelete(c.index, evicted)\n", 1),
				More: [][2]string{{c08VerifyDeser, c08VerifyCached}}},
			{ID: "C08-S2-aggverify-memo-keyed-by-prefix", File: c08File, Expect: "S2|Herumi.VerifyAggregate public key operand",
				Old: c08HerumiDecl, New: c08HerumiDecl + c08PrefixMemoText,
				More: [][2]string{{c08AggDeser, "\t\tpubKey, err := decompress(share)\n\t\tif err != nil {\n\t\t\treturn err\n\t\t}\n"}}},
		}, c08n4Mutants()...),
	})
}

// c08LazyInitExcept: every method of Herumi except `skip` starts with h.ready() (mutant text).
func c08LazyInitExcept(skip string) [][2]string {
	var out [][2]string
	for _, m := range []string{
		"GenerateInsecureKey(t *testing.T, random io.Reader) (PrivateKey, error) {\n",
		"GenerateSecretKey() (PrivateKey, error) {\n",
		"SecretToPublicKey(secret PrivateKey) (PublicKey, error) {\n",
		"ThresholdSplitInsecure(t *testing.T, secret PrivateKey, total uint, threshold uint, random io.Reader) (map[int]PrivateKey, error) {\n",
		"ThresholdSplit(secret PrivateKey, total uint, threshold uint) (map[int]PrivateKey, error) {\n",
		"RecoverSecret(shares map[int]PrivateKey, _, _ uint) (PrivateKey, error) {\n",
		"RecoverPubkey(shares map[int]PublicKey) (PublicKey, error) {\n",
		"Aggregate(signs []Signature) (Signature, error) {\n",
		"ThresholdAggregate(partialSignaturesByIndex map[int]Signature) (Signature, error) {\n",
		"Verify(compressedPublicKey PublicKey, data []byte, rawSignature Signature) error {\n",
		"Sign(privateKey PrivateKey, data []byte) (Signature, error) {\n",
		"VerifyAggregate(publicShares []PublicKey, signature Signature, data []byte) error {\n",
	} {
		if strings.HasPrefix(m, skip+"(") {
			continue
		}
		out = append(out, [2]string{"func (Herumi) " + m, "func (h Herumi) " + m + "\th.ready()\n\n"})
	}
	return out
}

func c08(c *rt.Ctx) {
	c.Rule("S1", 40, func() {
		var encs []c08EncSite
		for _, name := range []string{"ThresholdSplit", "ThresholdSplitInsecure"} {
			c08Split(c, name, &encs)
		}
		c08Recover(c, "RecoverSecret", "SecretKey", &encs)
		c08Recover(c, "RecoverPubkey", "PublicKey", &encs)
		c08Recover(c, "ThresholdAggregate", "Sign", &encs)
		c08EncAgree(c, encs)
		for _, name := range []string{"ThresholdSplit", "ThresholdSplitInsecure", "RecoverSecret", "RecoverPubkey", "ThresholdAggregate"} {
			c08Forward(c, name)
		}
		c08Impl(c)
	})
	c.Rule("S2", 13, func() {
		c08VerifyGate(c, "Verify", "VerifyByte")
		c08VerifyGate(c, "VerifyAggregate", "FastAggregateVerify")
		c08Forward(c, "Verify")
		c08Forward(c, "VerifyAggregate")
		c08ZeroSig(c)
	})
	c.Rule("S3", 10, func() {
		c08LibInit(c)
	})
}

// ---------------------------------------------------------------------------------------------
// Formulation (refactor-robust): every obligation is a statement about *where a value comes from*
// (backward provenance from the results the functions hand out), decided on paths, not on the
// shape of the code:
//
//   - a herumi value (bls.ID, bls.SecretKey, ...) is resolved to the library call that gives it its
//     value (c08Origin): through plain locals, whole-value assignments, results of in-package
//     helpers, helpers that fill a pointer argument and parameters of such helpers (frames map a
//     helper's parameters back to the arguments of the call);
//   - "the error is checked" means: under the valuation error != nil no path leads from the call to
//     the use (valuation-driven path search, decides named booleans / short-circuit phis /
//     switch / inverted polarity alike); an error that a helper hands back unchanged is checked
//     by the caller of the helper;
//   - integers are compared as `base + constant` forms after conversions and parameter lifting, so
//     that `for i := 0; i < n; i++ { id := i+1 }` and `for i := 1; i <= n; i++ { id := i }` are
//     the same statement; loops are natural loops with a header counter (up or down), map ranges
//     or slice ranges (range or index form);
//   - lists are either accumulated with append over the loop or filled at the loop's position.
//
// Anything that does not fit is UNDECIDED; a violation is only reported for a definite defect.

func c08BLSName(typ, method string) string { return c08BLS + "." + typ + "." + method }

// c08BLSMethod reports the method name if call is a static call of a method of a herumi bls type.
func c08BLSMethod(cc *ssa.CallCommon) (typ, method string, ok bool) {
	f := cc.StaticCallee()
	if f == nil || cc.IsInvoke() {
		return "", "", false
	}
	n := an.FuncName(f)
	if !strings.HasPrefix(n, c08BLS+".") {
		return "", "", false
	}
	parts := strings.Split(strings.TrimPrefix(n, c08BLS+"."), ".")
	if len(parts) != 2 {
		return "", "", false
	}
	return parts[0], parts[1], true
}

// methods of the herumi value types that overwrite / only read their receiver. Anything else
// touching a tracked local makes the obligation undecided (never a violation).
var c08Writers = map[string]bool{"Deserialize": true, "SetDecString": true, "SetHexString": true, "SetLittleEndian": true,
	"Set": true, "Recover": true, "SetByCSPRNG": true, "DeserializeHexStr": true, "Aggregate": true, "Add": true, "Sub": true,
	"Neg": true, "DeserializeUncompressed": true, "SetLittleEndianMod": true}
var c08Readers = map[string]bool{"Serialize": true, "SerializeToHexStr": true, "GetDecString": true, "GetHexString": true,
	"GetLittleEndian": true, "IsEqual": true, "IsZero": true, "VerifyByte": true, "FastAggregateVerify": true, "Verify": true,
	"SignByte": true, "GetPublicKey": true, "GetSafePublicKey": true, "SerializeUncompressed": true}

// ---------------------------------------------------------------------------------------------
// frames: a value inside an in-package helper is related to the anchor function through the call

type c08Frame struct {
	call *ssa.Call
	up   *c08Frame
}

func c08FrameEq(a, b *c08Frame) bool {
	for a != nil && b != nil {
		if a.call != b.call {
			return false
		}
		a, b = a.up, b.up
	}
	return a == nil && b == nil
}

// c08Val is a value together with the frame it lives in (nil frame: the anchor function).
type c08Val struct {
	V ssa.Value
	F *c08Frame
}

func c08Same(a, b c08Val) bool { return a.V == b.V && c08FrameEq(a.F, b.F) }

func c08ParamIndex(p *ssa.Parameter) int {
	for i, q := range p.Parent().Params {
		if q == p {
			return i
		}
	}
	return -1
}

// c08InPkgCallee: the static callee of a plain call if it is a source function of the same package.
func c08InPkgCallee(call *ssa.Call) *ssa.Function {
	if call == nil || call.Call.IsInvoke() {
		return nil
	}
	g := call.Call.StaticCallee()
	if g == nil || g.Blocks == nil || g.Pkg == nil || g.Pkg != call.Parent().Pkg {
		return nil
	}
	return g
}

// c08Lift strips conversions and single-assignment spills and maps parameters of helpers to the
// arguments of the calls that opened the frames, as far as possible towards the anchor function.
func c08Lift(v ssa.Value, f *c08Frame) c08Val {
	for i := 0; i < 16; i++ {
		v = c08Resolve(v)
		p, ok := v.(*ssa.Parameter)
		if !ok || f == nil {
			break
		}
		if p.Parent() != f.call.Call.StaticCallee() {
			break
		}
		idx := c08ParamIndex(p)
		if idx < 0 || idx >= len(f.call.Call.Args) {
			break
		}
		v, f = f.call.Call.Args[idx], f.up
	}
	return c08Val{v, f}
}

// c08MethodIn: m is one of the `|`-separated method names of spec.
func c08MethodIn(spec, m string) bool {
	for _, x := range strings.Split(spec, "|") {
		if x == m {
			return true
		}
	}
	return false
}

var c08Sizes = types.SizesFor("gc", "amd64")

// c08Narrowing: conv turns an integer into an integer type with fewer bits (the only kind of conversion that
// is not injective on the values an index can take); bits is the width that survives.
func c08Narrowing(conv *ssa.Convert) (bits int64, ok bool) {
	from, ok1 := conv.X.Type().Underlying().(*types.Basic)
	to, ok2 := conv.Type().Underlying().(*types.Basic)
	if !ok1 || !ok2 || from.Info()&types.IsInteger == 0 || to.Info()&types.IsInteger == 0 {
		return 0, false
	}
	fs, ts := c08Sizes.Sizeof(from), c08Sizes.Sizeof(to)
	return ts * 8, ts < fs
}

// c08Resolve is an.Resolve (conversions, boxing, single-edge phis, loads of single-assignment locals) that does
// not look through a narrowing integer conversion: `byte(idx)` is not idx.
func c08Resolve(v ssa.Value) ssa.Value {
	for i := 0; i < 48; i++ {
		switch x := v.(type) {
		case *ssa.ChangeType:
			v = x.X
		case *ssa.MakeInterface:
			v = x.X
		case *ssa.ChangeInterface:
			v = x.X
		case *ssa.Convert:
			if _, narrow := c08Narrowing(x); narrow {
				return v
			}
			v = x.X
		case *ssa.Phi:
			if len(x.Edges) != 1 {
				return v
			}
			v = x.Edges[0]
		case *ssa.UnOp:
			al, ok := x.X.(*ssa.Alloc)
			if x.Op != token.MUL || !ok {
				return v
			}
			src := an.UniqueStore(al)
			if src == nil {
				return v
			}
			v = src
		default:
			return v
		}
	}
	return v
}

// c08Lin is `Base + K` (Base.V == nil: the constant K).
type c08Lin struct {
	Base c08Val
	K    int64
}

func (l c08Lin) isConst() bool { return l.Base.V == nil }

func c08LinEq(a, b c08Lin) bool {
	if a.isConst() || b.isConst() {
		return a.isConst() && b.isConst() && a.K == b.K
	}
	return a.K == b.K && c08Same(a.Base, b.Base)
}

// c08LinOf decomposes an integer expression into base + constant.
func c08LinOf(v ssa.Value, f *c08Frame) c08Lin {
	var k int64
	for i := 0; i < 12; i++ {
		lv := c08Lift(v, f)
		v, f = lv.V, lv.F
		if c, ok := an.ConstInt(v); ok {
			return c08Lin{K: k + c}
		}
		bin, ok := v.(*ssa.BinOp)
		if !ok || (bin.Op != token.ADD && bin.Op != token.SUB) {
			break
		}
		if c, ok := an.ConstInt(bin.Y); ok {
			if bin.Op == token.ADD {
				k += c
			} else {
				k -= c
			}
			v = bin.X
			continue
		}
		if c, ok := an.ConstInt(bin.X); ok && bin.Op == token.ADD {
			k += c
			v = bin.Y
			continue
		}
		break
	}
	return c08Lin{Base: c08Val{v, f}, K: k}
}

// ---------------------------------------------------------------------------------------------
// locals of herumi value types

type c08HelperUse struct {
	Call *ssa.Call
	Arg  int
}

// c08Local describes how the memory behind a pointer (a local, or a pointer parameter) is written.
type c08Local struct {
	Writers []*ssa.Call       // herumi methods overwriting it (receiver position)
	Stores  []*ssa.Store      // whole-value assignments
	Helpers []c08HelperUse    // in-package helpers that write it through a pointer parameter
	Unknown []ssa.Instruction // uses that cannot be classified
}

func (l c08Local) defs() int { return len(l.Writers) + len(l.Stores) + len(l.Helpers) }

func c08LocalOf(ptr ssa.Value, depth int) c08Local {
	var l c08Local
	refs := ptr.Referrers()
	if refs == nil {
		return l
	}
	for _, ref := range *refs {
		switch x := ref.(type) {
		case *ssa.DebugRef:
		case *ssa.UnOp:
			if x.Op != token.MUL {
				l.Unknown = append(l.Unknown, x)
			}
		case *ssa.Store:
			if x.Addr == ptr && x.Val != ptr {
				l.Stores = append(l.Stores, x)
			} else {
				l.Unknown = append(l.Unknown, x) // address escapes
			}
		case *ssa.Call:
			if _, m, ok := c08BLSMethod(&x.Call); ok && len(x.Call.Args) > 0 {
				if x.Call.Args[0] == ptr {
					switch {
					case c08Writers[m]:
						l.Writers = append(l.Writers, x)
					case c08Readers[m]:
					default:
						l.Unknown = append(l.Unknown, x)
					}
				}
				// operand position of another herumi value's method (Set(poly, &id), VerifyByte(&pub, msg)): read
				continue
			}
			g := c08InPkgCallee(x)
			if g == nil || depth > 3 {
				l.Unknown = append(l.Unknown, x)
				continue
			}
			for i, a := range x.Call.Args {
				if a != ptr || i >= len(g.Params) {
					continue
				}
				sub := c08LocalOf(g.Params[i], depth+1)
				switch {
				case len(sub.Unknown) > 0:
					l.Unknown = append(l.Unknown, x)
				case sub.defs() > 0:
					l.Helpers = append(l.Helpers, c08HelperUse{x, i})
				}
			}
		default:
			l.Unknown = append(l.Unknown, ref)
		}
	}
	return l
}

func c08Alloc(v ssa.Value) *ssa.Alloc {
	al, _ := v.(*ssa.Alloc)
	return al
}

// c08LoadOf: v is a load *al of a local.
func c08LoadOf(v ssa.Value) *ssa.Alloc {
	if ld, ok := v.(*ssa.UnOp); ok && ld.Op == token.MUL {
		return c08Alloc(ld.X)
	}
	return nil
}

// c08PtrOf: the memory a herumi operand designates: &local, a pointer parameter, or a load of one of them.
func c08PtrOf(v ssa.Value) ssa.Value {
	switch x := v.(type) {
	case *ssa.Alloc:
		return x
	case *ssa.Parameter:
		if _, ok := x.Type().Underlying().(*types.Pointer); ok {
			return x
		}
	case *ssa.UnOp:
		if x.Op == token.MUL {
			switch y := x.X.(type) {
			case *ssa.Alloc:
				return y
			case *ssa.Parameter:
				return y
			}
		}
	}
	return nil
}

// ---------------------------------------------------------------------------------------------
// checked errors (path-sensitive)

// c08ErrAliases: the SSA values that equal error value e: e itself and loads of a variable that e was
// assigned to, as long as no other assignment to the variable can come in between.
func c08ErrAliases(e ssa.Value) (set map[ssa.Value]bool, spilled bool) {
	set = map[ssa.Value]bool{e: true}
	refs := e.Referrers()
	if refs == nil {
		return set, false
	}
	for _, r := range *refs {
		st, ok := r.(*ssa.Store)
		if !ok || st.Val != e {
			continue
		}
		al, ok := st.Addr.(*ssa.Alloc)
		if !ok {
			spilled = true
			continue
		}
		spilled = true
		var others []*ssa.Store
		var loads []*ssa.UnOp
		for _, ar := range *al.Referrers() {
			switch y := ar.(type) {
			case *ssa.Store:
				if y != st && y.Addr == ssa.Value(al) {
					others = append(others, y)
				}
			case *ssa.UnOp:
				if y.Op == token.MUL {
					loads = append(loads, y)
				}
			}
		}
		for _, ld := range loads {
			if !an.Dominates(st, ld) {
				continue
			}
			clean := true
			for _, o := range others {
				if an.InstrReaches(st, o) && an.InstrReaches(o, ld) {
					clean = false
				}
			}
			if clean {
				set[ld] = true
			}
		}
	}
	return set, spilled
}

func c08HasErr(call ssa.CallInstruction) bool {
	res := call.Common().Signature().Results()
	for i := 0; i < res.Len(); i++ {
		if an.IsErrorType(res.At(i).Type()) {
			return true
		}
	}
	return false
}

// c08Checked: no path leads from call w to use when w's error is non-nil. status "ok" / "no" (a path exists) /
// "unsure" (a path exists but the error travels through a variable this rule cannot follow exactly).
func c08Checked(w ssa.CallInstruction, use ssa.Instruction) (status, why string) {
	if !c08HasErr(w) {
		return "ok", ""
	}
	errs, _ := an.StatusOf(w, -1)
	if len(errs) == 0 {
		return "no", "the error result is discarded"
	}
	for _, e := range errs {
		alias, spilled := c08ErrAliases(e)
		env := func(v ssa.Value) (constant.Value, bool) {
			if alias[v] {
				return an.H06NonNil, true
			}
			return nil, false
		}
		// a test helper that aborts on the error (require.NoError(t, err)) ends the path like a return does
		aborts := func(in ssa.Instruction) bool {
			call, ok := in.(*ssa.Call)
			if !ok || !an.Static("github.com/stretchr/testify/require.NoError", "github.com/stretchr/testify/require.Nil")(&call.Call) {
				return false
			}
			for _, a := range call.Call.Args {
				if alias[an.Unwrap(a)] || alias[a] {
					return true
				}
			}
			return false
		}
		if _, found := an.H06Escape(w, an.H06Opt{Env: env, Target: use, NoReenter: true, Effect: aborts}); found {
			if spilled {
				return "unsure", "the error is kept in a variable whose tests this rule cannot follow"
			}
			return "no", "the use is reached on a path on which the error is non-nil"
		}
	}
	return "ok", ""
}

// c08IsErrOf: e is the error result of call w.
func c08IsErrOf(e ssa.Value, w ssa.CallInstruction) bool {
	if e == nil || w == nil {
		return false
	}
	errs, _ := an.StatusOf(w, -1)
	for _, x := range errs {
		if x == e {
			return true
		}
	}
	return false
}

func c08ErrResult(g *ssa.Function) int {
	res := g.Signature.Results()
	for i := res.Len() - 1; i >= 0; i-- {
		if an.IsErrorType(res.At(i).Type()) {
			return i
		}
	}
	return -1
}

// ---------------------------------------------------------------------------------------------
// provenance of herumi values

// c08Prov: the library call that gives a value its content, in its frame.
type c08Prov struct {
	W *ssa.Call
	F *c08Frame
}

// c08Res is the outcome of a provenance query. Pend (only with St "ok") is a call whose error must be nil
// for the value to be valid and that is not checked before the use inside the frame of the query: a helper
// may hand that obligation to its caller by returning the error.
type c08Res struct {
	P    c08Prov
	Pend ssa.CallInstruction
	St   string // ok | bad | unsure
	Why  string
	Memo []c08MemoHit // successful returns of a helper that serve the value from a memo table instead of producing it
}

// c08MemoHit: helper G hands back Val, read from package state, on return Ret (frame F is the call of G).
type c08MemoHit struct {
	G   *ssa.Function
	Ret *ssa.Return
	Val ssa.Value
	F   *c08Frame
}

func c08Bad(why string) c08Res    { return c08Res{St: "bad", Why: why} }
func c08Unsure(why string) c08Res { return c08Res{St: "unsure", Why: why} }

// c08Origin resolves herumi value v, as observed by instruction use in frame f, to the call of `method` that
// produced it.
func c08Origin(v ssa.Value, use ssa.Instruction, f *c08Frame, method string, d int) c08Res {
	if d > 8 {
		return c08Unsure("value provenance is too deep to follow")
	}
	if ptr := c08PtrOf(v); ptr != nil {
		l := c08LocalOf(ptr, 0)
		if len(l.Unknown) > 0 {
			return c08Unsure("the local is also used in a way this rule does not model")
		}
		if l.defs() == 0 {
			if p, ok := ptr.(*ssa.Parameter); ok && f != nil && p.Parent() == f.call.Call.StaticCallee() {
				if idx := c08ParamIndex(p); idx >= 0 && idx < len(f.call.Call.Args) {
					return c08Origin(f.call.Call.Args[idx], f.call, f.up, method, d+1)
				}
			}
			if _, ok := ptr.(*ssa.Parameter); ok {
				return c08Unsure("the value is a parameter")
			}
			return c08Bad("the value is used without ever being set (zero value)")
		}
		if l.defs() > 1 {
			return c08Unsure("the local is written more than once")
		}
		switch {
		case len(l.Writers) == 1:
			w := l.Writers[0]
			_, m, _ := c08BLSMethod(&w.Call)
			if !c08MethodIn(method, m) {
				// only Set (evaluation) and Recover (interpolation) have no equivalent spelling; an identifier or a
				// deserialised value may be produced by another setter to the same effect
				if method == "Set" || method == "Recover" {
					return c08Bad("the value is produced by " + m + ", not by " + method)
				}
				return c08Unsure("the value is produced by " + m + ", expected " + method)
			}
			if !an.Dominates(w, use) {
				return c08Bad(method + " does not precede the use on every path")
			}
			res := c08Res{P: c08Prov{w, f}, St: "ok"}
			switch st, why := c08Checked(w, use); st {
			case "no":
				res.Pend = w
				res.Why = why
			case "unsure":
				return c08Unsure("error of " + method + ": " + why)
			}
			return res
		case len(l.Stores) == 1:
			st := l.Stores[0]
			if !an.Dominates(st, use) {
				return c08Bad("the value is not assigned on every path to its use")
			}
			return c08Origin(st.Val, use, f, method, d+1)
		default:
			h := l.Helpers[0]
			if !an.Dominates(h.Call, use) {
				return c08Bad("the value is not set on every path to its use")
			}
			return c08ViaHelper(h.Call, -1, h.Arg, use, f, method, d)
		}
	}
	switch x := v.(type) {
	case *ssa.Parameter:
		if f != nil && x.Parent() == f.call.Call.StaticCallee() {
			if idx := c08ParamIndex(x); idx >= 0 && idx < len(f.call.Call.Args) {
				return c08Origin(f.call.Call.Args[idx], f.call, f.up, method, d+1)
			}
		}
		return c08Unsure("the value is a parameter")
	case *ssa.Extract:
		if call, ok := x.Tuple.(*ssa.Call); ok {
			return c08ViaHelper(call, x.Index, -1, use, f, method, d)
		}
	case *ssa.Call:
		return c08ViaHelper(x, 0, -1, use, f, method, d)
	}
	return c08Unsure("the value is not a local variable, nor the result of an in-package helper")
}

// c08ViaHelper follows a value into an in-package helper: result #resIdx of the call, or (resIdx < 0) the memory
// behind pointer argument #argIdx. Every return of the helper that can carry a nil error must yield the value of
// the same producing call; an unchecked error of the producer must be the error the helper returns, and is then
// the caller's to check.
func c08ViaHelper(call *ssa.Call, resIdx, argIdx int, use ssa.Instruction, f *c08Frame, method string, d int) c08Res {
	g := c08InPkgCallee(call)
	if g == nil {
		return c08Unsure("the value is produced by " + an.CalleeName(&call.Call) + ", which this rule does not follow")
	}
	if g == call.Parent() {
		return c08Unsure("recursive helper")
	}
	nf := &c08Frame{call, f}
	errIdx := c08ErrResult(g)
	var got *c08Prov
	var hits []c08MemoHit
	name := an.FuncName(g)
	for _, r := range c08Returns(g) {
		if errIdx >= 0 {
			e := r.Vals[errIdx]
			if e != nil && (c08NonNilErr(e) || c09NonNilEdge(g, e, r.Sink[errIdx])) {
				continue // failing return: the value handed back with it carries no obligation
			}
		}
		var rv ssa.Value
		if resIdx >= 0 {
			if resIdx >= len(r.Vals) || r.Vals[resIdx] == nil {
				return c08Unsure("a result of " + name + " cannot be resolved")
			}
			rv = r.Vals[resIdx]
			if _, isTable := c08TableRead(rv); isTable {
				hits = append(hits, c08MemoHit{g, r.Ret, rv, nf})
				continue
			}
		} else {
			rv = g.Params[argIdx]
		}
		sub := c08Origin(rv, r.Ret, nf, method, d+1)
		hits = append(hits, sub.Memo...)
		if sub.St != "ok" {
			sub.Why = "in " + name + ": " + sub.Why
			return sub
		}
		if sub.Pend != nil {
			if errIdx < 0 || !c08IsErrOf(r.Vals[errIdx], sub.Pend) {
				return c08Bad("in " + name + ": the error of " + an.CalleeName(sub.Pend.Common()) + " is neither checked nor handed back to the caller: " + sub.Why)
			}
		}
		if got != nil && got.W != sub.P.W {
			return c08Unsure(name + " hands back values of several producers")
		}
		p := sub.P
		got = &p
	}
	if got == nil && len(hits) > 0 {
		return c08Unsure(name + " only hands back values kept in package state")
	}
	if got == nil {
		return c08Unsure("no successful return found in " + name)
	}
	res := c08Res{P: *got, St: "ok", Memo: hits}
	if errIdx >= 0 {
		switch st, why := c08Checked(call, use); st {
		case "no":
			res.Pend, res.Why = call, why
		case "unsure":
			return c08Unsure("error of " + name + ": " + why)
		}
	}
	return res
}

// c08Top is c08Origin for a use in the anchor function itself: a pending error is a defect.
func c08Top(v ssa.Value, use ssa.Instruction, f *c08Frame, method string) c08Res {
	res := c08TopM(v, use, f, method)
	if res.St == "ok" && len(res.Memo) > 0 {
		return c08Unsure("the value can come from a memo table in " + an.FuncName(res.Memo[0].G) + ", which is only followed for the keys of the verify functions")
	}
	return res
}

// c08TopM is c08Top for callers that discharge the memo hits (res.Memo) themselves with c08MemoSound.
func c08TopM(v ssa.Value, use ssa.Instruction, f *c08Frame, method string) c08Res {
	res := c08Origin(v, use, f, method, 0)
	if res.St == "ok" && res.Pend != nil {
		if f != nil {
			// inside a helper frame the caller would have to check; the callers of c08Top only query complete frames
			return c08Unsure("the error of " + an.CalleeName(res.Pend.Common()) + " is not checked inside the helper")
		}
		return c08Bad("the error of " + an.CalleeName(res.Pend.Common()) + " is not checked before the value is used: " + res.Why)
	}
	return res
}

// c08BytesSrc resolves the []byte operand `x[:]` of a Deserialize call to the value stored in the
// sliced array variable (lifted); full reports whether the whole array is passed.
func c08BytesSrc(v ssa.Value, f *c08Frame) (src c08Val, full, ok bool) {
	sl, isSl := v.(*ssa.Slice)
	if !isSl {
		return c08Val{}, false, false
	}
	full = sl.Low == nil && sl.High == nil && sl.Max == nil
	switch x := sl.X.(type) {
	case *ssa.Alloc:
		s := an.UniqueStore(x)
		if s == nil {
			return c08Val{}, false, false
		}
		return c08Lift(s, f), full, true
	case *ssa.IndexAddr:
		// &coll[i] sliced in place: the element itself
		return c08Val{x, f}, full, true
	}
	return c08Val{}, false, false
}

// c08SerializedRecv: v is `*(*T)(x.Serialize())` / `T(x.Serialize())`; returns the operand x.
func c08SerializedRecv(v ssa.Value) ssa.Value {
	v = an.Resolve(v)
	ld, ok := v.(*ssa.UnOp)
	if !ok || ld.Op != token.MUL {
		return nil
	}
	sp, ok := ld.X.(*ssa.SliceToArrayPointer)
	if !ok {
		return nil
	}
	call, ok := an.Resolve(sp.X).(*ssa.Call)
	if !ok {
		return nil
	}
	if _, m, ok := c08BLSMethod(&call.Call); !ok || m != "Serialize" || len(call.Call.Args) != 1 {
		return nil
	}
	return call.Call.Args[0]
}

// c08Serialized resolves value v, used at `use` in frame f, to the herumi value whose serialisation it is
// (`*(*T)(x.Serialize())`), following the results of in-package helpers whose error the caller checks.
func c08Serialized(v ssa.Value, use ssa.Instruction, f *c08Frame, d int) (recv ssa.Value, at ssa.Instruction, rf *c08Frame, st, why string) {
	if r := c08SerializedRecv(v); r != nil {
		return r, use, f, "ok", ""
	}
	var call *ssa.Call
	idx := 0
	switch x := an.Resolve(v).(type) {
	case *ssa.Extract:
		call, _ = x.Tuple.(*ssa.Call)
		idx = x.Index
	case *ssa.Call:
		call = x
	}
	g := c08InPkgCallee(call)
	if g == nil || d > 3 || g == use.Parent() {
		return nil, nil, nil, "unsure", "the value is not the serialisation of a herumi value"
	}
	name := an.FuncName(g)
	switch st, why := c08Checked(call, use); st {
	case "no":
		return nil, nil, nil, "bad", "the error of " + name + " is not checked before its result is used: " + why
	case "unsure":
		return nil, nil, nil, "unsure", "error of " + name + ": " + why
	}
	rets := c08NilErrReturns(g)
	if c08ErrResult(g) < 0 {
		rets = c08Returns(g)
	}
	if len(rets) != 1 || idx >= len(rets[0].Vals) || rets[0].Vals[idx] == nil {
		return nil, nil, nil, "unsure", name + " has several successful returns"
	}
	sink := rets[0].Sink[idx]
	if sink == nil {
		sink = rets[0].Ret
	}
	return c08Serialized(rets[0].Vals[idx], sink, &c08Frame{call, f}, d+1)
}

// c08Mentions: v is an expression (arithmetic, conversions) over want.
func c08Mentions(v ssa.Value, f *c08Frame, want c08Val, d int) bool {
	lv := c08Lift(v, f)
	if c08Same(lv, want) {
		return true
	}
	if d > 6 {
		return false
	}
	switch x := lv.V.(type) {
	case *ssa.BinOp:
		return c08Mentions(x.X, lv.F, want, d+1) || c08Mentions(x.Y, lv.F, want, d+1)
	case *ssa.UnOp:
		return x.Op != token.MUL && c08Mentions(x.X, lv.F, want, d+1)
	case *ssa.Convert:
		return c08Mentions(x.X, lv.F, want, d+1)
	}
	return false
}

// c08IsLenCall: v is len(..).
func c08IsLenCall(v ssa.Value) bool {
	call, ok := an.Unwrap(v).(*ssa.Call)
	if !ok {
		return false
	}
	b, ok := call.Call.Value.(*ssa.Builtin)
	return ok && (b.Name() == "len" || b.Name() == "cap")
}

// c08DefinitelyNot: x is visibly something other than the share index `want` (constant, arithmetic, a position
// counter, the other half of the range pair, a parameter that is the same for every share).
func c08DefinitelyNot(x c08Lin, want c08Val) (bool, string) {
	if x.isConst() {
		return true, fmt.Sprintf("the identifier is the constant %d", x.K)
	}
	if want.V != nil && c08Same(x.Base, want) && x.K != 0 {
		return true, fmt.Sprintf("arithmetic is applied to the index before it becomes the identifier (index%+d)", x.K)
	}
	switch y := x.Base.V.(type) {
	case *ssa.Convert:
		if bits, narrow := c08Narrowing(y); narrow && (want.V == nil || c08Mentions(y.X, x.Base.F, want, 0)) {
			return true, fmt.Sprintf("the index is truncated to %d bits before it becomes the identifier: indices that differ by a multiple of 2^%d get the same identifier, so a share filed under a wrong index is combined as if it were the right one", bits, bits)
		}
	case *ssa.BinOp:
		if want.V != nil && c08Mentions(y, x.Base.F, want, 0) {
			return true, "arithmetic is applied to the index before it becomes the identifier (" + y.Op.String() + ")"
		}
		if c08IsLenCall(y.X) || c08IsLenCall(y.Y) {
			return true, "the identifier is a position counter, not the share index"
		}
	case *ssa.Call:
		if c08IsLenCall(y) {
			return true, "the identifier is a position counter, not the share index"
		}
	case *ssa.Extract:
		if w, ok := want.V.(*ssa.Extract); ok && w.Tuple == y.Tuple && w.Index != y.Index {
			return true, "the identifier is taken from the map value, not the map key"
		}
	case *ssa.Parameter:
		if x.Base.F == nil {
			return true, "the identifier is the parameter " + y.Name() + ", the same for every share"
		}
	}
	return false, ""
}

// identifier encodings. An encoding is the function index -> field element that a site implements; what the
// property needs is that the split side and the recover side implement the *same* injective function (Lagrange
// interpolation at other points than the ones the shares were evaluated at gives another polynomial).
const (
	c08IDSetters = "SetDecString|SetHexString|SetLittleEndian|SetLittleEndianMod"
	c08EncIdent  = "the integer value of the index"
)

type c08EncSite struct {
	Fn  string
	Enc string
	Pos token.Pos
}

// c08Rendered: call renders an integer as a string of digits in a constant base; returns the base and the integer.
func c08Rendered(call *ssa.Call) (base int64, arg ssa.Value, ok bool) {
	switch an.CalleeName(&call.Call) {
	case "strconv.Itoa":
		return 10, call.Call.Args[0], true
	case "strconv.FormatInt", "strconv.FormatUint":
		if b, isK := an.ConstInt(call.Call.Args[1]); isK {
			return b, call.Call.Args[0], true
		}
	}
	return 0, nil, false
}

// c08ByteLit: v is the byte slice literal []byte{byte(x), byte(x >> 8), ..} (little endian, n bytes) of one integer x.
func c08ByteLit(v ssa.Value, f *c08Frame) (x c08Lin, n int64, ok bool) {
	sl, isSl := an.Resolve(v).(*ssa.Slice)
	if !isSl || sl.Low != nil || sl.High != nil {
		return x, 0, false
	}
	al, isAl := sl.X.(*ssa.Alloc)
	if !isAl {
		return x, 0, false
	}
	arr, isArr := al.Type().Underlying().(*types.Pointer).Elem().Underlying().(*types.Array)
	if !isArr || arr.Len() < 1 || arr.Len() > 8 {
		return x, 0, false
	}
	n = arr.Len()
	seen := map[int64]bool{}
	for _, ref := range *al.Referrers() {
		switch r := ref.(type) {
		case *ssa.DebugRef:
		case *ssa.Slice:
			if r != sl {
				return x, 0, false
			}
		case *ssa.IndexAddr:
			k, isK := an.ConstInt(r.Index)
			if !isK || seen[k] || r.Referrers() == nil || len(*r.Referrers()) != 1 {
				return x, 0, false
			}
			st, isSt := (*r.Referrers())[0].(*ssa.Store)
			if !isSt || st.Addr != ssa.Value(r) {
				return x, 0, false
			}
			conv, isConv := st.Val.(*ssa.Convert)
			if !isConv {
				return x, 0, false
			}
			if bits, narrow := c08Narrowing(conv); !narrow || bits != 8 {
				return x, 0, false
			}
			src := conv.X
			if k > 0 {
				sh, isSh := c08Resolve(src).(*ssa.BinOp)
				if !isSh || sh.Op != token.SHR {
					return x, 0, false
				}
				if by, isK := an.ConstInt(sh.Y); !isK || by != 8*k {
					return x, 0, false
				}
				src = sh.X
			}
			lin := c08LinOf(src, f)
			if len(seen) > 0 && !c08LinEq(lin, x) {
				return x, 0, false
			}
			x = lin
			seen[k] = true
		default:
			return x, 0, false
		}
	}
	if int64(len(seen)) != n {
		return x, 0, false
	}
	return x, n, true
}

// c08DecID resolves bls.ID operand idV, as used by `use` in frame f, to the encoding of an integer x with a checked
// error (SetDecString(strconv.Itoa(x)) or an equivalent spelling), records the encoding of the site in encs and
// returns x as base+constant. ok is false when the finding was recorded.
func c08DecID(c *rt.Ctx, construct string, idV ssa.Value, use ssa.Instruction, f *c08Frame, encs *[]c08EncSite) (c08Lin, bool) {
	res := c08Top(idV, use, f, c08IDSetters)
	switch res.St {
	case "bad":
		c.Bad(construct, posOf(use), "share identifier: "+res.Why)
		return c08Lin{}, false
	case "unsure":
		c.Unsure(construct, posOf(use), "share identifier: "+res.Why)
		return c08Lin{}, false
	}
	w := res.P.W
	_, setter, _ := c08BLSMethod(&w.Call)
	if len(w.Call.Args) != 2 {
		c.Unsure(construct, w.Pos(), setter+": unexpected arity")
		return c08Lin{}, false
	}
	who := strings.TrimSuffix(strings.SplitN(construct, " ", 2)[0], " ")
	note := func(enc string) {
		if encs != nil {
			*encs = append(*encs, c08EncSite{who, enc, w.Pos()})
		}
	}
	switch setter {
	case "SetDecString", "SetHexString":
		parse := int64(10)
		if setter == "SetHexString" {
			parse = 16
		}
		conv, ok := an.Resolve(w.Call.Args[1]).(*ssa.Call)
		if !ok {
			c.Unsure(construct, w.Pos(), "the digit string of the identifier is not produced by a call this rule knows")
			return c08Lin{}, false
		}
		render, arg, ok := c08Rendered(conv)
		switch {
		case !ok && (an.CalleeName(&conv.Call) == "strconv.FormatInt" || an.CalleeName(&conv.Call) == "strconv.FormatUint"):
			c.Unsure(construct, w.Pos(), "the base of the identifier string is not a constant")
			return c08Lin{}, false
		case !ok:
			c.Unsure(construct, w.Pos(), "the digit string of the identifier is produced by "+an.CalleeName(&conv.Call)+", which this rule does not model")
			return c08Lin{}, false
		case render == parse:
			note(c08EncIdent)
		case render > parse:
			// digits the parser does not know: the setter fails for indices >= parse
			c.Bad(construct, w.Pos(), fmt.Sprintf("the identifier string handed to %s is rendered in base %d", setter, render))
			return c08Lin{}, false
		default:
			// every string is accepted, but names another number: positively a different function of the index
			note(fmt.Sprintf("the base-%d digits of the index read as a base-%d number", render, parse))
		}
		return c08LinOf(arg, res.P.F), true
	default: // SetLittleEndian, SetLittleEndianMod
		x, n, ok := c08ByteLit(w.Call.Args[1], res.P.F)
		if !ok {
			c.Unsure(construct, w.Pos(), "the bytes handed to "+setter+" are not a literal of the bytes of one integer, which is all this rule models")
			return c08Lin{}, false
		}
		if n >= 8 {
			note(c08EncIdent)
			return x, true
		}
		note(fmt.Sprintf("the low %d bits of the index", 8*n))
		c.Bad(construct, w.Pos(), fmt.Sprintf("the index is truncated to %d bits before it becomes the identifier: indices that differ by a multiple of 2^%d get the same identifier, so a share filed under a wrong index is combined as if it were the right one", 8*n, 8*n))
		return c08Lin{}, false
	}
}

// c08EncAgree: every function that turns a share index into a bls.ID implements the same function. The reference is
// what most sites do (the plain integer value on a tie); a site that positively implements another function is a
// defect: the share stored under index i was evaluated at one point and is interpolated at another.
func c08EncAgree(c *rt.Ctx, encs []c08EncSite) {
	cons := "share identifier encoding agrees between split and recover"
	count := map[string]int{}
	for _, e := range encs {
		count[e.Enc]++
	}
	ref := ""
	for enc, n := range count {
		if ref == "" || n > count[ref] || (n == count[ref] && (enc == c08EncIdent || (ref != c08EncIdent && enc < ref))) {
			ref = enc
		}
	}
	for _, e := range encs {
		if e.Enc == ref {
			c.Good(cons, e.Pos, e.Fn+": "+e.Enc)
			continue
		}
		c.Bad(cons, e.Pos, fmt.Sprintf("%s makes the identifier from %s, %d sibling function(s) of split/recover/aggregate from %s: "+
			"a share stored under index i is evaluated at one point and interpolated at another as soon as the two differ, so subsets containing such an index recover a wrong secret / key / signature",
			e.Fn, e.Enc, count[ref], ref))
	}
}

// c08ParamsOf returns the parameters of fn whose type satisfies pred, in order.
func c08ParamsOf(fn *ssa.Function, pred func(types.Type) bool) []*ssa.Parameter {
	var out []*ssa.Parameter
	for _, p := range fn.Params {
		if pred(p.Type()) {
			out = append(out, p)
		}
	}
	return out
}

func c08IsUint(t types.Type) bool {
	b, ok := t.(*types.Basic)
	return ok && b.Kind() == types.Uint
}

func c08LoopAt(fn *ssa.Function, header *ssa.BasicBlock) *an.Loop {
	for _, l := range an.Loops(fn) {
		if l.Header == header {
			return l
		}
	}
	return nil
}

// ---------------------------------------------------------------------------------------------
// counters

// c08Counter describes a header phi `for i := start; i OP bound; i += step` (step +1 or -1).
type c08Counter struct {
	Phi   *ssa.Phi
	Loop  *an.Loop
	Start ssa.Value // entry value (single)
	Step  int64     // counter advances by Step on every back edge; 0: the back edges are not all `counter + k`
}

func (ct *c08Counter) unit() bool { return ct.Step == 1 || ct.Step == -1 }

func c08CounterOf(v ssa.Value) *c08Counter {
	phi, ok := v.(*ssa.Phi)
	if !ok {
		return nil
	}
	l := c08LoopAt(phi.Parent(), phi.Block())
	if l == nil {
		return nil
	}
	ct := &c08Counter{Phi: phi, Loop: l}
	first := true
	for i, e := range phi.Edges {
		pred := phi.Block().Preds[i]
		if !l.Body[pred] {
			if ct.Start != nil && ct.Start != e {
				return nil
			}
			ct.Start = e
			continue
		}
		step := int64(0)
		if lin := c08LinOf(e, nil); !lin.isConst() && lin.Base.V == ssa.Value(phi) {
			step = lin.K
		}
		if first {
			ct.Step, first = step, false
		} else if ct.Step != step {
			ct.Step = 0
		}
	}
	if ct.Start == nil || first {
		return nil
	}
	return ct
}

// c08Range is the closed interval [Lo, Hi] of the values `counter + off` takes while the loop body runs.
type c08Range struct {
	Lo, Hi c08Lin
	Pos    token.Pos
}

func c08LinAdd(l c08Lin, k int64) c08Lin { l.K += k; return l }

// c08CounterRange derives the values of `counter + off` inside the body from the start value and the header
// condition that keeps the loop running. The header may test the counter itself or counter+a (go/ssa range loops
// increment in the header). ok is false if the loop condition is not understood.
func c08CounterRange(ct *c08Counter, off int64) (c08Range, bool) {
	var r c08Range
	if !ct.unit() {
		return r, false
	}
	start := c08LinAdd(c08LinOf(ct.Start, nil), off)
	fn := ct.Phi.Parent()
	type cand struct {
		v ssa.Value
		a int64 // tested value = counter + a
	}
	cands := []cand{{ct.Phi, 0}}
	for _, ref := range *ct.Phi.Referrers() {
		if bin, ok := ref.(*ssa.BinOp); ok && bin.Block() == ct.Loop.Header {
			if lin := c08LinOf(bin, nil); !lin.isConst() && lin.Base.V == ssa.Value(ct.Phi) && lin.K != 0 {
				cands = append(cands, cand{bin, lin.K})
			}
		}
	}
	for _, cn := range cands {
		for _, cd := range an.CondsOn(fn, cn.v) {
			if cd.If.Block() != ct.Loop.Header || cd.Other == nil {
				continue
			}
			var stayTrue bool
			switch {
			case ct.Loop.Body[cd.Succ(true)] && !ct.Loop.Body[cd.Succ(false)]:
				stayTrue = true
			case ct.Loop.Body[cd.Succ(false)] && !ct.Loop.Body[cd.Succ(true)]:
				stayTrue = false
			default:
				continue
			}
			op := cd.Op
			if !stayTrue {
				switch op {
				case token.LSS:
					op = token.GEQ
				case token.LEQ:
					op = token.GTR
				case token.GTR:
					op = token.LEQ
				case token.GEQ:
					op = token.LSS
				case token.EQL:
					op = token.NEQ
				default:
					continue
				}
			}
			if op == token.NEQ {
				// `for i := s; i != b; i++`: the counter meets the bound exactly (unit step), same as a strict comparison
				if ct.Step > 0 {
					op = token.LSS
				} else {
					op = token.GTR
				}
			}
			// the body runs while counter + a OP bound, i.e. counter + off OP bound - a + off
			bound := c08LinAdd(c08LinOf(cd.Other, nil), off-cn.a)
			r.Pos = posOf(cd.If)
			switch {
			case ct.Step > 0 && op == token.LEQ:
				r.Lo, r.Hi = start, bound
			case ct.Step > 0 && op == token.LSS:
				r.Lo, r.Hi = start, c08LinAdd(bound, -1)
			case ct.Step < 0 && op == token.GEQ:
				r.Lo, r.Hi = bound, start
			case ct.Step < 0 && op == token.GTR:
				r.Lo, r.Hi = c08LinAdd(bound, 1), start
			default:
				continue
			}
			return r, true
		}
	}
	return r, false
}

// c08IndexForm relates an index expression to a loop counter of the anchor function: idx = counter + off.
// ct is nil if idx is not derived from a header counter.
func c08IndexForm(idx ssa.Value, f *c08Frame) (ct *c08Counter, off int64, lin c08Lin) {
	lin = c08LinOf(idx, f)
	if lin.isConst() || lin.Base.F != nil {
		return nil, 0, lin
	}
	return c08CounterOf(lin.Base.V), lin.K, lin
}

// ---------------------------------------------------------------------------------------------
// S1: split side

func c08Record(c *rt.Ctx, construct string, pos token.Pos, status, why string) {
	switch status {
	case "ok":
		c.Good(construct, pos, "")
	case "bad":
		c.Bad(construct, pos, why)
	default:
		c.Unsure(construct, pos, why)
	}
}

// c08Returns is c09Returns (results resolved through the spill slots that defer introduces) that keeps the plain
// value where the result is a load of an ordinary local (`return id, err` of a `var id bls.ID`).
func c08Returns(fn *ssa.Function) []c09Ret {
	out := c09Returns(fn)
	for i := range out {
		for j := range out[i].Vals {
			if out[i].Vals[j] == nil && j < len(out[i].Ret.Results) {
				out[i].Vals[j], out[i].Sink[j] = out[i].Ret.Results[j], out[i].Ret
			}
		}
	}
	return out
}

// c08NilErrReturns lists the returns of fn that commit a nil error (constant nil, or an error value on its own
// nil edge), with the resolved result values.
func c08NilErrReturns(fn *ssa.Function) []c09Ret {
	var out []c09Ret
	for _, r := range c08Returns(fn) {
		n := len(r.Vals)
		if n == 0 {
			continue
		}
		e := r.Vals[n-1]
		if e != nil && (an.IsNilConst(e) || c08NilEdge(fn, e, r.Sink[n-1])) {
			out = append(out, r)
		}
	}
	return out
}

func c08Split(c *rt.Ctx, name string, encs *[]c08EncSite) {
	fn := c.Fn("tbls.Herumi." + name)
	pre := name + " "
	uints := c08ParamsOf(fn, c08IsUint)
	secrets := c08ParamsOf(fn, func(t types.Type) bool { return an.TypeName(t) == "tbls.PrivateKey" })
	if len(uints) != 2 || len(secrets) != 1 {
		c.Bail("%s: expected parameters (secret PrivateKey, total uint, threshold uint)", an.FuncName(fn))
	}
	total, threshold, secret := uints[0], uints[1], secrets[0]

	// the map handed out with a nil error; when it is the result of an in-package helper (the share loop was
	// extracted: `return evaluate(poly, total)` or `m, err := evaluate(..); if err != nil {..}; return m, nil`) the
	// helper becomes the function whose loop is examined, its parameters stand for the arguments of the call
	var ds c08Descent
	ds.Outer = fn
	var retMap ssa.Value
	for {
		m, why := c08SplitMap(fn)
		if m == nil {
			c.Bail("%s: %s", an.FuncName(fn), why)
		}
		retMap = m
		ex, isEx := m.(*ssa.Extract)
		if !isEx || ex.Index != 0 || len(ds.Chain) >= 3 {
			break
		}
		call, _ := ex.Tuple.(*ssa.Call)
		h := c08InPkgCallee(call)
		if h == nil || h == fn || h.Signature.Results().Len() != 2 {
			break
		}
		ds.Chain = append(ds.Chain, call)
		fn = h
	}
	if _, ok := retMap.(*ssa.MakeMap); !ok {
		c.Bail("%s: the result map is not made in this function", an.FuncName(fn))
	}
	ups := mapUpdates(fn, func(m ssa.Value) bool { return an.Resolve(m) == retMap })
	if len(ups) == 0 {
		c.Bail("%s: no insertion into the returned map found", an.FuncName(fn))
	}
	for _, up := range ups {
		if up.Parent() != fn {
			c.Unsure(pre+"stored share is the evaluated key", posOf(up), "the result map is filled inside a function literal")
			continue
		}
		// (1) the stored share is the serialisation of a key evaluated by Set, error checked
		recv, at, rf0, st, why := c08Serialized(up.Value, up, nil, 0)
		if st != "ok" {
			c08Record(c, pre+"stored share is the evaluated key", posOf(up), st, "stored share: "+why)
			continue
		}
		sk := c08Top(recv, at, rf0, "Set")
		c08Record(c, pre+"stored share is the evaluated key", posOf(up), sk.St, sk.Why)
		if sk.St != "ok" {
			continue
		}
		set, sf := sk.P.W, sk.P.F
		if len(set.Call.Args) != 3 {
			c.Bail("%s: bls.SecretKey.Set: unexpected arity", an.FuncName(fn))
		}
		// (2) identifier = Itoa(share-loop counter + constant), values 1..total, share stored under it
		c08SplitIDs(c, pre, fn, up, set, sf, total, threshold, encs, &ds)
		// (3) polynomial: `threshold` coefficients, constant term the secret, never overwritten
		c08SplitPoly(c, pre, fn, set, sf, total, threshold, secret, &ds)
	}
}

// c08Descent: the share loop of a split function lives in an in-package helper whose results the split function hands
// out. Chain lists the calls from the split function (Outer) inwards; the function examined is the callee of the last.
type c08Descent struct {
	Outer *ssa.Function
	Chain []*ssa.Call
}

// fnAt: the function at level i (0: Outer, len(Chain): the function with the share loop).
func (d *c08Descent) fnAt(i int) *ssa.Function {
	if i == 0 {
		return d.Outer
	}
	return d.Chain[i-1].Call.StaticCallee()
}

// bind maps a value of the function at `level` (frame nil) that is one of its parameters to the argument of the call,
// outwards as far as possible; returns the value and the level it lives at.
func (d *c08Descent) bind(v c08Val, level int) (c08Val, int) {
	for level > 0 && v.F == nil {
		p, ok := v.V.(*ssa.Parameter)
		if !ok || p.Parent() != d.fnAt(level) {
			break
		}
		call := d.Chain[level-1]
		idx := c08ParamIndex(p)
		if idx < 0 || idx >= len(call.Call.Args) {
			break
		}
		v = c08Lift(call.Call.Args[idx], nil)
		level--
	}
	return v, level
}

// top: v (function with the share loop, frame nil) as a value of Outer, if it is one.
func (d *c08Descent) top(v c08Val) c08Val {
	b, lvl := d.bind(v, len(d.Chain))
	if lvl != 0 {
		return v
	}
	return b
}

// c08SplitMap: the map fn hands out on success: the first result of every return that commits a nil error, or of the
// returns that hand out the results of one in-package call unchanged (`return h(..)`: the map counts on h's nil edge).
func c08SplitMap(fn *ssa.Function) (ssa.Value, string) {
	var retMap ssa.Value
	note := func(m ssa.Value) bool {
		m = an.Resolve(m)
		if retMap != nil && retMap != m {
			return false
		}
		retMap = m
		return true
	}
	for _, r := range c08NilErrReturns(fn) {
		if len(r.Vals) != 2 || r.Vals[0] == nil {
			return nil, "unexpected results"
		}
		if ex, ok := an.Resolve(r.Vals[0]).(*ssa.Extract); ok {
			// results of a helper: its error must have been seen nil before its map is handed out
			if call, ok := ex.Tuple.(*ssa.Call); ok && c08InPkgCallee(call) != nil {
				if st, _ := c08Checked(call, r.Ret); st != "ok" {
					return nil, "the map of " + an.CalleeName(&call.Call) + " is handed out without its error having been checked"
				}
			}
		}
		if !note(r.Vals[0]) {
			return nil, "several result maps"
		}
	}
	for _, r := range c08Returns(fn) {
		if len(r.Vals) != 2 || r.Vals[0] == nil || r.Vals[1] == nil {
			continue
		}
		m, mok := an.Resolve(r.Vals[0]).(*ssa.Extract)
		e, eok := an.Resolve(r.Vals[1]).(*ssa.Extract)
		if !mok || !eok || m.Tuple != e.Tuple || m.Index != 0 || e.Index != 1 {
			continue
		}
		call, _ := m.Tuple.(*ssa.Call)
		if c08InPkgCallee(call) == nil {
			continue
		}
		if !note(m) {
			return nil, "several result maps"
		}
	}
	if retMap == nil {
		return nil, "no successful return found"
	}
	return retMap, ""
}

func c08SplitIDs(c *rt.Ctx, pre string, fn *ssa.Function, up *ssa.MapUpdate, set *ssa.Call, sf *c08Frame, total, threshold *ssa.Parameter, encs *[]c08EncSite, ds *c08Descent) {
	cons := pre + "identifier is the loop variable"
	x, ok := c08DecID(c, cons, set.Call.Args[2], set, sf, encs)
	if !ok {
		return
	}
	inner := an.InnermostLoop(fn, up.Block())
	var ct *c08Counter
	if !x.isConst() && x.Base.F == nil {
		ct = c08CounterOf(x.Base.V)
	}
	switch {
	case ct != nil && ct.unit() && inner != nil && ct.Loop.Header == inner.Header:
		c.Good(cons, set.Pos(), "SetDecString(strconv.Itoa(counter"+fmt.Sprintf("%+d", x.K)+")) of the share loop's counter, error checked")
	case ct != nil && ct.Step == 0:
		c.Unsure(pre+"identifiers are consecutive", ct.Phi.Pos(), "cannot tell by how much the share loop advances the identifier")
		return
	case ct != nil && !ct.unit() && inner != nil && ct.Loop.Header == inner.Header:
		c.Bad(pre+"identifiers are consecutive", ct.Phi.Pos(), fmt.Sprintf("the share loop advances the identifier by %d, not by 1", ct.Step))
		return
	case ct != nil && inner != nil && ct.Loop.Body[inner.Header]:
		c.Bad(cons, set.Pos(), "the identifier is the counter of an outer loop: several shares of the inner loop get the same identifier")
		return
	case ct != nil:
		c.Unsure(cons, set.Pos(), "the identifier is the counter of a loop that is not the loop storing the shares")
		return
	default:
		var want c08Val
		if inner != nil {
			for _, in := range inner.Header.Instrs {
				if p, ok := in.(*ssa.Phi); ok && c08CounterOf(p) != nil && c08Mentions(x.Base.V, x.Base.F, c08Val{V: p}, 0) {
					want = c08Val{V: p}
				}
			}
		}
		if bad, why := c08DefinitelyNot(x, want); bad {
			c.Bad(cons, set.Pos(), why)
		} else {
			c.Unsure(cons, set.Pos(), "cannot relate the identifier to the counter of the share loop")
		}
		return
	}
	c.Check(pre+"identifiers are consecutive", ct.Phi.Pos(), true, "")
	rng, ok := c08CounterRange(ct, x.K)
	if !ok {
		c.Unsure(pre+"identifiers start at 1", ct.Phi.Pos(), "the condition of the share loop is not understood")
		c.Unsure(pre+"identifiers run to total", ct.Phi.Pos(), "the condition of the share loop is not understood")
	} else {
		tot, thr := c08Val{V: total}, c08Val{V: threshold}
		if !rng.Hi.isConst() {
			rng.Hi.Base = ds.top(rng.Hi.Base) // the bound as a value of the split function
		}
		if !rng.Lo.isConst() {
			if k, isK := an.ConstInt(ds.top(rng.Lo.Base).V); isK { // a start value handed in as a constant argument
				rng.Lo = c08Lin{K: rng.Lo.K + k}
			}
		}
		switch {
		case rng.Lo.isConst() && rng.Lo.K == 1:
			c.Good(pre+"identifiers start at 1", ct.Phi.Pos(), "")
		case rng.Lo.isConst():
			c.Bad(pre+"identifiers start at 1", ct.Phi.Pos(), fmt.Sprintf("the smallest identifier is %d: identifiers must be 1..total (identifier 0 evaluates the polynomial at 0, i.e. hands out the secret itself)", rng.Lo.K))
		default:
			c.Unsure(pre+"identifiers start at 1", ct.Phi.Pos(), "the smallest identifier is not a constant")
		}
		switch {
		case !rng.Hi.isConst() && c08Same(rng.Hi.Base, tot) && rng.Hi.K == 0:
			c.Good(pre+"identifiers run to total", rng.Pos, "")
		case !rng.Hi.isConst() && c08Same(rng.Hi.Base, tot) && rng.Hi.K < 0:
			c.Bad(pre+"identifiers run to total", rng.Pos, "the share loop stops before identifier `total`: fewer than total shares are produced")
		case !rng.Hi.isConst() && c08Same(rng.Hi.Base, tot):
			c.Bad(pre+"identifiers run to total", rng.Pos, "the share loop runs past identifier `total`")
		case !rng.Hi.isConst() && c08Same(rng.Hi.Base, thr):
			c.Bad(pre+"identifiers run to total", rng.Pos, "the share loop is bounded by threshold instead of total")
		case rng.Hi.isConst():
			c.Bad(pre+"identifiers run to total", rng.Pos, "the share loop is bounded by a constant instead of total")
		default:
			c.Unsure(pre+"identifiers run to total", rng.Pos, "cannot relate the loop bound to the total parameter")
		}
	}
	// the share is stored under the identifier it was evaluated at
	key := c08LinOf(up.Key, nil)
	switch {
	case c08LinEq(key, x):
		c.Good(pre+"share stored under its identifier", posOf(up), "")
	case !key.isConst() && c08Same(key.Base, x.Base):
		c.Bad(pre+"share stored under its identifier", posOf(up), fmt.Sprintf("map key differs from the identifier the share was evaluated at (key = identifier%+d)", key.K-x.K))
	default:
		if bad, why := c08DefinitelyNot(key, x.Base); bad {
			c.Bad(pre+"share stored under its identifier", posOf(up), "map key differs from the identifier the share was evaluated at: "+why)
		} else {
			c.Unsure(pre+"share stored under its identifier", posOf(up), "cannot relate the map key to the identifier")
		}
	}
}

// c08NonZeroAt: index expression idx (anchor frame) cannot be 0 at instruction `at`: a non-zero constant, a counter
// whose range excludes 0, or a dominating branch on the index that excludes 0. definitelyZero is set when the index is a
// counter whose range includes 0 and no branch protects the instruction.
func c08NonZeroAt(fn *ssa.Function, idx ssa.Value, at ssa.Instruction) (nonZero, includesZero bool) {
	ct, off, lin := c08IndexForm(idx, nil)
	if lin.isConst() {
		return lin.K != 0, lin.K == 0
	}
	// a dominating branch on the index value (or on its counter) that excludes 0
	excl := func(v ssa.Value, k int64) bool {
		// v + k is the index; need v != -k
		target := -k
		for _, cd := range an.CondsOn(fn, v) {
			if cd.Other == nil {
				continue
			}
			cv, isK := an.ConstInt(cd.Other)
			if !isK {
				continue
			}
			for _, truth := range []bool{true, false} {
				op := cd.Op
				if !truth {
					switch op {
					case token.EQL:
						op = token.NEQ
					case token.NEQ:
						op = token.EQL
					case token.LSS:
						op = token.GEQ
					case token.LEQ:
						op = token.GTR
					case token.GTR:
						op = token.LEQ
					case token.GEQ:
						op = token.LSS
					}
				}
				implies := false
				switch op { // (v op cv) ⇒ v != target
				case token.EQL:
					implies = cv != target
				case token.NEQ:
					implies = cv == target
				case token.LSS:
					implies = target >= cv
				case token.LEQ:
					implies = target > cv
				case token.GTR:
					implies = target <= cv
				case token.GEQ:
					implies = target < cv
				}
				if !implies {
					continue
				}
				succ := cd.Succ(truth)
				if len(succ.Preds) == 1 && (succ == at.Block() || succ.Dominates(at.Block())) {
					return true
				}
			}
		}
		return false
	}
	if excl(an.Unwrap(idx), 0) || (lin.Base.F == nil && excl(lin.Base.V, lin.K)) {
		return true, false
	}
	if ct != nil {
		if rng, ok := c08CounterRange(ct, off); ok && rng.Lo.isConst() {
			if rng.Lo.K >= 1 {
				return true, false
			}
			return false, true
		}
	}
	return false, false
}

func c08SplitPoly(c *rt.Ctx, pre string, fn *ssa.Function, set *ssa.Call, sf *c08Frame, total, threshold, secret *ssa.Parameter, ds *c08Descent) {
	poly := c08Lift(set.Call.Args[1], sf)
	// the instruction of the anchor function at which the polynomial is consumed
	var consume ssa.Instruction = set
	for f := sf; f != nil; f = f.up {
		consume = f.call
	}
	// the share loop lives in a helper that receives the polynomial: the polynomial is examined in the function that
	// makes it, where it is consumed by the call leading to the helper
	level := len(ds.Chain)
	if poly.F == nil {
		if b, lvl := ds.bind(poly, level); lvl < level {
			poly, level, fn, consume = b, lvl, ds.fnAt(lvl), ds.Chain[lvl]
		}
	}
	// values of the function that makes the polynomial, as values of the split function
	outer := func(v c08Val) c08Val {
		if v.F != nil {
			return v
		}
		if b, lvl := ds.bind(v, level); lvl == 0 {
			return b
		}
		return c08Val{}
	}
	mk, ok := poly.V.(*ssa.MakeSlice)
	if !ok || poly.F != nil || mk.Parent() != fn {
		c.Unsure(pre+"polynomial has threshold coefficients", set.Pos(), "polynomial operand of Set is not a slice made in this function")
		return
	}
	ln := c08LinOf(mk.Len, nil)
	lenKnown := true
	if !ln.isConst() {
		if b := outer(ln.Base); b.V != nil {
			ln.Base = b
		} else {
			lenKnown = false
		}
	}
	switch {
	case !lenKnown:
		c.Unsure(pre+"polynomial has threshold coefficients", mk.Pos(), "cannot relate the polynomial length to the parameters of the split function")
	case !ln.isConst() && ln.Base.V == ssa.Value(threshold) && ln.K == 0:
		c.Good(pre+"polynomial has threshold coefficients", mk.Pos(), "")
	case !ln.isConst() && ln.Base.V == ssa.Value(total):
		c.Bad(pre+"polynomial has threshold coefficients", mk.Pos(), "the polynomial has `total` coefficients: total (not threshold) shares are needed to recover")
	case !ln.isConst() && ln.Base.V == ssa.Value(threshold):
		c.Bad(pre+"polynomial has threshold coefficients", mk.Pos(), fmt.Sprintf("the polynomial has threshold%+d coefficients: the number of shares needed to recover is not the threshold", ln.K))
	case ln.isConst():
		c.Bad(pre+"polynomial has threshold coefficients", mk.Pos(), "polynomial length is a constant, not the threshold parameter")
	default:
		c.Unsure(pre+"polynomial has threshold coefficients", mk.Pos(), "cannot relate the polynomial length to the threshold parameter")
	}
	cons := pre + "constant term is the secret"
	var zeroStores []*ssa.Store
	type other struct {
		at  ssa.Instruction // the store, or the herumi method that writes the coefficient in place
		idx ssa.Value
	}
	var others []other
	for _, ref := range *mk.Referrers() {
		switch x := ref.(type) {
		case *ssa.DebugRef:
		case *ssa.IndexAddr:
			for _, r2 := range *x.Referrers() {
				switch y := r2.(type) {
				case *ssa.DebugRef:
				case *ssa.UnOp: // read of a coefficient
				case *ssa.Store:
					if y.Addr != ssa.Value(x) {
						c.Unsure(cons, y.Pos(), "the address of a coefficient is stored")
						return
					}
					if k, isK := an.ConstInt(x.Index); isK && k == 0 {
						zeroStores = append(zeroStores, y)
					} else {
						others = append(others, other{y, x.Index})
					}
				case *ssa.Call:
					_, m, isBLS := c08BLSMethod(&y.Call)
					if !isBLS {
						c.Unsure(cons, y.Pos(), "the address of a coefficient is passed to a call this rule does not follow")
						return
					}
					if len(y.Call.Args) > 0 && y.Call.Args[0] == ssa.Value(x) && !c08Readers[m] {
						// coefficient written in place (poly[i].SetByCSPRNG())
						others = append(others, other{y, x.Index})
					}
				default:
					c.Unsure(cons, r2.Pos(), "a coefficient is used in a way this rule does not model")
					return
				}
			}
		case *ssa.Call:
			if ssa.Instruction(x) == consume || c08IsLenCall(x) {
				continue
			}
			if _, m, isBLS := c08BLSMethod(&x.Call); isBLS && m == "Set" {
				continue
			}
			c.Unsure(cons, x.Pos(), "the polynomial is handed to "+an.CalleeName(&x.Call)+", which this rule does not follow")
			return
		case *ssa.Slice:
			c.Unsure(cons, ref.Pos(), "the polynomial is re-sliced")
			return
		default:
			c.Unsure(cons, ref.Pos(), "the polynomial is used in a way this rule does not model")
			return
		}
	}
	if len(zeroStores) == 0 {
		c.Bad(cons, mk.Pos(), "poly[0] is never assigned: the shares do not belong to the given secret")
		return
	}
	var s0 *ssa.Store
	for _, st := range zeroStores {
		res := c08Top(st.Val, st, nil, "Deserialize")
		if res.St != "ok" {
			c08Record(c, cons, st.Pos(), res.St, "poly[0]: "+res.Why)
			continue
		}
		src, full, ok := c08BytesSrc(res.P.W.Call.Args[1], res.P.F)
		if ok {
			src = outer(src)
		}
		switch {
		case !ok:
			c.Unsure(cons, st.Pos(), "cannot resolve the bytes poly[0] is deserialised from")
		case src.V == nil:
			c.Unsure(cons, st.Pos(), "cannot relate the bytes poly[0] is deserialised from to the parameters of the split function")
		case src.F == nil && src.V == ssa.Value(secret) && full && an.Dominates(st, consume):
			c.Good(cons, st.Pos(), "")
			s0 = st
		case src.F == nil && src.V == ssa.Value(secret) && full:
			c.Bad(cons, st.Pos(), "poly[0] is not set on every path to the evaluation")
		default:
			c.Bad(cons, st.Pos(), "poly[0] is not deserialised from the whole secret parameter")
		}
	}
	// every other write between the constant term and the evaluation must leave index 0 alone
	for _, o := range others {
		k := cons + " (coefficient loop)"
		nz, incl := c08NonZeroAt(fn, o.idx, o.at)
		switch {
		case nz:
			c.Good(k, o.at.Pos(), "")
		case s0 != nil && !(an.InstrReaches(s0, o.at) && an.InstrReaches(o.at, consume)):
			c.Good(k, o.at.Pos(), "written before the constant term is set")
		case incl && s0 != nil:
			c.Bad(k, o.at.Pos(), "a coefficient write that includes index 0 follows the assignment of the secret and overwrites poly[0]: the shares no longer belong to the given secret")
		default:
			c.Unsure(k, o.at.Pos(), "polynomial is written at an index this rule cannot bound")
		}
	}
}

// ---------------------------------------------------------------------------------------------
// lists filled by a loop

// c08EmptyList: nil, or make([]T, 0[, cap]).
func c08EmptyList(v ssa.Value) bool {
	switch x := an.Resolve(v).(type) {
	case *ssa.Const:
		return x.Value == nil
	case *ssa.MakeSlice:
		n, ok := an.ConstInt(x.Len)
		return ok && n == 0
	case *ssa.Slice:
		// buf[:0]: a reused buffer truncated to length 0
		if x.High != nil {
			n, ok := an.ConstInt(x.High)
			return ok && n == 0
		}
	}
	return false
}

func c08IsAppendTo(v ssa.Value, base ssa.Value) (*ssa.Call, []ssa.Value) {
	call, ok := v.(*ssa.Call)
	if !ok {
		return nil, nil
	}
	b, ok := call.Call.Value.(*ssa.Builtin)
	if !ok || b.Name() != "append" || len(call.Call.Args) != 2 || call.Call.Args[0] != base {
		return nil, nil
	}
	return call, appendedElems(call)
}

// c08AccumPhi resolves a list operand to the loop-header phi that accumulates it. When the operand is
// a merge of the accumulator with a value leaving the loop body (`break` after an append), early is set.
func c08AccumPhi(fn *ssa.Function, v ssa.Value) (hdr *ssa.Phi, early bool) {
	phi, ok := v.(*ssa.Phi)
	if !ok {
		return nil, false
	}
	if c08LoopAt(fn, phi.Block()) != nil {
		return phi, false
	}
	for _, e := range phi.Edges {
		for i := 0; i < 8; i++ { // strip append(base, ...) chains
			call, ok := e.(*ssa.Call)
			if !ok {
				break
			}
			b, ok := call.Call.Value.(*ssa.Builtin)
			if !ok || b.Name() != "append" {
				break
			}
			e = call.Call.Args[0]
		}
		p, ok := e.(*ssa.Phi)
		if !ok || c08LoopAt(fn, p.Block()) == nil || (hdr != nil && hdr != p) {
			return nil, false
		}
		hdr = p
	}
	return hdr, hdr != nil
}

// c08Put is one place where a loop iteration puts an element into a list.
type c08Put struct {
	Elem ssa.Value       // the element value
	At   ssa.Instruction // the append call / the store
	Pred int             // append form: index of the back edge (predecessor of the header) that carries it
	Key  string          // append form: the path of the iteration that carries it: back edge, then the edges of the merges inside the body
}

// c08Skip is a path of an iteration that leaves an accumulated list unchanged.
type c08Skip struct {
	Pred int
	Key  string
}

// c08KeysCompatible: two iteration paths are the same path or one refines the other.
func c08KeysCompatible(a, b string) bool {
	return a == b || strings.HasPrefix(a, b+"/") || strings.HasPrefix(b, a+"/")
}

// c08Fill describes how a list is filled by one loop.
type c08Fill struct {
	Kind  string // "append" | "index"
	Loop  *an.Loop
	Phi   *ssa.Phi       // append form: the accumulator
	Early bool           // append form: the list can leave the loop through a break after an append
	Make  *ssa.MakeSlice // index form
	Index ssa.Value      // index form: the index expression of the single store
	Puts  []c08Put       // append form: one per back edge that appends; index form: the single store
	Skips []c08Skip      // append form: iteration paths that leave the list unchanged
	Odd   string         // a back edge / use that is not understood (=> undecided)
	Start bool           // append form: the list is empty when the loop starts
	// location form (c08n4_loc.go): the list lives in a struct field, PutStore is the store of append(list, x)
	Loc      bool
	PutStore ssa.Instruction
}

// c08FillOf recognises how list value v (anchor function fn) is filled.
func c08FillOf(fn *ssa.Function, v ssa.Value) *c08Fill {
	v = an.Resolve(v)
	if phi, early := c08AccumPhi(fn, v); phi != nil {
		l := c08LoopAt(fn, phi.Block())
		if l == nil {
			return nil
		}
		fl := &c08Fill{Kind: "append", Loop: l, Phi: phi, Early: early, Start: true}
		for j, pred := range l.Header.Preds {
			e := phi.Edges[j]
			if !l.Body[pred] {
				if !c08EmptyList(e) {
					fl.Start = false
				}
				continue
			}
			// the value on a back edge is the accumulator itself (iteration skipped), append(accumulator, x), or a merge
			// of such values inside the body (`if .. { continue }` of a three-clause loop merges in the post block)
			var expand func(e ssa.Value, key string, d int)
			expand = func(e ssa.Value, key string, d int) {
				if e == ssa.Value(phi) {
					fl.Skips = append(fl.Skips, c08Skip{j, key})
					return
				}
				if ap, elems := c08IsAppendTo(e, phi); ap != nil && len(elems) == 1 {
					fl.Puts = append(fl.Puts, c08Put{Elem: elems[0], At: ap, Pred: j, Key: key})
					return
				}
				if m, ok := e.(*ssa.Phi); ok && m != phi && d < 4 && l.Body[m.Block()] && c08LoopAt(fn, m.Block()) == nil {
					for k, me := range m.Edges {
						expand(me, fmt.Sprintf("%s/%d.%d", key, m.Block().Index, k), d+1)
					}
					return
				}
				fl.Odd = "a back edge of the loop does not carry append(list, one element)"
			}
			expand(e, fmt.Sprint(j), 0)
		}
		return fl
	}
	mk, ok := v.(*ssa.MakeSlice)
	if !ok || mk.Parent() != fn {
		return nil
	}
	fl := &c08Fill{Kind: "index", Make: mk}
	for _, ref := range *mk.Referrers() {
		switch x := ref.(type) {
		case *ssa.DebugRef:
		case *ssa.IndexAddr:
			for _, r2 := range *x.Referrers() {
				switch y := r2.(type) {
				case *ssa.DebugRef:
				case *ssa.Store:
					if y.Addr != ssa.Value(x) || len(fl.Puts) > 0 {
						fl.Odd = "the list is written at more than one place"
						continue
					}
					fl.Puts = append(fl.Puts, c08Put{Elem: y.Val, At: y})
					fl.Index = x.Index
				default:
					fl.Odd = "an element of the list is used before the list is complete"
				}
			}
		case *ssa.Call:
			if !c08IsLenCall(x) {
				if _, _, isBLS := c08BLSMethod(&x.Call); !isBLS {
					fl.Odd = "the list is handed to " + an.CalleeName(&x.Call)
				}
			}
		default:
			fl.Odd = "the list is used in a way this rule does not model"
		}
	}
	if len(fl.Puts) == 1 {
		fl.Loop = an.InnermostLoop(fn, fl.Puts[0].At.Block())
	}
	if fl.Loop == nil && fl.Odd == "" {
		fl.Odd = "the list is not filled inside a loop"
	}
	return fl
}

// c08ExitReaches reports a block of loop l other than its header from which the loop is left and `sink` is then still
// reached, deciding branches on what the exit establishes: an error that is non-nil on the exit edge stays non-nil in
// the variable it is kept in (`firstErr = err; break` ... `if firstErr != nil { return }` does not reach the sink),
// a flag set before the break is known after the loop. nil if the loop is only left towards sink at its header.
func c08ExitReaches(l *an.Loop, sink ssa.Instruction) *ssa.BasicBlock {
	for _, b := range l.Header.Parent().Blocks {
		if !l.Body[b] || b == l.Header || len(b.Instrs) == 0 {
			continue
		}
		for _, s := range b.Succs {
			if l.Body[s] {
				continue
			}
			term := b.Instrs[len(b.Instrs)-1]
			// what the branches dominating the exit establish (also about values computed inside the loop: the search
			// only goes on outside of it)
			truths := map[ssa.Value]bool{}
			for cur, d := b, b.Idom(); d != nil; cur, d = d, d.Idom() {
				iff, ok := d.Instrs[len(d.Instrs)-1].(*ssa.If)
				if !ok || len(d.Succs) != 2 || d.Succs[0] == d.Succs[1] {
					continue
				}
				var truth bool
				switch {
				case len(d.Succs[0].Preds) == 1 && (d.Succs[0] == cur || d.Succs[0].Dominates(cur)):
					truth = true
				case len(d.Succs[1].Preds) == 1 && (d.Succs[1] == cur || d.Succs[1].Dominates(cur)):
					truth = false
				default:
					continue
				}
				cond := iff.Cond
				for {
					if u, ok := cond.(*ssa.UnOp); ok && u.Op == token.NOT {
						cond, truth = u.X, !truth
						continue
					}
					break
				}
				if _, dup := truths[cond]; !dup {
					truths[cond] = truth
				}
			}
			facts := func(v ssa.Value) (constant.Value, bool) {
				if t, ok := truths[v]; ok {
					return constant.MakeBool(t), true
				}
				return nil, false
			}
			nonNil := func(v ssa.Value) bool {
				refs := v.Referrers()
				if refs == nil {
					return false
				}
				for _, r := range *refs {
					bin, ok := r.(*ssa.BinOp)
					if !ok || (bin.Op != token.NEQ && bin.Op != token.EQL) || !(an.IsNilConst(bin.X) || an.IsNilConst(bin.Y)) {
						continue
					}
					truth, known := facts(bin)
					if iff, isIf := term.(*ssa.If); isIf && !known {
						// the exit edge itself is a branch on the comparison
						cond, neg := iff.Cond, false
						for {
							if u, ok := cond.(*ssa.UnOp); ok && u.Op == token.NOT {
								cond, neg = u.X, !neg
								continue
							}
							break
						}
						if cond == ssa.Value(bin) {
							onTrue := b.Succs[0] == s
							truth, known = constant.MakeBool(onTrue != neg), true
						}
					}
					if known && truth.Kind() == constant.Bool && constant.BoolVal(truth) == (bin.Op == token.NEQ) {
						return true
					}
				}
				return false
			}
			env := func(v ssa.Value) (constant.Value, bool) {
				if k, ok := facts(v); ok {
					return k, true
				}
				if _, isConst := v.(*ssa.Const); !isConst && an.IsErrorType(v.Type()) {
					if c08NonNilErr(v) || nonNil(v) {
						return an.H06NonNil, true
					}
				}
				return nil, false
			}
			edge := s
			_, found := an.H06Escape(term, an.H06Opt{
				Env:       env,
				Target:    sink,
				Inclusive: true,
				Prune: func(bb *ssa.BasicBlock, si int) bool {
					return bb == b && bb.Succs[si] != edge
				},
			})
			if found {
				return b
			}
		}
	}
	return nil
}

// c08LenOf: v is len(coll) of the given collection.
func c08LenOf(v ssa.Value, coll ssa.Value) bool {
	call, ok := an.Resolve(v).(*ssa.Call)
	if !ok {
		return false
	}
	b, ok := call.Call.Value.(*ssa.Builtin)
	return ok && b.Name() == "len" && len(call.Call.Args) == 1 && an.Resolve(call.Call.Args[0]) == coll
}

// c08EveryIteration: instruction in lies on every path of an iteration of loop l that reaches a latch.
func c08EveryIteration(l *an.Loop, in ssa.Instruction) bool {
	if !l.Body[in.Block()] {
		return false
	}
	for _, la := range l.Latches {
		if in.Block() != la && !in.Block().Dominates(la) {
			return false
		}
	}
	return true
}

// c08MapRange: loop l ranges over map m; returns the key and value of the iteration.
func c08MapRange(l *an.Loop, m ssa.Value) (key, val ssa.Value, ok bool) {
	var nx *ssa.Next
	for _, in := range l.Header.Instrs {
		if n, isNext := in.(*ssa.Next); isNext {
			nx = n
		}
	}
	if nx == nil {
		return nil, nil, false
	}
	r, isRange := nx.Iter.(*ssa.Range)
	if !isRange || an.Resolve(r.X) != m {
		return nil, nil, false
	}
	for _, ref := range *nx.Referrers() {
		if ex, isEx := ref.(*ssa.Extract); isEx {
			switch ex.Index {
			case 1:
				key = ex
			case 2:
				val = ex
			}
		}
	}
	return key, val, true
}

// c08Descend: when every list is a result of one call of an in-package helper (the filling loop was extracted), the
// helper becomes the function to analyse: the lists are its results on its single successful return, the input is the
// parameter that receives the caller's input, the lists are complete at that return; the helper's error must be
// checked by the caller before the lists are consumed. st is "" when there is nothing to descend into.
func c08Descend(fn *ssa.Function, consume ssa.Instruction, input ssa.Value, lists []ssa.Value) (*ssa.Function, ssa.Instruction, ssa.Value, []ssa.Value, string, string) {
	var call *ssa.Call
	idx := make([]int, len(lists))
	for i, v := range lists {
		v = an.Resolve(v)
		var cl *ssa.Call
		switch x := v.(type) {
		case *ssa.Extract:
			cl, _ = x.Tuple.(*ssa.Call)
			idx[i] = x.Index
		case *ssa.Call:
			cl = x
		}
		if cl == nil || (call != nil && cl != call) {
			return fn, consume, input, lists, "", ""
		}
		call = cl
	}
	g := c08InPkgCallee(call)
	if g == nil || g == fn {
		return fn, consume, input, lists, "", ""
	}
	name := an.FuncName(g)
	switch st, why := c08Checked(call, consume); st {
	case "no":
		return nil, nil, nil, nil, "bad", "the error of " + name + " is not checked before its lists are used: " + why
	case "unsure":
		return nil, nil, nil, nil, "unsure", "error of " + name + ": " + why
	}
	var pin ssa.Value
	for i, a := range call.Call.Args {
		if an.Resolve(a) == input && i < len(g.Params) {
			pin = g.Params[i]
		}
	}
	if pin == nil {
		return nil, nil, nil, nil, "unsure", name + " does not receive the input collection as an argument"
	}
	rets := c08NilErrReturns(g)
	if c08ErrResult(g) < 0 {
		rets = c08Returns(g)
	}
	if len(rets) != 1 {
		return nil, nil, nil, nil, "unsure", name + " has several successful returns"
	}
	out := make([]ssa.Value, len(lists))
	for i := range lists {
		if idx[i] >= len(rets[0].Vals) || rets[0].Vals[idx[i]] == nil {
			return nil, nil, nil, nil, "unsure", "a result of " + name + " cannot be resolved"
		}
		out[i] = rets[0].Vals[idx[i]]
	}
	return g, rets[0].Ret, pin, out, "ok", ""
}

// ---------------------------------------------------------------------------------------------
// S1: recover side

func c08Recover(c *rt.Ctx, name, typ string, encs *[]c08EncSite) {
	fn := c.Fn("tbls.Herumi." + name)
	pre := name + " "
	maps := c08ParamsOf(fn, an.IsMapType)
	if len(maps) != 1 {
		c.Bail("%s: expected exactly one map parameter", an.FuncName(fn))
	}
	inputP := maps[0]

	// result: the value handed out with a nil error is the serialisation of the receiver of a checked Recover
	cons := pre + "result is the recovered value"
	var rec *ssa.Call
	var rf *c08Frame
	rets := c08NilErrReturns(fn)
	if len(rets) == 0 {
		c.Bail("%s: no return with a nil error found", an.FuncName(fn))
	}
	for _, r := range rets {
		if len(r.Vals) != 2 || r.Vals[0] == nil {
			c.Bail("%s: unexpected results", an.FuncName(fn))
		}
		recv, at, rf0, st, why := c08Serialized(r.Vals[0], r.Sink[0], nil, 0)
		if st != "ok" {
			c08Record(c, cons, posOf(r.Ret), st, "the value returned with a nil error: "+why)
			continue
		}
		res := c08Top(recv, at, rf0, "Recover")
		c08Record(c, cons, posOf(r.Ret), res.St, res.Why)
		if res.St == "ok" {
			if rec != nil && rec != res.P.W {
				c.Bail("%s: several Recover calls", an.FuncName(fn))
			}
			rec, rf = res.P.W, res.P.F
		}
	}
	if rec == nil {
		return
	}
	if t, m, _ := c08BLSMethod(&rec.Call); t != typ || m != "Recover" || len(rec.Call.Args) != 3 {
		c.Bail("%s: expected bls.%s.Recover(values, ids)", an.FuncName(fn), typ)
	}
	// the point of the anchor function at which the lists are consumed
	var consume ssa.Instruction = rec
	for f := rf; f != nil; f = f.up {
		consume = f.call
	}
	vals, ids := c08Lift(rec.Call.Args[1], rf), c08Lift(rec.Call.Args[2], rf)
	pair := pre + "identifier and value appended in the same iteration"
	if vals.F != nil || ids.F != nil {
		c.Unsure(pair, rec.Pos(), "the lists handed to Recover are built inside a helper")
		return
	}
	// the filling loop may live in a helper that hands both lists back
	lfn, input := fn, ssa.Value(inputP)
	if g, cons2, in2, ls, st, why := c08Descend(fn, consume, input, []ssa.Value{vals.V, ids.V}); st == "ok" {
		lfn, consume, input, vals.V, ids.V = g, cons2, in2, ls[0], ls[1]
	} else if st != "" {
		c08Record(c, pair, rec.Pos(), st, why)
		return
	}
	fv, fi := c08FillOf(lfn, vals.V), c08FillOf(lfn, ids.V)
	// lists kept in struct fields (parameter object, pooled scratch buffer, package state)
	own := pre + "lists hold only the shares of this call"
	for _, slot := range []struct {
		fl **c08Fill
		v  ssa.Value
	}{{&fv, vals.V}, {&fi, ids.V}} {
		if *slot.fl != nil {
			continue
		}
		lf, st, why := c08LocFill(lfn, slot.v)
		if lf == nil {
			continue
		}
		*slot.fl = lf
		if ld, isLoad := slot.v.(*ssa.UnOp); isLoad && lf.Loop != nil && st != "bad" && (lf.Loop.Body[ld.Block()] || !lf.Loop.Header.Dominates(ld.Block())) {
			lf.Odd, st, why = "the list is read before the filling loop is over", "unsure", "the list is read before the filling loop is over"
		}
		c08Record(c, own, posOf(slot.v.(ssa.Instruction)), st, why)
	}
	if fv == nil || fi == nil || fv.Kind != fi.Kind || fv.Loop == nil || fi.Loop == nil || fv.Loop.Header != fi.Loop.Header {
		c.Unsure(pair, rec.Pos(), "the two lists handed to Recover are not filled by one loop")
		return
	}
	l := fv.Loop
	used := pre + "every input share is used"
	// which keys does the filling loop visit? The keys of the input are an arbitrary subset of 1..total, so the loop
	// has to take them from the map. (Decided before the shape of the appends: it does not depend on it.)
	keyV, valV, isRange := c08MapRange(l, input)
	if !isRange {
		for _, b := range lfn.Blocks {
			if !l.Body[b] {
				continue
			}
			for _, in := range b.Instrs {
				lk, ok := in.(*ssa.Lookup)
				if !ok || an.Resolve(lk.X) != ssa.Value(input) {
					continue
				}
				ct, off, _ := c08IndexForm(lk.Index, nil)
				if ct == nil || ct.Loop.Header != l.Header {
					continue
				}
				// a counter that runs up to `total` and skips absent keys visits every possible key
				if rng, ok := c08CounterRange(ct, off); ok && lk.CommaOk && lfn == fn && !rng.Hi.isConst() && rng.Hi.Base.F == nil {
					if uints := c08ParamsOf(fn, c08IsUint); len(uints) == 2 && rng.Hi.Base.V == ssa.Value(uints[0]) && rng.Hi.K >= 0 {
						c.Unsure(used, lk.Pos(), "the shares are fetched by a counter up to total, skipping absent keys: cannot tell that no key lies above total")
						return
					}
				}
				c.Bad(used, lk.Pos(), "the shares are fetched by a counter (input[i] for a range of i fixed by a length or the threshold) instead of ranging over the map: "+
					"the keys are an arbitrary subset of 1..total, so a subset with a gap or with identifiers above the bound is combined from fewer (or zero-valued) shares and recovers a wrong result")
				return
			}
		}
		c.Unsure(used, rec.Pos(), "the filling loop does not range over the input map")
		return
	}
	if fv.Odd != "" || fi.Odd != "" {
		c.Unsure(pair, rec.Pos(), fv.Odd+fi.Odd)
		return
	}
	if (fv.Early || fi.Early) && c08ExitReaches(l, consume) != nil {
		c.Bad(used, rec.Pos(), "the loop over the input shares can be left early towards Recover: only a prefix (in random map order) is combined")
		return
	}
	if l.Body[consume.Block()] || !l.Header.Dominates(consume.Block()) {
		c.Unsure(pair, rec.Pos(), "Recover is not executed after the filling loop")
		return
	}
	if b := c08ExitReaches(l, consume); b != nil {
		c.Bad(used, posOf(b.Instrs[len(b.Instrs)-1]), "the loop over the input shares can be left early towards Recover: only a prefix (in random map order) is combined")
	} else {
		c.Good(used, rec.Pos(), "")
	}

	// pairing: an iteration extends both lists or neither, at the same position
	type pairPut struct{ v, i c08Put }
	var pairs []pairPut
	switch fv.Kind {
	case "append":
		if !fv.Start || !fi.Start {
			c.Unsure(pair, rec.Pos(), "the lists are not empty when the loop starts")
		}
		// on every path of an iteration (back edge + merges inside the body) both lists are extended or neither is
		lone := func(puts []c08Put, skips []c08Skip) {
			for _, p := range puts {
				for _, sk := range skips {
					if c08KeysCompatible(p.Key, sk.Key) {
						c.Bad(pair, p.At.Pos(), "an iteration can extend one of the two lists without the other: every later identifier is paired with the wrong share")
					}
				}
			}
		}
		lone(fv.Puts, fi.Skips)
		lone(fi.Puts, fv.Skips)
		switch {
		case fv.Loc && fi.Loc:
			for _, ab := range [][2]ssa.Instruction{{fv.PutStore, fi.PutStore}, {fi.PutStore, fv.PutStore}} {
				if c08LonePut(l, ab[0], ab[1]) {
					c.Bad(pair, ab[0].Pos(), "an iteration can extend one of the two lists without the other: every later identifier is paired with the wrong share")
				}
			}
		case fv.Loc != fi.Loc:
			c.Unsure(pair, rec.Pos(), "one list is kept in a struct field, the other in a local: cannot pair their appends")
		}
		for _, pv := range fv.Puts {
			for _, pi := range fi.Puts {
				if c08KeysCompatible(pv.Key, pi.Key) {
					c.Good(pair, pv.At.Pos(), "")
					pairs = append(pairs, pairPut{pv, pi})
				}
			}
		}
		if len(fv.Puts) == 0 || len(fi.Puts) == 0 {
			c.Unsure(pair, rec.Pos(), "no iteration of the filling loop extends the lists")
		}
	case "index":
		pv, pi := fv.Puts[0], fi.Puts[0]
		ctV, offV, _ := c08IndexForm(fv.Index, nil)
		ctI, offI, _ := c08IndexForm(fi.Index, nil)
		switch {
		case ctV == nil || ctI == nil || ctV.Phi != ctI.Phi || ctV.Loop.Header != l.Header || ctV.Step != 1:
			c.Unsure(pair, pv.At.Pos(), "the positions written in the two lists are not one counter of the filling loop")
		case offV != offI:
			c.Bad(pair, pv.At.Pos(), "identifier and value of an iteration are written at different positions of the two lists")
		case !c08EveryIteration(l, pv.At) || !c08EveryIteration(l, pi.At):
			c.Unsure(pair, pv.At.Pos(), "an iteration can advance the position without writing both lists")
		case !c08LenOf(fv.Make.Len, input) || !c08LenOf(fi.Make.Len, input):
			c.Unsure(pair, pv.At.Pos(), "the lists are not made with len(input) elements")
		default:
			if k, ok := an.ConstInt(ctV.Start); !ok || k+offV != 0 {
				c.Unsure(pair, pv.At.Pos(), "the first position written is not 0")
			} else {
				c.Good(pair, pv.At.Pos(), "")
				pairs = append(pairs, pairPut{pv, pi})
			}
		}
	}
	for _, pp := range pairs {
		// identifier
		cons := pre + "identifier is the map key"
		var idKey c08Val // the key the identifier is rendered from
		if x, ok := c08DecID(c, cons, pp.i.Elem, pp.i.At, nil, encs); ok {
			switch {
			case !x.isConst() && x.K == 0 && x.Base.F == nil && x.Base.V == keyV && keyV != nil:
				c.Good(cons, pp.i.At.Pos(), "SetDecString(strconv.Itoa(key)) of the ranged map key, error checked")
				idKey = x.Base
			default:
				if bad, why := c08DefinitelyNot(x, c08Val{V: keyV}); bad {
					c.Bad(cons, pp.i.At.Pos(), why)
				} else {
					c.Unsure(cons, pp.i.At.Pos(), "cannot relate the identifier to the key of the ranged map")
				}
			}
		}
		// value
		cons = pre + "value is the checked deserialisation of the map value"
		res := c08Top(pp.v.Elem, pp.v.At, nil, "Deserialize")
		if res.St != "ok" {
			c08Record(c, cons, pp.v.At.Pos(), res.St, res.Why)
			continue
		}
		src, full, ok := c08BytesSrc(res.P.W.Call.Args[1], res.P.F)
		switch {
		case !ok:
			c.Unsure(cons, pp.v.At.Pos(), "cannot resolve the bytes the share is deserialised from")
		case src.F == nil && valV != nil && src.V == valV && full:
			c.Good(cons, pp.v.At.Pos(), "")
		case src.F == nil && full && c08IsLookupOf(src.V, input, idKey):
			c.Good(cons, pp.v.At.Pos(), "input[key] of the key the identifier is rendered from")
		case src.F == nil && !full && (src.V == valV || c08IsLookupOf(src.V, input, idKey)):
			c.Bad(cons, pp.v.At.Pos(), "the share is not deserialised from the whole map value of this iteration")
		case src.F == nil && c08IsInputValue(src.V, input):
			c.Bad(cons, pp.v.At.Pos(), "the share is deserialised from a map value that does not belong to the key of this iteration")
		default:
			c.Unsure(cons, pp.v.At.Pos(), "cannot relate the bytes the share is deserialised from to the map value of this iteration")
		}
	}
}

// c08IsLookupOf: v is m[key] (plain lookup) for the given key value.
func c08IsLookupOf(v ssa.Value, m ssa.Value, key c08Val) bool {
	lk, ok := v.(*ssa.Lookup)
	if !ok || key.V == nil || key.F != nil || lk.CommaOk || an.Resolve(lk.X) != m {
		return false
	}
	return an.Resolve(lk.Index) == key.V
}

// c08IsInputValue: v is some value of map m (a lookup or the value of a range over m).
func c08IsInputValue(v ssa.Value, m ssa.Value) bool {
	switch x := v.(type) {
	case *ssa.Lookup:
		return an.Resolve(x.X) == m
	case *ssa.Extract:
		if nx, ok := x.Tuple.(*ssa.Next); ok {
			if r, ok := nx.Iter.(*ssa.Range); ok {
				return an.Resolve(r.X) == m && x.Index == 2
			}
		}
	}
	return false
}

// ---------------------------------------------------------------------------------------------
// wiring: package-level functions forward to impl, impl is Herumi

func c08Forward(c *rt.Ctx, name string) {
	fn := c.Fn("tbls." + name)
	cons := "tbls." + name + " forwards to impl." + name
	calls := an.Calls(fn, func(cc *ssa.CallCommon) bool {
		return cc.IsInvoke() && an.TypeName(cc.Value.Type()) == "tbls.Implementation"
	}, false)
	if len(calls) != 1 {
		c.Unsure(cons, fn.Pos(), "expected exactly one call through the Implementation interface")
		return
	}
	call := calls[0]
	cc := call.Common()
	if cc.Method.Name() != name {
		c.Bad(cons, call.Pos(), "calls impl."+cc.Method.Name()+" instead of impl."+name)
		return
	}
	if g := c08GlobalLoad(cc.Value); g == nil || g.Name() != "impl" || g.Pkg != fn.Pkg {
		c.Unsure(cons, call.Pos(), "the implementation called is not the package variable impl")
		return
	}
	if len(cc.Args) != len(fn.Params) {
		c.Unsure(cons, call.Pos(), "argument count differs from the parameter count")
		return
	}
	// parameters the Herumi method ignores (RecoverSecret's total/threshold) carry no obligation
	target := c.FnOpt("tbls.Herumi." + name)
	for i, a := range cc.Args {
		if target != nil && len(target.Params) == len(cc.Args)+1 {
			if refs := target.Params[i+1].Referrers(); refs != nil && len(*refs) == 0 {
				continue
			}
		}
		if ra := an.Resolve(a); ra != ssa.Value(fn.Params[i]) {
			if p, ok := ra.(*ssa.Parameter); ok {
				c.Bad(cons, call.Pos(), "argument "+fn.Params[i].Name()+" is replaced by parameter "+p.Name()+": the arguments reach the implementation permuted")
			} else if _, ok := ra.(*ssa.Const); ok {
				c.Bad(cons, call.Pos(), "argument "+fn.Params[i].Name()+" is replaced by a constant")
			} else {
				c.Unsure(cons, call.Pos(), "cannot tell whether argument "+fn.Params[i].Name()+" is forwarded unchanged")
			}
			return
		}
	}
	// results: the implementation's own results; a constant nil error only on the nil edge of the implementation's
	// error, other results of a failing return carry no obligation
	nres := fn.Signature.Results().Len()
	errIdx := c08ErrResult(fn)
	implRes := func(v ssa.Value, i int) bool {
		v = an.Resolve(v)
		if nres == 1 {
			return v == call.Value()
		}
		ex, ok := v.(*ssa.Extract)
		return ok && ex.Tuple == call.Value() && ex.Index == i
	}
	var implErr ssa.Value
	if errs, _ := an.StatusOf(call, -1); len(errs) == 1 {
		implErr = errs[0]
	}
	for _, r := range c08Returns(fn) {
		failing := false
		if errIdx >= 0 {
			e, sink := r.Vals[errIdx], r.Sink[errIdx]
			switch {
			case e == nil:
				c.Unsure(cons, posOf(r.Ret), "a returned error cannot be resolved")
				return
			case implRes(e, errIdx):
				failing = implErr != nil && c09NonNilEdge(fn, implErr, sink)
			case an.IsNilConst(e):
				if implErr == nil || !c08NilEdge(fn, implErr, sink) {
					c.Bad(cons, posOf(r.Ret), "a nil error is returned although the implementation's verdict is not nil on that path")
					return
				}
			case c08NonNilErr(e) && implErr != nil && c09NonNilEdge(fn, implErr, sink):
				failing = true
			default:
				c.Unsure(cons, posOf(r.Ret), "cannot relate a returned error to the implementation's result")
				return
			}
		}
		if failing {
			continue
		}
		for i, v := range r.Vals {
			if i == errIdx {
				continue
			}
			if v != nil && implRes(v, i) {
				continue
			}
			if v != nil {
				if _, isConst := an.Resolve(v).(*ssa.Const); isConst {
					c.Bad(cons, posOf(r.Ret), "a constant is returned instead of the implementation's result")
					return
				}
			}
			c.Unsure(cons, posOf(r.Ret), "cannot tell whether a result is the implementation's result")
			return
		}
	}
	c.Good(cons, call.Pos(), "")
}

func c08GlobalLoad(v ssa.Value) *ssa.Global {
	if ld, ok := v.(*ssa.UnOp); ok && ld.Op == token.MUL {
		g, _ := ld.X.(*ssa.Global)
		return g
	}
	return nil
}

func c08Impl(c *rt.Ctx) {
	pkg := c.SSAPkg("tbls")
	g, ok := pkg.Members["impl"].(*ssa.Global)
	if !ok {
		c.Bail("tbls.impl not found")
	}
	setter := c.Fn("tbls.SetImplementation")
	initFn := pkg.Func("init")
	if initFn == nil {
		c.Bail("tbls: no package initialiser")
	}
	cons := "tbls.impl is Herumi"
	inits := 0
	fns := append(an.PkgFuncs(pkg), initFn)
	for _, fn := range fns {
		for _, in := range an.Instrs(fn, false) {
			st, ok := in.(*ssa.Store)
			if !ok || st.Addr != ssa.Value(g) {
				continue
			}
			switch {
			case fn == initFn:
				inits++
				mi, ok := st.Val.(*ssa.MakeInterface)
				c.Check(cons, posOf(st), ok && an.TypeName(mi.X.Type()) == "tbls.Herumi", "the default implementation is not Herumi")
			case fn == setter:
			default:
				c.Bad(cons, posOf(st), "impl is reassigned in "+an.FuncName(fn))
			}
		}
	}
	if inits == 0 {
		c.Bad(cons, g.Pos(), "impl has no initial value: every tbls function panics on a nil implementation")
	}
	// nobody in the production program swaps the implementation (tests are not loaded)
	cons = "tbls.SetImplementation not called by production code"
	var pos token.Pos
	var who string
	for _, sp := range c.P.SSAPkgs {
		for _, fn := range an.PkgFuncs(sp) {
			for _, call := range an.Calls(fn, an.Static("tbls.SetImplementation"), false) {
				if who == "" {
					who, pos = an.FuncName(fn), call.Pos()
				}
			}
			for _, in := range an.Instrs(fn, false) {
				for _, op := range an.Operands(in) {
					if op == ssa.Value(setter) {
						if ci, ok := in.(ssa.CallInstruction); !ok || ci.Common().Value != op {
							who, pos = an.FuncName(fn)+" (as a value)", in.Pos()
						}
					}
				}
			}
		}
	}
	if who != "" {
		c.Bad(cons, pos, "the threshold-BLS backend is replaced by "+who+": the identifier rules above no longer describe what runs")
	} else {
		c.Good(cons, setter.Pos(), "")
	}
}

// ---------------------------------------------------------------------------------------------
// S2

// c08NonNilErr: v is an error value that is non-nil by construction.
func c08NonNilErr(v ssa.Value) bool {
	v = an.Resolve(v)
	if call, ok := v.(*ssa.Call); ok && an.Static("app/errors.New", "app/errors.Wrap", "app/errors.NewSentinel", "errors.New", "fmt.Errorf")(&call.Call) {
		return true
	}
	if g := c08GlobalLoad(v); g != nil && g.Pkg != nil {
		// a sentinel: assigned once, in the package initialiser, from errors.New
		n := 0
		initFn := g.Pkg.Func("init")
		for _, f := range append(an.PkgFuncs(g.Pkg), initFn) {
			if f == nil {
				continue
			}
			for _, in := range an.Instrs(f, false) {
				if st, ok := in.(*ssa.Store); ok && st.Addr == ssa.Value(g) {
					call, isCall := st.Val.(*ssa.Call)
					if f != initFn || !isCall || !an.Static("app/errors.New", "app/errors.NewSentinel")(&call.Call) {
						return false
					}
					n++
				}
			}
		}
		return n == 1
	}
	return false
}

// c08NilEdge: e is an error value known to be nil at `at` (at lies on the nil edge of a test of e),
// e.g. `if err = f(); err != nil { return .. }; ...; return err`.
func c08NilEdge(fn *ssa.Function, e ssa.Value, at ssa.Instruction) bool {
	for _, cd := range an.CondsOn(fn, e) {
		if cd.Other == nil || !an.IsNilConst(cd.Other) || (cd.Op != token.EQL && cd.Op != token.NEQ) {
			continue
		}
		succ := cd.Succ(cd.Op == token.EQL)
		if len(succ.Preds) == 1 && (succ == at.Block() || succ.Dominates(at.Block())) {
			return true
		}
	}
	return false
}

// c08ErrKnownNonNil: on the path described by known, error value e is non-nil: non-nil by construction, declared so
// by the valuation, or a comparison of it with nil has been decided on the path.
func c08ErrKnownNonNil(e ssa.Value, known an.H06Env) bool {
	if e == nil {
		return false
	}
	if k, ok := an.H06Eval(e, known); ok {
		return an.H06IsNonNil(k)
	}
	e = an.Resolve(e)
	if c08NonNilErr(e) {
		return true
	}
	refs := e.Referrers()
	if refs == nil {
		return false
	}
	for _, r := range *refs {
		bin, ok := r.(*ssa.BinOp)
		if !ok || (bin.Op != token.EQL && bin.Op != token.NEQ) || !(an.IsNilConst(bin.X) || an.IsNilConst(bin.Y)) {
			continue
		}
		if k, ok := known(bin); ok && k.Kind() == constant.Bool && constant.BoolVal(k) == (bin.Op == token.NEQ) {
			return true
		}
	}
	return false
}

// c08ErrKnownNil: on the path described by known, error value e is nil: the nil constant (also through a phi decided
// by the path), or a comparison of it with nil has been decided that way.
func c08ErrKnownNil(e ssa.Value, known an.H06Env) bool {
	if e == nil {
		return false
	}
	if k, ok := an.H06Eval(e, known); ok {
		return !an.H06IsNonNil(k) && k.Kind() == constant.String
	}
	e = an.Resolve(e)
	refs := e.Referrers()
	if refs == nil {
		return false
	}
	for _, r := range *refs {
		bin, ok := r.(*ssa.BinOp)
		if !ok || (bin.Op != token.EQL && bin.Op != token.NEQ) || !(an.IsNilConst(bin.X) || an.IsNilConst(bin.Y)) {
			continue
		}
		if k, ok := known(bin); ok && k.Kind() == constant.Bool && constant.BoolVal(k) == (bin.Op == token.EQL) {
			return true
		}
	}
	return false
}

// c08NilReturnPath searches a path from `from` (inclusive when entry) to a return whose error result is nil (definite)
// or, if there is none, to one whose error result is not known to be non-nil (definite == false), under valuation env,
// not passing through stop.
func c08NilReturnPath(fn *ssa.Function, from ssa.Instruction, inclusive bool, env an.H06Env, stop ssa.Instruction) (hit *ssa.Return, definite, found bool) {
	errIdx := c08ErrResult(fn)
	base := func(v ssa.Value) (constant.Value, bool) {
		if env != nil {
			if k, ok := env(v); ok {
				return k, true
			}
		}
		if _, isConst := v.(*ssa.Const); !isConst && an.IsErrorType(v.Type()) && c08NonNilErr(v) {
			return an.H06NonNil, true
		}
		return nil, false
	}
	search := func(onlyDefinite bool) (*ssa.Return, bool) {
		var h *ssa.Return
		_, ok := an.H06Escape(from, an.H06Opt{
			Env:       base,
			Inclusive: inclusive,
			Effect:    func(in ssa.Instruction) bool { return stop != nil && in == stop },
			ReturnOK: func(r *ssa.Return, known an.H06Env) bool {
				if fn.Recover != nil && r.Block() == fn.Recover {
					return true
				}
				vals := returnValues(r)
				if errIdx < 0 || errIdx >= len(vals) {
					return true
				}
				if c08ErrKnownNonNil(vals[errIdx], known) {
					return true
				}
				if onlyDefinite && !c08ErrKnownNil(vals[errIdx], known) {
					return true
				}
				h = r
				return false
			},
		})
		return h, ok
	}
	if h, ok := search(true); ok {
		return h, true, true
	}
	if h, ok := search(false); ok {
		return h, false, true
	}
	return nil, false, false
}

func c08VerifyGate(c *rt.Ctx, name, libFn string) {
	fn := c.Fn("tbls.Herumi." + name)
	pre := "Herumi." + name + " "
	gate := c.OneCall(fn, an.Static(c08BLSName("Sign", libFn)), "bls.Sign."+libFn, false).(*ssa.Call)
	if len(gate.Call.Args) != 3 {
		c.Bail("%s: %s: unexpected arity", an.FuncName(fn), libFn)
	}
	if c08ErrResult(fn) != 0 || fn.Signature.Results().Len() != 1 {
		c.Bail("%s: unexpected result count", an.FuncName(fn))
	}
	cons := pre + "nil only on the true edge of " + libFn
	// (a) no return that may carry a nil error is reachable without consulting the library
	if len(fn.Blocks) == 0 || len(fn.Blocks[0].Instrs) == 0 {
		c.Bail("%s: no body", an.FuncName(fn))
	}
	if r, definite, found := c08NilReturnPath(fn, fn.Blocks[0].Instrs[0], true, nil, gate); found && definite {
		c.Bad(cons, posOf(r), "nil (signature accepted) can be returned on a path that never calls "+libFn)
	} else if found {
		c.Unsure(cons, posOf(r), "cannot tell whether the error returned on a path that never calls "+libFn+" can be nil")
	} else {
		c.Good(cons, gate.Pos(), "every path to a possibly-nil return passes "+libFn)
	}
	// (b) after a false verdict no return that may carry a nil error is reachable
	envFalse := func(v ssa.Value) (constant.Value, bool) {
		if v == ssa.Value(gate) {
			return constant.MakeBool(false), true
		}
		return nil, false
	}
	if r, definite, found := c08NilReturnPath(fn, gate, false, envFalse, gate); found && definite {
		c.Bad(cons, posOf(r), "nil (signature accepted) is returned on a path on which "+libFn+" returned false")
	} else if found {
		c.Unsure(cons, posOf(r), "cannot tell whether the error returned after a false verdict of "+libFn+" can be nil")
	} else {
		c.Good(cons, gate.Pos(), "a false verdict never leads to a nil return")
	}
	// (c) the verdict is used at all (vacuity): after a true verdict a nil return is reachable
	envTrue := func(v ssa.Value) (constant.Value, bool) {
		if v == ssa.Value(gate) {
			return constant.MakeBool(true), true
		}
		return nil, false
	}
	if _, _, found := c08NilReturnPath(fn, gate, false, envTrue, gate); !found {
		c.Unsure(cons, fn.Pos(), "no return of a nil error found after a true verdict")
	}

	sigP := c08ParamsOf(fn, func(t types.Type) bool { return an.TypeName(t) == "tbls.Signature" })
	msgP := c08ParamsOf(fn, func(t types.Type) bool { return types.TypeString(t, nil) == "[]byte" })
	if len(sigP) != 1 || len(msgP) != 1 {
		c.Bail("%s: expected one Signature and one []byte parameter", an.FuncName(fn))
	}
	// signature operand
	cons = pre + "signature operand"
	if res := c08Top(gate.Call.Args[0], gate, nil, "Deserialize"); res.St != "ok" {
		c08Record(c, cons, gate.Pos(), res.St, res.Why)
	} else {
		src, full, ok := c08BytesSrc(res.P.W.Call.Args[1], res.P.F)
		switch {
		case !ok:
			c.Unsure(cons, gate.Pos(), "cannot resolve the bytes the signature is deserialised from")
		case src.F == nil && src.V == ssa.Value(sigP[0]) && full:
			c.Good(cons, gate.Pos(), "")
		case src.F == nil && (src.V == ssa.Value(sigP[0]) || c08IsParam(src.V)):
			c.Bad(cons, gate.Pos(), "the signature checked is not deserialised from the whole signature parameter")
		default:
			c.Unsure(cons, gate.Pos(), "cannot relate the bytes the signature is deserialised from to the signature parameter")
		}
	}
	// message operand
	cons = pre + "message operand"
	switch m := an.Resolve(gate.Call.Args[2]); {
	case m == ssa.Value(msgP[0]):
		c.Good(cons, gate.Pos(), "")
	case c08IsParam(m):
		c.Bad(cons, gate.Pos(), "the message checked is not the data parameter")
	default:
		if sl, ok := m.(*ssa.Slice); ok && sl.Low == nil && sl.High == nil && an.Resolve(sl.X) == ssa.Value(msgP[0]) {
			c.Good(cons, gate.Pos(), "")
		} else if _, ok := m.(*ssa.Const); ok {
			c.Bad(cons, gate.Pos(), "the message checked is a constant, not the data parameter")
		} else {
			c.Unsure(cons, gate.Pos(), "cannot relate the message checked to the data parameter")
		}
	}
	// public key operand(s)
	cons = pre + "public key operand"
	listP := c08ParamsOf(fn, func(t types.Type) bool {
		s, ok := t.Underlying().(*types.Slice)
		return ok && an.TypeName(s.Elem()) == "tbls.PublicKey"
	})
	if len(listP) == 0 {
		pkP := c08ParamsOf(fn, func(t types.Type) bool { return an.TypeName(t) == "tbls.PublicKey" })
		if len(pkP) != 1 {
			c.Bail("%s: expected one PublicKey parameter", an.FuncName(fn))
		}
		res := c08TopM(gate.Call.Args[1], gate, nil, "Deserialize")
		if res.St != "ok" {
			c08Record(c, cons, gate.Pos(), res.St, res.Why)
			return
		}
		src, full, ok := c08BytesSrc(res.P.W.Call.Args[1], res.P.F)
		switch {
		case !ok:
			c.Unsure(cons, gate.Pos(), "cannot resolve the bytes the public key is deserialised from")
		case src.F == nil && src.V == ssa.Value(pkP[0]) && full:
			c.Good(cons, gate.Pos(), "")
			c08MemoReport(c, cons, res, src)
		case src.F == nil && (src.V == ssa.Value(pkP[0]) || c08IsParam(src.V)):
			c.Bad(cons, gate.Pos(), "the public key checked against is not deserialised from the whole public key parameter")
		default:
			c.Unsure(cons, gate.Pos(), "cannot relate the bytes the public key is deserialised from to the public key parameter")
		}
		return
	}
	// list of public keys filled over the whole parameter slice
	if len(listP) != 1 {
		c.Bail("%s: expected one []PublicKey parameter", an.FuncName(fn))
	}
	// the list may be built by a helper that receives the parameter slice
	lfn, keys, list := fn, ssa.Value(listP[0]), gate.Call.Args[1]
	var consume ssa.Instruction = gate
	if g, cons2, in2, ls, st, why := c08Descend(fn, consume, keys, []ssa.Value{list}); st == "ok" {
		lfn, consume, keys, list = g, cons2, in2, ls[0]
	} else if st != "" {
		c08Record(c, cons, gate.Pos(), st, why)
		return
	}
	fl := c08FillOf(lfn, list)
	if fl == nil || fl.Loop == nil {
		c.Unsure(cons, gate.Pos(), "public key operand is not a list filled by a loop")
		return
	}
	l := fl.Loop
	ranges := l.RangeColl() != nil && an.Resolve(l.RangeColl()) == keys
	if fl.Early && ranges && c08ExitReaches(l, consume) != nil {
		c.Bad(cons, gate.Pos(), "the loop over the public keys can be left early towards the check: only a prefix of the keys is verified against")
		return
	}
	if fl.Odd != "" {
		c.Unsure(cons, gate.Pos(), fl.Odd)
		return
	}
	if !ranges || l.Body[consume.Block()] || !l.Header.Dominates(consume.Block()) {
		c.Unsure(cons, gate.Pos(), "the key list is not filled by a loop over the public key parameter that precedes the check")
		return
	}
	if b := c08ExitReaches(l, consume); b != nil {
		c.Bad(cons, posOf(b.Instrs[len(b.Instrs)-1]), "the loop over the public keys can be left early towards the check: only a prefix of the keys is verified against")
		return
	}
	switch fl.Kind {
	case "append":
		if !fl.Start {
			c.Unsure(cons, gate.Pos(), "the key list is not empty when the loop starts")
		}
		for _, sk := range fl.Skips {
			pred := l.Header.Preds[sk.Pred]
			c.Bad(cons, posOf(pred.Instrs[len(pred.Instrs)-1]), "an iteration can skip its public key: the aggregate is verified against a subset of the given keys")
		}
	case "index":
		switch {
		case !c08LenOf(fl.Make.Len, keys):
			c.Unsure(cons, gate.Pos(), "the key list is not made with len(keys) elements")
			return
		case !c08IsLoopIndex(l, fl.Index):
			c.Unsure(cons, gate.Pos(), "the key list is not written at the position of the key")
			return
		case !c08EveryIteration(l, fl.Puts[0].At):
			c.Bad(cons, fl.Puts[0].At.Pos(), "an iteration can skip its public key: the aggregate is verified against a list with zero keys in it")
			return
		}
	}
	for _, put := range fl.Puts {
		res := c08TopM(put.Elem, put.At, nil, "Deserialize")
		if res.St != "ok" {
			c08Record(c, cons, put.At.Pos(), res.St, res.Why)
			continue
		}
		src, full, ok := c08BytesSrc(res.P.W.Call.Args[1], res.P.F)
		switch {
		case !ok:
			c.Unsure(cons, put.At.Pos(), "cannot resolve the bytes the public key is deserialised from")
		case src.F == nil && full && l.ElemOf(src.V):
			c.Good(cons, put.At.Pos(), "")
			c08MemoReport(c, cons, res, src)
		case src.F == nil && !full && l.ElemOf(src.V):
			c.Bad(cons, put.At.Pos(), "the key appended is not deserialised from the whole element of this iteration")
		default:
			c.Unsure(cons, put.At.Pos(), "cannot relate the bytes the key is deserialised from to the element of this iteration")
		}
	}
}

func c08IsParam(v ssa.Value) bool { _, ok := v.(*ssa.Parameter); return ok }

// c08IsLoopIndex: v is the position of the current element of the slice loop l (its index variable).
func c08IsLoopIndex(l *an.Loop, v ssa.Value) bool {
	lin := c08LinOf(v, nil)
	if lin.isConst() || lin.Base.F != nil {
		return false
	}
	ct := c08CounterOf(lin.Base.V)
	if ct == nil || ct.Loop.Header != l.Header || ct.Step != 1 {
		return false
	}
	rng, ok := c08CounterRange(ct, lin.K)
	return ok && rng.Lo.isConst() && rng.Lo.K == 0
}

func c08ZeroSig(c *rt.Ctx) {
	fn := c.Fn(c09SigningPkg + ".Verify")
	cons := "signing.Verify rejects the zero signature before tbls.Verify"
	sigP := c09ParamOfType(c, fn, "github.com/attestantio/go-eth2-client/spec/phase0.BLSSignature")
	// the instruction through which the signature reaches tbls.Verify: the call itself, or the call of an in-package
	// helper that hands its parameter on to tbls.Verify
	var reaches func(g *ssa.Function, d int) bool
	reaches = func(g *ssa.Function, d int) bool {
		if len(an.Calls(g, an.Static("tbls.Verify"), true)) > 0 {
			return true
		}
		if d > 2 {
			return false
		}
		for _, in := range an.Instrs(g, true) {
			if call, ok := in.(*ssa.Call); ok {
				if h := c08InPkgCallee(call); h != nil && h != g && reaches(h, d+1) {
					return true
				}
			}
		}
		return false
	}
	var sinks []ssa.CallInstruction
	for _, in := range an.Instrs(fn, false) {
		call, ok := in.(*ssa.Call)
		if !ok {
			continue
		}
		if an.Static("tbls.Verify")(&call.Call) {
			sinks = append(sinks, call)
			continue
		}
		if h := c08InPkgCallee(call); h != nil && h != fn && reaches(h, 0) {
			sinks = append(sinks, call)
		}
	}
	if len(sinks) != 1 {
		c.Bail("expected exactly one call leading to tbls.Verify in %s, found %d", an.FuncName(fn), len(sinks))
	}
	tv := sinks[0]
	// what is decided once the signature is all zero: comparisons of the parameter with the zero value, and the boolean
	// results of in-package predicates that receive it (`isZeroSignature(signature)`)
	known := c08ZeroKnown(fn, sigP, 0)
	env := func(v ssa.Value) (constant.Value, bool) {
		if b, ok := known[v]; ok {
			return constant.MakeBool(b), true
		}
		return nil, false
	}
	found := false
	seen := false
	unsureWhy := ""
	why := "no comparison of the signature parameter with the zero signature guards tbls.Verify"
	for _, b := range fn.Blocks {
		if len(b.Instrs) == 0 {
			continue
		}
		iff, ok := b.Instrs[len(b.Instrs)-1].(*ssa.If)
		if !ok {
			continue
		}
		if k, ok := an.H06Eval(iff.Cond, env); !ok || k.Kind() != constant.Bool {
			continue // not a test that the zero signature decides
		}
		seen = true
		// under signature == zero no path leads to tbls.Verify, and no path leads to a return that may carry nil
		if !an.Dominates(iff, tv) {
			why = "the zero-signature test does not precede tbls.Verify on every path"
			continue
		}
		if _, reach := an.H06Escape(iff, an.H06Opt{Env: env, Target: tv, Inclusive: true}); reach {
			why = "tbls.Verify is still reached when the signature is all zero"
			continue
		}
		if _, definite, nilRet := c08NilReturnPath(fn, iff, true, env, nil); nilRet && definite {
			why = "the zero-signature edge can return a nil error"
			continue
		} else if nilRet {
			unsureWhy = "cannot tell whether the error returned for the zero signature can be nil"
			continue
		}
		found = true
	}
	switch {
	case found:
		c.Good(cons, tv.Pos(), "")
	case seen && unsureWhy != "":
		c.Unsure(cons, tv.Pos(), unsureWhy)
	case seen:
		c.Bad(cons, tv.Pos(), why)
	default:
		// no recognisable comparison: a defect only if the parameter visibly goes nowhere but into tbls.Verify
		other := false
		for _, ref := range *sigP.Referrers() {
			switch x := ref.(type) {
			case *ssa.DebugRef:
			case *ssa.ChangeType, *ssa.Convert:
				for _, r2 := range *x.(ssa.Value).Referrers() {
					if r2 != ssa.Instruction(tv.(*ssa.Call)) {
						if _, dbg := r2.(*ssa.DebugRef); !dbg {
							other = true
						}
					}
				}
			default:
				if ref != ssa.Instruction(tv.(*ssa.Call)) {
					other = true
				}
			}
		}
		if other {
			c.Unsure(cons, tv.Pos(), "the signature parameter is examined in a way this rule does not recognise")
		} else {
			c.Bad(cons, tv.Pos(), why)
		}
	}
}

// c08IsZeroValue: v is the zero value of its type: the zero constant, a composite literal without elements or a
// `var zero T` that is never assigned.
func c08IsZeroValue(v ssa.Value) bool {
	v = an.Unwrap(v)
	if k, ok := v.(*ssa.Const); ok {
		return k.Value == nil
	}
	if al := c08LoadOf(v); al != nil { // kept in memory and never assigned
		l := c08LocalOf(al, 0)
		return l.defs() == 0 && len(l.Unknown) == 0
	}
	return false
}

// c08ZeroKnown: the boolean values of g that are decided when value p (a parameter of a fixed-size array type) is the
// zero value of its type, with their truth: `p == T{}` / `p != zero` (either order, through value-preserving type
// changes), bytes.Equal(p[:], zero[:]), and the result of an in-package predicate that receives p and whose every
// return is decided the same way by what is known inside it.
func c08ZeroKnown(g *ssa.Function, p ssa.Value, d int) map[ssa.Value]bool {
	known := map[ssa.Value]bool{}
	isP := func(v ssa.Value) bool { return v == p || an.Unwrap(v) == p || c08Resolve(v) == p }
	// p[:]: a slice of the whole of the variable that holds nothing but p
	sliceOf := func(v ssa.Value, pred func(al *ssa.Alloc) bool) bool {
		sl, ok := an.Unwrap(v).(*ssa.Slice)
		if !ok || sl.Low != nil || sl.High != nil || sl.Max != nil {
			return false
		}
		al, ok := sl.X.(*ssa.Alloc)
		return ok && pred(al)
	}
	// the stores into a variable that is otherwise only read (loads, whole slices handed to bytes.Equal)
	storesOf := func(al *ssa.Alloc) (vals []ssa.Value, ok bool) {
		for _, ref := range *al.Referrers() {
			switch x := ref.(type) {
			case *ssa.DebugRef:
			case *ssa.UnOp:
				if x.Op != token.MUL {
					return nil, false
				}
			case *ssa.Store:
				if x.Addr != ssa.Value(al) || x.Val == ssa.Value(al) {
					return nil, false
				}
				vals = append(vals, x.Val)
			case *ssa.Slice:
				for _, r2 := range *x.Referrers() {
					if call, isCall := r2.(*ssa.Call); isCall && an.CalleeName(&call.Call) == "bytes.Equal" {
						continue
					}
					if _, dbg := r2.(*ssa.DebugRef); !dbg {
						return nil, false
					}
				}
			default:
				return nil, false
			}
		}
		return vals, true
	}
	holdsP := func(al *ssa.Alloc) bool {
		vals, ok := storesOf(al)
		return ok && len(vals) == 1 && isP(vals[0])
	}
	holdsZero := func(al *ssa.Alloc) bool {
		vals, ok := storesOf(al)
		if !ok {
			return false
		}
		for _, v := range vals {
			if !c08IsZeroValue(v) {
				return false
			}
		}
		return true
	}
	for _, in := range an.Instrs(g, false) {
		switch x := in.(type) {
		case *ssa.BinOp:
			if x.Op != token.EQL && x.Op != token.NEQ {
				continue
			}
			if (isP(x.X) && c08IsZeroValue(x.Y)) || (isP(x.Y) && c08IsZeroValue(x.X)) {
				known[x] = x.Op == token.EQL
			}
		case *ssa.Call:
			if an.CalleeName(&x.Call) == "bytes.Equal" && len(x.Call.Args) == 2 {
				a, b := x.Call.Args[0], x.Call.Args[1]
				if (sliceOf(a, holdsP) && sliceOf(b, holdsZero)) || (sliceOf(b, holdsP) && sliceOf(a, holdsZero)) {
					known[x] = true
				}
				continue
			}
			h := c08InPkgCallee(x)
			if h == nil || h == g || d > 2 || h.Signature.Results().Len() != 1 {
				continue
			}
			if bt, ok := h.Signature.Results().At(0).Type().Underlying().(*types.Basic); !ok || bt.Kind() != types.Bool {
				continue
			}
			for i, a := range x.Call.Args {
				if !isP(a) || i >= len(h.Params) {
					continue
				}
				if truth, ok := c08ZeroVerdict(h, h.Params[i], d+1); ok {
					known[x] = truth
				}
			}
		}
	}
	return known
}

// c08ZeroVerdict: predicate h returns the same boolean on every path that is feasible when its parameter p is zero.
func c08ZeroVerdict(h *ssa.Function, p *ssa.Parameter, d int) (truth, ok bool) {
	known := c08ZeroKnown(h, p, d)
	if len(known) == 0 || len(h.Blocks) == 0 || len(h.Blocks[0].Instrs) == 0 || h.Recover != nil {
		return false, false
	}
	env := func(v ssa.Value) (constant.Value, bool) {
		if b, ok := known[v]; ok {
			return constant.MakeBool(b), true
		}
		return nil, false
	}
	n, undecided := 0, false
	var verdict bool
	an.H06Escape(h.Blocks[0].Instrs[0], an.H06Opt{
		Env:       env,
		Inclusive: true,
		ReturnOK: func(r *ssa.Return, kn an.H06Env) bool {
			if len(r.Results) != 1 {
				undecided = true
				return true
			}
			k, ok := an.H06Eval(r.Results[0], kn)
			if !ok || k.Kind() != constant.Bool {
				undecided = true
				return true
			}
			if n > 0 && verdict != constant.BoolVal(k) {
				undecided = true
			}
			verdict = constant.BoolVal(k)
			n++
			return true // keep searching: every feasible return is visited
		},
	})
	if undecided || n == 0 {
		return false, false
	}
	return verdict, true
}
