package rules

import (
	"fmt"
	"go/token"
	"go/types"
	"math"
	"strings"

	"golang.org/x/tools/go/ssa"

	"charonverif/internal/an"
	"charonverif/internal/rt"
)

// T12 — producer and verifier count against the same thresholds.
//
// Mechanism. Every step of the algorithm that waits for "enough" messages exists twice: the member that acts on the
// messages (classify, getJustifiedQrc, getFPlus1RoundChanges: it proposes / jumps as soon as its count reaches the
// threshold, and attaches exactly what it has) and the members that verify the resulting message
// (containsJustifiedQrc, isJustifiedDecided, …). The protocol has two thresholds only, the quorum q = ceil(2n/3)
// and f+1 with f = floor((n-1)/3). If one site counts against a number that differs from both for a cluster size
// the property quantifies over, the two sides of that step disagree for that size: a verifier that wants more than
// q rejects the honest proposal built as soon as q was reached (no termination, an honest message rejected as
// unjustified), a producer that acts below q is rejected by every verifier.
//
// Rule. Every integer comparison in core/qbft whose outcome depends on the cluster size (Definition.Nodes, read
// directly or through Quorum()/Faulty()/in-package helpers/locals/parameters bound at the in-package call sites)
// and on exactly one other unknown (the count) is interpreted numerically: for n = 4..7 and count = 0..3n the
// comparison is evaluated and the count at which it flips, T(n), is derived — whatever the spelling (operand order,
// strictness, arithmetic on either side, `3*len(x) < 2*d.Nodes`). T(4..7) must equal q(4..7) or (f+1)(4..7).
// VIOLATION when the count is positively a number of messages (len of a collection of Msg, or a counter that is not
// the induction variable of the loop the comparison controls) and T differs; UNDECIDED when T differs for a count
// of unknown kind; comparisons that are not thresholds (no flip, no dependence on n) are not in the rule's domain.

func init() {
	Extend("C04", "(T12) every comparison of a number of messages with a bound that depends on the cluster size in core/qbft, interpreted numerically for 4..7 members, flips exactly at the quorum ceil(2n/3) or at f+1 (f = floor((n-1)/3)): the member that acts on a count and the members that verify the resulting message use the same threshold for every cluster size.",
		c04Thresholds,
		// verifier of the DECIDED message wants n-f COMMITs (integer spelling, differs from the quorum for n=6)
		Mutant{ID: "C04-T12-decided-needs-n-minus-f", File: "core/qbft/qbft.go", Expect: "T12",
			Old: "\treturn len(commits) >= d.Quorum()", New: "\treturn len(commits) >= d.Nodes-(d.Nodes-1)/3"},
		// producer side: the prepared certificate is accepted with 2n/3 (integer division) + 1 PREPAREs, counter form
		Mutant{ID: "C04-T12-prepares-two-thirds-plus-one", File: "core/qbft/qbft.go", Expect: "T12",
			Old: "\treturn pr, pv, count >= d.Quorum()", New: "\treturn pr, pv, count > d.Nodes*2/3"},
		// the f+1 jump waits for n/3+1 ROUND-CHANGEs (2,2,3,3 instead of 2,2,2,3): with 6 members nobody jumps on f+1
		Mutant{ID: "C04-T12-fplus1-third-of-nodes", File: "core/qbft/qbft.go", Expect: "T12",
			Old: "\tif len(highestBySource) < d.Faulty()+1 {", New: "\tif len(highestBySource) < d.Nodes/3+1 {"},
		// multiplied-out spelling with the wrong rounding: 3*count <= 2n  <=>  count < floor(2n/3)+1
		Mutant{ID: "C04-T12-multiplied-out-wrong-rounding", File: "core/qbft/qbft.go", Expect: "T12",
			Old: "\t\tif len(msgs) < d.Quorum() {", New: "\t\tif 3*len(msgs) <= 2*d.Nodes {"},
	)
}

type n5Ctx struct {
	env  *n4Env
	name string
}

// n5Leaves collects the leaves of an integer expression (through arithmetic, conversions, single-store locals and
// parameters bound by env).
func n5Leaves(v ssa.Value, env *n4Env, d int, out *[]ssa.Value) {
	if d > 12 {
		*out = append(*out, v)
		return
	}
	switch x := v.(type) {
	case *ssa.Const:
		return
	case *ssa.BinOp:
		switch x.Op {
		case token.ADD, token.SUB, token.MUL, token.QUO, token.REM, token.SHL:
			n5Leaves(x.X, env, d+1, out)
			n5Leaves(x.Y, env, d+1, out)
			return
		}
	case *ssa.Convert:
		n5Leaves(x.X, env, d+1, out)
		return
	case *ssa.ChangeType:
		n5Leaves(x.X, env, d+1, out)
		return
	case *ssa.UnOp:
		if x.Op == token.SUB {
			n5Leaves(x.X, env, d+1, out)
			return
		}
		if al, ok := x.X.(*ssa.Alloc); ok && x.Op == token.MUL {
			if src := an.UniqueStore(al); src != nil {
				n5Leaves(src, env, d+1, out)
				return
			}
		}
	case *ssa.Phi:
		if len(x.Edges) == 1 {
			n5Leaves(x.Edges[0], env, d+1, out)
			return
		}
	case *ssa.Parameter:
		if env != nil && env.fn == x.Parent() {
			if i := an.ParamIndex(x); i < len(env.args) {
				n5Leaves(env.args[i], env.up, d+1, out)
				return
			}
		}
	}
	*out = append(*out, v)
}

// n5IsMsgColl: a slice / map / array of consensus messages.
func n5IsMsgColl(t types.Type) bool {
	var el types.Type
	switch u := t.Underlying().(type) {
	case *types.Slice:
		el = u.Elem()
	case *types.Array:
		el = u.Elem()
	case *types.Map:
		el = u.Elem()
	default:
		return false
	}
	if n5IsMsgColl(el) {
		return true
	}
	return strings.HasPrefix(hxStrip(an.TypeName(el)), c02P+".Msg")
}

// n5CountKind: 2 = positively a number of messages, 1 = unknown kind, 0 = not a count (loop induction variable of
// the loop the comparison itself controls).
func n5CountKind(leaf ssa.Value, bin *ssa.BinOp) int {
	switch x := leaf.(type) {
	case *ssa.Call:
		if b, ok := x.Call.Value.(*ssa.Builtin); ok && b.Name() == "len" && len(x.Call.Args) == 1 {
			if n5IsMsgColl(x.Call.Args[0].Type()) {
				return 2
			}
			return 1
		}
	case *ssa.Phi:
		if x.Block() == bin.Block() {
			return 0
		}
		// a counter: every non-initial edge adds a constant to the phi itself
		for _, ed := range x.Edges {
			if _, isC := ed.(*ssa.Const); isC {
				continue
			}
			if !n5StepsFrom(ed, x, 0) {
				return 1
			}
		}
		return 2
	}
	return 1
}

func n5StepsFrom(v ssa.Value, p *ssa.Phi, d int) bool {
	if d > 6 {
		return false
	}
	switch x := v.(type) {
	case *ssa.Phi:
		if x == p {
			return true
		}
		for _, ed := range x.Edges {
			if !n5StepsFrom(ed, p, d+1) {
				return false
			}
		}
		return len(x.Edges) > 0
	case *ssa.BinOp:
		if _, isC := an.ConstInt(x.Y); isC && (x.Op == token.ADD) {
			return n5StepsFrom(x.X, p, d+1)
		}
	}
	return false
}

func n5Truth(op token.Token, a, b float64) bool {
	switch op {
	case token.LSS:
		return a < b
	case token.LEQ:
		return a <= b
	case token.GTR:
		return a > b
	case token.GEQ:
		return a >= b
	case token.EQL:
		return a == b
	}
	return a != b
}

// n5Flip: the count at which the truth row flips (false…true, true…false, a single true, a single false).
func n5Flip(row []bool) (int, bool) {
	changes, at := 0, -1
	for i := 1; i < len(row); i++ {
		if row[i] != row[i-1] {
			changes++
			if at < 0 {
				at = i
			}
		}
	}
	switch changes {
	case 1:
		return at, true
	case 2:
		// equality forms: exactly one position differs from the rest
		if at+1 < len(row) && row[at+1] == row[at-1] {
			return at, true
		}
	}
	return 0, false
}

func c04Thresholds(c *rt.Ctx) {
	c.Rule("T12", 8, func() {
		sp := c.SSAPkg(c02P)
		fns := an.PkgFuncsAll(sp)
		var qv, fv [4]int
		for n := 4; n <= 7; n++ {
			qv[n-4] = int(math.Ceil(float64(2*n) / 3))
			fv[n-4] = int(math.Floor(float64(n-1)/3)) + 1
		}
		for _, fn := range fns {
			k := 0
			// the in-package call sites of fn (a comparison on parameters is judged once per call site)
			var sites []ssa.CallInstruction
			var callers []*ssa.Function
			for _, g := range fns {
				for _, ci := range an.Calls(g, func(cc *ssa.CallCommon) bool {
					f := cc.StaticCallee()
					return f != nil && an.Orig(f) == an.Orig(fn)
				}, false) {
					sites = append(sites, ci)
					callers = append(callers, g)
				}
			}
			for _, in := range an.Instrs(fn, false) {
				bin, ok := in.(*ssa.BinOp)
				if !ok || !isCompare(bin.Op) || !n4IsInt(bin.X.Type()) || !n4IsInt(bin.Y.Type()) {
					continue
				}
				ctxs := []n5Ctx{{nil, ""}}
				var raw []ssa.Value
				n5Leaves(bin.X, nil, 0, &raw)
				n5Leaves(bin.Y, nil, 0, &raw)
				hasParam := false
				for _, l := range raw {
					if p, isP := l.(*ssa.Parameter); isP && p.Parent() == fn {
						hasParam = true
					}
				}
				if hasParam && len(sites) > 0 {
					ctxs = nil
					for i, ci := range sites {
						ctxs = append(ctxs, n5Ctx{&n4Env{fn: fn, args: ci.Common().Args}, fmt.Sprintf(" called from %s #%d", hxStrip(an.FuncName(callers[i])), i+1)})
					}
				}
				counted := false
				for _, cx := range ctxs {
					var leaves []ssa.Value
					n5Leaves(bin.X, cx.env, 0, &leaves)
					n5Leaves(bin.Y, cx.env, 0, &leaves)
					var count ssa.Value
					multi, usesN := false, false
					for _, l := range leaves {
						e := &n4Eval{n: 4, fns: fns, nodesDirect: true}
						if _, ok := e.num(l, nil, 0); ok {
							usesN = usesN || e.usedN
							continue
						}
						if count != nil && count != l {
							multi = true
						}
						count = l
					}
					if !usesN || count == nil || multi || !n4IsInt(count.Type()) {
						continue
					}
					kind := n5CountKind(count, bin)
					if kind == 0 {
						continue
					}
					var tv [4]int
					okAll := true
					for n := 4; n <= 7 && okAll; n++ {
						row := make([]bool, 0, 3*n+3)
						for cnt := 0; cnt <= 3*n+2; cnt++ {
							e := &n4Eval{n: n, fns: fns, nodesDirect: true, subst: map[ssa.Value]float64{count: float64(cnt)}}
							a, ok1 := e.num(bin.X, cx.env, 0)
							b, ok2 := e.num(bin.Y, cx.env, 0)
							if !ok1 || !ok2 {
								okAll = false
								break
							}
							row = append(row, n5Truth(bin.Op, a, b))
						}
						if !okAll {
							break
						}
						t, ok := n5Flip(row)
						if !ok {
							okAll = false
							break
						}
						tv[n-4] = t
					}
					if !okAll {
						continue
					}
					if !counted {
						k++
						counted = true
					}
					key := hxStrip(an.FuncName(fn)) + " size-dependent threshold #" + fmt.Sprint(k) + cx.name
					switch {
					case tv == qv:
						c.Good(key, posOf(bin), "flips at the quorum for 4..7 members")
					case tv == fv:
						c.Good(key, posOf(bin), "flips at f+1 for 4..7 members")
					default:
						n := 4
						for ; n < 7 && (tv[n-4] == qv[n-4] || tv[n-4] == fv[n-4]); n++ {
						}
						if tv[n-4] == qv[n-4] || tv[n-4] == fv[n-4] { // each entry matches one of the two, but not one class throughout
							for n = 4; n < 7 && tv[n-4] == qv[n-4]; n++ {
							}
						}
						detail := fmt.Sprintf("the count is compared with a bound that flips at %v for 4,5,6,7 members; the quorum used by the other sites is %v and f+1 is %v: with %d members this site wants %d messages where the member on the other side of the same step (which acts on / attaches exactly a quorum %d, or f+1 = %d) counts differently — an honest message built at the threshold is rejected here, or this site acts on a count no verifier accepts", tv, qv, fv, n, tv[n-4], qv[n-4], fv[n-4])
						if kind == 2 {
							c.Bad(key, posOf(bin), detail)
						} else {
							c.Unsure(key, posOf(bin), "the compared value is not recognisably a number of messages; "+detail)
						}
					}
				}
			}
		}
	})
}
