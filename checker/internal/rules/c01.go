package rules

import (
	"fmt"
	"go/token"
	"go/types"
	"sort"
	"strings"

	"golang.org/x/tools/go/ssa"

	"charonverif/internal/an"
	"charonverif/internal/load"
	"charonverif/internal/rt"
)

func init() {
	Register(&Prop{
		ID: "C01",
		Decides: "pipeline integrity: (R1) in core.Wire every function that stores, aggregates or publishes duty data is reachable only through its " +
			"upstream stage (Broadcaster.Broadcast and AggSigDB.Store only from SigAgg.Subscribe; SigAgg.Aggregate only from ParSigDB.SubscribeThreshold; " +
			"ParSigDB.StoreExternal only from ParSigEx.Subscribe; ParSigDB.StoreInternal only from ValidatorAPI.Subscribe; DutyDB.Store only from " +
			"Consensus.Subscribe; Consensus.Propose only from Fetcher.Subscribe), the validator API and the fetcher read agreed data from the matching DutyDB " +
			"query, and each wire field is bound to the interface method of the component it names; (R1b) every WireOption wrapper forwards to the " +
			"function it replaces with the duty and data it was given; (R2) signed-duty Submit* methods of a beacon client are called only by " +
			"bcast.Broadcaster.Broadcast, the eth2wrap wrappers and the operator-driven exit CLI, and a beacon client is never narrowed to a bare " +
			"submitter interface elsewhere; (R3) app.wireCoreWorkflow builds the components given to core.Wire with the verifying constructors " +
			"(sigagg.New+NewVerifier, parsigex.NewParSigEx+NewEth2Verifier+NewDutyGater, validatorapi.NewComponent, parsigdb.NewMemDB) and one lock.Threshold. " +
			"Re-used from other properties: C06-D2 (a clash never overwrites), C07-P3 (trigger group = one message root), C09-G1/G2/G6 (verify before publish), C10-H6.",
		NotDecided: "consensus agreement across nodes (C02), cryptographic unforgeability, behaviour under crash/reorder schedules; equality of signing roots as values.",
		Run:        c01,
		Mutants:    c01Mutants,
	})
}

func c01(c *rt.Ctx) {
	c.Rule("R1", 15, func() { c01R1(c) })
	c.Rule("R1b", 28, func() { c01R1b(c) })
	c.Rule("R2", 8, func() { c01R2(c) })
	c.Rule("R3", 13, func() { c01R3(c) })
}

// ---------------------------------------------------------------------------------------------
// shared helpers

const c01WF = "core.wireFuncs"

// c01FieldLoad: v is a read of a field of a core.wireFuncs value; returns the field name.
func c01FieldLoad(v ssa.Value) (string, bool) {
	switch x := v.(type) {
	case *ssa.UnOp:
		if x.Op == token.MUL {
			if fa, ok := x.X.(*ssa.FieldAddr); ok && an.TypeName(fa.X.Type()) == c01WF {
				return c01FieldName(fa.X.Type(), fa.Field), true
			}
		}
	case *ssa.Field:
		if an.TypeName(x.X.Type()) == c01WF {
			return c01FieldName(x.X.Type(), x.Field), true
		}
	}
	return "", false
}

func c01FieldName(t types.Type, idx int) string {
	k := an.FieldKey(t, idx)
	return k[strings.LastIndex(k, ".")+1:]
}

// c01FieldValue resolves a value (through conversions and single-assignment locals) to a wire field read.
func c01FieldValue(v ssa.Value) (string, bool) { return c01FieldLoad(an.Resolve(v)) }

// c01FuncValue resolves v to a function literal (closure or plain function declared inside another function).
func c01FuncValue(v ssa.Value) *ssa.Function {
	switch x := an.Resolve(v).(type) {
	case *ssa.MakeClosure:
		f, _ := x.Fn.(*ssa.Function)
		return f
	case *ssa.Function:
		return x
	}
	return nil
}

func c01Root(f *ssa.Function) *ssa.Function {
	for f.Parent() != nil {
		f = f.Parent()
	}
	return f
}

// c01FieldCalls lists the calls inside g (nested literals included) whose callee is a wire field.
func c01FieldCalls(g *ssa.Function) map[ssa.CallInstruction]string {
	out := map[ssa.CallInstruction]string{}
	for _, in := range an.Instrs(g, true) {
		ci, ok := in.(ssa.CallInstruction)
		if !ok || ci.Common().IsInvoke() {
			continue
		}
		if f, ok := c01FieldValue(ci.Common().Value); ok {
			out[ci] = f
		}
	}
	return out
}

// c01Cell follows a captured variable (pointer cell) to the Alloc in the declaring function.
func c01Cell(p ssa.Value) *ssa.Alloc {
	for i := 0; i < 8; i++ {
		switch x := p.(type) {
		case *ssa.Alloc:
			return x
		case *ssa.FreeVar:
			g := x.Parent()
			idx := -1
			for j, fv := range g.FreeVars {
				if fv == x {
					idx = j
				}
			}
			if idx < 0 || g.Parent() == nil {
				return nil
			}
			var bind ssa.Value
			n := 0
			for _, in := range an.Instrs(g.Parent(), false) {
				if mc, ok := in.(*ssa.MakeClosure); ok && mc.Fn == ssa.Value(g) {
					n++
					bind = mc.Bindings[idx]
				}
			}
			if n != 1 {
				return nil
			}
			p = bind
		default:
			return nil
		}
	}
	return nil
}

// c01ParamOf resolves v to the parameter it is an unmodified copy of (through captured variables).
func c01ParamOf(v ssa.Value) *ssa.Parameter {
	for i := 0; i < 8; i++ {
		v = an.Resolve(v)
		switch x := v.(type) {
		case *ssa.Parameter:
			return x
		case *ssa.Call:
			// p.Clone(): a deep copy carries the same data (clone discipline itself is C18's subject)
			cc := x.Common()
			switch {
			case cc.IsInvoke() && cc.Method.Name() == "Clone" && len(cc.Args) == 0:
				v = cc.Value
			case !cc.IsInvoke() && cc.StaticCallee() != nil && cc.StaticCallee().Name() == "Clone" && len(cc.Args) == 1:
				v = cc.Args[0]
			default:
				return nil
			}
		case *ssa.Extract:
			call, ok := x.Tuple.(*ssa.Call)
			if !ok || x.Index != 0 {
				return nil
			}
			v = call
		case *ssa.UnOp:
			if x.Op != token.MUL {
				return nil
			}
			al := c01Cell(x.X)
			if al == nil {
				return nil
			}
			src := an.UniqueStore(al)
			if src == nil {
				return nil
			}
			v = src
		default:
			return nil
		}
	}
	return nil
}

func c01IsContext(t types.Type) bool { return types.TypeString(t, nil) == "context.Context" }

func c01DominatesReturns(in ssa.Instruction) bool {
	for _, r := range an.Returns(in.Parent()) {
		if r.Block() != in.Block() && !in.Block().Dominates(r.Block()) {
			return false
		}
	}
	return true
}

// ---------------------------------------------------------------------------------------------
// R1: the subscription graph of core.Wire

// sink role -> the only subscription it may be handed to.
var c01OnlyFrom = [][2]string{
	{"core.Broadcaster.Broadcast", "core.SigAgg.Subscribe"},
	{"core.AggSigDB.Store", "core.SigAgg.Subscribe"},
	{"core.SigAgg.Aggregate", "core.ParSigDB.SubscribeThreshold"},
	{"core.ParSigDB.StoreExternal", "core.ParSigEx.Subscribe"},
	{"core.ParSigDB.StoreInternal", "core.ValidatorAPI.Subscribe"},
	{"core.DutyDB.Store", "core.Consensus.Subscribe"},
	{"core.Consensus.Propose", "core.Fetcher.Subscribe"},
}

// registration role -> the only provider it may receive.
var c01Provider = [][2]string{
	{"core.ValidatorAPI.RegisterAwaitProposal", "core.DutyDB.AwaitProposal"},
	{"core.ValidatorAPI.RegisterAwaitAttestation", "core.DutyDB.AwaitAttestation"},
	{"core.ValidatorAPI.RegisterAwaitSyncContribution", "core.DutyDB.AwaitSyncContribution"},
	{"core.ValidatorAPI.RegisterAwaitAggAttestation", "core.DutyDB.AwaitAggAttestation"},
	{"core.ValidatorAPI.RegisterPubKeyByAttestation", "core.DutyDB.PubKeyByAttestation"},
	{"core.ValidatorAPI.RegisterAwaitAggSigDB", "core.AggSigDB.Await"},
	{"core.Fetcher.RegisterAwaitAttData", "core.DutyDB.AwaitAttestation"},
}

type c01Verdict struct {
	bad, unsure []string
	okAt        ssa.Instruction
	okCalls     []ssa.Instruction // every accepted hand-over made in core.Wire's own body
	pos         token.Pos
}

// ok records an accepted hand-over; the verdict holds when the accepted hand-overs together lie on every path of
// core.Wire (if/else or switch arms that each make the subscription count).
func (v *c01Verdict) ok(in ssa.Instruction) {
	v.okCalls = append(v.okCalls, in)
	set := map[ssa.Instruction]bool{}
	for _, k := range v.okCalls {
		set[k] = true
	}
	fn := in.Parent()
	for _, r := range an.Returns(fn) {
		if c01ReachAvoiding(fn, r, set) {
			return
		}
	}
	if v.okAt == nil {
		v.okAt = v.okCalls[0]
	}
}

func (v *c01Verdict) fail(pos token.Pos, s string) {
	v.bad = append(v.bad, s)
	if !v.pos.IsValid() {
		v.pos = pos
	}
}
func (v *c01Verdict) dunno(pos token.Pos, s string) {
	v.unsure = append(v.unsure, s)
	if !v.pos.IsValid() {
		v.pos = pos
	}
}

func c01R1(c *rt.Ctx) {
	wire := c.Fn("core.Wire")
	corePkg := c.Pkg("core").Types
	// every role named in the tables must exist as an interface method of package core
	roleExists := func(role string) {
		parts := strings.Split(strings.TrimPrefix(role, "core."), ".")
		it := lookupIface(c, "core", parts[0])
		for i := 0; i < it.NumMethods(); i++ {
			if it.Method(i).Name() == parts[1] {
				return
			}
		}
		c.Bail("interface method %s not found", role)
	}
	for _, t := range [][][2]string{c01OnlyFrom, c01Provider} {
		for _, e := range t {
			roleExists(e[0])
			roleExists(e[1])
		}
	}
	wfObj := corePkg.Scope().Lookup("wireFuncs")
	if wfObj == nil {
		c.Bail("type core.wireFuncs not found")
	}
	wfStruct, ok := wfObj.Type().Underlying().(*types.Struct)
	if !ok {
		c.Bail("core.wireFuncs is not a struct")
	}

	// ---- the wireFuncs value(s) of Wire must not leave the function except through the options
	var wfVals []ssa.Value
	for _, g := range an.Closure(wire) {
		for _, fv := range g.FreeVars {
			if an.TypeName(fv.Type()) == c01WF {
				wfVals = append(wfVals, fv)
			}
		}
	}
	for _, in := range an.Instrs(wire, true) {
		v, isVal := in.(ssa.Value)
		if !isVal || an.TypeName(v.Type()) != c01WF {
			continue
		}
		switch in.(type) {
		case *ssa.Alloc, *ssa.UnOp:
			wfVals = append(wfVals, v)
		default:
			c.Unsure("core.Wire wireFuncs value", posOf(in), fmt.Sprintf("wireFuncs value produced by %T is not followed", in))
			return
		}
	}
	for _, v := range wfVals {
		if v.Referrers() == nil {
			continue
		}
		for _, ref := range *v.Referrers() {
			okUse := false
			switch r := ref.(type) {
			case *ssa.FieldAddr, *ssa.Field, *ssa.DebugRef:
				okUse = true
			case *ssa.UnOp:
				okUse = r.Op == token.MUL
			case *ssa.Store:
				// whole-struct copy between two wireFuncs locals
				_, dstAlloc := r.Addr.(*ssa.Alloc)
				okUse = dstAlloc && an.TypeName(r.Val.Type()) == c01WF
			case *ssa.MakeClosure:
				okUse = true // the literal's body is analysed with Wire
			case ssa.CallInstruction:
				cc := r.Common()
				okUse = !cc.IsInvoke() && cc.StaticCallee() == nil && an.TypeName(cc.Value.Type()) == "core.WireOption" && cc.Value != v
			}
			if !okUse {
				c.Unsure("core.Wire wireFuncs value", posOf(ref), "the wiring table is handed to code that is not analysed: the subscription graph cannot be decided")
				return
			}
		}
	}

	// ---- bindings: field -> interface method of a Wire parameter
	role := map[string]string{}
	nStores := map[string]int{}
	bindPos := map[string]token.Pos{}
	for _, in := range an.Instrs(wire, true) {
		st, ok := in.(*ssa.Store)
		if !ok {
			continue
		}
		fa, ok := st.Addr.(*ssa.FieldAddr)
		if !ok || an.TypeName(fa.X.Type()) != c01WF {
			continue
		}
		f := c01FieldName(fa.X.Type(), fa.Field)
		nStores[f]++
		bindPos[f] = posOf(st)
		role[f] = "?"
		mc, ok := an.Unwrap(st.Val).(*ssa.MakeClosure)
		if !ok || len(mc.Bindings) != 1 || st.Parent() != wire {
			continue
		}
		bf, _ := mc.Fn.(*ssa.Function)
		if bf == nil || bf.Synthetic == "" || !strings.HasSuffix(bf.Name(), "$bound") {
			continue
		}
		m, _ := bf.Object().(*types.Func)
		p, isParam := an.Unwrap(mc.Bindings[0]).(*ssa.Parameter)
		if m == nil || !isParam || p.Parent() != wire {
			continue
		}
		role[f] = an.TypeName(p.Type()) + "." + m.Name()
	}
	fieldsOf := map[string][]string{} // role -> fields
	for i := 0; i < wfStruct.NumFields(); i++ {
		f := wfStruct.Field(i).Name()
		if nStores[f] != 1 || role[f] == "?" || role[f] == "" {
			role[f] = "?"
			continue
		}
		fieldsOf[role[f]] = append(fieldsOf[role[f]], f)
	}
	unresolved := func(f string) string {
		if nStores[f] == 0 {
			return "wire field " + f + " is never bound"
		}
		if nStores[f] > 1 {
			return "wire field " + f + " is assigned more than once in core.Wire"
		}
		return "wire field " + f + " is not bound to a method value of a component parameter"
	}

	// ---- classify every call through a wire field made in Wire's own body
	type edge = c01Edge
	var edges []edge
	adapterSubs := map[*ssa.Function][]string{} // literal -> roles of the subscriptions it is handed to
	adapterOther := map[*ssa.Function]string{}  // literal -> an unclassified use
	roleOfField := func(f string) string { return role[f] }
	for _, in := range an.Instrs(wire, false) {
		ci, ok := in.(ssa.CallInstruction)
		if !ok || ci.Common().IsInvoke() {
			continue
		}
		sf, ok := c01FieldValue(ci.Common().Value)
		if !ok {
			continue
		}
		for _, a := range ci.Common().Args {
			if yf, ok := c01FieldValue(a); ok {
				edges = append(edges, edge{roleOfField(sf), roleOfField(yf), ci, true, nil})
				continue
			}
			if g := c01FuncValue(a); g != nil && g.Parent() == wire {
				adapterSubs[g] = append(adapterSubs[g], roleOfField(sf))
				for fc, yf := range c01FieldCalls(g) {
					edges = append(edges, edge{roleOfField(sf), roleOfField(yf), ci, false, fc})
				}
			}
		}
	}
	// any other use of a literal declared in Wire
	for _, g := range wire.AnonFuncs {
		for _, in := range an.Instrs(wire, false) {
			for _, op := range an.Operands(in) {
				isG := op == ssa.Value(g)
				if mc, ok := op.(*ssa.MakeClosure); ok && mc.Fn == ssa.Value(g) {
					isG = true
				}
				if !isG {
					continue
				}
				if _, isMC := in.(*ssa.MakeClosure); isMC && in.(*ssa.MakeClosure).Fn == ssa.Value(g) {
					continue
				}
				ci, isCall := in.(ssa.CallInstruction)
				if isCall && ci.Common().Value != op {
					if _, ok := c01FieldValue(ci.Common().Value); ok {
						continue // counted above
					}
				}
				adapterOther[g] = "function literal of core.Wire is used other than as a subscription callback"
			}
		}
	}

	// ---- (a) sinks: every use of the sink's field is accounted for
	sinkVerdict := func(sink, allowed string) *c01Verdict {
		v := &c01Verdict{}
		for _, f := range fieldsOf[sink] {
			for _, in := range an.Instrs(wire, true) {
				ld, ok := in.(ssa.Value)
				if !ok {
					continue
				}
				if lf, ok := c01FieldLoad(ld); !ok || lf != f {
					continue
				}
				var visit func(val ssa.Value, depth int)
				visit = func(val ssa.Value, depth int) {
					for _, ref := range *val.Referrers() {
						switch r := ref.(type) {
						case *ssa.DebugRef:
						case *ssa.ChangeType:
							if depth < 4 {
								visit(r, depth+1)
							}
						case ssa.CallInstruction:
							cc := r.Common()
							if cc.Value == val {
								// invoked here
								g := r.Parent()
								if g == wire {
									v.fail(posOf(r), sink+" is invoked directly by core.Wire")
									continue
								}
								top := g
								for top.Parent() != wire {
									top = top.Parent()
								}
								if why, ok := adapterOther[top]; ok {
									v.dunno(posOf(r), why)
									continue
								}
								if len(adapterSubs[top]) == 0 {
									v.dunno(posOf(r), "function literal invoking "+sink+" is never subscribed")
									continue
								}
								for _, s := range adapterSubs[top] {
									if s == "?" {
										v.dunno(posOf(r), "the subscription receiving the adapter is not resolved")
									} else if s != allowed {
										v.fail(posOf(r), fmt.Sprintf("%s is invoked by a function subscribed to %s (only %s may feed it)", sink, s, allowed))
									} else {
										for _, e := range edges {
											if !e.direct && e.sub == allowed && e.cb == sink {
												v.ok(e.call)
											}
										}
									}
								}
								continue
							}
							// handed over as an argument
							sf, isField := c01FieldValue(cc.Value)
							switch {
							case !isField:
								v.dunno(posOf(r), sink+" is passed to "+an.CalleeName(cc)+", which is not a wire function")
							case role[sf] == "?":
								v.dunno(posOf(r), unresolved(sf))
							case role[sf] != allowed:
								v.fail(posOf(r), fmt.Sprintf("%s is subscribed to %s (only %s may feed it)", sink, role[sf], allowed))
							case r.Parent() != wire:
								v.dunno(posOf(r), "subscription made inside a function literal")
							default:
								v.ok(r)
							}
						case *ssa.Store:
							if fa, ok := r.Addr.(*ssa.FieldAddr); ok && r.Val == val && an.TypeName(fa.X.Type()) == c01WF {
								v.fail(posOf(r), fmt.Sprintf("%s is installed as wire function %s: it is fed by whatever feeds that function", sink, c01FieldName(fa.X.Type(), fa.Field)))
								continue
							}
							v.dunno(posOf(ref), sink+" is stored into a variable the checker does not follow")
						default:
							v.dunno(posOf(ref), fmt.Sprintf("%s is used by %T, which the checker does not follow", sink, ref))
						}
					}
				}
				visit(ld, 0)
			}
		}
		return v
	}
	report := func(construct string, v *c01Verdict, bound bool, missing string) {
		switch {
		case len(v.bad) > 0:
			c.Bad(construct, v.pos, strings.Join(v.bad, "; "))
		case len(v.unsure) > 0:
			c.Unsure(construct, v.pos, strings.Join(v.unsure, "; "))
		case !bound:
			c.Bad(construct, wire.Pos(), missing)
		case v.okAt == nil:
			c.Bad(construct, wire.Pos(), missing)
		default:
			c.Good(construct, posOf(v.okAt), "")
		}
	}
	// unresolved bindings of fields make every verdict that could involve them undecided
	var unresolvedFields []string
	for i := 0; i < wfStruct.NumFields(); i++ {
		f := wfStruct.Field(i).Name()
		if role[f] == "?" {
			unresolvedFields = append(unresolvedFields, f)
		}
	}
	sort.Strings(unresolvedFields)

	for _, e := range c01OnlyFrom {
		sink, allowed := e[0], e[1]
		construct := fmt.Sprintf("core.Wire %s fed only by %s", strings.TrimPrefix(sink, "core."), strings.TrimPrefix(allowed, "core."))
		v := sinkVerdict(sink, allowed)
		// a field of the same function type whose binding is unknown could be this sink
		for _, f := range unresolvedFields {
			if c01SameTypeAsRole(c, wfStruct, f, sink) || c01SameTypeAsRole(c, wfStruct, f, allowed) {
				v.dunno(bindPos[f], unresolved(f))
			}
		}
		_, bound := fieldsOf[sink]
		_, subBound := fieldsOf[allowed]
		report(construct, v, bound && subBound,
			fmt.Sprintf("%s is never handed to %s on every path of core.Wire: the pipeline stage is not connected", sink, allowed))
	}

	// ---- (b) registrations: the registered provider is the matching DutyDB/AggSigDB query
	for _, e := range c01Provider {
		reg, prov := e[0], e[1]
		construct := fmt.Sprintf("core.Wire %s receives %s", strings.TrimPrefix(reg, "core."), strings.TrimPrefix(prov, "core."))
		v := &c01Verdict{}
		for _, ed := range edges {
			if ed.sub != reg {
				continue
			}
			switch {
			case ed.cb == "?":
				v.dunno(posOf(ed.call), "provider handed to "+reg+" is not resolved")
			case ed.cb != prov:
				v.fail(posOf(ed.call), fmt.Sprintf("%s is given %s instead of %s", reg, ed.cb, prov))
			default:
				v.ok(ed.call)
			}
		}
		// calls of the registration with something that is neither a wire field nor an adapter
		for _, in := range an.Instrs(wire, true) {
			ci, ok := in.(ssa.CallInstruction)
			if !ok || ci.Common().IsInvoke() {
				continue
			}
			sf, ok := c01FieldValue(ci.Common().Value)
			if !ok || role[sf] != reg {
				continue
			}
			if ci.Parent() != wire {
				v.dunno(posOf(ci), "registration made inside a function literal")
				continue
			}
			for _, a := range ci.Common().Args {
				if _, ok := c01FieldValue(a); ok {
					continue
				}
				if g := c01FuncValue(a); g != nil && g.Parent() == wire {
					if len(c01FieldCalls(g)) == 0 {
						v.fail(posOf(ci), reg+" is given a function that never consults "+prov)
					}
					continue
				}
				v.dunno(posOf(ci), "argument of "+reg+" is not a wire function")
			}
		}
		for _, f := range unresolvedFields {
			if c01SameTypeAsRole(c, wfStruct, f, reg) || c01SameTypeAsRole(c, wfStruct, f, prov) {
				v.dunno(bindPos[f], unresolved(f))
			}
		}
		_, bound := fieldsOf[reg]
		_, pBound := fieldsOf[prov]
		report(construct, v, bound && pBound, fmt.Sprintf("%s is never given %s on every path of core.Wire", reg, prov))
	}

	// ---- (c) order of the aggregator's subscribers: the aggregate store gates the broadcaster
	c01R1Order(c, wire, edges, len(unresolvedFields) > 0)
}

// c01SameTypeAsRole: wire field f has the function type of interface method `role` (so an
// unresolved binding of f could stand for that role).
func c01SameTypeAsRole(c *rt.Ctx, wf *types.Struct, f, role string) bool {
	parts := strings.Split(strings.TrimPrefix(role, "core."), ".")
	it := lookupIface(c, "core", parts[0])
	var sig *types.Signature
	for i := 0; i < it.NumMethods(); i++ {
		if it.Method(i).Name() == parts[1] {
			sig = it.Method(i).Type().(*types.Signature)
		}
	}
	if sig == nil {
		return false
	}
	for i := 0; i < wf.NumFields(); i++ {
		if wf.Field(i).Name() != f {
			continue
		}
		fs, ok := wf.Field(i).Type().Underlying().(*types.Signature)
		if !ok {
			return false
		}
		return types.Identical(types.NewSignatureType(nil, nil, nil, sig.Params(), sig.Results(), sig.Variadic()),
			types.NewSignatureType(nil, nil, nil, fs.Params(), fs.Results(), fs.Variadic()))
	}
	return false
}

// ---------------------------------------------------------------------------------------------
// R1b: WireOption wrappers forward to the function they replace

func c01R1b(c *rt.Ctx) {
	wire := c.Fn("core.Wire")
	gate := c01GateFields(c.SSAPkg("core"))
	for _, f := range an.PkgFuncs(c.SSAPkg("core")) {
		if c01Root(f) == wire {
			continue
		}
		for _, in := range an.Instrs(f, false) {
			st, ok := in.(*ssa.Store)
			if !ok {
				continue
			}
			fa, ok := st.Addr.(*ssa.FieldAddr)
			if !ok || an.TypeName(fa.X.Type()) != c01WF {
				continue
			}
			field := c01FieldName(fa.X.Type(), fa.Field)
			construct := fmt.Sprintf("%s wraps %s", an.FuncName(c01Root(f)), field)
			if of, ok := c01FieldValue(st.Val); ok {
				c.Check(construct, posOf(st), of == field, fmt.Sprintf("wire function %s is replaced by %s: the stage is fed to another component", field, of))
				continue
			}
			var boundTo *ssa.Function
			if mc, ok := an.Resolve(st.Val).(*ssa.MakeClosure); ok {
				if bf, _ := mc.Fn.(*ssa.Function); bf != nil && bf.Synthetic != "" && strings.HasSuffix(bf.Name(), "$bound") {
					if al, ok := fa.X.(*ssa.Alloc); ok && al.Parent() == f && f.Parent() == nil {
						continue // a fresh wiring table is being filled with method values: bindings are R1's subject, not a wrapper
					}
					// a method value of an in-package wrapper object: the method body is the wrapper (its receiver is
					// not one of the forwarded parameters)
					if m := c01BoundMethod(bf); m != nil && m.Pkg == f.Pkg && len(m.Blocks) > 0 && len(m.Params) > 0 {
						boundTo = m
					} else {
						c.Unsure(construct, posOf(st), "the wire function is re-bound to a method value outside core.Wire")
						continue
					}
				}
			}
			g := c01FuncValue(st.Val)
			var calls map[ssa.CallInstruction]string
			off := 0
			if boundTo != nil {
				g, off = boundTo, 1
				calls = c01FieldCalls(g)
			} else if g == nil {
				g, calls = c01BuiltWrapper(st.Val)
			} else {
				calls = c01FieldCalls(g)
			}
			if g == nil {
				c.Unsure(construct, posOf(st), "replacement of the wire function is not a function literal")
				continue
			}
			var bad []string
			fwd := 0
			var cis []ssa.CallInstruction
			for ci := range calls {
				cis = append(cis, ci)
			}
			sort.Slice(cis, func(i, j int) bool { return cis[i].Pos() < cis[j].Pos() })
			for _, ci := range cis {
				if calls[ci] != field {
					bad = append(bad, fmt.Sprintf("the wrapper installed as %s calls %s", field, calls[ci]))
					continue
				}
				fwd++
				args := ci.Common().Args
				params := g.Params[off:]
				if len(args) != len(params) {
					bad = append(bad, "the wrapper forwards a different number of arguments")
					continue
				}
				for i, a := range args {
					if c01IsContext(params[i].Type()) {
						continue
					}
					if p := c01ParamOf(a); p != params[i] {
						bad = append(bad, fmt.Sprintf("argument %d forwarded to %s is not the wrapper's own parameter %s", i, field, params[i].Name()))
					}
				}
			}
			if fwd == 0 && len(bad) == 0 {
				bad = append(bad, "the wrapper never calls the function it replaces: the stage is cut off")
			}
			c.Check(construct, posOf(st), len(bad) == 0, strings.Join(bad, "; "))
			if gate[field] && len(bad) == 0 {
				var fwdCalls []ssa.CallInstruction
				for _, ci := range cis {
					if calls[ci] == field {
						fwdCalls = append(fwdCalls, ci)
					}
				}
				c01R1bGate(c, construct, g, fwdCalls)
			}
		}
	}
}

// c01BoundMethod: the method a synthetic bound-method wrapper (x.m used as a value) calls.
func c01BoundMethod(bf *ssa.Function) *ssa.Function {
	var m *ssa.Function
	for _, in := range an.Instrs(bf, false) {
		ci, ok := in.(ssa.CallInstruction)
		if !ok {
			continue
		}
		callee := ci.Common().StaticCallee()
		if callee == nil || m != nil {
			return nil
		}
		m = callee
	}
	return m
}

// ---------------------------------------------------------------------------------------------
// R2: who may submit signed duty objects to a beacon node

var c01Submit = map[string]bool{
	"SubmitAttestations": true, "SubmitProposal": true, "SubmitBlindedProposal": true, "SubmitAggregateAttestations": true,
	"SubmitSyncCommitteeMessages": true, "SubmitSyncCommitteeContributions": true, "SubmitVoluntaryExit": true,
}

// function -> submit methods it may call, with the reason. Helpers that are only reachable from an
// allow-listed function (unexported, same package, only called statically) inherit its permission.
var c01SubmitAllowed = map[string]map[string]bool{
	// the broadcaster is the last pipeline stage: its input is the verified aggregate (C09)
	"core/bcast.Broadcaster.Broadcast": c01Submit,
	// operator-driven `charon exit broadcast`: publishes a full exit the operator supplies; not part of the duty pipeline
	"cmd.runBcastFullExit": {"SubmitVoluntaryExit": true},
}

// c01Confined: every use of root h is a static call from `owner` or from a function itself confined to owner.
func c01Confined(pkg *ssa.Package, h *ssa.Function, owner string, seen map[*ssa.Function]bool) bool {
	if an.FuncName(h) == owner {
		return true
	}
	if seen[h] || h.Object() == nil || h.Object().Exported() || h.Pkg != pkg {
		return false
	}
	seen[h] = true
	callers := 0
	for _, f := range an.PkgFuncs(pkg) {
		for _, in := range an.Instrs(f, false) {
			for _, op := range an.Operands(in) {
				w, ok := op.(*ssa.Function)
				if !ok {
					continue
				}
				if w != h && !(w.Synthetic != "" && w.Object() != nil && w.Object() == h.Object()) {
					continue
				}
				ci, isCall := in.(ssa.CallInstruction)
				if !isCall || ci.Common().Value != op || w != h {
					return false // used as a value
				}
				if _, isGo := in.(*ssa.Go); isGo {
					return false
				}
				callers++
				if !c01Confined(pkg, c01Root(f), owner, seen) {
					return false
				}
			}
		}
	}
	return callers > 0
}

const c01GoEth2 = "github.com/attestantio/go-eth2-client"

type c01Beacon struct {
	client *types.Interface
}

func c01Deref(t types.Type) types.Type {
	if p, ok := t.Underlying().(*types.Pointer); ok {
		return p.Elem()
	}
	return t
}

// isClient: values of type t talk to a beacon node (eth2wrap types, go-eth2-client concrete services,
// anything implementing eth2wrap.Client).
func (b c01Beacon) isClient(t types.Type) bool {
	if t == nil {
		return false
	}
	if types.Implements(t, b.client) {
		return true
	}
	if _, isPtr := t.Underlying().(*types.Pointer); !isPtr && !types.IsInterface(t) && types.Implements(types.NewPointer(t), b.client) {
		return true
	}
	n, ok := c01Deref(t).(*types.Named)
	if !ok || n.Obj().Pkg() == nil {
		return false
	}
	path := n.Obj().Pkg().Path()
	if path == load.Mod+"/app/eth2wrap" {
		return c01HasSubmit(t)
	}
	return strings.HasPrefix(path, c01GoEth2) && !types.IsInterface(n) && c01HasSubmit(t)
}

func c01HasSubmit(t types.Type) bool {
	for _, tt := range []types.Type{t, types.NewPointer(c01Deref(t))} {
		ms := types.NewMethodSet(tt)
		for i := 0; i < ms.Len(); i++ {
			if c01Submit[ms.At(i).Obj().Name()] {
				return true
			}
		}
	}
	return false
}

func c01ExemptPkg(rel string) bool {
	return rel == "app/eth2wrap" || rel == "testutil" || strings.HasPrefix(rel, "testutil/") || strings.Contains(rel, "/testutil")
}

func c01R2(c *rt.Ctx) {
	it := lookupIface(c, "app/eth2wrap", "Client")
	b := c01Beacon{client: it}
	ms := types.NewMethodSet(c.Pkg("app/eth2wrap").Types.Scope().Lookup("Client").Type())
	for m := range c01Submit {
		if ms.Lookup(nil, m) == nil {
			c.Bail("eth2wrap.Client has no method %s (submission API changed)", m)
		}
	}
	for fn := range c01SubmitAllowed {
		c.Fn(fn)
	}
	var pkgs []string
	for _, p := range c.P.Pkgs {
		if p.PkgPath == load.Mod {
			pkgs = append(pkgs, "")
		} else if strings.HasPrefix(p.PkgPath, load.Mod+"/") {
			pkgs = append(pkgs, strings.TrimPrefix(p.PkgPath, load.Mod+"/"))
		}
	}
	sort.Strings(pkgs)
	for _, rel := range pkgs {
		if c01ExemptPkg(rel) {
			continue
		}
		sp := c.P.SSAPkg(rel)
		if sp == nil {
			continue
		}
		for _, f := range an.PkgFuncs(sp) {
			root := an.FuncName(c01Root(f))
			site := func(pos token.Pos, recv types.Type, m string, how string) {
				construct := fmt.Sprintf("%s %s %s.%s", root, how, an.TypeName(recv), m)
				allowed, unknown := false, false
				var owners []string
				for o := range c01SubmitAllowed {
					owners = append(owners, o)
				}
				sort.Strings(owners)
				for _, o := range owners {
					if !c01SubmitAllowed[o][m] {
						continue
					}
					switch c01Confined3(sp, c01Root(f), o, map[*ssa.Function]bool{}) {
					case c01Yes:
						allowed = true
					case c01Unknown:
						// only an owner of the same package can run an unexported helper through a function value
						slash := strings.LastIndex(o, "/") + 1
						if dot := strings.Index(o[slash:], "."); dot >= 0 && o[:slash+dot] == rel {
							unknown = true
						}
					}
				}
				if !allowed && unknown {
					c.Unsure(construct, pos, "the submitting function is used as a function value the checker cannot follow: whether only the broadcaster runs it is not decided")
					return
				}
				c.Check(construct, pos, allowed,
					"a signed duty object is submitted to the beacon node outside the broadcaster: it bypasses consensus, threshold aggregation and aggregate verification")
			}
			for _, in := range an.Instrs(f, false) {
				// (1) calls
				if ci, ok := in.(ssa.CallInstruction); ok {
					cc := ci.Common()
					if cc.IsInvoke() {
						if c01Submit[cc.Method.Name()] && b.isClient(cc.Value.Type()) {
							site(posOf(in), cc.Value.Type(), cc.Method.Name(), "calls")
						}
					} else if callee := cc.StaticCallee(); callee != nil && callee.Synthetic == "" {
						if m, ok := callee.Object().(*types.Func); ok && c01Submit[m.Name()] {
							if r := m.Type().(*types.Signature).Recv(); r != nil && b.isClient(r.Type()) {
								site(posOf(in), r.Type(), m.Name(), "calls")
							}
						}
					}
				}
				// (2) method values / method expressions
				for _, op := range an.Operands(in) {
					w, ok := op.(*ssa.Function)
					if !ok || w.Synthetic == "" {
						continue
					}
					m, ok := w.Object().(*types.Func)
					if !ok || !c01Submit[m.Name()] {
						continue
					}
					var recv types.Type
					switch {
					case strings.HasSuffix(w.Name(), "$bound") && len(w.FreeVars) == 1:
						recv = w.FreeVars[0].Type()
					case len(w.Params) > 0:
						recv = w.Params[0].Type()
					}
					if recv != nil && b.isClient(recv) {
						site(posOf(in), recv, m.Name(), "takes method value")
					}
				}
				// (3) a beacon client narrowed to a non-client interface that can submit
				var from, to types.Type
				switch x := in.(type) {
				case *ssa.ChangeInterface:
					from, to = x.X.Type(), x.Type()
				case *ssa.MakeInterface:
					from, to = x.X.Type(), x.Type()
				case *ssa.TypeAssert:
					from, to = x.X.Type(), x.AssertedType
				}
				if from != nil && b.isClient(from) && types.IsInterface(to) && !b.isClient(to) && c01HasSubmit(to) {
					construct := fmt.Sprintf("%s narrows %s to %s", root, an.TypeName(from), an.TypeName(to))
					c.Bad(construct, posOf(in), "a beacon client is converted to a bare submitter interface outside eth2wrap and the broadcaster: calls through it are not attributed to a beacon client")
				}
			}
		}
	}
}

// ---------------------------------------------------------------------------------------------
// R3: production wiring uses the verifying constructors

func c01R3(c *rt.Ctx) {
	fn := c.Fn("app.wireCoreWorkflow")
	wireFn := c.Fn("core.Wire")
	wcall := c.OneCall(fn, an.Static("core.Wire"), "core.Wire", false)

	// who else wires the workflow / uses the insecure validator API
	insecure := c.Fn("core/validatorapi.NewComponentInsecure")
	nWire, nInsecure := 0, 0
	for _, p := range c.P.Pkgs {
		if !strings.HasPrefix(p.PkgPath, load.Mod) {
			continue
		}
		rel := strings.TrimPrefix(strings.TrimPrefix(p.PkgPath, load.Mod), "/")
		sp := c.P.SSAPkg(rel)
		if sp == nil || rel == "testutil" || strings.HasPrefix(rel, "testutil/") || strings.Contains(rel, "/testutil") {
			continue
		}
		for _, f := range an.PkgFuncs(sp) {
			for _, in := range an.Instrs(f, false) {
				for _, op := range an.Operands(in) {
					switch op {
					case ssa.Value(wireFn):
						nWire++
						if c01Root(f) != fn {
							c.Unsure(an.FuncName(c01Root(f))+" uses core.Wire", posOf(in), "a second production wiring of the core workflow is not analysed")
						} else if ci, ok := in.(ssa.CallInstruction); !ok || ci.Common().Value != op {
							c.Unsure("app.wireCoreWorkflow uses core.Wire", posOf(in), "core.Wire is used as a function value")
						}
					case ssa.Value(insecure):
						nInsecure++
						c.Bad(an.FuncName(c01Root(f))+" uses validatorapi.NewComponentInsecure", posOf(in),
							"the validator API without partial-signature verification is constructed in production code")
					}
				}
			}
		}
	}
	if nInsecure == 0 {
		c.Good("production code never uses validatorapi.NewComponentInsecure", insecure.Pos(), "")
	}

	argOf := func(call ssa.CallInstruction, callee *ssa.Function, pred func(p *ssa.Parameter) bool, what string) ssa.Value {
		idx := -1
		for i, p := range callee.Params {
			if pred(p) {
				if idx >= 0 {
					c.Bail("%s: parameter %s is ambiguous", an.FuncName(callee), what)
				}
				idx = i
			}
		}
		if idx < 0 || idx >= len(call.Common().Args) {
			c.Bail("%s: parameter %s not found", an.FuncName(callee), what)
		}
		return call.Common().Args[idx]
	}
	byType := func(short string) func(p *ssa.Parameter) bool {
		return func(p *ssa.Parameter) bool { return an.TypeName(p.Type()) == short && !c01IsPtr(p.Type()) }
	}
	// fromCtor: every origin of v is result 0 of a checked call of one of the constructors. Helpers of the wiring
	// package that build a component are stepped into (their parameters are mapped back to the call's arguments).
	frames := map[ssa.Instruction][]*ssa.Call{} // constructor call found inside helpers -> the chain of helper calls leading to it
	fromCtor := func(construct string, sink ssa.Instruction, v ssa.Value, allowHook string, ctors ...string) []*ssa.Call {
		var calls []*ssa.Call
		var bad, unsure []string
		var collect func(sink ssa.Instruction, v ssa.Value, stack []*ssa.Call)
		collect = func(sink ssa.Instruction, v ssa.Value, stack []*ssa.Call) {
			for _, o := range c09Origins(v) {
				switch {
				case o.Kind == "call" && o.Idx == 0 && an.Static(ctors...)(&o.Call.Call):
					if res := o.Call.Call.Signature().Results(); res.Len() > 1 {
						if g, why := an.Guarded(o.Call, sink, an.DefaultGuard); !g {
							bad = append(bad, "the error of "+an.CalleeName(&o.Call.Call)+" is not checked: "+why)
							continue
						}
					}
					calls = append(calls, o.Call)
					frames[o.Call] = append([]*ssa.Call(nil), stack...)
				case o.Kind == "call" && allowHook != "" && an.FieldCall(allowHook)(&o.Call.Call):
					// test hook kept in the production configuration struct
				case o.Kind == "call" && c01IsHelper(fn, o.Call) && len(stack) < 3:
					h := o.Call.Call.StaticCallee()
					if o.Call.Call.Signature().Results().Len() > 1 {
						if g, why := an.Guarded(o.Call, sink, an.DefaultGuard); !g {
							bad = append(bad, "the error of "+an.CalleeName(&o.Call.Call)+" is not checked: "+why)
							continue
						}
					}
					for _, r := range an.Returns(h) {
						if o.Idx >= len(r.Results) {
							unsure = append(unsure, "a result of "+an.FuncName(h)+" the checker does not follow")
							continue
						}
						if an.IsNilConst(r.Results[o.Idx]) && c01FailingReturn(r) {
							continue // failure path: cut off by the caller's error check
						}
						collect(r, r.Results[o.Idx], append(append([]*ssa.Call(nil), stack...), o.Call))
					}
				case o.Kind == "param" && len(stack) > 0:
					top := stack[len(stack)-1]
					idx := -1
					for i, q := range top.Call.StaticCallee().Params {
						if ssa.Value(q) == o.Val {
							idx = i
						}
					}
					if idx < 0 || idx >= len(top.Call.Args) {
						unsure = append(unsure, "a parameter of a helper the checker cannot map to its argument")
						continue
					}
					collect(top, top.Call.Args[idx], stack[:len(stack)-1])
				case o.Kind == "other":
					unsure = append(unsure, "an origin the checker does not follow")
				default:
					bad = append(bad, "found "+o.String())
				}
			}
		}
		collect(sink, v, frames[sink])
		switch {
		case len(bad) > 0:
			c.Bad(construct, posOf(sink), "expected the result of "+strings.Join(ctors, " / ")+"; "+strings.Join(bad, "; "))
		case len(unsure) > 0 || len(calls) == 0:
			c.Unsure(construct, posOf(sink), "cannot follow the value back to "+strings.Join(ctors, " / "))
		default:
			c.Good(construct, posOf(sink), "")
		}
		return calls
	}
	wireArg := func(iface string) ssa.Value { return argOf(wcall, wireFn, byType(iface), iface) }

	// --- aggregator
	aggCalls := fromCtor("wireCoreWorkflow core.Wire sigAgg = sigagg.New", wcall, wireArg("core.SigAgg"), "", "core/sigagg.New")
	sigaggNew := c.Fn("core/sigagg.New")
	for _, k := range aggCalls {
		ver := argOf(k, sigaggNew, func(p *ssa.Parameter) bool { _, ok := p.Type().Underlying().(*types.Signature); return ok }, "verify function")
		fromCtor("wireCoreWorkflow sigagg.New verifier = sigagg.NewVerifier", k, ver, "", "core/sigagg.NewVerifier")
		thr := argOf(k, sigaggNew, func(p *ssa.Parameter) bool { return c01IsInt(p.Type()) }, "threshold")
		c01Threshold(c, fn, "wireCoreWorkflow sigagg.New threshold = lock.Threshold", k, c01MapParam(thr, frames[k]))
	}
	// --- partial signature store
	dbCalls := fromCtor("wireCoreWorkflow core.Wire parSigDB = parsigdb.NewMemDB", wcall, wireArg("core.ParSigDB"), "", "core/parsigdb.NewMemDB")
	memdbNew := c.Fn("core/parsigdb.NewMemDB")
	for _, k := range dbCalls {
		thr := argOf(k, memdbNew, func(p *ssa.Parameter) bool { return c01IsInt(p.Type()) }, "threshold")
		c01Threshold(c, fn, "wireCoreWorkflow parsigdb.NewMemDB threshold = lock.Threshold", k, c01MapParam(thr, frames[k]))
	}
	// --- partial signature exchange
	exCalls := fromCtor("wireCoreWorkflow core.Wire parSigEx = parsigex.NewParSigEx", wcall, wireArg("core.ParSigEx"), "app.TestConfig.ParSigExFunc", "core/parsigex.NewParSigEx")
	exNew := c.Fn("core/parsigex.NewParSigEx")
	for _, k := range exCalls {
		ver := argOf(k, exNew, func(p *ssa.Parameter) bool { return p.Name() == "verifyFunc" }, "verifyFunc")
		fromCtor("wireCoreWorkflow parsigex.NewParSigEx verifier = parsigex.NewEth2Verifier", k, ver, "", "core/parsigex.NewEth2Verifier")
		gate := argOf(k, exNew, byType("core.DutyGaterFunc"), "duty gater")
		fromCtor("wireCoreWorkflow parsigex.NewParSigEx gater = core.NewDutyGater", k, gate, "", "core.NewDutyGater")
	}
	// --- validator API, duty store, aggregate store, broadcaster
	fromCtor("wireCoreWorkflow core.Wire vapi = validatorapi.NewComponent", wcall, wireArg("core.ValidatorAPI"), "", "core/validatorapi.NewComponent")
	fromCtor("wireCoreWorkflow core.Wire dutyDB = dutydb.NewMemDB", wcall, wireArg("core.DutyDB"), "", "core/dutydb.NewMemDB")
	fromCtor("wireCoreWorkflow core.Wire aggSigDB = aggsigdb.NewMemDB/NewMemDBV2", wcall, wireArg("core.AggSigDB"), "", "core/aggsigdb.NewMemDB", "core/aggsigdb.NewMemDBV2")
	fromCtor("wireCoreWorkflow core.Wire broadcaster = bcast.New", wcall, wireArg("core.Broadcaster"), "", "core/bcast.New")
}

func c01IsPtr(t types.Type) bool { _, ok := t.(*types.Pointer); return ok }

func c01IsInt(t types.Type) bool {
	b, ok := t.Underlying().(*types.Basic)
	return ok && b.Kind() == types.Int
}

// c01Threshold: v is an unmodified read of the Threshold field of the cluster lock parameter.
func c01Threshold(c *rt.Ctx, fn *ssa.Function, construct string, sink ssa.Instruction, v ssa.Value) {
	const key = "cluster.Definition.Threshold"
	for _, in := range an.Instrs(fn, true) {
		if st, ok := in.(*ssa.Store); ok {
			if fa, ok := st.Addr.(*ssa.FieldAddr); ok && an.FieldKey(fa.X.Type(), fa.Field) == key {
				c.Unsure(construct, posOf(st), "the lock's threshold is assigned inside wireCoreWorkflow")
				return
			}
		}
	}
	v = an.Resolve(v)
	k, base, ok := "", ssa.Value(nil), false
	switch x := v.(type) {
	case *ssa.UnOp:
		if fa, isFA := x.X.(*ssa.FieldAddr); isFA && x.Op == token.MUL {
			k, base, ok = an.FieldKey(fa.X.Type(), fa.Field), fa.X, true
		}
	case *ssa.Field:
		k, base, ok = an.FieldKey(x.X.Type(), x.Field), x.X, true
	}
	if !ok || k != key {
		c.Bad(construct, posOf(sink), "the threshold argument is not the Threshold field of the cluster lock: the partial-signature store and the aggregator may disagree on the quorum size")
		return
	}
	// base: &lock.Definition / lock.Definition of the *cluster.Lock parameter
	for i := 0; i < 4; i++ {
		base = an.Resolve(base)
		switch x := base.(type) {
		case *ssa.FieldAddr:
			base = x.X
			continue
		case *ssa.Field:
			base = x.X
			continue
		case *ssa.UnOp:
			if x.Op == token.MUL {
				base = x.X
				continue
			}
		}
		break
	}
	p, isParam := base.(*ssa.Parameter)
	if !isParam || p.Parent() != fn || an.TypeName(p.Type()) != "cluster.Lock" {
		c.Unsure(construct, posOf(sink), "Threshold is read from a definition that is not the lock parameter of wireCoreWorkflow")
		return
	}
	c.Good(construct, posOf(sink), "")
}

// ---------------------------------------------------------------------------------------------

var c01Mutants = []Mutant{
	// ---- R1
	{ID: "C01-R1-fetcher-feeds-dutydb", File: "core/interfaces.go", Expect: "R1|DutyDB.Store",
		Old: "\tw.ConsensusSubscribe(w.DutyDBStore)\n",
		New: "\tw.ConsensusSubscribe(w.DutyDBStore)\n\tw.FetcherSubscribe(w.DutyDBStore)\n"},
	{ID: "C01-R1-skip-consensus", File: "core/interfaces.go", Expect: "R1|DutyDB.Store",
		Old: "\tw.FetcherSubscribe(w.ConsensusPropose)\n",
		New: "\tw.FetcherSubscribe(w.DutyDBStore)\n"},
	{ID: "C01-R1-broadcast-from-threshold-adapter", File: "core/interfaces.go", Expect: "R1|Broadcaster.Broadcast",
		Old: "\tw.SigAggSubscribe(w.BroadcasterBroadcast)\n",
		New: "\tw.ParSigDBSubscribeThreshold(func(ctx context.Context, duty Duty, set map[PubKey][]ParSignedData) error {\n" +
			"\t\tout := make(SignedDataSet)\n\t\tfor pk, sigs := range set {\n\t\t\tout[pk] = sigs[0].SignedData\n\t\t}\n\n" +
			"\t\treturn w.BroadcasterBroadcast(ctx, duty, out)\n\t})\n"},
	{ID: "C01-R1-external-stored-as-internal", File: "core/interfaces.go", Expect: "R1|ParSigDB.StoreInternal",
		Old: "\tw.ParSigExSubscribe(w.ParSigDBStoreExternal)\n",
		New: "\tw.ParSigExSubscribe(w.ParSigDBStoreInternal)\n"},
	{ID: "C01-R1-binding-swapped", File: "core/interfaces.go", Expect: "R1|Broadcaster.Broadcast",
		Old: "BroadcasterBroadcast:              bcast.Broadcast,",
		New: "BroadcasterBroadcast:              aggSigDB.Store,"},
	{ID: "C01-R1-conditional-dutydb", File: "core/interfaces.go", Expect: "R1|DutyDB.Store",
		Old: "\tw.ConsensusSubscribe(w.DutyDBStore)\n",
		New: "\tif len(opts) > 0 {\n\t\tw.ConsensusSubscribe(w.DutyDBStore)\n\t}\n"},
	{ID: "C01-R1-direct-broadcast", File: "core/interfaces.go", Expect: "R1|Broadcaster.Broadcast",
		Old: "\tw.SigAggSubscribe(w.AggSigDBStore)\n",
		New: "\tw.SigAggSubscribe(w.AggSigDBStore)\n\t_ = w.BroadcasterBroadcast(context.Background(), Duty{}, nil)\n"},
	{ID: "C01-R1-attdata-not-from-dutydb", File: "core/interfaces.go", Expect: "R1|Fetcher.RegisterAwaitAttData",
		Old: "\tw.FetcherRegisterAwaitAttData(w.DutyDBAwaitAttestation)\n",
		New: "\tw.FetcherRegisterAwaitAttData(func(context.Context, uint64, uint64) (*eth2p0.AttestationData, error) {\n\t\treturn new(eth2p0.AttestationData), nil\n\t})\n"},
	{ID: "C01-R1-aggsigdb-rebound-after-options", File: "core/interfaces.go", Expect: "R1|AggSigDB.Store",
		Old: "\tw.SchedulerSubscribeDuties(w.FetcherFetch)\n",
		New: "\tw.BroadcasterBroadcast = w.AggSigDBStore\n\tw.SchedulerSubscribeDuties(w.FetcherFetch)\n"},
	// ---- R1 (c): the aggregate store gates the broadcaster
	{ID: "C01-R1-broadcaster-subscribed-before-store", File: "core/interfaces.go", Expect: "R1|before Broadcaster.Broadcast",
		Old: "\tw.SigAggSubscribe(w.AggSigDBStore)\n\tw.SigAggSubscribe(w.BroadcasterBroadcast)\n",
		New: "\tw.SigAggSubscribe(w.BroadcasterBroadcast)\n\tw.SigAggSubscribe(w.AggSigDBStore)\n"},
	{ID: "C01-R1-broadcaster-subscribed-early", File: "core/interfaces.go", Expect: "R1|before Broadcaster.Broadcast",
		Old:  "\tw.SchedulerSubscribeDuties(w.FetcherFetch)\n",
		New:  "\tw.SigAggSubscribe(w.BroadcasterBroadcast)\n\tw.SchedulerSubscribeDuties(w.FetcherFetch)\n",
		More: [][2]string{{"\tw.SigAggSubscribe(w.AggSigDBStore)\n\tw.SigAggSubscribe(w.BroadcasterBroadcast)\n", "\tw.SigAggSubscribe(w.AggSigDBStore)\n"}}},
	{ID: "C01-R1-adapter-broadcasts-then-stores", File: "core/interfaces.go", Expect: "R1|before Broadcaster.Broadcast",
		Old: "\tw.SigAggSubscribe(w.AggSigDBStore)\n\tw.SigAggSubscribe(w.BroadcasterBroadcast)\n",
		New: "\tw.SigAggSubscribe(func(ctx context.Context, duty Duty, set SignedDataSet) error {\n\t\tif err := w.BroadcasterBroadcast(ctx, duty, set); err != nil {\n\t\t\treturn err\n\t\t}\n\n\t\treturn w.AggSigDBStore(ctx, duty, set)\n\t})\n"},
	{ID: "C01-R1-store-subscribed-only-with-options", File: "core/interfaces.go", Expect: "R1|before Broadcaster.Broadcast",
		Old: "\tw.SigAggSubscribe(w.AggSigDBStore)\n\tw.SigAggSubscribe(w.BroadcasterBroadcast)\n",
		New: "\tif len(opts) > 0 {\n\t\tw.SigAggSubscribe(w.AggSigDBStore)\n\t}\n\n\tw.SigAggSubscribe(w.BroadcasterBroadcast)\n\n\tif len(opts) == 0 {\n\t\tw.SigAggSubscribe(w.AggSigDBStore)\n\t}\n"},
	// ---- R1b
	{ID: "C01-R1b-tracking-copy-paste", File: "core/tracking.go", Expect: "R1b|wraps AggSigDBStore",
		Old: "err := clone.AggSigDBStore(ctx, duty, set)",
		New: "err := clone.BroadcasterBroadcast(ctx, duty, set)"},
	{ID: "C01-R1b-retry-propose-becomes-participate", File: "core/retry.go", Expect: "R1b|wraps ConsensusPropose",
		Old: "return clone.ConsensusPropose(ctx, duty, set)",
		New: "return clone.ConsensusParticipate(ctx, duty)"},
	{ID: "C01-R1b-tracing-empty-set", File: "core/tracing.go", Expect: "R1b|wraps DutyDBStore",
		Old: "clone.DutyDBStore(ctx, duty, set)",
		New: "clone.DutyDBStore(ctx, duty, UnsignedDataSet{})"},
	{ID: "C01-R1b-retry-rebinds-field", File: "core/retry.go", Expect: "R1b|wraps AggSigDBStore",
		Old: "\t\tclone := *w\n",
		New: "\t\tclone := *w\n\t\tw.AggSigDBStore = clone.BroadcasterBroadcast\n"},
	{ID: "C01-R1b-tracking-drops-call", File: "core/tracking.go", Expect: "R1b|wraps SigAggAggregate",
		Old: "err := clone.SigAggAggregate(ctx, duty, set)",
		New: "err := ctx.Err()"},
	{ID: "C01-R1b-tracking-swallows-store-error", File: "core/tracking.go", Expect: "R1b|returns the store's error",
		Old: "\t\t\ttracker.AggSigDBStored(duty, set, err)\n\n\t\t\treturn err\n",
		New: "\t\t\ttracker.AggSigDBStored(duty, set, err)\n\n\t\t\treturn nil\n"},
	{ID: "C01-R1b-tracing-drops-store-error", File: "core/tracing.go", Expect: "R1b|returns the store's error",
		Old: "\t\t\treturn withSpanStatus(span, clone.AggSigDBStore(ctx, duty, set))\n",
		New: "\t\t\t_ = withSpanStatus(span, clone.AggSigDBStore(ctx, duty, set))\n\n\t\t\treturn nil\n"},
	{ID: "C01-R1b-span-helper-returns-nil", File: "core/tracing.go", Expect: "R1b|returns the store's error",
		Old: "\t\tspan.SetStatus(codes.Ok, \"\")\n\t}\n\n\treturn err\n}",
		New: "\t\tspan.SetStatus(codes.Ok, \"\")\n\t}\n\n\treturn nil\n}"},
	{ID: "C01-R1b-retry-wrong-duty", File: "core/retry.go", Expect: "R1b|wraps BroadcasterBroadcast",
		Old: "return clone.BroadcasterBroadcast(ctx, duty, set)",
		New: "return clone.BroadcasterBroadcast(ctx, Duty{Slot: duty.Slot}, set)"},
	// ---- R2
	{ID: "C01-R2-vapi-forwards-attestations", File: "core/validatorapi/validatorapi.go", Expect: "R2|core/validatorapi.Component.SubmitAttestations",
		Old: "\tattestations := attestationOpts.Attestations\n\tsetsBySlot := make(map[uint64]core.ParSignedDataSet)\n",
		New: "\tif err := c.eth2Cl.SubmitAttestations(ctx, attestationOpts); err != nil {\n\t\treturn err\n\t}\n\n\tattestations := attestationOpts.Attestations\n\tsetsBySlot := make(map[uint64]core.ParSignedDataSet)\n"},
	{ID: "C01-R2-vapi-exit-method-value", File: "core/validatorapi/validatorapi.go", Expect: "R2|core/validatorapi.Component.SubmitVoluntaryExit",
		Old: "\tlog.Info(ctx, \"Voluntary exit submitted by validator client\")\n",
		New: "\tlog.Info(ctx, \"Voluntary exit submitted by validator client\")\n\n\tforward := c.eth2Cl.SubmitVoluntaryExit\n\tdefer func() { _ = forward(ctx, exit) }()\n"},
	{ID: "C01-R2-router-serves-beacon-client", File: "app/app.go", Expect: "R2|narrows",
		Old: "wireVAPIRouter(life, conf.ValidatorAPIAddr, vapi, vapiCalls, &conf)",
		New: "wireVAPIRouter(life, conf.ValidatorAPIAddr, eth2Cl, vapiCalls, &conf)"},
	{ID: "C01-R2-exit-cli-submits-attestation", File: "cmd/exit_broadcast.go", Expect: "R2|SubmitAttestations",
		Old: "\t\tlog.Info(valCtx, \"Successfully submitted voluntary exit for validator\")\n",
		New: "\t\tlog.Info(valCtx, \"Successfully submitted voluntary exit for validator\")\n\t\t_ = eth2Cl.SubmitAttestations(valCtx, nil)\n"},
	// ---- R3
	{ID: "C01-R3-stub-aggregate-verifier", File: "app/app.go", Expect: "R3|sigagg.New verifier",
		Old: "sigagg.New(lock.Threshold, sigagg.NewVerifier(eth2Cl))",
		New: "sigagg.New(lock.Threshold, func(context.Context, core.PubKey, core.SignedData) error { return nil })"},
	{ID: "C01-R3-insecure-vapi", File: "app/app.go", Expect: "R3|vapi = validatorapi.NewComponent",
		Old: "validatorapi.NewComponent(eth2Cl, allPubSharesByKey, nodeIdx.ShareIdx, builderRegSvc.FeeRecipient, conf.BuilderAPI, lock.TargetGasLimit)",
		New: "validatorapi.NewComponentInsecure(nil, eth2Cl, nodeIdx.ShareIdx)"},
	{ID: "C01-R3-aggregator-threshold-minus-one", File: "app/app.go", Expect: "R3|sigagg.New threshold",
		Old: "sigagg.New(lock.Threshold, sigagg.NewVerifier(eth2Cl))",
		New: "sigagg.New(lock.Threshold-1, sigagg.NewVerifier(eth2Cl))"},
	{ID: "C01-R3-parsigdb-threshold-share-idx", File: "app/app.go", Expect: "R3|parsigdb.NewMemDB threshold",
		Old: "parsigdb.NewMemDB(lock.Threshold, ",
		New: "parsigdb.NewMemDB(nodeIdx.ShareIdx, "},
	{ID: "C01-R3-parsigex-noop-verifier", File: "app/app.go", Expect: "R3|NewParSigEx verifier",
		Old: "\t\tparSigEx = parsigex.NewParSigEx(p2pNode, sender.SendAsync, nodeIdx.PeerIdx, peerIDs, verifyFunc, gaterFunc)",
		New: "\t\tverifyFunc = func(context.Context, peer.ID, core.Duty, core.PubKey, core.ParSignedData) error { return nil }\n\t\tparSigEx = parsigex.NewParSigEx(p2pNode, sender.SendAsync, nodeIdx.PeerIdx, peerIDs, verifyFunc, gaterFunc)"},
	{ID: "C01-R3-parsigex-open-gater", File: "app/app.go", Expect: "R3|NewParSigEx gater",
		Old: "peerIDs, verifyFunc, gaterFunc)",
		New: "peerIDs, verifyFunc, func(core.Duty) bool { return true })"},
	{ID: "C01-R3-verifier-error-logged", File: "app/app.go", Expect: "R3|NewParSigEx verifier",
		Old: "\t\tverifyFunc, err := parsigex.NewEth2Verifier(eth2Cl, allPubSharesByKey)\n\t\tif err != nil {\n\t\t\treturn err\n\t\t}\n",
		New: "\t\tverifyFunc, err := parsigex.NewEth2Verifier(eth2Cl, allPubSharesByKey)\n\t\tif err != nil {\n\t\t\tlog.Warn(ctx, \"Partial signature verifier unavailable\", err)\n\t\t}\n"},
	{ID: "C01-R2-bcast-helper-exported", File: "core/bcast/bcast.go", Expect: "R2|SubmitVoluntaryExit",
		Old: "\n// New returns a new broadcaster instance.\n",
		New: "\n// ForwardExit publishes an exit as is.\nfunc ForwardExit(ctx context.Context, eth2Cl eth2wrap.Client, exit *eth2p0.SignedVoluntaryExit) error {\n\treturn eth2Cl.SubmitVoluntaryExit(ctx, exit)\n}\n\n// New returns a new broadcaster instance.\n"},
	{ID: "C01-R3-wire-other-parsigdb", File: "app/app.go", Expect: "R3|parsigdb.NewMemDB threshold",
		Old: "core.Wire(sched, fetch, coreConsensus, dutyDB, vapi, parSigDB, parSigEx,",
		New: "core.Wire(sched, fetch, coreConsensus, dutyDB, vapi, parsigdb.NewMemDB(1, deadlinerFunc(\"parsigdb\"), parsigdb.NewMemDBMetadata(slotDuration, genesisTime)), parSigEx,"},
}
