package rules

import (
	"fmt"
	"go/token"
	"go/types"
	"regexp"
	"sort"
	"strings"

	"golang.org/x/tools/go/ssa"

	"charonverif/internal/an"
	"charonverif/internal/rt"
)

func init() {
	Register(&Prop{
		ID: "C18",
		Decides: "clone discipline at component boundaries (E6 clean-origin provenance on SSA): (X1) every reference-typed value written into the state of " +
			"dutydb/parsigdb/aggsigdb/scheduler originates from a Clone() of a core workflow type, a fresh construction or the state itself, never from a caller's parameter; " +
			"(X2) every reference-typed result of the exported Await*/Get*/PubKeyByAttestation queries originates from a Clone()/fresh construction, never from component state " +
			"(values handed over channels are followed to every send on the same struct field); " +
			"(X3) every call through a slice-of-callbacks field (subs, internalSubs, threshSubs, dutySubs) passes reference-typed arguments cloned inside the fan-out loop " +
			"(one clone per subscriber), or every function registered in that field is a wrapper that clones before delegating. X4 (Clone implementations are deep) is rule C14-M5.",
		NotDecided: "value-level independence (that Clone() is deep is C14-M5); aliasing created inside libraries outside the repository; X1 does not follow values stored through " +
			"method calls on library containers (fetcher's sync.Map cache).",
		Assumptions: []string{"results of calls into other packages that were given only fresh (or immutable) arguments do not alias component state"},
		Run:         c18,
		Mutants: []Mutant{
			// X1
			{ID: "C18-X1-parsigdb-append-value", File: "core/parsigdb/memory.go", Expect: "X1|core/parsigdb.MemDB.store",
				Old: "db.entries[k] = append(db.entries[k], clone)", New: "db.entries[k] = append(db.entries[k], value)\n\t_ = clone"},
			{ID: "C18-X1-parsigdb-shallow-copy", File: "core/parsigdb/memory.go", Expect: "X1|core/parsigdb.MemDB.store",
				Old: "\tclone, err := value.Clone()\n\tif err != nil {\n\t\treturn nil, false, err\n\t}\n\n\tisNewKey", New: "\tclone := value\n\n\tisNewKey"},
			{ID: "C18-X1-aggsigdb-cmd-data", File: "core/aggsigdb/memory.go", Expect: "X1|core/aggsigdb.MemDB.execCommand",
				Old: "\t\tdata:     clone,\n", New: "\t\tdata:     data,\n",
				More: [][2]string{{"\tresponse := make(chan error, 1)\n\tcmd := writeCommand{", "\t_ = clone\n\tresponse := make(chan error, 1)\n\tcmd := writeCommand{"}}},
			{ID: "C18-X1-aggsigdbv2-store-param", File: "core/aggsigdb/memory_v2.go", Expect: "X1|core/aggsigdb.MemDBV2.store",
				Old: "\tdata, err := data.Clone()\n\tif err != nil {\n\t\treturn err\n\t}\n", New: "\tif _, err := data.Clone(); err != nil {\n\t\treturn err\n\t}\n"},
			{ID: "C18-X1-dutydb-att-uncloned", File: "core/dutydb/memory.go", Expect: "X1|core/dutydb.MemDB.storeAttestationUnsafe",
				Old: "\tattData, ok := cloned.(core.AttestationData)", New: "\t_ = cloned\n\tattData, ok := unsignedData.(core.AttestationData)"},
			{ID: "C18-X1-dutydb-contrib-entry", File: "core/dutydb/memory.go", Expect: "X1|core/dutydb.MemDB.storeSyncContributionEntryUnsafe",
				Old: "\tswitch contrib := cloned.(type) {", New: "\t_ = cloned\n\tswitch contrib := unsignedData.(type) {"},
			{ID: "C18-X1-dutydb-proposal-uncloned", File: "core/dutydb/memory.go", Expect: "X1|core/dutydb.MemDB.storeProposalUnsafe",
				Old: "\tproposal, ok := cloned.(core.VersionedProposal)", New: "\t_ = cloned\n\tproposal, ok := unsignedData.(core.VersionedProposal)"},
			// X2
			{ID: "C18-X2-aggsigdb-await-noclone", File: "core/aggsigdb/memory.go", Expect: "X2|core/aggsigdb.MemDB.Await",
				Old: "\t\treturn value.Clone() // Clone before returning.", New: "\t\treturn value, nil"},
			{ID: "C18-X2-aggsigdbv2-await-noclone", File: "core/aggsigdb/memory_v2.go", Expect: "X2|core/aggsigdb.MemDBV2.Await",
				Old: "\t\t\tclone, err := data.Clone()\n\n\t\t\treturn clone, nil, err", New: "\t\t\t_, err := data.Clone()\n\n\t\t\treturn data, nil, err"},
			{ID: "C18-X2-dutydb-aggatt-addr-of-stored", File: "core/dutydb/memory.go", Expect: "X2|core/dutydb.MemDB.AwaitAggAttestation",
				Old: "\t\treturn &aggAtt.VersionedAttestation, nil", New: "\t\t_ = aggAtt\n\n\t\treturn &value.VersionedAttestation, nil"},
			{ID: "C18-X2-dutydb-aggatt-assert-value", File: "core/dutydb/memory.go", Expect: "X2|core/dutydb.MemDB.AwaitAggAttestation",
				Old: "\t\taggAtt, ok := clone.(core.VersionedAggregatedAttestation)\n\t\tif !ok {\n\t\t\treturn nil, errors.New(\"invalid aggregated attestation\")\n\t\t}",
				New: "\t\taggAtt, ok := clone.(core.VersionedAggregatedAttestation)\n\t\tif !ok {\n\t\t\treturn nil, errors.New(\"invalid aggregated attestation\")\n\t\t}\n\n\t\taggAtt = value"},
			{ID: "C18-X2-dutydb-aggatt-clone-fallback", File: "core/dutydb/memory.go", Expect: "X2|core/dutydb.MemDB.AwaitAggAttestation",
				Old: "\t\tclone, err := value.Clone()\n\t\tif err != nil {\n\t\t\treturn nil, err\n\t\t}\n\n\t\taggAtt, ok",
				New: "\t\tclone, err := value.Clone()\n\t\tif err != nil {\n\t\t\tclone = value // best effort\n\t\t}\n\n\t\taggAtt, ok"},
			{ID: "C18-X2-scheduler-getdef-noclone", File: "core/scheduler/scheduler.go", Expect: "X2|core/scheduler.Scheduler.GetDutyDefinition",
				Old: "\treturn defSet.Clone() // Clone before returning.", New: "\treturn defSet, nil"},
			// X3
			{ID: "C18-X3-fetcher-clone-once", File: "core/fetcher/fetcher.go", Expect: "X3|core/fetcher.Fetcher.Fetch",
				Old: "\tfor _, sub := range f.subs {\n\t\tclone, err := unsignedSet.Clone() // Clone before calling each subscriber.\n\t\tif err != nil {\n\t\t\treturn err\n\t\t}\n\n",
				New: "\tclone, err := unsignedSet.Clone()\n\tif err != nil {\n\t\treturn err\n\t}\n\n\tfor _, sub := range f.subs {\n"},
			{ID: "C18-X3-sigagg-pass-output", File: "core/sigagg/sigagg.go", Expect: "X3|core/sigagg.Aggregator.Aggregate",
				Old: "\t\tif err := sub(ctx, duty, cloned); err != nil {", New: "\t\t_ = cloned\n\n\t\tif err := sub(ctx, duty, output); err != nil {"},
			{ID: "C18-X3-parsigdb-internal-uncloned", File: "core/parsigdb/memory.go", Expect: "X3|core/parsigdb.MemDB.StoreInternal",
				Old: "\t\tif err = sub(ctx, duty, clone); err != nil {", New: "\t\t_ = clone\n\n\t\tif err = sub(ctx, duty, signedSet); err != nil {"},
			{ID: "C18-X3-parsigdb-internal-clone-fallback", File: "core/parsigdb/memory.go", Expect: "X3|core/parsigdb.MemDB.StoreInternal",
				Old: "\t\tclone, err := signedSet.Clone() // Clone before calling each subscriber.\n\t\tif err != nil {\n\t\t\treturn err\n\t\t}",
				New: "\t\tclone, err := signedSet.Clone() // Clone before calling each subscriber.\n\t\tif err != nil {\n\t\t\tclone = signedSet // best effort\n\t\t}"},
			{ID: "C18-X3-parsigdb-thresh-uncloned", File: "core/parsigdb/memory.go", Expect: "X3|core/parsigdb.MemDB.StoreExternal",
				Old: "sub(ctx, duty, clone(output)); err != nil", New: "sub(ctx, duty, output); err != nil"},
			{ID: "C18-X3-parsigdb-clone-shallow", File: "core/parsigdb/memory.go", Expect: "X3|core/parsigdb.MemDB.StoreExternal",
				Old: "\t\t\tclones = append(clones, clone)\n", New: "\t\t\tclones = append(clones, sig)\n\t\t\t_ = clone\n"},
			{ID: "C18-X3-scheduler-uncloned", File: "core/scheduler/scheduler.go", Expect: "X3|core/scheduler.Scheduler.scheduleSlot",
				Old: "\t\t\t\tif err := sub(dutyCtx, duty, clone); err != nil {", New: "\t\t\t\t_ = clone\n\n\t\t\t\tif err := sub(dutyCtx, duty, defSet); err != nil {"},
			{ID: "C18-X3-scheduler-clone-once", File: "core/scheduler/scheduler.go", Expect: "X3|core/scheduler.Scheduler.scheduleSlot",
				Old: "\t\t\tfor _, sub := range s.dutySubs {\n\t\t\t\tclone, err := defSet.Clone() // Clone for each subscriber.\n\t\t\t\tif err != nil {\n\t\t\t\t\tlog.Error(dutyCtx, \"Failed to clone duty definition set\", err)\n\t\t\t\t\treturn\n\t\t\t\t}\n\n",
				New: "\t\t\tclone, err := defSet.Clone()\n\t\t\tif err != nil {\n\t\t\t\tlog.Error(dutyCtx, \"Failed to clone duty definition set\", err)\n\t\t\t\treturn\n\t\t\t}\n\n\t\t\tfor _, sub := range s.dutySubs {\n"},
			{ID: "C18-X3-validatorapi-register-raw", File: "core/validatorapi/validatorapi.go", Expect: "X3|core/validatorapi.Component.SubmitAttestations",
				Old: "\tc.subs = append(c.subs, func(ctx context.Context, duty core.Duty, set core.ParSignedDataSet) error {", New: "\tc.subs = append(c.subs, fn)\n\t_ = (func(ctx context.Context, duty core.Duty, set core.ParSignedDataSet) error {"},
			{ID: "C18-X3-validatorapi-wrapper-noclone", File: "core/validatorapi/validatorapi.go", Expect: "X3|core/validatorapi.Component.Subscribe",
				Old: "\t\treturn fn(ctx, duty, clone)", New: "\t\t_ = clone\n\n\t\treturn fn(ctx, duty, set)"},
		},
	})
}

var c18Pkgs = []string{"core/dutydb", "core/parsigdb", "core/aggsigdb", "core/sigagg", "core/fetcher", "core/scheduler", "core/validatorapi"}

// packages whose component state is a store (X1)
var c18StorePkgs = []string{"core/dutydb", "core/parsigdb", "core/aggsigdb", "core/scheduler"}

var c18QueryName = regexp.MustCompile(`^(Await|Get|PubKeyBy)`)

// c18Agg groups several sites of one construct into a single obligation.
type c18Agg struct {
	order []string
	m     map[string]*c18Group
}

type c18Group struct {
	pos    token.Pos
	n      int
	bad    string
	unsure string
	good   string
}

func (a *c18Agg) get(k string, pos token.Pos) *c18Group {
	if a.m == nil {
		a.m = map[string]*c18Group{}
	}
	g := a.m[k]
	if g == nil {
		g = &c18Group{pos: pos}
		a.m[k] = g
		a.order = append(a.order, k)
	}
	g.n++
	return g
}

func (a *c18Agg) flush(c *rt.Ctx) {
	sort.Strings(a.order)
	for _, k := range a.order {
		g := a.m[k]
		switch {
		case g.bad != "":
			c.Bad(k, g.pos, g.bad)
		case g.unsure != "":
			c.Unsure(k, g.pos, g.unsure)
		default:
			c.Good(k, g.pos, fmt.Sprintf("%d site(s): %s", g.n, g.good))
		}
	}
}

func (g *c18Group) setBad(pos token.Pos, s string) {
	if g.bad == "" {
		g.bad, g.pos = s, pos
	}
}

func (g *c18Group) setUnsure(pos token.Pos, s string) {
	if g.unsure == "" && g.bad == "" {
		g.unsure, g.pos = s, pos
	}
}

func c18Describe(os []an.C18Origin) string {
	seen := map[string]bool{}
	var parts []string
	for _, o := range os {
		s := o.Kind.String() + ":" + o.What
		if !seen[s] {
			seen[s] = true
			parts = append(parts, s)
		}
	}
	sort.Strings(parts)
	if len(parts) > 6 {
		parts = append(parts[:6], "…")
	}
	return strings.Join(parts, ", ")
}

func c18(c *rt.Ctx) {
	var eng *an.C18Engine
	engine := func() *an.C18Engine {
		if eng == nil {
			var ps []*ssa.Package
			for _, rel := range c18Pkgs {
				ps = append(ps, c.SSAPkg(rel))
			}
			eng = an.C18NewEngine(ps...)
		}
		return eng
	}
	// declaredIn: the struct owning field key k ("core/dutydb.MemDB.attDuties") is declared in package rel
	declaredIn := func(k, rel string) bool { return strings.HasPrefix(k, rel+".") }

	// -----------------------------------------------------------------------------------------
	// X1: store side. Sinks: MapUpdate / Store whose target memory belongs to the receiver's state.
	c.Rule("X1", 32, func() {
		e := engine()
		var agg c18Agg
		for _, rel := range c18StorePkgs {
			for _, fn := range an.PkgFuncs(c.SSAPkg(rel)) {
				for _, in := range an.Instrs(fn, false) {
					var target ssa.Value
					var vals []ssa.Value
					switch x := in.(type) {
					case *ssa.MapUpdate:
						target, vals = x.Map, []ssa.Value{x.Value, x.Key}
					case *ssa.Store:
						switch x.Addr.(type) {
						case *ssa.FieldAddr, *ssa.IndexAddr:
							target, vals = x.Addr, []ssa.Value{x.Val}
						}
					}
					if target == nil {
						continue
					}
					mutable := false
					for _, v := range vals {
						if an.C18Mutable(v.Type()) {
							mutable = true
						}
					}
					if !mutable {
						continue
					}
					field := ""
					if st, _, _ := an.C18Summary(e.Container(target)); st != nil {
						field = st.What
					}
					if field == "" || !declaredIn(field, rel) {
						continue // local memory (constructors, literals) or not this component's state
					}
					g := agg.get(an.FuncName(fn)+" writes "+field, posOf(in))
					for _, v := range vals {
						os := e.Origins(v)
						_, par, unk := an.C18Summary(os)
						switch {
						case par != nil:
							g.setBad(posOf(in), "value written into component state is the caller's own object ("+par.What+"), not a clone: a later mutation by the caller changes what the store holds. origins: "+c18Describe(os))
						case unk != nil:
							g.setUnsure(posOf(in), "cannot decide the origin of the stored value: "+unk.What)
						default:
							if d := c18Describe(os); d != "" && !strings.Contains(g.good, d) {
								if g.good != "" {
									g.good += " | "
								}
								g.good += d
							}
						}
					}
				}
			}
		}
		agg.flush(c)
	})

	// -----------------------------------------------------------------------------------------
	// X2: read side. Results of exported query methods.
	c.Rule("X2", 9, func() {
		e := engine()
		for _, rel := range c18Pkgs {
			for _, fn := range an.PkgFuncs(c.SSAPkg(rel)) {
				if fn.Parent() != nil || fn.Signature.Recv() == nil || fn.Object() == nil || !fn.Object().Exported() || !c18QueryName.MatchString(fn.Name()) {
					continue
				}
				res := fn.Signature.Results()
				for i := 0; i < res.Len(); i++ {
					if an.IsErrorType(res.At(i).Type()) {
						continue
					}
					k := fmt.Sprintf("%s result#%d", an.FuncName(fn), i)
					if !an.C18Mutable(res.At(i).Type()) {
						c.Good(k, fn.Pos(), "immutable kind "+an.TypeName(res.At(i).Type()))
						continue
					}
					rets := an.Returns(fn)
					if len(rets) == 0 {
						c.Unsure(k, fn.Pos(), "no return instruction")
						continue
					}
					var bad, unsure, good string
					pos := fn.Pos()
					for _, r := range rets {
						if i >= len(r.Results) {
							continue
						}
						os := e.Origins(r.Results[i])
						st, _, unk := an.C18Summary(os)
						switch {
						case st != nil:
							if bad == "" {
								bad, pos = "query returns memory of the component's own state ("+st.What+") without Clone(): every reader gets the same object and a write through it changes the store. origins: "+c18Describe(os), posOf(r)
							}
						case unk != nil:
							if unsure == "" {
								unsure = "cannot decide the origin of the returned value: " + unk.What
								if bad == "" {
									pos = posOf(r)
								}
							}
						default:
							if d := c18Describe(os); d != "" && !strings.Contains(good, d) {
								good += d + "; "
							}
						}
					}
					switch {
					case bad != "":
						c.Bad(k, pos, bad)
					case unsure != "":
						c.Unsure(k, pos, unsure)
					default:
						c.Good(k, pos, good)
					}
				}
			}
		}
	})

	// -----------------------------------------------------------------------------------------
	// X3: fan-out through slice-of-callback fields.
	c.Rule("X3", 16, func() {
		e := engine()
		type site struct {
			fn   *ssa.Function
			call ssa.CallInstruction
			key  string
		}
		var sites []site
		fields := map[string]string{} // field key -> package rel
		for _, rel := range c18Pkgs {
			for _, fn := range an.PkgFuncs(c.SSAPkg(rel)) {
				for _, in := range an.Instrs(fn, false) {
					ci, ok := in.(ssa.CallInstruction)
					if !ok {
						continue
					}
					cc := ci.Common()
					if cc.IsInvoke() || cc.StaticCallee() != nil {
						continue
					}
					key, ok := c18CallbackField(cc.Value)
					if !ok || !declaredIn(key, rel) {
						continue
					}
					hasData := false
					for _, a := range cc.Args {
						if an.C18Mutable(a.Type()) {
							hasData = true
						}
					}
					if !hasData {
						continue // e.g. slotSubs(ctx, core.Slot)
					}
					sites = append(sites, site{fn, ci, key})
					fields[key] = rel
				}
			}
		}
		// registration wrappers
		wrapped := map[string]bool{}
		var fkeys []string
		for k := range fields {
			fkeys = append(fkeys, k)
		}
		sort.Strings(fkeys)
		for _, k := range fkeys {
			ok, regFn, pos, why := c18WrapperClones(c, e, fields[k], k)
			wrapped[k] = ok
			if regFn != nil && (ok || strings.HasPrefix(why, "wrapper")) {
				// the field is filled with wrappers: their cloning is an obligation of its own
				c.Check(an.FuncName(regFn)+" registers cloning wrapper in "+k, pos, ok, why)
			}
		}
		var agg c18Agg
		for _, s := range sites {
			cc := s.call.Common()
			loop := an.InnermostLoop(s.fn, s.call.Block())
			for i, a := range cc.Args {
				if !an.C18Mutable(a.Type()) {
					continue
				}
				g := agg.get(fmt.Sprintf("%s → %s arg#%d", an.FuncName(s.fn), s.key, i), s.call.Pos())
				if wrapped[s.key] {
					g.good = "every function registered in the field is a wrapper that clones per call"
					continue
				}
				os := e.Origins(a)
				st, par, unk := an.C18Summary(os)
				switch {
				case st != nil:
					g.setBad(s.call.Pos(), "subscriber is handed memory of the component's state ("+st.What+") without Clone(). origins: "+c18Describe(os))
					continue
				case par != nil:
					g.setBad(s.call.Pos(), "subscriber is handed the caller's own object ("+par.What+") without Clone(). origins: "+c18Describe(os))
					continue
				}
				if loop == nil {
					g.setUnsure(s.call.Pos(), "call through a callback slice outside a loop")
					continue
				}
				shared := ""
				for _, o := range os {
					if o.Const || o.Kind != an.C18Fresh {
						continue
					}
					if o.Root == nil || o.Root.Parent() != s.fn || !loop.Body[o.Root.Block()] {
						shared = o.What
					}
				}
				if shared != "" {
					g.setBad(s.call.Pos(), "the same object ("+shared+", made outside the fan-out loop) is handed to every subscriber: one subscriber's mutation is seen by the next. origins: "+c18Describe(os))
					continue
				}
				if unk != nil {
					g.setUnsure(s.call.Pos(), "cannot decide the origin of the subscriber argument: "+unk.What)
					continue
				}
				g.good = "cloned inside the fan-out loop: " + c18Describe(os)
			}
		}
		agg.flush(c)
	})
}

// c18CallbackField: v is an element of a slice-of-functions struct field; returns the field key.
func c18CallbackField(v ssa.Value) (string, bool) {
	v = an.Resolve(v)
	var coll ssa.Value
	switch x := v.(type) {
	case *ssa.UnOp:
		if ia, ok := x.X.(*ssa.IndexAddr); ok && x.Op == token.MUL {
			coll = ia.X
		}
	case *ssa.Index:
		coll = x.X
	}
	if coll == nil {
		return "", false
	}
	sl, ok := coll.Type().Underlying().(*types.Slice)
	if !ok {
		return "", false
	}
	if _, ok := sl.Elem().Underlying().(*types.Signature); !ok {
		return "", false
	}
	k, _, ok := an.FieldOf(coll)
	return k, ok
}

// c18WrapperClones decides whether every function appended to the callback field is a function
// literal that calls the captured callback with per-call clones of its reference-typed arguments.
func c18WrapperClones(c *rt.Ctx, e *an.C18Engine, rel, key string) (ok bool, regFn *ssa.Function, pos token.Pos, why string) {
	n := 0
	ok = true
	for _, fn := range an.PkgFuncs(c.SSAPkg(rel)) {
		for _, in := range an.Instrs(fn, false) {
			st, isSt := in.(*ssa.Store)
			if !isSt {
				continue
			}
			fa, isFA := st.Addr.(*ssa.FieldAddr)
			if !isFA || an.FieldKey(fa.X.Type(), fa.Field) != key {
				continue
			}
			if _, local := fa.X.(*ssa.Alloc); local {
				continue // constructor literal
			}
			n++
			if regFn == nil {
				regFn, pos = fn, posOf(st)
			}
			elems := appendedElems(st.Val)
			if len(elems) == 0 {
				return false, regFn, posOf(st), "field is assigned something other than append(field, f)"
			}
			for _, el := range elems {
				var lit *ssa.Function
				switch x := el.(type) {
				case *ssa.MakeClosure:
					lit, _ = x.Fn.(*ssa.Function)
				case *ssa.Function:
					lit = x
				}
				if lit == nil || lit.Parent() == nil {
					return false, fn, posOf(st), "registered function is the caller's callback itself (no wrapper)"
				}
				calls := 0
				for _, li := range an.Instrs(lit, false) {
					ci, isCall := li.(ssa.CallInstruction)
					if !isCall || ci.Common().IsInvoke() || ci.Common().StaticCallee() != nil {
						continue
					}
					ld, isLd := ci.Common().Value.(*ssa.UnOp)
					if !isLd {
						continue
					}
					if _, isFV := ld.X.(*ssa.FreeVar); !isFV {
						continue
					}
					calls++
					for i, a := range ci.Common().Args {
						if !an.C18Mutable(a.Type()) {
							continue
						}
						os := e.Origins(a)
						stt, par, unk := an.C18Summary(os)
						if stt != nil || par != nil || unk != nil {
							return false, fn, ci.Pos(), fmt.Sprintf("wrapper passes argument #%d to the subscriber without cloning it (%s)", i, c18Describe(os))
						}
						for _, o := range os {
							if !o.Const && (o.Root == nil || o.Root.Parent() != lit) {
								return false, fn, ci.Pos(), fmt.Sprintf("wrapper passes argument #%d that is not cloned per call (%s)", i, o.What)
							}
						}
					}
				}
				if calls == 0 {
					return false, fn, posOf(st), "wrapper never calls the captured subscriber"
				}
			}
		}
	}
	if n == 0 {
		return false, nil, token.NoPos, "no registration found"
	}
	return ok, regFn, pos, "wrapper clones"
}
