package rules

import (
	"fmt"
	"go/token"
	"go/types"
	"regexp"
	"sort"
	"strings"

	"golang.org/x/tools/go/ssa"

	"charonverif/internal/an"
	"charonverif/internal/rt"
)

func init() {
	Register(&Prop{
		ID: "C18",
		Decides: "clone discipline at component boundaries (E6 clean-origin provenance on SSA): (X1) every reference-typed value written into the state of " +
			"dutydb/parsigdb/aggsigdb/scheduler originates from a Clone() of a core workflow type, a fresh construction or the state itself, never from a caller's parameter; " +
			"(X2) every reference-typed result of the exported Await*/Get*/PubKeyByAttestation queries originates from a Clone()/fresh construction, never from component state " +
			"(values handed over channels are followed to every send on the same struct field); " +
			"(X3) every call through a slice-of-callbacks field (subs, internalSubs, threshSubs, dutySubs) passes reference-typed arguments cloned inside the fan-out loop " +
			"(one clone per subscriber), or every function registered in that field is a wrapper that clones before delegating. X4 (Clone implementations are deep) is rule C14-M5.",
		NotDecided: "value-level independence (that Clone() is deep is C14-M5); aliasing created inside libraries outside the repository; X1 does not follow values stored through " +
			"method calls on library containers (fetcher's sync.Map cache).",
		Assumptions: []string{"results of calls into other packages that were given only fresh (or immutable) arguments do not alias component state"},
		Run:         c18,
		Mutants: []Mutant{
			// X1
			{ID: "C18-X1-parsigdb-append-value", File: "core/parsigdb/memory.go", Expect: "X1|core/parsigdb.MemDB.store",
				Old: "db.entries[k] = append(db.entries[k], clone)", New: "db.entries[k] = append(db.entries[k], value)\n\t_ = clone"},
			{ID: "C18-X1-parsigdb-shallow-copy", File: "core/parsigdb/memory.go", Expect: "X1|core/parsigdb.MemDB.store",
				Old: "\tclone, err := value.Clone()\n\tif err != nil {\n\t\treturn nil, false, err\n\t}\n\n\tisNewKey", New: "\tclone := value\n\n\tisNewKey"},
			{ID: "C18-X1-aggsigdb-cmd-data", File: "core/aggsigdb/memory.go", Expect: "X1|core/aggsigdb.MemDB.execCommand",
				Old: "\t\tdata:     clone,\n", New: "\t\tdata:     data,\n",
				More: [][2]string{{"\tresponse := make(chan error, 1)\n\tcmd := writeCommand{", "\t_ = clone\n\tresponse := make(chan error, 1)\n\tcmd := writeCommand{"}}},
			{ID: "C18-X1-aggsigdbv2-store-param", File: "core/aggsigdb/memory_v2.go", Expect: "X1|core/aggsigdb.MemDBV2.store",
				Old: "\tdata, err := data.Clone()\n\tif err != nil {\n\t\treturn err\n\t}\n", New: "\tif _, err := data.Clone(); err != nil {\n\t\treturn err\n\t}\n"},
			{ID: "C18-X1-dutydb-att-uncloned", File: "core/dutydb/memory.go", Expect: "X1|core/dutydb.MemDB.storeAttestationUnsafe",
				Old: "\tattData, ok := cloned.(core.AttestationData)", New: "\t_ = cloned\n\tattData, ok := unsignedData.(core.AttestationData)"},
			{ID: "C18-X1-dutydb-contrib-entry", File: "core/dutydb/memory.go", Expect: "X1|core/dutydb.MemDB.storeSyncContributionEntryUnsafe",
				Old: "\tswitch contrib := cloned.(type) {", New: "\t_ = cloned\n\tswitch contrib := unsignedData.(type) {"},
			{ID: "C18-X1-dutydb-proposal-uncloned", File: "core/dutydb/memory.go", Expect: "X1|core/dutydb.MemDB.storeProposalUnsafe",
				Old: "\tproposal, ok := cloned.(core.VersionedProposal)", New: "\t_ = cloned\n\tproposal, ok := unsignedData.(core.VersionedProposal)"},
			// X2
			{ID: "C18-X2-aggsigdb-await-noclone", File: "core/aggsigdb/memory.go", Expect: "X2|core/aggsigdb.MemDB.Await",
				Old: "\t\treturn value.Clone() // Clone before returning.", New: "\t\treturn value, nil"},
			{ID: "C18-X2-aggsigdbv2-await-noclone", File: "core/aggsigdb/memory_v2.go", Expect: "X2|core/aggsigdb.MemDBV2.Await",
				Old: "\t\t\tclone, err := data.Clone()\n\n\t\t\treturn clone, nil, err", New: "\t\t\t_, err := data.Clone()\n\n\t\t\treturn data, nil, err"},
			{ID: "C18-X2-dutydb-aggatt-addr-of-stored", File: "core/dutydb/memory.go", Expect: "X2|core/dutydb.MemDB.AwaitAggAttestation",
				Old: "\t\treturn &aggAtt.VersionedAttestation, nil", New: "\t\t_ = aggAtt\n\n\t\treturn &value.VersionedAttestation, nil"},
			{ID: "C18-X2-dutydb-aggatt-assert-value", File: "core/dutydb/memory.go", Expect: "X2|core/dutydb.MemDB.AwaitAggAttestation",
				Old: "\t\taggAtt, ok := clone.(core.VersionedAggregatedAttestation)\n\t\tif !ok {\n\t\t\treturn nil, errors.New(\"invalid aggregated attestation\")\n\t\t}",
				New: "\t\taggAtt, ok := clone.(core.VersionedAggregatedAttestation)\n\t\tif !ok {\n\t\t\treturn nil, errors.New(\"invalid aggregated attestation\")\n\t\t}\n\n\t\taggAtt = value"},
			{ID: "C18-X2-dutydb-aggatt-clone-fallback", File: "core/dutydb/memory.go", Expect: "X2|core/dutydb.MemDB.AwaitAggAttestation",
				Old: "\t\tclone, err := value.Clone()\n\t\tif err != nil {\n\t\t\treturn nil, err\n\t\t}\n\n\t\taggAtt, ok",
				New: "\t\tclone, err := value.Clone()\n\t\tif err != nil {\n\t\t\tclone = value // best effort\n\t\t}\n\n\t\taggAtt, ok"},
			{ID: "C18-X2-scheduler-getdef-noclone", File: "core/scheduler/scheduler.go", Expect: "X2|core/scheduler.Scheduler.GetDutyDefinition",
				Old: "\treturn defSet.Clone() // Clone before returning.", New: "\treturn defSet, nil"},
			// X3
			{ID: "C18-X3-fetcher-clone-once", File: "core/fetcher/fetcher.go", Expect: "X3|core/fetcher.Fetcher.Fetch",
				Old: "\tfor _, sub := range f.subs {\n\t\tclone, err := unsignedSet.Clone() // Clone before calling each subscriber.\n\t\tif err != nil {\n\t\t\treturn err\n\t\t}\n\n",
				New: "\tclone, err := unsignedSet.Clone()\n\tif err != nil {\n\t\treturn err\n\t}\n\n\tfor _, sub := range f.subs {\n"},
			{ID: "C18-X3-sigagg-pass-output", File: "core/sigagg/sigagg.go", Expect: "X3|core/sigagg.Aggregator.Aggregate",
				Old: "\t\tif err := sub(ctx, duty, cloned); err != nil {", New: "\t\t_ = cloned\n\n\t\tif err := sub(ctx, duty, output); err != nil {"},
			{ID: "C18-X3-parsigdb-internal-uncloned", File: "core/parsigdb/memory.go", Expect: "X3|core/parsigdb.MemDB.StoreInternal",
				Old: "\t\tif err = sub(ctx, duty, clone); err != nil {", New: "\t\t_ = clone\n\n\t\tif err = sub(ctx, duty, signedSet); err != nil {"},
			{ID: "C18-X3-parsigdb-internal-clone-fallback", File: "core/parsigdb/memory.go", Expect: "X3|core/parsigdb.MemDB.StoreInternal",
				Old: "\t\tclone, err := signedSet.Clone() // Clone before calling each subscriber.\n\t\tif err != nil {\n\t\t\treturn err\n\t\t}",
				New: "\t\tclone, err := signedSet.Clone() // Clone before calling each subscriber.\n\t\tif err != nil {\n\t\t\tclone = signedSet // best effort\n\t\t}"},
			{ID: "C18-X3-parsigdb-thresh-uncloned", File: "core/parsigdb/memory.go", Expect: "X3|core/parsigdb.MemDB.StoreExternal",
				Old: "sub(ctx, duty, clone(output)); err != nil", New: "sub(ctx, duty, output); err != nil"},
			{ID: "C18-X3-parsigdb-clone-shallow", File: "core/parsigdb/memory.go", Expect: "X3|core/parsigdb.MemDB.StoreExternal",
				Old: "\t\t\tclones = append(clones, clone)\n", New: "\t\t\tclones = append(clones, sig)\n\t\t\t_ = clone\n"},
			{ID: "C18-X3-scheduler-uncloned", File: "core/scheduler/scheduler.go", Expect: "X3|core/scheduler.Scheduler.scheduleSlot",
				Old: "\t\t\t\tif err := sub(dutyCtx, duty, clone); err != nil {", New: "\t\t\t\t_ = clone\n\n\t\t\t\tif err := sub(dutyCtx, duty, defSet); err != nil {"},
			{ID: "C18-X3-scheduler-clone-once", File: "core/scheduler/scheduler.go", Expect: "X3|core/scheduler.Scheduler.scheduleSlot",
				Old: "\t\t\tfor _, sub := range s.dutySubs {\n\t\t\t\tclone, err := defSet.Clone() // Clone for each subscriber.\n\t\t\t\tif err != nil {\n\t\t\t\t\tlog.Error(dutyCtx, \"Failed to clone duty definition set\", err)\n\t\t\t\t\treturn\n\t\t\t\t}\n\n",
				New: "\t\t\tclone, err := defSet.Clone()\n\t\t\tif err != nil {\n\t\t\t\tlog.Error(dutyCtx, \"Failed to clone duty definition set\", err)\n\t\t\t\treturn\n\t\t\t}\n\n\t\t\tfor _, sub := range s.dutySubs {\n"},
			{ID: "C18-X3-validatorapi-register-raw", File: "core/validatorapi/validatorapi.go", Expect: "X3|core/validatorapi.Component.SubmitAttestations",
				Old: "\tc.subs = append(c.subs, func(ctx context.Context, duty core.Duty, set core.ParSignedDataSet) error {", New: "\tc.subs = append(c.subs, fn)\n\t_ = (func(ctx context.Context, duty core.Duty, set core.ParSignedDataSet) error {"},
			{ID: "C18-X3-validatorapi-wrapper-noclone", File: "core/validatorapi/validatorapi.go", Expect: "X3|core/validatorapi.Component.Subscribe",
				Old: "\t\treturn fn(ctx, duty, clone)", New: "\t\t_ = clone\n\n\t\treturn fn(ctx, duty, set)"},
			// ---- added with the hardened engine (captured receivers, reaching stores, iteration scope, wrapper classes)
			{ID: "C18-X1-dutydb-aggatt-uncloned", File: "core/dutydb/memory.go", Expect: "X1|core/dutydb.MemDB.storeAggAttestationUnsafe",
				Old: "\taggAtt, ok := cloned.(core.VersionedAggregatedAttestation)", New: "\t_ = cloned\n\taggAtt, ok := unsignedData.(core.VersionedAggregatedAttestation)"},
			{ID: "C18-X2-dutydb-contrib-stored-pointer", File: "core/dutydb/memory.go", Expect: "X2|core/dutydb.MemDB.AwaitSyncContribution",
				Old: "\t\treturn &contrib.SyncCommitteeContribution, nil", New: "\t\t_ = contrib\n\n\t\treturn value, nil"},
			{ID: "C18-X2-scheduler-getdef-clone-overwritten", File: "core/scheduler/scheduler.go", Expect: "X2|core/scheduler.Scheduler.GetDutyDefinition",
				Old: "\treturn defSet.Clone() // Clone before returning.", New: "\tcloned, err := defSet.Clone()\n\tif err == nil && len(cloned) == len(defSet) {\n\t\tcloned = defSet // identical content\n\t}\n\n\treturn cloned, err"},
			{ID: "C18-X3-sigagg-clone-once", File: "core/sigagg/sigagg.go", Expect: "X3|core/sigagg.Aggregator.Aggregate",
				Old: "\tfor _, sub := range a.subs {\n\t\t// Clone before calling each subscriber.\n\t\tcloned, err := output.Clone()\n\t\tif err != nil {\n\t\t\treturn err\n\t\t}\n\n",
				New: "\tcloned, err := output.Clone()\n\tif err != nil {\n\t\treturn err\n\t}\n\n\tfor _, sub := range a.subs {\n"},
			{ID: "C18-X3-parsigdb-internal-clone-cached", File: "core/parsigdb/memory.go", Expect: "X3|core/parsigdb.MemDB.StoreInternal",
				Old:  "\t\tclone, err := signedSet.Clone() // Clone before calling each subscriber.\n\t\tif err != nil {\n\t\t\treturn err\n\t\t}\n\n\t\tif err = sub(ctx, duty, clone); err != nil {",
				New:  "\t\tif clone == nil {\n\t\t\tc, err := signedSet.Clone()\n\t\t\tif err != nil {\n\t\t\t\treturn err\n\t\t\t}\n\n\t\t\tclone = c\n\t\t}\n\n\t\tif err := sub(ctx, duty, clone); err != nil {",
				More: [][2]string{{"\tfor _, sub := range db.internalSubs {", "\tvar clone core.ParSignedDataSet\n\n\tfor _, sub := range db.internalSubs {"}}},
			// ---- shallow copies (maps.Clone / slices.Clone of containers whose elements hold references are not clones)
			{ID: "C18-X2-scheduler-getdef-shallow-mapsclone", File: "core/scheduler/scheduler.go", Expect: "X2|core/scheduler.Scheduler.GetDutyDefinition",
				Old: "\treturn defSet.Clone() // Clone before returning.", New: "\treturn maps.Clone(defSet), nil",
				More: [][2]string{{"\t\"fmt\"\n\t\"math\"\n", "\t\"fmt\"\n\t\"maps\"\n\t\"math\"\n"}}},
			{ID: "C18-X3-parsigdb-internal-shallow-mapsclone", File: "core/parsigdb/memory.go", Expect: "X3|core/parsigdb.MemDB.StoreInternal",
				Old:  "\t\tclone, err := signedSet.Clone() // Clone before calling each subscriber.",
				New:  "\t\tclone, err := maps.Clone(signedSet), error(nil)",
				More: [][2]string{{"\t\"encoding/json\"\n\t\"strconv\"\n", "\t\"encoding/json\"\n\t\"maps\"\n\t\"strconv\"\n"}}},
			{ID: "C18-X3-parsigdb-thresh-shallow-slicesclone", File: "core/parsigdb/memory.go", Expect: "X3|core/parsigdb.MemDB.StoreExternal",
				Old:  "\t\tclone[pubkey] = clones\n",
				New:  "\t\t_ = clones\n\t\tclone[pubkey] = slices.Clone(sigs)\n",
				More: [][2]string{{"\t\"encoding/json\"\n\t\"strconv\"\n", "\t\"encoding/json\"\n\t\"slices\"\n\t\"strconv\"\n"}}},
			{ID: "C18-X2-aggsigdbv2-await-single-exit-noclone", File: "core/aggsigdb/memory_v2.go", Expect: "X2|core/aggsigdb.MemDBV2.Await",
				Old: "\t\t\tclone, err := data.Clone()\n\n\t\t\treturn clone, nil, err", New: "\t\t\tclone, err := data.Clone()\n\t\t\tif err == nil {\n\t\t\t\tclone = data\n\t\t\t}\n\n\t\t\treturn clone, nil, err"},
		},
	})
}

var c18Pkgs = []string{"core/dutydb", "core/parsigdb", "core/aggsigdb", "core/sigagg", "core/fetcher", "core/scheduler", "core/validatorapi"}

// packages whose component state is a store (X1)
var c18StorePkgs = []string{"core/dutydb", "core/parsigdb", "core/aggsigdb", "core/scheduler"}

var c18QueryName = regexp.MustCompile(`^(Await|Get|PubKeyBy)`)

// c18Agg groups several sites of one construct into a single obligation.
type c18Agg struct {
	order []string
	m     map[string]*c18Group
}

type c18Group struct {
	pos    token.Pos
	n      int
	bad    string
	unsure string
	good   string
}

func (a *c18Agg) get(k string, pos token.Pos) *c18Group {
	if a.m == nil {
		a.m = map[string]*c18Group{}
	}
	g := a.m[k]
	if g == nil {
		g = &c18Group{pos: pos}
		a.m[k] = g
		a.order = append(a.order, k)
	}
	g.n++
	return g
}

func (a *c18Agg) flush(c *rt.Ctx) {
	sort.Strings(a.order)
	for _, k := range a.order {
		g := a.m[k]
		switch {
		case g.bad != "":
			c.Bad(k, g.pos, g.bad)
		case g.unsure != "":
			c.Unsure(k, g.pos, g.unsure)
		default:
			c.Good(k, g.pos, fmt.Sprintf("%d site(s): %s", g.n, g.good))
		}
	}
}

func (g *c18Group) setBad(pos token.Pos, s string) {
	if g.bad == "" {
		g.bad, g.pos = s, pos
	}
}

func (g *c18Group) setUnsure(pos token.Pos, s string) {
	if g.unsure == "" && g.bad == "" {
		g.unsure, g.pos = s, pos
	}
}

func c18Describe(os []an.C18Origin) string {
	seen := map[string]bool{}
	var parts []string
	for _, o := range os {
		s := o.Kind.String() + ":" + o.What
		if !seen[s] {
			seen[s] = true
			parts = append(parts, s)
		}
	}
	sort.Strings(parts)
	if len(parts) > 6 {
		parts = append(parts[:6], "…")
	}
	return strings.Join(parts, ", ")
}

func c18(c *rt.Ctx) {
	var eng *an.C18Engine
	engine := func() *an.C18Engine {
		if eng == nil {
			var ps []*ssa.Package
			for _, rel := range c18Pkgs {
				ps = append(ps, c.SSAPkg(rel))
			}
			eng = an.C18NewEngine(ps...)
		}
		return eng
	}
	// declaredIn: the struct owning field key k ("core/dutydb.MemDB.attDuties") is declared in package rel
	declaredIn := func(k, rel string) bool { return strings.HasPrefix(k, rel+".") }

	// -----------------------------------------------------------------------------------------
	// X1: store side. Sinks: MapUpdate / Store whose target memory belongs to the receiver's state.
	c.Rule("X1", 26, func() {
		e := engine()
		var agg c18Agg
		written := map[string]bool{}
		for _, rel := range c18StorePkgs {
			for _, fn := range an.PkgFuncs(c.SSAPkg(rel)) {
				for _, in := range an.Instrs(fn, false) {
					var target ssa.Value
					var vals []ssa.Value
					switch x := in.(type) {
					case *ssa.MapUpdate:
						target, vals = x.Map, []ssa.Value{x.Value, x.Key}
					case *ssa.Store:
						switch x.Addr.(type) {
						case *ssa.FieldAddr, *ssa.IndexAddr:
							target, vals = x.Addr, []ssa.Value{x.Val}
						}
					}
					if target == nil {
						continue
					}
					mutable := false
					for _, v := range vals {
						if an.C18Mutable(v.Type()) {
							mutable = true
						}
					}
					if !mutable {
						continue
					}
					// a write that sits in a helper which is handed the map (and the value) as parameters is judged per call
					// site of the helper: the map of one caller with the value of the same caller
					type inst struct {
						target ssa.Value
						vals   []ssa.Value
					}
					insts := []inst{{target, vals}}
					if p, ok := an.Resolve(target).(*ssa.Parameter); ok {
						if cs := e.VisibleCallers(p.Parent()); len(cs) > 0 {
							insts = nil
							for _, ci := range cs {
								sub := func(v ssa.Value) ssa.Value {
									if q, ok := an.Resolve(v).(*ssa.Parameter); ok && q.Parent() == p.Parent() {
										for i, r := range q.Parent().Params {
											if r == q && i < len(ci.Common().Args) {
												return ci.Common().Args[i]
											}
										}
									}
									return v
								}
								it := inst{target: sub(target)}
								for _, v := range vals {
									it.vals = append(it.vals, sub(v))
								}
								insts = append(insts, it)
							}
						}
					}
					for _, it := range insts {
						target, vals := it.target, it.vals
						// the container can be several fields when the write sits in a helper shared by several stores
						var fieldsHit []string
						for _, o := range e.Container(target) {
							if o.Kind == an.C18State && !o.Self && declaredIn(o.What, rel) && !c18Contains(fieldsHit, o.What) {
								fieldsHit = append(fieldsHit, o.What)
							}
						}
						// local memory (constructors, literals) or not this component's state: no field
						for _, field := range fieldsHit {
							g := agg.get(an.FuncName(fn)+" writes "+field, posOf(in))
							written[field] = true
							for _, v := range vals {
								if !an.C18Mutable(v.Type()) {
									continue
								}
								os := e.Origins(v)
								_, par, unk := an.C18Summary(os)
								switch {
								case par != nil:
									g.setBad(posOf(in), "value written into component state is the caller's own object ("+par.What+"), not a clone: a later mutation by the caller changes what the store holds. origins: "+c18Describe(os))
								case unk != nil:
									g.setUnsure(posOf(in), "cannot decide the origin of the stored value: "+unk.What)
								default:
									if d := c18Describe(os); d != "" && !strings.Contains(g.good, d) {
										if g.good != "" {
											g.good += " | "
										}
										g.good += d
									}
								}
							}
						}
					}
				}
			}
		}
		agg.flush(c)
		// vacuity is keyed by the stores' data fields (found by their type: maps whose values hold workflow data), not by
		// their names nor by how many functions write them: splitting or merging the writing functions or renaming a
		// field changes neither the set of fields that must be covered nor the verdict
		data := c18DataMapFields(c)
		if len(data) < c18MinDataFields {
			c.Unsure("data fields of the stores", token.NoPos, fmt.Sprintf("only %d map fields holding workflow data found in the stores (expected at least %d): the stores were restructured beyond what this rule recognises", len(data), c18MinDataFields))
		}
		for _, f := range data {
			if !written[f] {
				c.Unsure("data field "+f, token.NoPos, "no analysed write into this data field (written in a way the origin engine does not see)")
			}
		}
	})

	// -----------------------------------------------------------------------------------------
	// X2: read side. Results of exported query methods.
	c.Rule("X2", 9, func() {
		e := engine()
		for _, rel := range c18Pkgs {
			for _, fn := range an.PkgFuncs(c.SSAPkg(rel)) {
				if fn.Parent() != nil || fn.Signature.Recv() == nil || fn.Object() == nil || !fn.Object().Exported() || !c18QueryName.MatchString(fn.Name()) {
					continue
				}
				res := fn.Signature.Results()
				for i := 0; i < res.Len(); i++ {
					if an.IsErrorType(res.At(i).Type()) {
						continue
					}
					k := fmt.Sprintf("%s result#%d", an.FuncName(fn), i)
					if !an.C18Mutable(res.At(i).Type()) {
						c.Good(k, fn.Pos(), "immutable kind "+an.TypeName(res.At(i).Type()))
						continue
					}
					rets := an.Returns(fn)
					if len(rets) == 0 {
						c.Unsure(k, fn.Pos(), "no return instruction")
						continue
					}
					var bad, unsure, good string
					pos := fn.Pos()
					for _, r := range rets {
						if i >= len(r.Results) {
							continue
						}
						os := e.Origins(r.Results[i])
						st, _, unk := an.C18Summary(os)
						switch {
						case st != nil:
							if bad == "" {
								how := "without Clone()"
								if st.Shallow {
									how = "behind a shallow copy (the container is new, its elements still are the stored objects)"
								}
								bad, pos = "query returns memory of the component's own state ("+st.What+") "+how+": every reader gets the same object and a write through it changes the store. origins: "+c18Describe(os), posOf(r)
							}
						case unk != nil:
							if unsure == "" {
								unsure = "cannot decide the origin of the returned value: " + unk.What
								if bad == "" {
									pos = posOf(r)
								}
							}
						default:
							if d := c18Describe(os); d != "" && !strings.Contains(good, d) {
								good += d + "; "
							}
						}
					}
					switch {
					case bad != "":
						c.Bad(k, pos, bad)
					case unsure != "":
						c.Unsure(k, pos, unsure)
					default:
						c.Good(k, pos, good)
					}
				}
			}
		}
	})

	// -----------------------------------------------------------------------------------------
	// X3: fan-out through slice-of-callback fields.
	c.Rule("X3", 7, func() {
		e := engine()
		type site struct {
			fn   *ssa.Function
			call ssa.CallInstruction
			key  string
			fan  c18Fan
		}
		var sites []site
		fields := map[string]string{} // field key -> package rel
		for _, rel := range c18Pkgs {
			for _, fn := range an.PkgFuncs(c.SSAPkg(rel)) {
				for _, in := range an.Instrs(fn, false) {
					ci, ok := in.(ssa.CallInstruction)
					if !ok {
						continue
					}
					cc := ci.Common()
					if cc.IsInvoke() || cc.StaticCallee() != nil {
						continue
					}
					if _, isB := cc.Value.(*ssa.Builtin); isB {
						continue
					}
					// where can the called function value come from? (directly an element of a callback field, or one handed
					// down through helpers / function literals)
					var fans []c18Fan
					for _, f := range c18TraceCallback(e, cc.Value, nil, 0) {
						if declaredIn(f.key, rel) {
							fans = append(fans, f)
						}
					}
					if len(fans) == 0 {
						continue
					}
					hasData := false
					for _, a := range cc.Args {
						if an.C18Mutable(a.Type()) {
							hasData = true
						}
					}
					if !hasData {
						continue // e.g. slotSubs(ctx, core.Slot)
					}
					for _, f := range fans {
						sites = append(sites, site{fn, ci, f.key, f})
						fields[f.key] = rel
					}
				}
			}
		}
		// registration wrappers
		wrapped := map[string]bool{}
		unknownReg := map[string]string{}
		var fkeys []string
		for k := range fields {
			fkeys = append(fkeys, k)
		}
		sort.Strings(fkeys)
		for _, k := range fkeys {
			status, regFn, pos, why := c18WrapperClones(c, e, fields[k], k)
			wrapped[k] = status == "clones"
			switch status {
			case "clones":
				// the field is filled with wrappers: their cloning is an obligation of its own
				c.Good(an.FuncName(regFn)+" registers cloning wrapper in "+k, pos, why)
			case "bad":
				c.Bad(an.FuncName(regFn)+" registers cloning wrapper in "+k, pos, why)
			case "unknown":
				unknownReg[k] = why
			}
		}
		// vacuity: the callback fields are found by their type (slices of functions that take workflow data), not by name
		cbs := c18CallbackSliceFields(c)
		if len(cbs) < c18MinCallbackFields {
			c.Unsure("callback fields of the components", token.NoPos, fmt.Sprintf("only %d slice-of-callback fields found (expected at least %d): the fan-outs were restructured beyond what this rule recognises", len(cbs), c18MinCallbackFields))
		}
		for _, f := range cbs {
			if _, ok := fields[f]; !ok {
				c.Unsure("callback field "+f, token.NoPos, "no call through this slice-of-callbacks field found (called in a way this rule does not see)")
			}
		}
		var agg c18Agg
		for _, s := range sites {
			cc := s.call.Common()
			inLoop0, perIter0 := c18PerIteration(s.call)
			inLoop := inLoop0 || s.fan.loop != nil
			// made anew for every subscriber: inside the fan-out loop, or inside a function that runs once per subscriber
			perIter := func(root ssa.Instruction) bool {
				if root == nil {
					return false
				}
				if inLoop0 && perIter0(root) {
					return true
				}
				return s.fan.perSubscriber(root)
			}
			for i, a := range cc.Args {
				if !an.C18Mutable(a.Type()) {
					continue
				}
				g := agg.get(fmt.Sprintf("%s → %s arg#%d", an.FuncName(s.fn), s.key, i), s.call.Pos())
				if wrapped[s.key] {
					g.good = "every function registered in the field is a wrapper that clones per call"
					continue
				}
				bad := func(pos token.Pos, msg string) {
					if why := unknownReg[s.key]; why != "" {
						// what is registered may or may not clone: the call site alone decides nothing definite
						g.setUnsure(pos, "cannot tell whether the functions registered in the field clone their arguments ("+why+"); the call site alone: "+msg)
						return
					}
					g.setBad(pos, msg)
				}
				os := e.Origins(a)
				st, par, unk := an.C18Summary(os)
				switch {
				case st != nil:
					bad(s.call.Pos(), "subscriber is handed memory of the component's state ("+st.What+") without Clone(). origins: "+c18Describe(os))
					continue
				case par != nil:
					bad(s.call.Pos(), "subscriber is handed the caller's own object ("+par.What+") without Clone(). origins: "+c18Describe(os))
					continue
				}
				if !inLoop {
					g.setUnsure(s.call.Pos(), "call through a callback slice outside a loop")
					continue
				}
				shared, unsureShared := "", ""
				for _, o := range os {
					if o.Const || o.Kind != an.C18Fresh {
						continue
					}
					switch {
					case o.Root != nil && perIter(o.Root):
					case o.Root != nil:
						shared = o.What
					case o.Made != nil && perIter(o.Made):
						// made by a caller of the helper this call sits in, inside the fan-out loop
					case o.Made != nil && s.fan.loop != nil && o.Made.Parent() == s.fan.loopFn:
						shared = o.What // made in the function of the fan-out loop, outside the loop
					default:
						unsureShared = o.What
					}
				}
				if shared == "" && c18CarriedOver(a, s.call) {
					shared = "an object kept from an earlier iteration"
				}
				if shared == "" && unsureShared != "" {
					g.setUnsure(s.call.Pos(), "cannot tell whether "+unsureShared+" is made once per subscriber")
					continue
				}
				if shared != "" {
					bad(s.call.Pos(), "the same object ("+shared+", made outside the fan-out loop) is handed to every subscriber: one subscriber's mutation is seen by the next. origins: "+c18Describe(os))
					continue
				}
				if unk != nil {
					g.setUnsure(s.call.Pos(), "cannot decide the origin of the subscriber argument: "+unk.What)
					continue
				}
				g.good = "cloned inside the fan-out loop: " + c18Describe(os)
			}
		}
		agg.flush(c)
	})
}

// the data fields of the stores (what X1 is about) and the callback fields of the fan-outs (X3): frozen tables that
// replace instance counting as the vacuity guard. A renamed field ends UNDECIDED.
// (today: aggsigdb MemDB.data, MemDBV2.data; dutydb attDuties, proDuties, aggDuties, contribDuties; parsigdb entries;
// scheduler duties — and fetcher/parsigdb(2)/scheduler/sigagg/validatorapi callback slices)
const (
	c18MinDataFields     = 8
	c18MinCallbackFields = 6
)

func c18Contains(xs []string, x string) bool {
	for _, y := range xs {
		if x == y {
			return true
		}
	}
	return false
}

// c18ComponentStructs: the named struct types of package rel that have at least one exported method (the components;
// parameter objects and query records have none).
func c18ComponentStructs(c *rt.Ctx, rel string) []*types.Named {
	var out []*types.Named
	scope := c.Pkg(rel).Types.Scope()
	names := scope.Names()
	sort.Strings(names)
	for _, name := range names {
		tn, ok := scope.Lookup(name).(*types.TypeName)
		if !ok || tn.IsAlias() {
			continue
		}
		n, ok := tn.Type().(*types.Named)
		if !ok {
			continue
		}
		if _, ok := n.Underlying().(*types.Struct); !ok {
			continue
		}
		ms := types.NewMethodSet(types.NewPointer(n))
		exported := false
		for i := 0; i < ms.Len(); i++ {
			if ms.At(i).Obj().Exported() {
				exported = true
			}
		}
		if exported {
			out = append(out, n)
		}
	}
	return out
}

// c18Leaf strips pointers, slices, arrays and map values.
func c18Leaf(t types.Type) types.Type {
	for i := 0; i < 8; i++ {
		switch u := t.Underlying().(type) {
		case *types.Pointer:
			t = u.Elem()
		case *types.Slice:
			t = u.Elem()
		case *types.Array:
			t = u.Elem()
		case *types.Map:
			t = u.Elem()
		default:
			return t
		}
	}
	return t
}

// c18DataMapFields: the fields of the stores' component structs that are maps whose values (behind pointers, slices,
// nested maps) are workflow data holding references. Index maps (values are keys / scalars) and plumbing are not data.
func c18DataMapFields(c *rt.Ctx) []string {
	var out []string
	for _, rel := range c18StorePkgs {
		for _, n := range c18ComponentStructs(c, rel) {
			st := n.Underlying().(*types.Struct)
			for i := 0; i < st.NumFields(); i++ {
				m, ok := st.Field(i).Type().Underlying().(*types.Map)
				if !ok {
					continue
				}
				if leaf := c18Leaf(m.Elem()); an.C18Mutable(leaf) {
					out = append(out, an.FieldKey(n, i))
				}
			}
		}
	}
	return out
}

// c18CallbackSliceFields: the fields of the components' structs that are slices of functions taking workflow data.
func c18CallbackSliceFields(c *rt.Ctx) []string {
	var out []string
	for _, rel := range c18Pkgs {
		for _, n := range c18ComponentStructs(c, rel) {
			st := n.Underlying().(*types.Struct)
			for i := 0; i < st.NumFields(); i++ {
				sl, ok := st.Field(i).Type().Underlying().(*types.Slice)
				if !ok {
					continue
				}
				sig, ok := sl.Elem().Underlying().(*types.Signature)
				if !ok {
					continue
				}
				for j := 0; j < sig.Params().Len(); j++ {
					if an.C18Mutable(sig.Params().At(j).Type()) {
						out = append(out, an.FieldKey(n, i))
						break
					}
				}
			}
		}
	}
	return out
}

// c18Fan describes how a called function value is an element of a callback field: the field, the loop that walks the
// field (in loopFn), and the functions that run once per element (helpers / literals the element is handed to).
type c18Fan struct {
	key    string
	region map[*ssa.Function]bool
	loopFn *ssa.Function
	loop   *an.Loop
}

// perSubscriber: the memory made by instruction root is made anew for each element of the callback field.
func (f c18Fan) perSubscriber(root ssa.Instruction) bool {
	if root == nil || root.Parent() == nil {
		return false
	}
	for fn := root.Parent(); fn != nil; fn = fn.Parent() {
		if f.region[fn] || f.region[an.Orig(fn)] {
			return true
		}
	}
	return f.loop != nil && root.Parent() == f.loopFn && f.loop.Body[root.Block()]
}

func c18IsCallbackSlice(t types.Type) bool {
	sl, ok := t.Underlying().(*types.Slice)
	if !ok {
		return false
	}
	_, ok = sl.Elem().Underlying().(*types.Signature)
	return ok
}

// c18CollKeys: the callback fields a slice value is (directly, or as a parameter through the visible callers).
func c18CollKeys(e *an.C18Engine, coll ssa.Value, d int) []string {
	coll = c18ResolveCaptured(coll)
	if k, _, ok := an.FieldOf(coll); ok {
		if c18IsCallbackSlice(coll.Type()) {
			return []string{k}
		}
		return nil
	}
	p, ok := coll.(*ssa.Parameter)
	if !ok || d > 3 {
		return nil
	}
	idx := -1
	for i, q := range p.Parent().Params {
		if q == p {
			idx = i
		}
	}
	var out []string
	for _, ci := range e.VisibleCallers(p.Parent()) {
		if idx >= 0 && idx < len(ci.Common().Args) {
			out = append(out, c18CollKeys(e, ci.Common().Args[idx], d+1)...)
		}
	}
	return out
}

// c18TraceCallback follows a called function value backwards to the slice-of-callbacks fields it can be an element of.
func c18TraceCallback(e *an.C18Engine, v ssa.Value, region map[*ssa.Function]bool, d int) []c18Fan {
	if d > 6 {
		return nil
	}
	v = c18ResolveCaptured(v)
	with := func(fn *ssa.Function) map[*ssa.Function]bool {
		r := map[*ssa.Function]bool{fn: true}
		for k := range region {
			r[k] = true
		}
		return r
	}
	var coll ssa.Value
	var at ssa.Instruction
	switch x := v.(type) {
	case *ssa.UnOp:
		if ia, ok := x.X.(*ssa.IndexAddr); ok && x.Op == token.MUL {
			coll, at = ia.X, x
		}
	case *ssa.Index:
		coll, at = x.X, x
	case *ssa.Parameter:
		fn := x.Parent()
		idx := -1
		for i, q := range fn.Params {
			if q == x {
				idx = i
			}
		}
		if idx < 0 || (idx == 0 && fn.Signature.Recv() != nil) {
			return nil
		}
		var calls []ssa.CallInstruction
		if fn.Parent() != nil {
			cs, ok := e.IndirectCalls(fn)
			if !ok {
				return nil
			}
			calls = cs
		} else {
			calls = e.VisibleCallers(fn)
		}
		var out []c18Fan
		for _, ci := range calls {
			if idx < len(ci.Common().Args) {
				out = append(out, c18TraceCallback(e, ci.Common().Args[idx], with(fn), d+1)...)
			}
		}
		return out
	}
	if coll == nil {
		return nil
	}
	var out []c18Fan
	for _, k := range c18CollKeys(e, coll, 0) {
		out = append(out, c18Fan{key: k, region: region, loopFn: at.Parent(), loop: an.InnermostLoop(at.Parent(), at.Block())})
	}
	return out
}

// c18ResolveCaptured is an.Resolve that also looks through variables captured by a function literal (a load of a free
// variable is the value the enclosing function stored in the captured variable, when that is a single assignment).
func c18ResolveCaptured(v ssa.Value) ssa.Value {
	for i := 0; i < 8; i++ {
		v = an.Resolve(v)
		ld, ok := v.(*ssa.UnOp)
		if !ok || ld.Op != token.MUL {
			return v
		}
		fv, ok := ld.X.(*ssa.FreeVar)
		if !ok {
			return v
		}
		fn := fv.Parent()
		idx := -1
		for j, f := range fn.FreeVars {
			if f == fv {
				idx = j
			}
		}
		if idx < 0 || fn.Parent() == nil {
			return v
		}
		var src ssa.Value
		n := 0
		for _, in := range an.Instrs(fn.Parent(), false) {
			if mc, ok := in.(*ssa.MakeClosure); ok && mc.Fn == ssa.Value(fn) && idx < len(mc.Bindings) {
				n++
				if al, ok := mc.Bindings[idx].(*ssa.Alloc); ok {
					src = an.UniqueStore(al)
				}
			}
		}
		if n != 1 || src == nil {
			return v
		}
		v = src
	}
	return v
}

// c18PerIteration finds the loop in whose every iteration instruction `at` runs: the innermost loop of its function, or,
// when `at` sits in a function literal that is only ever called directly at one place, the loop around that place (and so
// on outwards). perIter reports whether memory made by instruction root is made anew in each iteration of that loop.
func c18PerIteration(at ssa.Instruction) (inLoop bool, perIter func(root ssa.Instruction) bool) {
	inner := map[*ssa.Function]bool{} // literals whose whole body runs once per iteration
	fn, b := at.Parent(), at.Block()
	for i := 0; i < 6; i++ {
		if l := an.InnermostLoop(fn, b); l != nil {
			return true, func(root ssa.Instruction) bool {
				if root == nil {
					return false
				}
				if inner[root.Parent()] {
					return true
				}
				return root.Parent() == fn && l.Body[root.Block()]
			}
		}
		parent := fn.Parent()
		if parent == nil {
			break
		}
		var site ssa.Instruction
		n := 0
		for _, in := range an.Instrs(parent, false) {
			mc, ok := in.(*ssa.MakeClosure)
			if !ok || mc.Fn != ssa.Value(fn) {
				// a literal without captured variables is used as a plain function value
				for _, op := range an.Operands(in) {
					if op == ssa.Value(fn) {
						n++
						if call, ok := in.(*ssa.Call); ok && call.Call.Value == op {
							site = call
						} else {
							n += 2
						}
					}
				}
				continue
			}
			for _, r := range *mc.Referrers() {
				n++
				if call, ok := r.(*ssa.Call); ok && call.Call.Value == ssa.Value(mc) {
					site = call
				} else {
					n += 2 // escapes, deferred or started as a goroutine: not "once per iteration of the caller's loop"
				}
			}
		}
		if n != 1 || site == nil {
			break
		}
		inner[fn] = true
		fn, b = parent, site.Block()
	}
	return false, nil
}

// c18CarriedOver: value v, used at instruction at inside a loop, can be a value of an earlier iteration of that loop: its
// definition chain passes a phi in the header of a loop around at whose back edge carries reference-typed data (a clone
// made once and cached in a variable declared outside the loop).
func c18CarriedOver(v ssa.Value, at ssa.Instruction) bool {
	loops := an.LoopsContaining(at.Parent(), at.Block())
	if len(loops) == 0 {
		return false
	}
	seen := map[ssa.Value]bool{}
	var walk func(v ssa.Value, d int) bool
	walk = func(v ssa.Value, d int) bool {
		if v == nil || seen[v] || d > 12 {
			return false
		}
		seen[v] = true
		switch x := v.(type) {
		case *ssa.Phi:
			for _, l := range loops {
				if x.Block() != l.Header {
					continue
				}
				for i, e := range x.Edges {
					if l.Body[x.Block().Preds[i]] && !an.IsNilConst(e) && an.C18Mutable(e.Type()) {
						return true
					}
				}
			}
			for _, e := range x.Edges {
				if walk(e, d+1) {
					return true
				}
			}
		case *ssa.ChangeType:
			return walk(x.X, d+1)
		case *ssa.MakeInterface:
			return walk(x.X, d+1)
		case *ssa.ChangeInterface:
			return walk(x.X, d+1)
		case *ssa.TypeAssert:
			return walk(x.X, d+1)
		case *ssa.Extract:
			if ta, ok := x.Tuple.(*ssa.TypeAssert); ok {
				return walk(ta.X, d+1)
			}
		}
		return false
	}
	return walk(v, 0)
}

// c18CallbackField: v is an element of a slice-of-functions struct field; returns the field key.
func c18CallbackField(v ssa.Value) (string, bool) {
	v = c18ResolveCaptured(v)
	var coll ssa.Value
	switch x := v.(type) {
	case *ssa.UnOp:
		if ia, ok := x.X.(*ssa.IndexAddr); ok && x.Op == token.MUL {
			coll = ia.X
		}
	case *ssa.Index:
		coll = x.X
	}
	if coll == nil {
		return "", false
	}
	coll = c18ResolveCaptured(coll) // `subs := s.dutySubs` hoisted in front of a function literal that ranges over it
	sl, ok := coll.Type().Underlying().(*types.Slice)
	if !ok {
		return "", false
	}
	if _, ok := sl.Elem().Underlying().(*types.Signature); !ok {
		return "", false
	}
	k, _, ok := an.FieldOf(coll)
	return k, ok
}

// c18WrapperClones classifies what is registered in a callback field: "clones" — every registered function is a
// function literal (written in place, kept in a local, or returned by an in-package constructor) that calls the captured
// callback with per-call clones of its reference-typed arguments; "raw" — the caller's callback itself is registered;
// "bad" — a wrapper that definitely hands on an uncloned / shared argument; "unknown" — anything else.
func c18WrapperClones(c *rt.Ctx, e *an.C18Engine, rel, key string) (status string, regFn *ssa.Function, pos token.Pos, why string) {
	n := 0
	raws, wraps := 0, 0
	within := func(fn, lit *ssa.Function) bool {
		for ; fn != nil; fn = fn.Parent() {
			if fn == lit {
				return true
			}
		}
		return false
	}
	// literalOf resolves a registered element to the function literal it is (nil: not a literal)
	var literalOf func(el ssa.Value, d int) (*ssa.Function, bool)
	literalOf = func(el ssa.Value, d int) (*ssa.Function, bool) {
		el = c18ResolveCaptured(el)
		switch x := el.(type) {
		case *ssa.MakeClosure:
			lit, _ := x.Fn.(*ssa.Function)
			return lit, lit != nil
		case *ssa.Function:
			return x, x.Parent() != nil
		case *ssa.Call:
			// constructor of the wrapper: every return hands back the same literal
			g := x.Call.StaticCallee()
			if g == nil || g.Blocks == nil || g.Pkg != x.Parent().Pkg || d > 2 {
				return nil, false
			}
			var lit *ssa.Function
			for _, r := range an.Returns(g) {
				if len(r.Results) != 1 {
					return nil, false
				}
				l, ok := literalOf(r.Results[0], d+1)
				if !ok || (lit != nil && lit != l) {
					return nil, false
				}
				lit = l
			}
			return lit, lit != nil
		}
		return nil, false
	}
	for _, fn := range an.PkgFuncs(c.SSAPkg(rel)) {
		for _, in := range an.Instrs(fn, false) {
			st, isSt := in.(*ssa.Store)
			if !isSt {
				continue
			}
			fa, isFA := st.Addr.(*ssa.FieldAddr)
			if !isFA || an.FieldKey(fa.X.Type(), fa.Field) != key {
				continue
			}
			if _, local := fa.X.(*ssa.Alloc); local {
				continue // constructor literal
			}
			n++
			if regFn == nil {
				regFn, pos = fn, posOf(st)
			}
			elems := appendedElems(st.Val)
			if len(elems) == 0 {
				return "unknown", regFn, posOf(st), "field is assigned something other than append(field, f)"
			}
			for _, el := range elems {
				if _, isParam := an.Resolve(el).(*ssa.Parameter); isParam {
					raws++
					continue
				}
				lit, ok := literalOf(el, 0)
				if !ok {
					return "unknown", fn, posOf(st), "cannot resolve the function registered in the field"
				}
				wraps++
				calls := 0
				for _, li := range an.Instrs(lit, true) {
					ci, isCall := li.(ssa.CallInstruction)
					if !isCall || ci.Common().IsInvoke() || ci.Common().StaticCallee() != nil {
						continue
					}
					ld, isLd := ci.Common().Value.(*ssa.UnOp)
					if !isLd {
						continue
					}
					if _, isFV := ld.X.(*ssa.FreeVar); !isFV {
						continue
					}
					calls++
					for i, a := range ci.Common().Args {
						if !an.C18Mutable(a.Type()) {
							continue
						}
						os := e.Origins(a)
						stt, par, unk := an.C18Summary(os)
						if stt != nil || par != nil {
							return "bad", fn, ci.Pos(), fmt.Sprintf("wrapper passes argument #%d to the subscriber without cloning it (%s)", i, c18Describe(os))
						}
						if unk != nil {
							return "unknown", fn, ci.Pos(), fmt.Sprintf("cannot decide the origin of argument #%d the wrapper passes on (%s)", i, unk.What)
						}
						for _, o := range os {
							if !o.Const && (o.Root == nil || !within(o.Root.Parent(), lit)) {
								return "bad", fn, ci.Pos(), fmt.Sprintf("wrapper passes argument #%d that is not cloned per call (%s)", i, o.What)
							}
						}
					}
				}
				if calls == 0 {
					return "unknown", fn, posOf(st), "cannot find the call of the captured subscriber in the registered function"
				}
			}
		}
	}
	switch {
	case n == 0:
		return "unknown", nil, token.NoPos, "no registration found"
	case wraps > 0 && raws == 0:
		return "clones", regFn, pos, "wrapper clones"
	case wraps == 0:
		return "raw", regFn, pos, "the caller's callback itself is registered"
	}
	return "raw", regFn, pos, "some registrations wrap, others register the caller's callback itself"
}
