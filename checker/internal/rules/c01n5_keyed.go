package rules

import (
	"go/token"
	"go/types"

	"golang.org/x/tools/go/ssa"

	"charonverif/internal/an"
	"charonverif/internal/rt"
)

// R1k — "the object published under validator k is the one built (aggregated and verified) for k".
//
// core/sigagg files signed objects by validator in maps PubKey -> SignedData (the set handed to the subscribers, i.e.
// to AggSigDB.Store and Broadcaster.Broadcast). C09.G1 states that every aggregate is verified under the key passed to
// the per-validator helper; what makes that verification worth anything for the beacon node is that the aggregate is
// then FILED under the same key. For every write `m[k] = v` into such a map the rule follows the data v is computed
// from (operands, call arguments, variables captured by function literals, channel sends matching a receive, struct
// fields) and compares every validator key and every element of a range over a validator-keyed map that feeds v with k:
//
//   - every feeder is k itself (the same range iteration / the same variable)                       -> holds
//   - k and v are two fields of one message (channel element, slice element): decided on every
//     construction of that message type (the pair must be built from one iteration)                 -> recursive
//   - a feeder is the key/element of ANOTHER range iteration than the one k comes from, with no
//     keyed transport in between                                                                    -> VIOLATION
//   - anything else (no feeder found, keys whose relation to k is unknown)                          -> UNDECIDED
//
// No names of functions, fields or locals are used: the maps are recognised by the element types of the callback type
// of core.SigAgg.Subscribe.

var c01R1kMutants = []Mutant{
	// results collected from a channel in completion order, filed in map-iteration order
	{ID: "C01-R1k-channel-results-filed-by-second-range", File: "core/sigagg/sigagg.go", Expect: "R1k|validator key it was built for",
		Old: "\tfor pubkey, parSigs := range set {\n\t\tsigned, err := a.aggregate(ctx, pubkey, parSigs)\n\t\tif err != nil {\n\t\t\treturn errors.Wrap(err, \"threshold aggregate\", z.Any(\"pubkey\", pubkey))\n\t\t}\n\n\t\toutput[pubkey] = signed\n\t}",
		New: "\tdone := make(chan core.SignedData, len(set))\n\tfor pubkey, parSigs := range set {\n\t\tgo func() {\n\t\t\tsigned, _ := a.aggregate(ctx, pubkey, parSigs)\n\t\t\tdone <- signed\n\t\t}()\n\t}\n\n\tfor pubkey := range set {\n\t\tsigned := <-done\n\t\tif signed == nil {\n\t\t\treturn errors.New(\"threshold aggregate\", z.Any(\"pubkey\", pubkey))\n\t\t}\n\n\t\toutput[pubkey] = signed\n\t}"},
	// the aggregate of the previous iteration is filed under the key of the current one
	{ID: "C01-R1k-nested-range-files-under-inner-key", File: "core/sigagg/sigagg.go", Expect: "R1k|validator key it was built for",
		Old: "\t\toutput[pubkey] = signed\n\t}",
		New: "\t\tfor other := range set {\n\t\t\toutput[other] = signed\n\t\t}\n\t}"},
	// aggregates appended to a list in one loop, filed by position against a second range over the map
	{ID: "C01-R1k-list-zipped-with-second-range", File: "core/sigagg/sigagg.go", Expect: "R1k|validator key it was built for",
		Old: "\t\toutput[pubkey] = signed\n\t}",
		New: "\t\taggs = append(aggs, signed)\n\t}\n\n\tfor pubkey := range set {\n\t\toutput[pubkey] = aggs[len(output)]\n\t}",
		More: [][2]string{{"\toutput := make(core.SignedDataSet)\n", "\toutput := make(core.SignedDataSet)\n\n\tvar aggs []core.SignedData\n"}}},
}

func init() {
	Extend("C01", "(R1k) in core/sigagg every signed object filed under a validator key (the set handed to the SigAgg subscribers) is computed from the entry of that same key: the key of the write and every validator key / range element the value is built from belong to one iteration (results of concurrent aggregation travel together with their key).",
		func(c *rt.Ctx) { c.Rule("R1k", 1, func() { c01R1k(c) }) }, c01R1kMutants...)
}

func c01R1k(c *rt.Ctx) {
	it := lookupIface(c, "core", "SigAgg")
	var setT *types.Map
	for i := 0; i < it.NumMethods(); i++ {
		if m := it.Method(i); m.Name() == "Subscribe" {
			if ps := m.Type().(*types.Signature).Params(); ps.Len() == 1 {
				if cb, ok := ps.At(0).Type().Underlying().(*types.Signature); ok {
					for j := 0; j < cb.Params().Len(); j++ {
						if mt, ok := cb.Params().At(j).Type().Underlying().(*types.Map); ok {
							setT = mt
						}
					}
				}
			}
		}
	}
	if setT == nil {
		c.Bail("the set type of the core.SigAgg.Subscribe callback was not found")
	}
	k := &c01Keyed{keyT: setT.Key(), valT: setT.Elem(), pkg: c.SSAPkg("core/sigagg")}
	n := 0
	for _, f := range an.PkgFuncs(k.pkg) {
		for _, in := range an.Instrs(f, false) {
			mu, ok := in.(*ssa.MapUpdate)
			if !ok {
				continue
			}
			mt, ok := mu.Map.Type().Underlying().(*types.Map)
			if !ok || !types.Identical(mt.Key(), k.keyT) || !types.Identical(mt.Elem(), k.valT) {
				continue
			}
			n++
			construct := an.FuncName(c01Root(f)) + " files every signed object under the validator key it was built for"
			verdict, why := k.check(mu.Key, mu.Value, 0)
			switch verdict {
			case 1:
				c.Good(construct, posOf(in), "")
			case -1:
				c.Bad(construct, posOf(in), why)
			default:
				c.Unsure(construct, posOf(in), why)
			}
		}
	}
	if n == 0 {
		c.Unsure("core/sigagg files every signed object under the validator key it was built for", k.pkg.Pkg.Scope().Pos(), "no write into a validator-keyed set of signed objects found in core/sigagg")
	}
}

type c01Keyed struct {
	keyT, valT types.Type
	pkg        *ssa.Package
}

// deep: an.Resolve that also looks through single-assignment captured variables.
func (k *c01Keyed) deep(v ssa.Value) ssa.Value { return c01ResolveCaptured(v) }

// fieldRead: v reads field idx of the struct value / struct pointer base.
func (k *c01Keyed) fieldRead(v ssa.Value) (base ssa.Value, idx int, ok bool) {
	switch x := k.deep(v).(type) {
	case *ssa.Field:
		return k.deep(x.X), x.Field, true
	case *ssa.UnOp:
		if x.Op != token.MUL {
			return nil, 0, false
		}
		fa, isFA := x.X.(*ssa.FieldAddr)
		if !isFA {
			return nil, 0, false
		}
		if al := c01Cell(fa.X); al != nil {
			if src := an.UniqueStore(al); src != nil {
				return k.deep(src), fa.Field, true
			}
			return al, fa.Field, true
		}
		return fa.X, fa.Field, true
	}
	return nil, 0, false
}

// nextOf: v is element idx (1 key, 2 value) of a range iteration over a map.
func (k *c01Keyed) nextOf(v ssa.Value) (*ssa.Next, int) {
	ex, ok := v.(*ssa.Extract)
	if !ok {
		return nil, 0
	}
	nx, ok := ex.Tuple.(*ssa.Next)
	if !ok || nx.IsString {
		return nil, 0
	}
	return nx, ex.Index
}

// keyedRange: the iteration ranges over a map keyed by validator keys.
func (k *c01Keyed) keyedRange(nx *ssa.Next) bool {
	rg, ok := nx.Iter.(*ssa.Range)
	if !ok {
		return false
	}
	mt, ok := rg.X.Type().Underlying().(*types.Map)
	return ok && types.Identical(mt.Key(), k.keyT)
}

// check decides one (key, value) pair: 1 holds, -1 positively mismatched, 0 unknown.
func (k *c01Keyed) check(key, val ssa.Value, depth int) (int, string) {
	if depth > 3 {
		return 0, "the key/value pair travels through more messages than the checker follows"
	}
	kr := k.deep(key)
	// key and value are two fields of one message: decide on the constructions of the message type
	if kb, kf, ok := k.fieldRead(key); ok {
		if vb, vf, ok2 := k.fieldRead(val); ok2 && kb == vb && kf != vf {
			return k.checkMessages(kb, kf, vf, depth)
		}
	}
	iterK, _ := k.nextOf(kr)
	same, unknown := 0, ""
	bad := ""
	seen := map[ssa.Value]bool{}
	budget := 4000
	var walk func(v ssa.Value)
	feedKey := func(p ssa.Value) bool { // returns true when the walk should stop at p
		if p == kr {
			same++
			return true
		}
		if nx, _ := k.nextOf(p); nx != nil && k.keyedRange(nx) {
			if iterK != nil && nx != iterK {
				bad = "the value is built for the key of another range iteration (" + k.pkg.Prog.Fset.Position(nx.Iter.Pos()).String() + ") than the one it is filed under: results and keys are paired by iteration order, so the verified aggregate of one validator is published under another validator"
			} else if iterK == nil {
				unknown = "the value is built for a range key whose relation to the key of the write is not followed"
			}
			return true
		}
		return false
	}
	walk = func(v ssa.Value) {
		if v == nil || bad != "" || budget <= 0 {
			return
		}
		budget--
		v = k.deep(v)
		if seen[v] {
			return
		}
		seen[v] = true
		if types.Identical(v.Type(), k.keyT) && feedKey(v) {
			return
		}
		if nx, idx := k.nextOf(v); nx != nil {
			if !k.keyedRange(nx) {
				return
			}
			switch {
			case iterK != nil && nx == iterK:
				same++
			case iterK != nil:
				bad = "the value is built from the entry of another range iteration (" + k.pkg.Prog.Fset.Position(nx.Iter.Pos()).String() + ") than the one whose key it is filed under: results and keys are paired by iteration order, so the verified aggregate of one validator is published under another validator"
			default:
				_ = idx
				unknown = "the value is built from a range element whose relation to the key of the write is not followed"
			}
			return
		}
		switch x := v.(type) {
		case *ssa.Const, *ssa.Global, *ssa.Function, *ssa.Builtin, *ssa.Parameter, *ssa.MakeMap, *ssa.MakeChan, *ssa.MakeSlice:
			return
		case *ssa.FreeVar:
			if al := c01Cell(x); al != nil {
				k.stores(al, walk)
			}
			return
		case *ssa.Alloc:
			k.stores(x, walk)
			return
		case *ssa.Phi:
			for _, e := range x.Edges {
				walk(e)
			}
		case *ssa.Extract:
			walk(x.Tuple)
		case *ssa.Field:
			walk(x.X)
		case *ssa.FieldAddr:
			walk(x.X)
		case *ssa.IndexAddr:
			walk(x.X)
			walk(x.Index)
		case *ssa.Index:
			walk(x.X)
			walk(x.Index)
		case *ssa.Lookup:
			// keyed transport: the association is carried by the lookup key, not by the order of the writes
			walk(x.Index)
			if _, local := k.deep(x.X).(*ssa.MakeMap); !local {
				walk(x.X)
			}
		case *ssa.Slice:
			walk(x.X)
		case *ssa.TypeAssert:
			walk(x.X)
		case *ssa.MakeClosure:
			for _, b := range x.Bindings {
				walk(b)
			}
		case *ssa.BinOp:
			walk(x.X)
			walk(x.Y)
		case *ssa.UnOp:
			switch x.Op {
			case token.ARROW:
				mc, ok := k.deep(x.X).(*ssa.MakeChan)
				if !ok {
					unknown = "the value is received from a channel whose senders are not followed"
					return
				}
				n := 0
				for _, f := range an.PkgFuncs(k.pkg) {
					for _, in := range an.Instrs(f, false) {
						if sd, ok := in.(*ssa.Send); ok && k.deep(sd.Chan) == ssa.Value(mc) {
							n++
							walk(sd.X)
						}
					}
				}
				if n == 0 {
					unknown = "the value is received from a channel without a followed send"
				}
			case token.MUL:
				walk(x.X)
			default:
				walk(x.X)
			}
		case *ssa.Call:
			cc := x.Common()
			if cc.IsInvoke() {
				walk(cc.Value)
			} else if cc.StaticCallee() == nil {
				walk(cc.Value) // a function value: its captured variables feed the result
			} else if mcl, ok := cc.Value.(*ssa.MakeClosure); ok {
				walk(mcl)
			}
			for _, a := range cc.Args {
				walk(a)
			}
		default:
			var ops []*ssa.Value
			if in, ok := v.(ssa.Instruction); ok {
				for _, o := range in.Operands(ops) {
					if o != nil && *o != nil {
						walk(*o)
					}
				}
			}
		}
	}
	walk(val)
	switch {
	case bad != "":
		return -1, bad
	case budget <= 0:
		return 0, "the computation of the filed value is too large to follow"
	case unknown != "":
		return 0, unknown
	case same > 0:
		return 1, ""
	}
	return 0, "no validator key or range element feeding the filed value was found: the checker cannot tell which validator the value was built for"
}

// stores walks every value stored into the local variable al (directly, through a field of it, or from a function
// literal that captured it).
func (k *c01Keyed) stores(al *ssa.Alloc, walk func(ssa.Value)) {
	root := c01Root(al.Parent())
	for _, in := range an.Instrs(root, true) {
		st, ok := in.(*ssa.Store)
		if !ok {
			continue
		}
		addr := st.Addr
		if fa, ok := addr.(*ssa.FieldAddr); ok {
			addr = fa.X
		}
		if ia, ok := addr.(*ssa.IndexAddr); ok {
			addr = ia.X
		}
		if c01Cell(addr) == al {
			walk(st.Val)
		}
	}
}

// checkMessages: key and value are fields kf and vf of one struct value base (a channel element, a slice element, a
// local struct). Every construction of that struct type in the package must pair a key with the value built for it.
func (k *c01Keyed) checkMessages(base ssa.Value, kf, vf int, depth int) (int, string) {
	t := base.Type()
	if p, ok := t.Underlying().(*types.Pointer); ok {
		t = p.Elem()
	}
	if _, ok := t.Underlying().(*types.Struct); !ok {
		return 0, "the key and the value are read from one message of a type the checker does not follow"
	}
	n, res, why := 0, 1, ""
	for _, f := range an.PkgFuncs(k.pkg) {
		for _, in := range an.Instrs(f, false) {
			al, ok := in.(*ssa.Alloc)
			if !ok || !types.Identical(al.Type().(*types.Pointer).Elem(), t) {
				continue
			}
			var kv, vv ssa.Value
			multi, whole := false, false
			for _, ref := range *al.Referrers() {
				switch r := ref.(type) {
				case *ssa.FieldAddr:
					if r.Field != kf && r.Field != vf {
						continue
					}
					for _, rr := range *r.Referrers() {
						st, ok := rr.(*ssa.Store)
						if !ok || st.Addr != ssa.Value(r) {
							continue
						}
						if r.Field == kf {
							multi = multi || kv != nil
							kv = st.Val
						} else {
							multi = multi || vv != nil
							vv = st.Val
						}
					}
				case *ssa.Store:
					if r.Addr == ssa.Value(al) {
						whole = true
					}
				}
			}
			if whole && kv == nil && vv == nil {
				continue // a copy of a message (e.g. the received element), not a construction
			}
			if vv == nil {
				continue // no value in this message (an error report)
			}
			n++
			if multi || kv == nil {
				if res > 0 {
					res, why = 0, "a message carrying a signed object is built without a single key assignment the checker can follow"
				}
				continue
			}
			r, w := k.check(kv, vv, depth+1)
			if r < res {
				res, why = r, w
			}
		}
	}
	if n == 0 {
		return 0, "the key and the value are read from one message, but no construction of that message type was found"
	}
	return res, why
}
