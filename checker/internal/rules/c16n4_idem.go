package rules

import (
	"go/types"
	"strings"

	"golang.org/x/tools/go/ssa"

	"charonverif/internal/an"
)

// C16 N6 — "registering a pending duty again has no further effect".
//
// Necessary condition: whatever collection holds the pending duties, a registration stores the received duty in it
// either under a key computed from the duty itself (a map/set keyed by the duty: a second registration overwrites
// the first) or, if the store is positional (append, slices.Insert, heap/list push, element store, a map keyed by
// something else), only after some decision or de-duplicating operation that depends on the duty's identity (a
// membership test). A positional store of the registered duty that no path reaches through any test of the duty is
// positive evidence that a second registration stores - and later reports - the duty twice.
//
// The deadline computed from the duty (the DeadlineFunc result) does not identify the duty (many duties share a
// deadline), so tests of the deadline are not membership tests.

// c16Flow tracks, along one path, the values and memory cells that carry the registered duty itself.
type c16Flow struct {
	inp     *an.Sym
	dutyIdx int // field of the received input holding the duty; -1: the input is the duty
	keys    map[string]bool
	cells   []string
}

func c16CellRelated(x, t string) bool {
	return x == t || strings.HasPrefix(t, x+".#") || strings.HasPrefix(t, x+"[") || strings.HasPrefix(x, t+".#") || strings.HasPrefix(x, t+"[")
}

func (f *c16Flow) has(s *an.Sym, d int) bool {
	if s == nil || d > 12 {
		return false
	}
	if f.keys[s.Key()] {
		return true
	}
	if an.SymEq(s, f.inp) {
		return true
	}
	if s.Kind == an.KField && len(s.Args) == 1 && an.SymEq(s.Args[0], f.inp) {
		return f.dutyIdx < 0 || s.Index == f.dutyIdx
	}
	if (s.Kind == an.KAddr || s.Kind == an.KInit) && s.Cell != "" {
		for _, tc := range f.cells {
			if c16CellRelated(s.Cell, tc) {
				return true
			}
		}
	}
	for _, a := range s.Args {
		if f.has(a, d+1) {
			return true
		}
	}
	for _, a := range s.Fields {
		if f.has(a, d+1) {
			return true
		}
	}
	return false
}

func c16CellOf(addr *an.Sym) string {
	if addr.Kind == an.KAddr {
		return addr.Cell
	}
	return "*(" + addr.Key() + ")"
}

func c16PersistentCell(cell string) bool {
	return strings.HasPrefix(cell, "alloc:") || strings.HasPrefix(cell, "*(")
}

// c16Rooted: the value comes (at least partly) from state that existed before this iteration of the event loop.
func c16Rooted(s *an.Sym, d int) bool {
	if s == nil || d > 12 {
		return false
	}
	switch s.Kind {
	case an.KInit, an.KParam:
		return true
	case an.KOpaque:
		if s.ID == 0 {
			return true
		}
	case an.KAddr:
		if c16PersistentCell(s.Cell) {
			return true
		}
	}
	for _, a := range s.Args {
		if c16Rooted(a, d+1) {
			return true
		}
	}
	return false
}

// c16NoIdentity: the call's result cannot identify the duty it was computed from (a deadline: time.Time or
// (time.Time, bool)), or the callee is a DeadlineFunc.
func c16NoIdentity(in ssa.Instruction) bool {
	call, ok := in.(*ssa.Call)
	if !ok {
		return false
	}
	if !call.Call.IsInvoke() && an.TypeName(call.Call.Value.Type()) == "core.DeadlineFunc" {
		return true
	}
	isTimeish := func(t types.Type) bool {
		switch an.TypeName(t) {
		case "time.Time", "time.Duration":
			return true
		}
		b, ok := t.Underlying().(*types.Basic)
		return ok && b.Info()&types.IsBoolean != 0
	}
	switch t := call.Type().(type) {
	case *types.Tuple:
		if t.Len() == 0 {
			return false
		}
		hasTime := false
		for i := 0; i < t.Len(); i++ {
			if !isTimeish(t.At(i).Type()) {
				return false
			}
			if an.TypeName(t.At(i).Type()) == "time.Time" {
				hasTime = true
			}
		}
		return hasTime
	default:
		return an.TypeName(call.Type()) == "time.Time"
	}
}

// c16Grower: a library call that stores its (non-first) arguments as new elements of a positional container.
func c16Grower(name string) bool {
	switch name {
	case "slices.Insert", "slices.Concat", "slices.AppendSeq", "container/heap.Push":
		return true
	}
	if strings.Contains(name, "container/list.List") || strings.Contains(name, "container/ring.Ring") {
		for _, m := range []string{"PushBack", "PushFront", "InsertBefore", "InsertAfter", "Link"} {
			if strings.HasSuffix(name, "."+m) || strings.HasSuffix(name, ")."+m) {
				return true
			}
		}
	}
	return false
}

// c16Deduper: a library call that removes / locates elements by value or predicate.
func c16Deduper(name string) bool {
	for _, p := range []string{"slices.DeleteFunc", "slices.IndexFunc", "slices.Index", "slices.ContainsFunc", "slices.Contains", "slices.BinarySearchFunc", "slices.BinarySearch"} {
		if name == p {
			return true
		}
	}
	return false
}

type c16InsSite struct {
	in      ssa.Instruction
	what    string
	keyed   bool   // stored under a key computed from the duty
	tested  bool   // some path reaches the store after a decision / de-duplication depending on the duty
	unknown string // something the walker cannot follow could be the membership test
	paths   int
}

// c16Idempotent inspects the paths through the input case and reports, per static site storing the registered duty
// into a collection, whether the store is idempotent. It returns the number of sites found.
func c16Idempotent(agg *h1617Agg, iters []c16Iter, evSel *ssa.Select, inIdx int, actor map[*ssa.Function]bool) int {
	// the duty inside the value received on the input channel
	dutyIdx := -1
	if ch, ok := evSel.States[inIdx].Chan.Type().Underlying().(*types.Chan); ok {
		if st, ok := ch.Elem().Underlying().(*types.Struct); ok && an.TypeName(ch.Elem()) != "core.Duty" {
			n := 0
			for i := 0; i < st.NumFields(); i++ {
				if an.TypeName(st.Field(i).Type()) == "core.Duty" {
					dutyIdx = i
					n++
				}
			}
			if n != 1 {
				agg.unsure("run re-registration is idempotent", evSel.Pos(), "cannot identify the duty inside the value received on the input channel")
				return 1
			}
		}
	}
	sites := map[ssa.Instruction]*c16InsSite{}
	var order []ssa.Instruction
	site := func(in ssa.Instruction, what string) *c16InsSite {
		s := sites[in]
		if s == nil {
			s = &c16InsSite{in: in, what: what}
			sites[in] = s
			order = append(order, in)
		}
		s.paths++
		return s
	}
	for _, it := range iters {
		if it.sel.Chosen != inIdx {
			continue
		}
		inp := it.sel.States[inIdx].Recv
		if inp == nil {
			continue
		}
		fl := &c16Flow{inp: inp, dutyIdx: dutyIdx, keys: map[string]bool{}}
		tested := false
		unknown := ""
		evs := it.p.Evs
		for i := it.selPos + 1; i < len(evs); i++ {
			e := evs[i]
			anyArg := func(from int) bool {
				for j := from; j < len(e.Args); j++ {
					if fl.has(e.Args[j], 0) {
						return true
					}
				}
				return false
			}
			mark := func(s *c16InsSite) {
				if tested {
					s.tested = true
				}
				if unknown != "" && s.unknown == "" {
					s.unknown = unknown
				}
			}
			switch e.Kind {
			case "branch":
				if fl.has(e.Args[0], 0) {
					tested = true
				}
			case "store":
				if len(e.Args) == 2 && fl.has(e.Args[1], 0) {
					addr := e.Args[0]
					cell := c16CellOf(addr)
					// element store into a collection that outlives the iteration
					if addr.Kind == an.KAddr && addr.V == nil && len(addr.Args) == 2 && c16PersistentCell(cell) && !fl.has(addr.Args[1], 0) {
						mark(site(e.In, "element store"))
					}
					fl.cells = append(fl.cells, cell)
				}
			case "mapupdate":
				if len(e.Args) == 3 {
					switch {
					case fl.has(e.Args[1], 0):
						s := site(e.In, "map insertion")
						s.keyed = true
					case fl.has(e.Args[2], 0):
						mark(site(e.In, "insertion into a map that is not keyed by the duty"))
					}
				}
			case "builtin":
				if e.Name == "append" && len(e.Args) >= 2 && anyArg(1) && c16Rooted(e.Args[0], 0) {
					if fl.keys[e.Args[0].Key()] {
						tested = true // the collection was first transformed by an operation depending on the duty
					}
					mark(site(e.In, "append"))
				}
				if e.Res != nil && anyArg(0) && e.Name != "len" && e.Name != "cap" {
					fl.keys[e.Res.Key()] = true
				}
			case "lookup":
				if len(e.Args) == 2 && fl.has(e.Args[1], 0) && e.Res != nil {
					fl.keys[e.Res.Key()] = true
				}
			case "call":
				tainted := anyArg(0)
				if tainted && c16Grower(e.Name) && len(e.Args) >= 1 && c16Rooted(e.Args[0], 0) && anyArg(1) {
					if fl.keys[e.Args[0].Key()] {
						tested = true
					}
					mark(site(e.In, e.Name))
				}
				if !tainted || c16NoIdentity(e.In) {
					break
				}
				if e.Name == "slices.DeleteFunc" {
					tested = true // every element equal to / matching the duty is removed before it is stored again
				}
				if e.Res != nil {
					fl.keys[e.Res.Key()] = true
				}
				// a function literal that sees the duty is run by code the walker does not follow
				if e.Callee == nil || !actor[e.Callee] {
					for _, a := range e.Args {
						if a != nil && a.Kind == an.KClosure && fl.has(a, 0) && !c16Deduper(e.Name) && unknown == "" {
							unknown = "a function literal capturing the registered duty is passed to " + e.Name + ", which is not followed"
						}
					}
				}
			}
		}
	}
	for _, in := range order {
		s := sites[in]
		name := "run re-registration is idempotent (" + s.what + ")"
		switch {
		case s.keyed:
			agg.ok(name, posOf(in))
		case s.tested:
			agg.ok(name, posOf(in))
		case s.unknown != "":
			agg.unsure(name, posOf(in), s.unknown)
		default:
			agg.bad(name, posOf(in), "the registered duty is stored positionally ("+s.what+") and no path reaches this store through a test of whether that duty is already pending: "+
				"the pending collection is not keyed by the duty, so registering a pending duty again stores it a second time and it is reported twice")
		}
	}
	return len(order)
}

// c16SyncHigherOrder: every closure value made from the function literal is handed directly to a synchronous
// higher-order function of the standard library (sort, slices, maps): it runs on the caller's goroutine, before the
// call returns, and is not retained.
func c16SyncHigherOrder(fn *ssa.Function) bool {
	par := fn.Parent()
	if par == nil {
		return false
	}
	found := false
	for _, in := range an.Instrs(par, false) {
		mc, ok := in.(*ssa.MakeClosure)
		if !ok || mc.Fn != ssa.Value(fn) {
			continue
		}
		found = true
		refs := mc.Referrers()
		if refs == nil {
			return false
		}
		for _, ref := range *refs {
			switch x := ref.(type) {
			case *ssa.DebugRef:
			case *ssa.Call:
				if x.Call.Value == ssa.Value(mc) {
					continue // called directly
				}
				f := x.Call.StaticCallee()
				if f == nil {
					return false
				}
				if o := f.Origin(); o != nil {
					f = o
				}
				if f.Pkg == nil {
					return false
				}
				switch f.Pkg.Pkg.Path() {
				case "sort", "slices", "maps":
				default:
					return false
				}
			default:
				return false
			}
		}
	}
	return found
}
