package rules

import (
	"fmt"
	"go/token"
	"go/types"
	"sort"
	"strings"

	"golang.org/x/tools/go/ssa"

	"charonverif/internal/an"
	"charonverif/internal/rt"
)

// ---------------------------------------------------------------------------------------------
// Q2, Q3, Q5 — the Run state machine, explored with its function literals inlined
//
// Run's event loop is explored by c02Sim with every function literal of Run inlined at its call sites, so that the
// obligations do not depend on whether an upon-rule action is written inline in the `switch`, in an if-chain, or
// in a helper closure (handleMsg / applyRule / onQuorumPrepares ...): values are resolved through the closures'
// parameters to the message received from Transport.Receive and to the results of the (unique) classify call,
// state variables are identified as the captured locals of Run, and "only in the branch of rule R" is decided by
// exploring under the assumption `rule != R`.

type c02RunX struct {
	c        *rt.Ctx
	fn       *ssa.Function
	all      []*ssa.Function
	up       []*ssa.Function
	ctors    []*ssa.Function // constructors of the state struct called (once) from the functions of up
	s        *c02Sim
	sel      *ssa.Select
	recvMsg  ssa.Value
	classify *ssa.Call
}

// c02EventLoopFn finds the function that runs the event loop: the one selecting on Transport.Receive (Run itself, or
// the helper the loop was moved into).
func c02EventLoopFn(c *rt.Ctx) *ssa.Function {
	var out *ssa.Function
	for _, g := range c02PkgFuncs(c.SSAPkg(c02P)) {
		for _, in := range an.Instrs(g, false) {
			sel, ok := in.(*ssa.Select)
			if !ok {
				continue
			}
			for _, st := range sel.States {
				if st.Dir != types.RecvOnly {
					continue
				}
				if k, _, ok := an.FieldOf(st.Chan); ok && c02Strip(k) == c02P+".Transport.Receive" {
					if out != nil && out != g {
						c.Bail("several functions select on Transport.Receive")
					}
					out = g
				}
			}
		}
	}
	if out == nil {
		c.Bail("Run: receive from Transport.Receive not found in the event loop of Run")
	}
	return out
}

// c02TouchesState: a top-level helper or method that the exploration of the event loop must follow because it can
// act on the instance state or send: it receives a pointer to a struct of the package (the state grouped in a struct,
// as receiver or parameter) or the rule-dedup map, asks isJustified, or broadcasts.
func c02TouchesState(g *ssa.Function) bool {
	switch strings.TrimPrefix(an.FuncName(g), c02P+".") {
	case "isJustified", "classify", "compare", "awaitCompare":
		return false
	}
	for _, p := range g.Params {
		if m, ok := p.Type().Underlying().(*types.Map); ok && an.TypeName(m.Key()) == c02P+".dedupKey" {
			return true
		}
		if pt, ok := p.Type().Underlying().(*types.Pointer); ok {
			if _, isStruct := pt.Elem().Underlying().(*types.Struct); isStruct && strings.HasPrefix(c02Strip(an.TypeName(pt.Elem())), c02P+".") {
				return true
			}
		}
	}
	for _, in := range an.Instrs(g, false) {
		ci, ok := in.(ssa.CallInstruction)
		if !ok {
			continue
		}
		if call, isCall := in.(*ssa.Call); isCall && c02Static(call, "isJustified") != nil {
			return true
		}
		if !ci.Common().IsInvoke() && ci.Common().StaticCallee() == nil {
			if k, _, okf := an.FieldOf(ci.Common().Value); okf && c02Strip(k) == c02P+".Transport.Broadcast" {
				return true
			}
		}
	}
	return false
}

func c02NewRunX(c *rt.Ctx) *c02RunX {
	r := &c02RunX{c: c, fn: c02EventLoopFn(c)}
	// the functions that make up the state machine: the event-loop function with its literals and, transitively, the
	// helpers and methods it hands the state to
	follow := map[*ssa.Function]bool{}
	inAll := map[*ssa.Function]bool{}
	var add func(g *ssa.Function)
	add = func(g *ssa.Function) {
		for _, h := range an.Closure(g) {
			if inAll[h] {
				continue
			}
			inAll[h] = true
			r.all = append(r.all, h)
			for _, in := range an.Instrs(h, false) {
				ci, ok := in.(ssa.CallInstruction)
				if !ok || ci.Common().IsInvoke() || ci.Common().StaticCallee() == nil {
					continue
				}
				cal := an.Orig(ci.Common().StaticCallee())
				if cal.Parent() != nil || cal.Blocks == nil || c02PkgOf(cal) != r.fn.Pkg || follow[cal] || cal == r.fn {
					continue
				}
				if c02TouchesState(cal) {
					follow[cal] = true
					add(cal)
				}
			}
		}
	}
	add(r.fn)
	// the functions the event-loop function is called from (Run when the loop was moved into a helper): their locals
	// may hold the state
	r.up = []*ssa.Function{r.fn}
	for i := 0; i < len(r.up) && i < 4; i++ {
		for _, site := range c02InPkgCallers(r.up[i]) {
			p := site.Parent()
			for p.Parent() != nil {
				p = p.Parent()
			}
			dup := false
			for _, q := range r.up {
				if q == p {
					dup = true
				}
			}
			if !dup {
				r.up = append(r.up, p)
			}
		}
	}
	for _, g := range r.up {
		for _, in := range an.Instrs(g, false) {
			if call, ok := in.(*ssa.Call); ok {
				if al := c02CtorAlloc(call); al != nil {
					r.ctors = append(r.ctors, al.Parent())
				}
			}
		}
	}
	for _, in := range an.Instrs(r.fn, false) {
		sel, ok := in.(*ssa.Select)
		if !ok {
			continue
		}
		n := 0
		for _, st := range sel.States {
			if st.Dir != types.RecvOnly {
				continue
			}
			if k, _, ok := an.FieldOf(st.Chan); ok && c02Strip(k) == c02P+".Transport.Receive" {
				for _, ref := range *sel.Referrers() {
					if ex, ok := ref.(*ssa.Extract); ok && ex.Index == 2+n {
						if r.recvMsg != nil {
							c.Bail("Run: several receives from Transport.Receive")
						}
						r.recvMsg = ex
						r.sel = sel
					}
				}
			}
			n++
		}
	}
	if r.recvMsg == nil {
		c.Bail("Run: receive from Transport.Receive not found in the event loop of Run")
	}
	var cls []*ssa.Call
	for _, f := range r.all {
		for _, in := range an.Instrs(f, false) {
			if call, ok := in.(*ssa.Call); ok && c02Static(call, "classify") != nil {
				cls = append(cls, call)
			}
		}
	}
	if len(cls) != 1 {
		c.Bail("Run: expected exactly one classify call in Run and the helpers it hands its state to, found %d", len(cls))
	}
	r.classify = cls[0]
	if len(r.classify.Call.Args) != 6 {
		c.Bail("classify: unexpected arity")
	}
	r.s = c02NewSim(r.fn)
	r.s.opaque = func(g *ssa.Function) bool { return g.Parent() == nil && !follow[g] }
	r.s.want = func(g *ssa.Function) bool { return g.Parent() != nil || follow[g] }
	r.s.boolPhisOnly = true
	r.s.discover()
	if r.s.exhausted {
		c.Bail("Run: " + c02Undecided)
	}
	return r
}

// inScope: fn is the event-loop function or one of the functions it is called from.
func (r *c02RunX) inScope(fn *ssa.Function) bool {
	for _, q := range r.up {
		if q == fn {
			return true
		}
	}
	for _, q := range r.ctors {
		if q == fn {
			return true
		}
	}
	return false
}

func (r *c02RunX) isRecv(v ssa.Value, f *c02Frame, st *c02State) bool {
	return r.s.isRootValue(v, f, st, r.recvMsg)
}

// isClassifyResult: v resolves to result idx of the classify call.
func (r *c02RunX) isClassifyResult(v ssa.Value, f *c02Frame, st *c02State, idx int) bool {
	x := r.s.rootOf(v, f, st)
	ex, ok := x.V.(*ssa.Extract)
	return ok && ex.Tuple == ssa.Value(r.classify) && ex.Index == idx
}

func (r *c02RunX) recvCall(v ssa.Value, f *c02Frame, st *c02State, method string) bool {
	return r.s.msgCallOn(v, f, st, method, r.recvMsg)
}

// bcast: in is a Transport.Broadcast call; returns its message type if constant.
func (r *c02RunX) bcast(in ssa.Instruction, f *c02Frame, st *c02State) (ci ssa.CallInstruction, typ int64, isConst bool, ok bool) {
	ci, isCall := in.(ssa.CallInstruction)
	if !isCall || ci.Common().IsInvoke() || ci.Common().StaticCallee() != nil {
		return nil, 0, false, false
	}
	if k, _, okf := an.FieldOf(ci.Common().Value); !okf || c02Strip(k) != c02P+".Transport.Broadcast" {
		return nil, 0, false, false
	}
	if len(ci.Common().Args) != 9 {
		r.c.Bail("Transport.Broadcast: unexpected arity")
	}
	n, isC := an.ConstInt(r.s.rootOf(ci.Common().Args[1], f, st).V)
	return ci, n, isC, true
}

// topSite returns the position in Run proper through which frame f was entered (f's own position for the root).
func (r *c02RunX) topSite(f *c02Frame, in ssa.Instruction) token.Pos {
	for x := f; x != nil && x.parent != nil; x = x.parent {
		if x.parent.parent == nil {
			return x.site.Pos()
		}
	}
	return posOf(in)
}

// chainName names the function literals on the call chain of f ("handleMsg>applyRule").
func (r *c02RunX) chainName(f *c02Frame) string {
	var parts []string
	for x := f; x != nil && x.parent != nil; x = x.parent {
		parts = append([]string{strings.TrimPrefix(an.FuncName(x.fn), c02P+".")}, parts...)
	}
	return strings.Join(parts, ">")
}

// eachInstr visits every instruction of every frame of the exploration.
func (r *c02RunX) eachInstr(visit func(in ssa.Instruction, f *c02Frame)) {
	for _, f := range r.s.allFrames() {
		for _, in := range an.Instrs(f.fn, false) {
			visit(in, f)
		}
	}
}

// stateCellOfType finds the captured local of Run whose type satisfies pred.
func (r *c02RunX) stateCell(pred func(t types.Type) bool, what string) c02Cell {
	var out c02Cell
	add := func(c c02Cell) {
		if out.ok() {
			r.c.Bail("Run: several %s", what)
		}
		out = c
	}
	var ins []ssa.Instruction
	for _, g := range r.up {
		ins = append(ins, an.Instrs(g, false)...)
	}
	for _, g := range r.ctors {
		ins = append(ins, an.Instrs(g, false)...)
	}
	for _, in := range ins {
		al, ok := in.(*ssa.Alloc)
		if !ok {
			continue
		}
		t := al.Type().(*types.Pointer).Elem()
		if pred(t) {
			add(c02Cell{al: al})
		} else if st, ok := t.Underlying().(*types.Struct); ok {
			for i := 0; i < st.NumFields(); i++ {
				if pred(st.Field(i).Type()) {
					add(c02Cell{al, fmt.Sprintf(".%d", i)})
				}
			}
		}
	}
	if !out.ok() {
		r.c.Bail("Run: %s not found", what)
	}
	return out
}

// ---------------------------------------------------------------------------------------------
// Q2 — justified before buffered/classified

func c02Q2Rule(c *rt.Ctx) {
	r := c02NewRunX(c)
	s := r.s
	bufCell := c02StaticCellOfLoad(r.classify.Call.Args[4])
	bufVal := an.Unwrap(r.classify.Call.Args[4])
	if !bufCell.ok() {
		// not captured by any literal: the buffer is a plain SSA value
		if _, isMap := bufVal.(*ssa.MakeMap); !isMap {
			c.Bail("Run: the buffer passed to classify is neither a state variable of Run nor a map made in Run")
		}
	}
	isBuf := func(m ssa.Value) bool {
		if bufCell.ok() {
			return c02StaticCellOfLoad(m) == bufCell
		}
		return an.Unwrap(m) == bufVal
	}
	type sink struct {
		in   ssa.Instruction
		what string
	}
	sinks := []sink{{r.classify, "classify"}}
	for _, f := range r.all {
		for _, in := range an.Instrs(f, false) {
			if up, ok := in.(*ssa.MapUpdate); ok && isBuf(up.Map) {
				what := "buffer write (inline)"
				if f != r.fn {
					what = "buffer write (" + strings.TrimPrefix(an.FuncName(f), c02P+".") + ")"
				}
				sinks = append(sinks, sink{up, what})
			}
		}
	}
	isSink := map[ssa.Instruction]int{}
	for i, sk := range sinks {
		isSink[sk.in] = i
	}
	// does the sink consume the received message? (classify: its message argument; buffer write: the message is an
	// argument somewhere on the call chain, or the write is inline in the receive case)
	reached := make([]bool, len(sinks))
	consumes := make([]bool, len(sinks))
	s.atom = nil
	s.onInstr = func(in ssa.Instruction, f *c02Frame, st *c02State) c02Act {
		if in == ssa.Instruction(r.sel) && f == s.root {
			return c02Stop
		}
		i, ok := isSink[in]
		if !ok {
			return c02Go
		}
		reached[i] = true
		if in == ssa.Instruction(r.classify) {
			if r.isRecv(r.classify.Call.Args[5], f, st) {
				consumes[i] = true
			}
			return c02Go
		}
		if f == s.root {
			consumes[i] = true
		}
		for x := f; x != nil && x.parent != nil; x = x.parent {
			for _, a := range x.site.Common().Args {
				if r.isRecv(a, x.parent, st) {
					consumes[i] = true
				}
			}
		}
		return c02Go
	}
	s.startAfter(s.root, r.sel, 0)
	if s.exhausted {
		c.Bail("Run: " + c02Undecided)
	}
	// under "isJustified(received message) == false" no sink is reachable before the next event
	hit := make([]bool, len(sinks))
	nGuard := 0
	s.atom = func(v ssa.Value, f *c02Frame, st *c02State) (bool, bool) {
		call, ok := v.(*ssa.Call)
		if !ok || c02Static(call, "isJustified") == nil {
			return false, false
		}
		if len(call.Call.Args) != 4 || !r.isRecv(call.Call.Args[2], f, st) {
			return false, false
		}
		nGuard++
		return false, true
	}
	s.onInstr = func(in ssa.Instruction, f *c02Frame, st *c02State) c02Act {
		if in == ssa.Instruction(r.sel) && f == s.root {
			return c02Stop
		}
		if i, ok := isSink[in]; ok {
			hit[i] = true
		}
		return c02Go
	}
	s.startAfter(s.root, r.sel, 0)
	s.atom, s.onInstr = nil, nil
	if s.exhausted {
		c.Bail("Run: " + c02Undecided)
	}
	for i, sk := range sinks {
		key := "Run isJustified→" + sk.what
		switch {
		case !reached[i]:
			c.Unsure(key, posOf(sk.in), "the sink is not reachable from the receive case of the event loop")
		case !consumes[i]:
			c.Unsure(key, posOf(sk.in), "the sink does not consume the message received from Transport.Receive")
		case hit[i]:
			why := "a path from the receive to the sink exists on which isJustified(msg) answered false or was not asked"
			if nGuard == 0 {
				why = "no isJustified call on the received message precedes the sink"
			}
			c.Bad(key, posOf(sk.in), "unjustified message reaches "+sk.what+": "+why)
		default:
			c.Good(key, posOf(sk.in), "unreachable unless isJustified(received message) answered true")
		}
	}
}

// c02StaticCellOfLoad: v is a load of a local variable of an enclosing function (possibly captured).
func c02StaticCellOfLoad(v ssa.Value) c02Cell {
	ld, ok := an.Unwrap(v).(*ssa.UnOp)
	if !ok || ld.Op != token.MUL {
		return c02Cell{}
	}
	return c02StaticCell(ld.X)
}

// ---------------------------------------------------------------------------------------------
// Q3 — dedup key re-recorded between round change and PREPARE

func c02Q3Rule(c *rt.Ctx) {
	r := c02NewRunX(c)
	s := r.s
	dedup := r.stateCell(func(t types.Type) bool {
		m, ok := t.Underlying().(*types.Map)
		return ok && an.TypeName(m.Key()) == c02P+".dedupKey"
	}, "dedup-rule map")
	upon := constOf(c, c02P, "UponJustifiedPrePrepare")
	prepare := constOf(c, c02P, "MsgPrepare")
	// wipes: stores replacing the dedup map once the event loop runs
	isWipe := func(in ssa.Instruction) bool {
		st, ok := in.(*ssa.Store)
		if !ok || !c02StaticCell(st.Addr).covers(dedup) {
			return false
		}
		if st.Parent() == r.fn && !an.InstrReaches(r.sel, st) {
			return false // initialisation before the event loop
		}
		return true
	}
	var lastWhy string
	var unsure bool
	goodRecord := func(up *ssa.MapUpdate, f *c02Frame, st *c02State) bool {
		// a map of booleans records with `true`; a set (map[key]struct{} and the like) records by presence
		if mt, isMap := up.Map.Type().Underlying().(*types.Map); !isMap || c02IsBool(mt.Elem()) {
			if b, ok := c02ConstBool(s.rootOf(up.Value, f, st).V); !ok || !b {
				lastWhy = "dedup entry is not set to true"
				return false
			}
		}
		kv := s.rootOf(up.Key, f, st)
		lit := c02StructLit(kv.V)
		if lit == nil || lit["UponRule"] == nil || lit["Round"] == nil {
			lastWhy = "dedup key is not a {UponRule, Round} literal the rule can read"
			unsure = true
			return false
		}
		f = kv.F
		if s.cellOf(lit["Round"], f, st).ok() {
			lastWhy = "dedup key uses a state variable for the round; equality with msg.Round() is not decided"
			unsure = true
			return false
		}
		ruleOK := r.isClassifyResult(lit["UponRule"], f, st, 0)
		if n, ok := an.ConstInt(s.rootOf(lit["UponRule"], f, st).V); ok && n == upon {
			ruleOK = true
		}
		if !ruleOK {
			lastWhy = "key does not carry the triggered rule"
			return false
		}
		if !r.recvCall(lit["Round"], f, st, "Round") {
			lastWhy = "key does not carry msg.Round() of the received message"
			return false
		}
		return true
	}
	// PREPARE broadcasts
	type site struct {
		in ssa.Instruction
		f  *c02Frame
	}
	var prepares []site
	r.eachInstr(func(in ssa.Instruction, f *c02Frame) {
		ci, n, isC, ok := r.bcast(in, f, nil)
		if !ok {
			return
		}
		if !isC {
			c.Unsure("Run broadcast with computed type", r.topSite(f, in), "message type of a broadcast is not a constant")
			return
		}
		if n == prepare {
			prepares = append(prepares, site{ci, f})
		}
	})
	if len(prepares) == 0 {
		c.Bail("Run: no PREPARE broadcast found")
	}
	for _, p := range prepares {
		c.Check("Run PREPARE carries msg.Value()", r.topSite(p.f, p.in), r.recvCall(p.in.(ssa.CallInstruction).Common().Args[5], p.f, nil, "Value"),
			"the PREPARE broadcast does not carry the value of the pre-prepare just received")
	}
	var wipes []site
	r.eachInstr(func(in ssa.Instruction, f *c02Frame) {
		if isWipe(in) {
			wipes = append(wipes, site{in, f})
		}
	})
	if len(wipes) == 0 {
		c.Bail("Run: no round change wiping the dedup map found")
	}
	const recorded, inserted = 1, 2
	nReach := 0
	// after the wipe the map is empty: every lookup answers false until something is inserted again
	isDedupLookup := func(v ssa.Value, f *c02Frame, st *c02State) bool {
		switch x := v.(type) {
		case *ssa.Lookup:
			return !x.CommaOk && s.cellOf(x.X, f, st) == dedup
		case *ssa.Extract:
			lk, ok := x.Tuple.(*ssa.Lookup)
			return ok && lk.CommaOk && s.cellOf(lk.X, f, st) == dedup && (x.Index == 1 || c02IsBool(x.Type()))
		}
		return false
	}
	for _, w := range wipes {
		lastWhy, unsure = "", false
		var badAt ssa.Instruction
		reaches := false
		s.onInstr = func(in ssa.Instruction, f *c02Frame, st *c02State) c02Act {
			if in == ssa.Instruction(r.sel) && f == s.root {
				st.flags &^= recorded // a new event: a new message, a new key
				return c02Go
			}
			if isWipe(in) {
				return c02Stop // examined from there
			}
			if up, ok := in.(*ssa.MapUpdate); ok && s.cellOf(up.Map, f, st) == dedup {
				st.flags |= inserted
				if goodRecord(up, f, st) {
					st.flags |= recorded
				}
				return c02Go
			}
			if _, n, isC, ok := r.bcast(in, f, st); ok && isC && n == prepare {
				reaches = true
				if st.flags&recorded == 0 && badAt == nil {
					badAt = in
				}
			}
			return c02Go
		}
		s.atom = func(v ssa.Value, f *c02Frame, st *c02State) (bool, bool) {
			if st.flags&inserted == 0 && isDedupLookup(v, f, st) {
				return false, true
			}
			return false, false
		}
		s.startAfter(w.f, w.in, 0)
		s.onInstr, s.atom = nil, nil
		key := "Run round-change→re-record→PREPARE"
		pos := r.topSite(w.f, w.in)
		if s.exhausted {
			c.Unsure(key, pos, c02Undecided)
			continue
		}
		if reaches {
			nReach++
		}
		switch {
		case badAt != nil:
			detail := "after the round change wiped the dedup map a PREPARE is broadcast without re-recording {rule, msg.Round()}: a second pre-prepare of the round triggers a second PREPARE"
			if lastWhy != "" {
				detail += " (" + lastWhy + ")"
			}
			if unsure {
				c.Unsure(key, pos, detail)
			} else {
				c.Bad(key, pos, detail)
			}
		case reaches:
			c.Good(key, pos, "every path from the wipe to a PREPARE re-records the key of the message being handled")
		default:
			c.Good(key, pos, "no PREPARE is reachable from this round change")
		}
	}
	if nReach == 0 {
		c.Unsure("Run round-change→re-record→PREPARE", r.fn.Pos(), "no round change can reach the PREPARE broadcast")
	}
}

// ---------------------------------------------------------------------------------------------
// Q5 — ROUND-CHANGE carries the prepared cells

// c02Var is a state variable of Run: a captured local (or a field of one), or — when no function literal
// captures it — the SSA register carried around the event loop (a phi web, named by its first phi).
type c02Var struct {
	cell c02Cell
	web  *ssa.Phi
}

func (v c02Var) ok() bool { return v.cell.ok() || v.web != nil }

func (v c02Var) name() string {
	if v.cell.ok() {
		return v.cell.name()
	}
	if v.web != nil {
		return v.web.Comment
	}
	return "<none>"
}

// c02WebRep returns the canonical phi of the web containing p (lowest block, first in block).
func c02WebRep(p *ssa.Phi) *ssa.Phi {
	web, _ := c02PhiWeb(p)
	var best *ssa.Phi
	for q := range web {
		if best == nil || q.Block().Index < best.Block().Index || (q.Block() == best.Block() && c02InstrIndex(q) < c02InstrIndex(best)) {
			best = q
		}
	}
	return best
}

// varOf: which state variable of Run does v read?
func (r *c02RunX) varOf(v ssa.Value, f *c02Frame) c02Var {
	if cl := r.s.cellOf(v, f, nil); cl.ok() {
		if r.inScope(cl.al.Parent()) {
			return c02Var{cell: cl}
		}
		return c02Var{}
	}
	x := r.s.rootOf(v, f, nil)
	if p, ok := x.V.(*ssa.Phi); ok && x.F == r.s.root {
		return c02Var{web: c02WebRep(p)}
	}
	return c02Var{}
}

// c02WebAssign is an assignment to a register variable: the edge on which a value from outside the web enters it.
type c02WebAssign struct {
	to, from *ssa.BasicBlock
	val      ssa.Value
}

func c02WebAssigns(rep *ssa.Phi) []c02WebAssign {
	web, _ := c02PhiWeb(rep)
	var out []c02WebAssign
	for p := range web {
		for i, e := range p.Edges {
			v := e
			for {
				q, ok := v.(*ssa.Phi)
				if !ok || len(q.Edges) != 1 {
					break
				}
				v = q.Edges[0]
			}
			if q, ok := v.(*ssa.Phi); ok && web[q] {
				continue
			}
			out = append(out, c02WebAssign{p.Block(), p.Block().Preds[i], v})
		}
	}
	sort.Slice(out, func(i, j int) bool {
		if out[i].to.Index != out[j].to.Index {
			return out[i].to.Index < out[j].to.Index
		}
		return out[i].from.Index < out[j].from.Index
	})
	return out
}

func c02IsZeroConst(v ssa.Value) bool {
	k, ok := v.(*ssa.Const)
	if !ok {
		return false
	}
	if k.Value == nil {
		return true
	}
	n, isI := an.ConstInt(k)
	return isI && n == 0
}

func c02Q5Rule(c *rt.Ctx) {
	r := c02NewRunX(c)
	s := r.s
	rcT := constOf(c, c02P, "MsgRoundChange")
	commitT := constOf(c, c02P, "MsgCommit")
	uponQP := constOf(c, c02P, "UponQuorumPrepares")
	type site struct {
		ci ssa.CallInstruction
		f  *c02Frame
	}
	var rcs, commits []site
	r.eachInstr(func(in ssa.Instruction, f *c02Frame) {
		ci, n, isC, ok := r.bcast(in, f, nil)
		if !ok {
			return
		}
		if !isC {
			c.Unsure("Run broadcast with computed type", r.topSite(f, in), "message type of a broadcast is not a constant")
			return
		}
		if n == rcT {
			rcs = append(rcs, site{ci, f})
		}
		if n == commitT {
			commits = append(commits, site{ci, f})
		}
	})
	if len(rcs) == 0 {
		c.Bail("Run: no ROUND-CHANGE broadcast")
	}
	names := []string{"preparedRound", "preparedValue", "preparedJustification"}
	vars := make([]c02Var, 3)
	var roundVar c02Var
	// plainlyWrong: the value is something the rule can name and that is not the wanted one (another state variable,
	// a constant, the zero value, a value computed by arithmetic, another field of the message); anything else is
	// merely unreadable
	plainlyWrong := func(v ssa.Value, f *c02Frame) bool {
		if s.cellOf(v, f, nil).ok() {
			return true
		}
		x := s.rootOf(v, f, nil)
		switch y := x.V.(type) {
		case *ssa.Const:
			return true
		case *ssa.BinOp:
			return true
		case *ssa.Phi:
			return x.F == s.root // a register variable of Run
		case *ssa.Call:
			if c02CallOfKind(y, "zero") != nil {
				return true
			}
			if y.Call.IsInvoke() && c02Strip(an.TypeName(y.Call.Value.Type())) == c02P+".Msg" {
				return r.isRecv(y.Call.Value, x.F, nil)
			}
		case *ssa.Extract:
			return y.Tuple == ssa.Value(r.classify)
		}
		return false
	}
	// an argument may be a local copy of the state variable merged over several paths (`pr := preparedRound; if ... { pr = 0 }`):
	// its leaves are the values that can arrive, each with the phi edge it arrives on
	type leaf struct {
		vf   c02VF
		phi  *ssa.Phi
		edge int
	}
	leavesOf := func(v ssa.Value, f *c02Frame) []leaf {
		var out []leaf
		seen := map[*ssa.Phi]bool{}
		var walk func(v ssa.Value, f *c02Frame, via *ssa.Phi, edge int)
		walk = func(v ssa.Value, f *c02Frame, via *ssa.Phi, edge int) {
			x := s.rootOf(v, f, nil)
			if p, ok := x.V.(*ssa.Phi); ok && x.F != s.root && len(p.Edges) > 1 {
				if seen[p] {
					return
				}
				seen[p] = true
				for i, e := range p.Edges {
					walk(e, x.F, p, i)
				}
				return
			}
			out = append(out, leaf{x, via, edge})
		}
		walk(v, f, nil, 0)
		return out
	}
	isZeroLeaf := func(l leaf) bool {
		if c02IsZeroConst(l.vf.V) {
			return true
		}
		call, ok := l.vf.V.(*ssa.Call)
		return ok && c02CallOfKind(call, "zero") != nil
	}
	// unpreparedOn: the phi edge is taken only when a test found one of the prepared variables (cands) zero/empty — by
	// all-or-none the three variables are then all zero and sending a literal zero is sending the variable
	unpreparedOn := func(l leaf, f *c02Frame, cands map[c02Var]bool) bool {
		if l.phi == nil {
			return false
		}
		child := l.phi.Block()
		cur := l.phi.Block().Preds[l.edge]
		for n := 0; n < 6 && cur != nil; n++ {
			if iff, ok := cur.Instrs[len(cur.Instrs)-1].(*ssa.If); ok {
				branch := -1
				for i, sc := range cur.Succs {
					if sc == child {
						if branch >= 0 {
							branch = -2
						} else {
							branch = i
						}
					}
				}
				if bin, ok := iff.Cond.(*ssa.BinOp); ok && branch >= 0 && (bin.Op == token.EQL || bin.Op == token.NEQ) {
					x, y := bin.X, bin.Y
					if c02IsZeroConst(s.rootOf(x, l.vf.F, nil).V) {
						x, y = y, x
					}
					if c02IsZeroConst(s.rootOf(y, l.vf.F, nil).V) {
						if call, ok := x.(*ssa.Call); ok {
							if bi, isB := call.Call.Value.(*ssa.Builtin); isB && bi.Name() == "len" && len(call.Call.Args) == 1 {
								x = call.Call.Args[0]
							}
						}
						if cv := r.varOf(x, l.vf.F); cv.ok() && cands[cv] {
							if (bin.Op == token.EQL) == (branch == 0) {
								return true
							}
						}
					}
				}
			}
			if len(cur.Preds) != 1 {
				return false
			}
			child, cur = cur, cur.Preds[0]
		}
		return false
	}
	for _, b := range rcs {
		a := b.ci.Common().Args
		pos := r.topSite(b.f, b.ci)
		rv := r.varOf(a[4], b.f)
		if !roundVar.ok() {
			roundVar = rv
		}
		// the state variables read by the three arguments on any path
		cands := map[c02Var]bool{}
		lvs := make([][]leaf, 3)
		for i := 0; i < 3; i++ {
			lvs[i] = leavesOf(a[6+i], b.f)
			for _, l := range lvs[i] {
				if cv := r.varOf(l.vf.V, l.vf.F); cv.ok() && cv != rv {
					cands[cv] = true
				}
			}
		}
		for i := 0; i < 3; i++ {
			key := "Run ROUND-CHANGE carries " + names[i]
			var v c02Var
			wrong, unknown, mixed := "", false, false
			for _, l := range lvs[i] {
				lv := r.varOf(l.vf.V, l.vf.F)
				switch {
				case lv.ok():
					if v.ok() && v != lv {
						mixed = true
					}
					v = lv
				case isZeroLeaf(l) && unpreparedOn(l, b.f, cands):
					// literal zero sent only while nothing is prepared
				case plainlyWrong(l.vf.V, l.vf.F):
					if l.phi != nil {
						wrong = "on some path the ROUND-CHANGE broadcast sends another value (a constant, the zero value, a computed value) in place of the " + names[i] + " state variable although it may be set"
					} else {
						wrong = "the ROUND-CHANGE broadcast does not send the " + names[i] + " state variable (a ROUND-CHANGE that claims another prepared certificate than the one held removes the value lock)"
					}
				default:
					unknown = true
				}
			}
			switch {
			case wrong != "":
				c.Bad(key, pos, wrong)
				continue
			case mixed:
				c.Bad(key, pos, "the ROUND-CHANGE broadcast sends different state variables as "+names[i]+" depending on the path")
				continue
			case unknown || !v.ok():
				c.Unsure(key, pos, "the value sent as "+names[i]+" could not be related to a state variable of the instance")
				continue
			}
			if v == rv {
				c.Bad(key, pos, "the ROUND-CHANGE broadcast sends the current-round variable as "+names[i])
				continue
			}
			if vars[i].ok() && vars[i] != v {
				c.Bad(key, pos, "ROUND-CHANGE broadcasts send different variables as "+names[i])
				continue
			}
			dup := false
			for j := 0; j < i; j++ {
				if vars[j] == v {
					dup = true
				}
			}
			if dup {
				c.Bad(key, pos, "the ROUND-CHANGE broadcast sends one state variable in two roles")
				continue
			}
			vars[i] = v
			c.Good(key, pos, "argument reads state variable "+v.name())
		}
	}
	// what is written into the variables, and where
	want := []func(v ssa.Value, f *c02Frame) bool{
		func(v ssa.Value, f *c02Frame) bool {
			return (roundVar.ok() && r.varOf(v, f) == roundVar) || r.recvCall(v, f, nil, "Round")
		},
		func(v ssa.Value, f *c02Frame) bool { return r.recvCall(v, f, nil, "Value") },
		func(v ssa.Value, f *c02Frame) bool { return r.isClassifyResult(v, f, nil, 1) },
	}
	wantTxt := []string{"the current round", "msg.Value() of the PREPARE that completed the quorum", "the quorum of PREPAREs returned by classify"}
	cellIdx := func(in ssa.Instruction) int {
		st, ok := in.(*ssa.Store)
		if !ok {
			return -1
		}
		al := c02StaticCell(st.Addr)
		if !al.ok() {
			return -1
		}
		for i, v := range vars {
			if v.cell.ok() && al.covers(v.cell) {
				return i
			}
		}
		return -1
	}
	type edge struct{ to, from *ssa.BasicBlock }
	webEdges := map[edge][]int{} // assignments to register variables, by edge
	webAssigns := make([][]c02WebAssign, 3)
	for i, v := range vars {
		if v.web == nil {
			continue
		}
		for _, wa := range c02WebAssigns(v.web) {
			if c02IsZeroConst(wa.val) && !an.CanReach(r.sel.Block(), wa.from, nil) {
				continue // the zero value the variable starts with, before the event loop
			}
			webAssigns[i] = append(webAssigns[i], wa)
			webEdges[edge{wa.to, wa.from}] = append(webEdges[edge{wa.to, wa.from}], i)
		}
	}
	// explored under "the triggered rule is not UponQuorumPrepares": no assignment of the variables, no COMMIT
	outside := map[ssa.Instruction]bool{}
	outsideEdge := map[edge]bool{}
	nRuleTests := 0
	s.atom = func(v ssa.Value, f *c02Frame, st *c02State) (bool, bool) {
		bin, ok := v.(*ssa.BinOp)
		if !ok || (bin.Op != token.EQL && bin.Op != token.NEQ) {
			return false, false
		}
		x, y := bin.X, bin.Y
		if !r.isClassifyResult(x, f, st, 0) {
			x, y = y, x
		}
		if !r.isClassifyResult(x, f, st, 0) {
			return false, false
		}
		if n, isC := an.ConstInt(s.rootOf(y, f, st).V); !isC || n != uponQP {
			return false, false
		}
		nRuleTests++
		return bin.Op == token.NEQ, true
	}
	s.onInstr = func(in ssa.Instruction, f *c02Frame, st *c02State) c02Act {
		if cellIdx(in) >= 0 {
			outside[in] = true
		}
		if _, n, isC, ok := r.bcast(in, f, st); ok && isC && n == commitT {
			outside[in] = true
		}
		return c02Go
	}
	s.onEdge = func(from, to *ssa.BasicBlock, f *c02Frame, st *c02State) {
		if f == s.root {
			if _, ok := webEdges[edge{to, from}]; ok {
				outsideEdge[edge{to, from}] = true
			}
		}
	}
	s.start()
	s.atom, s.onInstr, s.onEdge = nil, nil, nil
	if s.exhausted {
		c.Bail("Run: " + c02Undecided)
	}
	if nRuleTests == 0 {
		c.Bail("Run: UponQuorumPrepares branch not found (no comparison of classify's rule with UponQuorumPrepares)")
	}
	nAssign := make([]int, 3)
	pos0 := token.NoPos
	note := func(i int, pos token.Pos, isOutside, valueOK, plainWrong bool) {
		nAssign[i]++
		if !pos0.IsValid() {
			pos0 = pos
		}
		key := "Run " + names[i] + " written only in the quorum-prepares branch"
		switch {
		case isOutside:
			c.Bad(key, pos, names[i]+" is written outside the UponQuorumPrepares branch")
		case !valueOK && !plainWrong:
			c.Unsure(key, pos, names[i]+" is set to a value the rule cannot relate to "+wantTxt[i])
		case !valueOK:
			c.Bad(key, pos, names[i]+" is not set to "+wantTxt[i])
		default:
			c.Good(key, pos, "set to "+wantTxt[i])
		}
	}
	visitedStore := map[*ssa.Store]bool{}
	r.eachInstr(func(in ssa.Instruction, f *c02Frame) {
		i := cellIdx(in)
		if i < 0 {
			return
		}
		st := in.(*ssa.Store)
		pos := r.topSite(f, in)
		if f == s.root {
			pos = posOf(in)
		}
		visitedStore[st] = true
		note(i, pos, outside[in], want[i](st.Val, f), plainlyWrong(st.Val, f))
	})
	// writes of the variables in functions the exploration never enters (deferred or indirectly called literals, helpers
	// reached through function values): they cannot be placed in the quorum-prepares branch
	for i, v := range vars {
		if !v.cell.ok() {
			continue
		}
		for _, st := range c02CellStores(v.cell) {
			if visitedStore[st] || st.Parent() == nil {
				continue
			}
			isCtor := false
			for _, g := range r.ctors {
				if st.Parent() == g {
					isCtor = true
				}
			}
			if isCtor {
				continue
			}
			key := "Run " + names[i] + " written only in the quorum-prepares branch"
			nAssign[i]++
			if c02IsZeroConst(st.Val) || c02CallOfKind(st.Val, "zero") != nil {
				c.Bad(key, posOf(st), names[i]+" is reset in "+strings.TrimPrefix(an.FuncName(st.Parent()), c02P+".")+", a function run outside the UponQuorumPrepares branch (deferred or indirectly called): later ROUND-CHANGEs claim nothing was prepared")
			} else {
				c.Unsure(key, posOf(st), names[i]+" is written in "+strings.TrimPrefix(an.FuncName(st.Parent()), c02P+".")+", which the exploration of the event loop does not enter")
			}
		}
	}
	for i := range vars {
		for _, wa := range webAssigns[i] {
			pos := posOf(wa.from.Instrs[len(wa.from.Instrs)-1])
			if in, ok := wa.val.(ssa.Instruction); ok && in.Pos().IsValid() {
				pos = in.Pos()
			}
			note(i, pos, outsideEdge[edge{wa.to, wa.from}], want[i](wa.val, s.root), plainlyWrong(wa.val, s.root))
		}
	}
	for i, v := range vars {
		if v.ok() && nAssign[i] == 0 {
			c.Bad("Run "+names[i]+" written only in the quorum-prepares branch", r.fn.Pos(), names[i]+" is never written: ROUND-CHANGE always claims nothing was prepared")
		}
	}
	if vars[0].ok() && vars[1].ok() && vars[2].ok() {
		// all or none: on every path through the handling of one event the three variables are assigned together
		partial := false
		s.onInstr = func(in ssa.Instruction, f *c02Frame, st *c02State) c02Act {
			if in == ssa.Instruction(r.sel) && f == s.root {
				if st.flags != 0 && st.flags != 7 {
					partial = true
				}
				return c02Stop
			}
			if i := cellIdx(in); i >= 0 {
				st.flags |= 1 << uint(i)
			}
			if _, isRet := in.(*ssa.Return); isRet && f == s.root && st.flags != 0 && st.flags != 7 {
				partial = true
			}
			return c02Go
		}
		s.onEdge = func(from, to *ssa.BasicBlock, f *c02Frame, st *c02State) {
			if f == s.root {
				for _, i := range webEdges[edge{to, from}] {
					st.flags |= 1 << uint(i)
				}
			}
		}
		s.startAfter(s.root, r.sel, 0)
		s.onInstr, s.onEdge = nil, nil
		if s.exhausted {
			c.Unsure("Run prepared cells written together", pos0, c02Undecided)
		} else {
			c.Check("Run prepared cells written together", pos0, !partial, "some path through the handling of an event writes only part of preparedRound, preparedValue, preparedJustification")
		}
	}
	// the COMMIT sent in the branch carries the prepared value
	for _, b := range commits {
		v := b.ci.Common().Args[5]
		ok := !outside[b.ci] && (r.recvCall(v, b.f, nil, "Value") || (vars[1].ok() && r.varOf(v, b.f) == vars[1]))
		c.Check("Run COMMIT carries the prepared value", r.topSite(b.f, b.ci), ok, "COMMIT is broadcast outside the quorum-prepares branch or for a value other than the prepared one")
	}
}
