package rules

import (
	"fmt"
	"go/token"
	"go/types"

	"golang.org/x/tools/go/ssa"

	"charonverif/internal/an"
	"charonverif/internal/rt"
)

// K3: the four sites that convert between the 0-based peer index and the 1-based share index use offset exactly 1.
// Each site is anchored on a function, but the conversion construct itself (a NodeIdx value, an insertion into a
// map[int]tbls.PublicKey / map[tbls.PublicKey]int of a DistValidator.PubShares element, a tbls.ThresholdSplit share
// stored into an indexed slot) is discovered by its types in the anchor AND in the in-package helpers and function
// literals reachable from it, and the two indexes are compared as affine expressions of one variable across
// single-assignment locals, single-call-site helper parameters and pure affine helper functions.

// c11ReachFns: fn, its function literals and the in-package functions statically callable from them (depth levels).
func c11ReachFns(fn *ssa.Function, depth int) []*ssa.Function {
	seen := map[*ssa.Function]bool{}
	var out []*ssa.Function
	var add func(f *ssa.Function, d int)
	add = func(f *ssa.Function, d int) {
		if f == nil || seen[f] || len(f.Blocks) == 0 {
			return
		}
		seen[f] = true
		out = append(out, f)
		for _, a := range f.AnonFuncs {
			add(a, d)
		}
		if d >= depth {
			return
		}
		for _, in := range an.Instrs(f, false) {
			if ci, ok := in.(ssa.CallInstruction); ok {
				if g := ci.Common().StaticCallee(); g != nil && g.Pkg == fn.Pkg && g.Pkg != nil {
					add(g, d+1)
				}
			}
		}
	}
	add(fn, 0)
	return out
}

func c11OffsetOne(c *rt.Ctx, construct string, pos token.Pos, peer, share ssa.Value) {
	pb, po := c11Affine(peer)
	sb, so := c11Affine(share)
	if pb != sb {
		if pc, ok := an.ConstInt(pb); ok {
			if sc, ok2 := an.ConstInt(sb); ok2 {
				d := (sc + so) - (pc + po)
				c.Check(construct, pos, d == 1, fmt.Sprintf("share index = peer index %+d (must be +1: share indices are 1-based everywhere else)", d))
				return
			}
		}
		c.Unsure(construct, pos, "peer index and share index are not offsets of one variable")
		return
	}
	c.Check(construct, pos, so-po == 1, fmt.Sprintf("share index = peer index %+d (must be +1: share indices are 1-based everywhere else)", so-po))
}

func c11K3(c *rt.Ctx) {
	// 1. cluster.Definition.NodeIdx
	{
		const cons = "cluster.Definition.NodeIdx ShareIdx=PeerIdx+1"
		fn := c.Fn("cluster.Definition.NodeIdx")
		n := 0
		for _, g := range c11ReachFns(fn, 2) {
			byBase := map[ssa.Value]map[string]*ssa.Store{}
			var order []ssa.Value
			for _, in := range an.Instrs(g, false) {
				st, ok := in.(*ssa.Store)
				if !ok {
					continue
				}
				fa, ok := st.Addr.(*ssa.FieldAddr)
				if !ok || an.TypeName(fa.X.Type()) != "cluster.NodeIdx" {
					continue
				}
				if byBase[fa.X] == nil {
					byBase[fa.X] = map[string]*ssa.Store{}
					order = append(order, fa.X)
				}
				key := an.FieldKey(fa.X.Type(), fa.Field)
				if byBase[fa.X][key] != nil {
					c.Unsure(cons, posOf(st), "a field of one NodeIdx value is assigned twice")
					n++
					continue
				}
				byBase[fa.X][key] = st
			}
			// a value initialised from a composite literal inherits the literal's fields; the literal itself is not a
			// separate NodeIdx value
			copied := map[ssa.Value]bool{}
			for _, base := range order {
				if al, isAl := base.(*ssa.Alloc); isAl {
					if src, _ := c11WholeSource(al); src != nil && byBase[src] != nil {
						for k, st := range byBase[src] {
							if byBase[base][k] == nil {
								byBase[base][k] = st
							}
						}
						copied[src] = true
					}
				}
			}
			for _, base := range order {
				if copied[base] {
					continue
				}
				p, s := byBase[base]["cluster.NodeIdx.PeerIdx"], byBase[base]["cluster.NodeIdx.ShareIdx"]
				if p == nil && s == nil {
					continue
				}
				n++
				if p == nil || s == nil {
					c.Unsure(cons, base.Pos(), "only one of PeerIdx/ShareIdx is set")
					continue
				}
				c11OffsetOne(c, cons, posOf(s), p.Val, s.Val)
			}
		}
		if n == 0 {
			c.Unsure(cons, fn.Pos(), "no NodeIdx value with PeerIdx and ShareIdx built in NodeIdx or its helpers")
		}
	}
	pubSharesElemIdx := func(x *c11X) ssa.Value { // x = PubkeyFromBytes(<DistValidator>.PubShares[i]) -> i
		call := c11Res0(x, "tbls/tblsconv.PubkeyFromBytes")
		if call == nil || len(call.Args) != 1 || call.Args[0].Op != "elem" {
			return nil
		}
		if e := call.Args[0]; e.Args[0].Op == "field" && e.Args[0].Name == "cluster.DistValidator.PubShares" {
			return e.Args[1].V
		}
		return nil
	}
	isMapOf := func(t types.Type, k, v string) bool {
		m, ok := t.Underlying().(*types.Map)
		return ok && an.TypeName(m.Key()) == k && an.TypeName(m.Elem()) == v
	}
	// 2. app.wireCoreWorkflow: allPubShares[i+1] = PubShares[i]
	{
		const cons = "app.wireCoreWorkflow pubshare map key=peer index+1"
		fn := c.Fn("app.wireCoreWorkflow")
		b := c11NewB()
		n := 0
		for _, g := range c11ReachFns(fn, 1) {
			for _, in := range an.Instrs(g, false) {
				up, ok := in.(*ssa.MapUpdate)
				if !ok || !isMapOf(up.Map.Type(), "int", "tbls.PublicKey") {
					continue
				}
				idx := pubSharesElemIdx(b.val(up.Value, 0))
				if idx == nil {
					if g == fn {
						n++
						c.Unsure(cons, posOf(up), "stored public share is not tblsconv.PubkeyFromBytes(val.PubShares[i])")
					}
					continue
				}
				n++
				c11OffsetOne(c, cons, posOf(up), idx, up.Key)
			}
		}
		if n == 0 {
			c.Unsure(cons, fn.Pos(), "no insertion of a DistValidator.PubShares element into a map[int]tbls.PublicKey in wireCoreWorkflow or its helpers")
		}
	}
	// 3. cmd/combine.shareIdxByPubkeys: pubkMap[PubShares[peerIdx]] = peerIdx+1
	{
		const cons = "cmd/combine.shareIdxByPubkeys share index=peer index+1"
		fn := c.Fn("cmd/combine.shareIdxByPubkeys")
		b := c11NewB()
		n := 0
		for _, g := range c11ReachFns(fn, 2) {
			for _, in := range an.Instrs(g, false) {
				up, ok := in.(*ssa.MapUpdate)
				if !ok || !isMapOf(up.Map.Type(), "tbls.PublicKey", "int") {
					continue
				}
				idx := pubSharesElemIdx(b.val(up.Key, 0))
				if idx == nil {
					if g == fn {
						n++
						c.Unsure(cons, posOf(up), "map key is not tblsconv.PubkeyFromBytes(PubShares[peerIdx])")
					}
					continue
				}
				n++
				c11OffsetOne(c, cons, posOf(up), idx, up.Value)
			}
		}
		if n == 0 {
			c.Unsure(cons, fn.Pos(), "no insertion into a map[tbls.PublicKey]int keyed by a DistValidator.PubShares element")
		}
	}
	// 4. cmd.getTSSShares: secretSet[i-1] = shares[i], shares from tbls.ThresholdSplit
	{
		const cons = "cmd.getTSSShares slot=share index-1"
		fn := c.Fn("cmd.getTSSShares")
		b := c11NewB()
		n := 0
		for _, g := range c11ReachFns(fn, 2) {
			for _, in := range an.Instrs(g, false) {
				var slot, val ssa.Value
				switch x := in.(type) {
				case *ssa.Store:
					ia, ok := x.Addr.(*ssa.IndexAddr)
					if !ok || c11IsVarargsTemp(ia.X) {
						continue // the temporary array of append(s, v) is handled below
					}
					slot, val = ia.Index, x.Val
				default:
					continue
				}
				vx := b.val(val, 0)
				if vx.Op == "rval" && len(vx.Args) == 1 && c11Res0(vx.Args[0], "tbls.ThresholdSplit") != nil {
					// `for idx, sk := range shares { set[idx-1] = sk }`: the share index is the key of the same iteration
					var key ssa.Value
					if nx, isNext := vx.V.(*ssa.Next); isNext && nx.Referrers() != nil {
						for _, ref := range *nx.Referrers() {
							if ex, isEx := ref.(*ssa.Extract); isEx && ex.Index == 1 {
								key = ex
							}
						}
					}
					n++
					if key == nil {
						c.Unsure(cons, posOf(in), "the share index of the ranged share is not used")
					} else {
						c11OffsetOne(c, cons, posOf(in), slot, key)
					}
					continue
				}
				if vx.Op != "lookup" || c11Res0(vx.Args[0], "tbls.ThresholdSplit") == nil {
					continue
				}
				n++
				c11OffsetOne(c, cons, posOf(in), slot, vx.Args[1].V)
			}
			// append(secretSet, shares[i]) in a loop counting i from 1: position = i-1 only if the loop starts at 1 and
			// steps by one; recognised by the induction variable's initial value
			for _, in := range an.Instrs(g, false) {
				call, ok := in.(*ssa.Call)
				if !ok {
					continue
				}
				if bi, isB := call.Call.Value.(*ssa.Builtin); !isB || bi.Name() != "append" {
					continue
				}
				for _, el := range appendedElems(call) {
					vx := b.val(el, 0)
					if vx.Op != "lookup" || c11Res0(vx.Args[0], "tbls.ThresholdSplit") == nil {
						continue
					}
					n++
					// the k-th append (k = 0,1,..) must take share k+1: key = phi(1, key+1) appended once per iteration
					base, off := c11Affine(vx.Args[1].V)
					phi, isPhi := base.(*ssa.Phi)
					good := false
					if isPhi && len(phi.Edges) == 2 {
						for i, e := range phi.Edges {
							if k, isC := an.ConstInt(e); isC {
								sb, so := c11Affine(phi.Edges[1-i])
								good = sb == ssa.Value(phi) && so == 1 && k+off == 1
							}
						}
					}
					if !isPhi {
						c.Unsure(cons, posOf(in), "share appended under an index that is not a loop counter")
					} else {
						c.Check(cons, posOf(in), good, "the shares are appended starting from another share index than 1 or not in steps of one")
					}
				}
			}
		}
		if n == 0 {
			c.Unsure(cons, fn.Pos(), "no tbls.ThresholdSplit share stored into an indexed slot (or appended in share-index order) in getTSSShares or its helpers")
		}
	}
}

// c11IsVarargsTemp: v is the implicit array that holds the variadic arguments of a call (`append(s, x)` compiles to
// a one-element array that is sliced and passed on).
func c11IsVarargsTemp(v ssa.Value) bool {
	al, ok := v.(*ssa.Alloc)
	if !ok || al.Referrers() == nil {
		return false
	}
	if _, isArr := al.Type().Underlying().(*types.Pointer).Elem().Underlying().(*types.Array); !isArr {
		return false
	}
	for _, ref := range *al.Referrers() {
		sl, ok := ref.(*ssa.Slice)
		if !ok || sl.Referrers() == nil {
			continue
		}
		for _, r2 := range *sl.Referrers() {
			if ci, ok := r2.(ssa.CallInstruction); ok {
				args := ci.Common().Args
				if len(args) > 0 && args[len(args)-1] == ssa.Value(sl) {
					return true
				}
			}
		}
	}
	return false
}
