package rules

// c05_wiring.go — C05 rules A5 (handler registration / read limit) and A6 (gater wiring): who-is-wired-to-whom
// rules over call arguments; they do not depend on the shape of any function body beyond the call sites.

import (
	"go/constant"
	"go/token"
	"strings"

	"golang.org/x/tools/go/ssa"

	"charonverif/internal/an"
)

// c05VariadicElems returns the elements of a variadic argument slice built at the call site.
func c05VariadicElems(v ssa.Value) ([]ssa.Value, bool) {
	if k, ok := v.(*ssa.Const); ok && k.Value == nil {
		return nil, true
	}
	sl, ok := v.(*ssa.Slice)
	if !ok {
		return nil, false
	}
	al, ok := sl.X.(*ssa.Alloc)
	if !ok {
		return nil, false
	}
	var out []ssa.Value
	for _, ref := range *al.Referrers() {
		switch r := ref.(type) {
		case *ssa.IndexAddr:
			for _, r2 := range *r.Referrers() {
				if st, ok := r2.(*ssa.Store); ok && st.Addr == ssa.Value(r) {
					out = append(out, st.Val)
				}
			}
		case *ssa.Slice:
		default:
			return nil, false
		}
	}
	return out, true
}

// ---------------------------------------------------------------------------------------------
// A5: the handler is registered with a read limit below the p2p default

func c05A5(e *c05env) {
	c := e.c
	reg := c.Fn("p2p.RegisterHandler")
	wrl := c.Fn("p2p.WithReadLimit")
	handle := c.Fn(c05Q + ".Consensus.handle")
	def := constOf(c, "p2p", "maxMsgSize")
	n := 0
	for _, fn := range an.PkgFuncs(c.SSAPkg(c05Q)) {
		for _, call := range c05CallsTo(fn, reg) {
			n++
			args := call.Call.Args
			if len(args) != 6 {
				c.Bail("p2p.RegisterHandler: unexpected signature")
			}
			where := an.FuncName(fn)
			isHandle := false
			if mc, ok := an.Unwrap(args[4]).(*ssa.MakeClosure); ok {
				if f, ok := mc.Fn.(*ssa.Function); ok && (an.FuncName(f) == an.FuncName(handle) || strings.HasPrefix(f.Name(), "handle$bound")) {
					isHandle = true
				}
			}
			c.Check(where+" registers Consensus.handle", call.Pos(), isHandle, "the registered stream handler is not Consensus.handle (the function whose checks A1 decides)")
			elems, ok := c05VariadicElems(args[5])
			if !ok {
				c.Unsure(where+" RegisterHandler WithReadLimit", call.Pos(), "options are not a literal argument list")
				continue
			}
			good, why := false, "handler registered without p2p.WithReadLimit: messages up to the p2p default size are decoded"
			for _, el := range elems {
				oc, ok := an.Unwrap(el).(*ssa.Call)
				if !ok || oc.Call.StaticCallee() != wrl {
					continue
				}
				lim, ok := an.ConstInt(oc.Call.Args[0])
				switch {
				case !ok:
					why = "read limit is not a constant"
				case lim <= 0 || lim >= def:
					why = "read limit is not below the p2p default frame size"
				default:
					good = true
				}
			}
			c.Check(where+" RegisterHandler WithReadLimit", call.Pos(), good, why)
		}
	}
	if n == 0 {
		c.Bail("no p2p.RegisterHandler call in %s", c05Q)
	}
	// WithReadLimit really installs a reader bounded by its argument for every protocol
	if len(wrl.AnonFuncs) != 1 || len(wrl.AnonFuncs[0].AnonFuncs) != 1 {
		c.Bail("p2p.WithReadLimit: unexpected closure structure")
	}
	opt, rd := wrl.AnonFuncs[0], wrl.AnonFuncs[0].AnonFuncs[0]
	ndr := c.OneCall(rd, func(cc *ssa.CallCommon) bool {
		f := cc.StaticCallee()
		return f != nil && f.Name() == "NewDelimitedReader"
	}, "pbio.NewDelimitedReader", false)
	c.Check("p2p.WithReadLimit reader bounded by limit", ndr.Pos(), c05FreeVarIsParam(ndr.Common().Args[1], wrl.Params[0]),
		"the reader installed by WithReadLimit is not bounded by the limit argument")
	ups := mapUpdates(opt, isFieldMap("p2p.sendRecvOpts.readersByProtocol"))
	good := false
	for _, up := range ups {
		if mc, ok := an.Unwrap(up.Value).(*ssa.MakeClosure); ok && mc.Fn == ssa.Value(rd) {
			if l := an.InnermostLoop(opt, up.Block()); l != nil {
				if k, _, ok := an.FieldOf(l.RangeColl()); ok && k == "p2p.sendRecvOpts.protocols" && l.ElemOf(up.Key) {
					good = true
				}
			}
		}
	}
	c.Check("p2p.WithReadLimit installs the reader for every protocol", opt.Pos(), good, "the bounded reader is not stored in readersByProtocol for each registered protocol")
}

// c05FreeVarIsParam follows a captured variable through nested closures up to a parameter.
func c05FreeVarIsParam(v ssa.Value, p *ssa.Parameter) bool {
	for i := 0; i < 8; i++ {
		switch x := v.(type) {
		case *ssa.UnOp:
			if x.Op != token.MUL {
				return false
			}
			v = x.X
		case *ssa.FreeVar:
			fn := x.Parent()
			idx := -1
			for j, fv := range fn.FreeVars {
				if fv == x {
					idx = j
				}
			}
			if idx < 0 || fn.Parent() == nil {
				return false
			}
			var bind ssa.Value
			for _, in := range an.Instrs(fn.Parent(), false) {
				if mc, ok := in.(*ssa.MakeClosure); ok && mc.Fn == ssa.Value(fn) {
					if bind != nil {
						return false
					}
					bind = mc.Bindings[idx]
				}
			}
			if bind == nil {
				return false
			}
			v = bind
		case *ssa.Alloc:
			n := 0
			var src ssa.Value
			for _, ref := range *x.Referrers() {
				if st, ok := ref.(*ssa.Store); ok && st.Addr == ssa.Value(x) {
					n++
					src = st.Val
				}
			}
			return n == 1 && src == ssa.Value(p)
		case *ssa.Parameter:
			return x == p
		default:
			return false
		}
	}
	return false
}

// ---------------------------------------------------------------------------------------------
// A6: the duty gater rejects invalid duty types, and it is the gater wired into consensus

func c05A6(e *c05env) {
	c := e.c
	ng := c.Fn("core.NewDutyGater")
	var gater *ssa.Function
	for _, r := range an.Returns(ng) {
		if len(r.Results) != 2 || !c05IsNilErr(r.Results[1]) {
			continue
		}
		mc, ok := an.Unwrap(r.Results[0]).(*ssa.MakeClosure)
		if !ok || gater != nil {
			c.Bail("NewDutyGater: successful result is not a single function literal")
		}
		gater, _ = mc.Fn.(*ssa.Function)
	}
	if gater == nil || len(gater.Params) != 1 {
		c.Bail("NewDutyGater: gater closure not found")
	}
	var valid []ssa.CallInstruction
	for _, g := range an.Calls(gater, an.Static("core.DutyType.Valid"), false) {
		a := an.Unwrap(g.Common().Args[0])
		isType := false
		switch x := a.(type) {
		case *ssa.Field:
			isType = an.FieldKey(x.X.Type(), x.Field) == "core.Duty.Type" && rootedAt(x.X, gater.Params[0])
		case *ssa.UnOp:
			if fa, ok := x.X.(*ssa.FieldAddr); ok && x.Op == token.MUL {
				isType = an.FieldKey(fa.X.Type(), fa.Field) == "core.Duty.Type" && rootedAt(fa.X, gater.Params[0])
			}
		}
		if isType {
			valid = append(valid, g)
		}
	}
	n := 0
	for _, r := range an.Returns(gater) {
		if len(r.Results) != 1 {
			continue
		}
		if k, ok := r.Results[0].(*ssa.Const); ok && k.Value != nil && !constant.BoolVal(k.Value) {
			continue
		}
		n++
		good, why := false, "the gater can allow a duty without testing duty.Type.Valid()"
		for _, g := range valid {
			ok, w := an.Guarded(g, r, an.BoolGuard(0, true))
			if ok {
				good = true
			} else {
				why = w
			}
		}
		c.Check("NewDutyGater closure allows only valid duty types", posOf(r), good, why)
	}
	if n == 0 {
		c.Bad("NewDutyGater closure allows only valid duty types", gater.Pos(), "the gater never allows anything (or its result is not recognised)")
	}
	// wiring: NewDutyGater → NewConsensusController → qbft.NewConsensus → Consensus.gaterFunc
	nc := c.Fn(c05Q + ".NewConsensus")
	var gp *ssa.Parameter
	for _, p := range nc.Params {
		if an.TypeName(p.Type()) == "core.DutyGaterFunc" {
			if gp != nil {
				c.Bail("NewConsensus: several DutyGaterFunc parameters")
			}
			gp = p
		}
	}
	if gp == nil {
		c.Bail("NewConsensus: no DutyGaterFunc parameter")
	}
	stored, pos := false, nc.Pos()
	for _, in := range an.Instrs(nc, false) {
		if st, ok := in.(*ssa.Store); ok {
			if fa, ok := st.Addr.(*ssa.FieldAddr); ok && an.FieldKey(fa.X.Type(), fa.Field) == c05Q+".Consensus.gaterFunc" {
				stored, pos = an.Unwrap(st.Val) == ssa.Value(gp), st.Pos()
			}
		}
	}
	c.Check("NewConsensus stores its gater parameter", pos, stored, "Consensus.gaterFunc is not the gater handed to NewConsensus")
	gidx := -1
	for i, p := range nc.Params {
		if p == gp {
			gidx = i
		}
	}
	ctl := c.Fn("core/consensus.NewConsensusController")
	var cp *ssa.Parameter
	for _, p := range ctl.Params {
		if an.TypeName(p.Type()) == "core.DutyGaterFunc" {
			cp = p
		}
	}
	call := c.OneCall(ctl, func(cc *ssa.CallCommon) bool { return cc.StaticCallee() == nc }, "qbft.NewConsensus", false)
	c.Check("NewConsensusController passes its gater to qbft.NewConsensus", call.Pos(), cp != nil && an.Unwrap(call.Common().Args[gidx]) == ssa.Value(cp),
		"qbft.NewConsensus does not receive the controller's gater")
	cidx := -1
	for i, p := range ctl.Params {
		if p == cp {
			cidx = i
		}
	}
	wire := c.Fn("app.wireCoreWorkflow")
	wcall := c.OneCall(wire, func(cc *ssa.CallCommon) bool { return cc.StaticCallee() == ctl }, "consensus.NewConsensusController", false)
	good := false
	if cidx >= 0 {
		if ex, ok := an.Unwrap(wcall.Common().Args[cidx]).(*ssa.Extract); ok && ex.Index == 0 {
			if gc, ok := ex.Tuple.(*ssa.Call); ok && gc.Call.StaticCallee() == ng {
				good, _ = an.Guarded(gc, wcall, an.DefaultGuard)
			}
		}
	}
	c.Check("wireCoreWorkflow wires core.NewDutyGater into consensus", wcall.Pos(), good, "the consensus gater is not the checked result of core.NewDutyGater")
}
