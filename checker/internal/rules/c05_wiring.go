package rules

// c05_wiring.go — C05 rules A5 (handler registration / read limit) and A6 (gater wiring): who-is-wired-to-whom
// rules over call arguments; they do not depend on the shape of any function body beyond the call sites.

import (
	"go/constant"
	"go/token"
	"strings"

	"golang.org/x/tools/go/ssa"

	"charonverif/internal/an"
)

// c05VariadicElems returns the elements of a variadic argument slice built at the call site.
func c05VariadicElems(v ssa.Value) ([]ssa.Value, bool) {
	if k, ok := v.(*ssa.Const); ok && k.Value == nil {
		return nil, true
	}
	sl, ok := v.(*ssa.Slice)
	if !ok {
		return nil, false
	}
	al, ok := sl.X.(*ssa.Alloc)
	if !ok {
		return nil, false
	}
	var out []ssa.Value
	for _, ref := range *al.Referrers() {
		switch r := ref.(type) {
		case *ssa.IndexAddr:
			for _, r2 := range *r.Referrers() {
				if st, ok := r2.(*ssa.Store); ok && st.Addr == ssa.Value(r) {
					out = append(out, st.Val)
				}
			}
		case *ssa.Slice:
		default:
			return nil, false
		}
	}
	return out, true
}

// ---------------------------------------------------------------------------------------------
// A5: the handler is registered with a read limit below the p2p default

func c05A5(e *c05env) {
	c := e.c
	reg := c.Fn("p2p.RegisterHandler")
	wrl := c.Fn("p2p.WithReadLimit")
	handle := c.Fn(c05N("Consensus.handle"))
	def := constOf(c, "p2p", "maxMsgSize")
	n := 0
	for _, fn := range an.PkgFuncs(c.SSAPkg(c05Q)) {
		for _, call := range c05CallsTo(fn, reg) {
			n++
			args := call.Call.Args
			if len(args) != 6 {
				c.Bail("p2p.RegisterHandler: unexpected signature")
			}
			where := an.FuncName(fn)
			isHandle := false
			if mc, ok := an.Unwrap(args[4]).(*ssa.MakeClosure); ok {
				if f, ok := mc.Fn.(*ssa.Function); ok && (an.FuncName(f) == an.FuncName(handle) || strings.HasPrefix(f.Name(), "handle$bound")) {
					isHandle = true
				}
			}
			c.Check(where+" registers Consensus.handle", call.Pos(), isHandle, "the registered stream handler is not Consensus.handle (the function whose checks A1 decides)")
			elems, ok := c05VariadicElems(args[5])
			if !ok {
				c.Unsure(where+" RegisterHandler WithReadLimit", call.Pos(), "options are not a literal argument list")
				continue
			}
			good, why := false, "handler registered without p2p.WithReadLimit: messages up to the p2p default size are decoded"
			for _, el := range elems {
				oc, ok := an.Unwrap(el).(*ssa.Call)
				if !ok || oc.Call.StaticCallee() != wrl {
					continue
				}
				lim, ok := an.ConstInt(oc.Call.Args[0])
				switch {
				case !ok:
					why = "read limit is not a constant"
				case lim <= 0 || lim >= def:
					why = "read limit is not below the p2p default frame size"
				default:
					good = true
				}
			}
			c.Check(where+" RegisterHandler WithReadLimit", call.Pos(), good, why)
		}
	}
	if n == 0 {
		c.Bail("no p2p.RegisterHandler call in %s", c05Q)
	}
	// WithReadLimit really installs a reader bounded by its argument for every protocol
	if len(wrl.AnonFuncs) != 1 || len(wrl.AnonFuncs[0].AnonFuncs) != 1 {
		c.Bail("p2p.WithReadLimit: unexpected closure structure")
	}
	opt, rd := wrl.AnonFuncs[0], wrl.AnonFuncs[0].AnonFuncs[0]
	ndr := c.OneCall(rd, func(cc *ssa.CallCommon) bool {
		f := cc.StaticCallee()
		return f != nil && f.Name() == "NewDelimitedReader"
	}, "pbio.NewDelimitedReader", false)
	c.Check("p2p.WithReadLimit reader bounded by limit", ndr.Pos(), c05FreeVarIsParam(ndr.Common().Args[1], wrl.Params[0]),
		"the reader installed by WithReadLimit is not bounded by the limit argument")
	ups := mapUpdates(opt, isFieldMap("p2p.sendRecvOpts.readersByProtocol"))
	good := false
	for _, up := range ups {
		if mc, ok := an.Unwrap(up.Value).(*ssa.MakeClosure); ok && mc.Fn == ssa.Value(rd) {
			if l := an.InnermostLoop(opt, up.Block()); l != nil {
				if k, _, ok := an.FieldOf(l.RangeColl()); ok && k == "p2p.sendRecvOpts.protocols" && l.ElemOf(up.Key) {
					good = true
				}
			}
		}
	}
	c.Check("p2p.WithReadLimit installs the reader for every protocol", opt.Pos(), good, "the bounded reader is not stored in readersByProtocol for each registered protocol")
}

// c05FreeVarIsParam follows a captured variable through nested closures up to a parameter.
func c05FreeVarIsParam(v ssa.Value, p *ssa.Parameter) bool {
	for i := 0; i < 8; i++ {
		switch x := v.(type) {
		case *ssa.UnOp:
			if x.Op != token.MUL {
				return false
			}
			v = x.X
		case *ssa.FreeVar:
			fn := x.Parent()
			idx := -1
			for j, fv := range fn.FreeVars {
				if fv == x {
					idx = j
				}
			}
			if idx < 0 || fn.Parent() == nil {
				return false
			}
			var bind ssa.Value
			for _, in := range an.Instrs(fn.Parent(), false) {
				if mc, ok := in.(*ssa.MakeClosure); ok && mc.Fn == ssa.Value(fn) {
					if bind != nil {
						return false
					}
					bind = mc.Bindings[idx]
				}
			}
			if bind == nil {
				return false
			}
			v = bind
		case *ssa.Alloc:
			n := 0
			var src ssa.Value
			for _, ref := range *x.Referrers() {
				if st, ok := ref.(*ssa.Store); ok && st.Addr == ssa.Value(x) {
					n++
					src = st.Val
				}
			}
			return n == 1 && src == ssa.Value(p)
		case *ssa.Parameter:
			return x == p
		default:
			return false
		}
	}
	return false
}

// ---------------------------------------------------------------------------------------------
// A6: the duty gater rejects invalid duty types, and it is the gater wired into consensus

func c05A6(e *c05env) {
	c := e.c
	ng := c.Fn("core.NewDutyGater")
	// the function value(s) NewDutyGater hands out on success: literal, local, bound method, constructor helper
	var gaters []*ssa.Function
	for _, rc := range an.SuccessCases(ng) {
		if len(rc.Vals) == 0 || an.IsNilConst(an.Resolve(rc.Vals[0])) {
			continue
		}
		fs := gtFuncValues(rc.Vals[0], 0)
		if len(fs) == 0 {
			c.Bail("NewDutyGater: cannot resolve the function value it returns")
		}
		gaters = append(gaters, fs...)
	}
	if len(gaters) == 0 {
		c.Bail("NewDutyGater: gater function not found")
	}
	n := 0
	for _, gater := range gaters {
		// calls of DutyType.Valid on the Type of a Duty-typed parameter (or of a local copy of it)
		var valid []ssa.CallInstruction
		for _, g := range an.Calls(gater, an.Static("core.DutyType.Valid"), false) {
			a := an.Resolve(g.Common().Args[0])
			isType := false
			switch x := a.(type) {
			case *ssa.Field:
				isType = an.FieldKey(x.X.Type(), x.Field) == "core.Duty.Type"
			case *ssa.UnOp:
				if fa, ok := x.X.(*ssa.FieldAddr); ok && x.Op == token.MUL {
					isType = an.FieldKey(fa.X.Type(), fa.Field) == "core.Duty.Type"
				}
			}
			if isType {
				valid = append(valid, g)
			}
		}
		key := "NewDutyGater closure allows only valid duty types"
		if len(valid) == 0 {
			// the test may sit in a helper: not followed
			helper := false
			for _, in := range an.Instrs(gater, false) {
				if ci, ok := in.(ssa.CallInstruction); ok && ci.Common().StaticCallee() != nil && ci.Common().StaticCallee().Pkg == gater.Pkg {
					helper = true
				}
			}
			n++
			if helper {
				c.Unsure(key, gater.Pos(), "no duty.Type.Valid() test in the gater itself; it calls in-package helpers that are not followed")
			} else {
				c.Bad(key, gater.Pos(), "the gater can allow a duty without testing duty.Type.Valid()")
			}
			continue
		}
		// under "Valid() == false" for every such call no path may return a value that can be true
		env := func(v ssa.Value) (constant.Value, bool) {
			for _, g := range valid {
				if v == g.Value() {
					return constant.MakeBool(false), true
				}
			}
			return nil, false
		}
		n++
		bad := c05MayReturnTrueUnder(gater, env)
		pos := gater.Pos()
		if bad != nil {
			pos = posOf(bad)
		}
		c.Check(key, pos, bad == nil, "the gater can allow a duty whose type is not valid (a return that may yield true is reachable although duty.Type.Valid() is false or was never asked)")
	}
	if n == 0 {
		c.Bad("NewDutyGater closure allows only valid duty types", ng.Pos(), "the gater never allows anything (or its result is not recognised)")
	}
	// wiring: NewDutyGater → NewConsensusController → qbft.NewConsensus → Consensus.gaterFunc
	nc := c.Fn(c05Q + ".NewConsensus")
	var gp *ssa.Parameter
	for _, p := range nc.Params {
		if an.TypeName(p.Type()) == "core.DutyGaterFunc" {
			if gp != nil {
				c.Bail("NewConsensus: several DutyGaterFunc parameters")
			}
			gp = p
		}
	}
	if gp == nil {
		c.Bail("NewConsensus: no DutyGaterFunc parameter")
	}
	_, _, fGater, _ := c05ConsFields(c)
	stored, pos := false, nc.Pos()
	for _, in := range an.Instrs(nc, false) {
		if st, ok := in.(*ssa.Store); ok {
			if fa, ok := st.Addr.(*ssa.FieldAddr); ok && an.FieldKey(fa.X.Type(), fa.Field) == c05Q+".Consensus."+fGater {
				stored, pos = an.Unwrap(st.Val) == ssa.Value(gp), st.Pos()
			}
		}
	}
	c.Check("NewConsensus stores its gater parameter", pos, stored, "Consensus.gaterFunc is not the gater handed to NewConsensus")
	gidx := -1
	for i, p := range nc.Params {
		if p == gp {
			gidx = i
		}
	}
	ctl := c.Fn("core/consensus.NewConsensusController")
	var cp *ssa.Parameter
	for _, p := range ctl.Params {
		if an.TypeName(p.Type()) == "core.DutyGaterFunc" {
			cp = p
		}
	}
	call := c.OneCall(ctl, func(cc *ssa.CallCommon) bool { return cc.StaticCallee() == nc }, "qbft.NewConsensus", false)
	c.Check("NewConsensusController passes its gater to qbft.NewConsensus", call.Pos(), cp != nil && an.Unwrap(call.Common().Args[gidx]) == ssa.Value(cp),
		"qbft.NewConsensus does not receive the controller's gater")
	cidx := -1
	for i, p := range ctl.Params {
		if p == cp {
			cidx = i
		}
	}
	wire := c.Fn("app.wireCoreWorkflow")
	wcall := c.OneCall(wire, func(cc *ssa.CallCommon) bool { return cc.StaticCallee() == ctl }, "consensus.NewConsensusController", false)
	good := false
	if cidx >= 0 {
		if ex, ok := an.Unwrap(wcall.Common().Args[cidx]).(*ssa.Extract); ok && ex.Index == 0 {
			if gc, ok := ex.Tuple.(*ssa.Call); ok && gc.Call.StaticCallee() == ng {
				good, _ = an.Guarded(gc, wcall, an.DefaultGuard)
			}
		}
	}
	c.Check("wireCoreWorkflow wires core.NewDutyGater into consensus", wcall.Pos(), good, "the consensus gater is not the checked result of core.NewDutyGater")
}

// c05MayReturnTrueUnder enumerates the paths of a bool-returning function under a valuation of some of its
// values; branch conditions and returned values are evaluated along the path, phis by the edge entered.
// It returns a return instruction that can yield a non-false value on a feasible path (nil if none).
func c05MayReturnTrueUnder(fn *ssa.Function, env an.C05Env) *ssa.Return {
	type frame struct {
		b    *ssa.BasicBlock
		prev *ssa.BasicBlock
	}
	var found *ssa.Return
	visits := map[*ssa.BasicBlock]int{}
	steps := 0
	var walk func(b, prev *ssa.BasicBlock, phis map[*ssa.Phi]ssa.Value)
	walk = func(b, prev *ssa.BasicBlock, phis map[*ssa.Phi]ssa.Value) {
		if found != nil || visits[b] >= 2 || steps > 20000 {
			return
		}
		steps++
		visits[b]++
		defer func() { visits[b]-- }()
		local := phis
		if prev != nil {
			local = map[*ssa.Phi]ssa.Value{}
			for k, v := range phis {
				local[k] = v
			}
			for _, in := range b.Instrs {
				phi, ok := in.(*ssa.Phi)
				if !ok {
					break
				}
				for i, p := range b.Preds {
					if p == prev {
						local[phi] = phi.Edges[i]
					}
				}
			}
		}
		penv := func(v ssa.Value) (constant.Value, bool) {
			for i := 0; i < 8; i++ {
				if phi, ok := v.(*ssa.Phi); ok {
					if e, ok := local[phi]; ok {
						v = e
						continue
					}
				}
				break
			}
			if k, ok := v.(*ssa.Const); ok && k.Value != nil {
				return k.Value, true
			}
			return env(v)
		}
		last := b.Instrs[len(b.Instrs)-1]
		switch x := last.(type) {
		case *ssa.Return:
			if b == fn.Recover || len(x.Results) != 1 {
				return
			}
			rv := returnValues(x)[0]
			if k, ok := an.C05Eval(rv, penv); ok && k.Kind() == constant.Bool && !constant.BoolVal(k) {
				return
			}
			if k, ok := penv(rv); ok && k.Kind() == constant.Bool && !constant.BoolVal(k) {
				return
			}
			found = x
		case *ssa.If:
			if k, ok := an.C05Eval(x.Cond, penv); ok && k.Kind() == constant.Bool {
				if constant.BoolVal(k) {
					walk(b.Succs[0], b, local)
				} else {
					walk(b.Succs[1], b, local)
				}
				return
			}
			if k, ok := penv(x.Cond); ok && k.Kind() == constant.Bool {
				if constant.BoolVal(k) {
					walk(b.Succs[0], b, local)
				} else {
					walk(b.Succs[1], b, local)
				}
				return
			}
			walk(b.Succs[0], b, local)
			walk(b.Succs[1], b, local)
		default:
			for _, sc := range b.Succs {
				walk(sc, b, local)
			}
		}
	}
	if len(fn.Blocks) > 0 {
		walk(fn.Blocks[0], nil, map[*ssa.Phi]ssa.Value{})
	}
	return found
}
