package rules

import (
	"go/token"
	"strings"

	"golang.org/x/tools/go/ssa"

	"charonverif/internal/an"
	"charonverif/internal/rt"
)

func c04Exact(c *rt.Ctx) {
	c.Rule("T7", 13, func() {
		for _, fn := range an.PkgFuncs(c.SSAPkg("core/qbft")) {
			n := 0
			for _, in := range an.Instrs(fn, false) {
				bin, ok := in.(*ssa.BinOp)
				if !ok {
					continue
				}
				switch bin.Op {
				case token.EQL, token.NEQ, token.LSS, token.LEQ, token.GTR, token.GEQ:
				default:
					continue
				}
				kind, side := c04Threshold(bin.X), 0
				if kind == "" {
					kind, side = c04Threshold(bin.Y), 1
				}
				if kind == "" {
					continue
				}
				op := bin.Op
				if side == 0 { // threshold on the left: flip to "count OP threshold"
					switch op {
					case token.LSS:
						op = token.GTR
					case token.LEQ:
						op = token.GEQ
					case token.GTR:
						op = token.LSS
					case token.GEQ:
						op = token.LEQ
					}
				}
				n++
				good := false
				switch kind {
				case "quorum":
					good = op == token.GEQ || op == token.LSS
				case "f+1":
					good = op == token.GEQ || op == token.LSS || op == token.EQL
				case "f":
					good = op == token.GTR || op == token.LEQ // count > f  ≡  count >= f+1
				}
				c.Check(c02Strip(an.FuncName(fn))+" "+kind+" comparison #"+itoa(n), posOf(bin), good,
					"the count is compared with the "+kind+" threshold by `"+op.String()+"`: with exactly that many live members the rule never fires (or fires one short)")
			}
		}
	})
	c.Rule("T8", 1, func() {
		fn := c.Fn("core/consensus/qbft.leader")
		rets := an.Returns(fn)
		if len(rets) != 1 || len(rets[0].Results) != 1 || len(fn.Params) != 3 {
			c.Bail("leader: unexpected shape")
		}
		round, nodes := ssa.Value(fn.Params[1]), ssa.Value(fn.Params[2])
		rem, ok := an.Unwrap(rets[0].Results[0]).(*ssa.BinOp)
		good, why := false, "the leader index is not a sum taken modulo the number of nodes"
		if ok && rem.Op == token.REM && an.Unwrap(rem.Y) == nodes {
			why = "the round does not enter the leader index as a plain addend (coefficient 1): the rotation can skip members or stand still"
			// collect addends of the sum
			var addends []ssa.Value
			var walk func(v ssa.Value)
			walk = func(v ssa.Value) {
				if b, ok := v.(*ssa.BinOp); ok && b.Op == token.ADD {
					walk(b.X)
					walk(b.Y)
					return
				}
				addends = append(addends, v)
			}
			walk(rem.X)
			nRound := 0
			other := true
			for _, a := range addends {
				if an.Unwrap(a) == round {
					nRound++
				} else if usesValue(a, round, 0) {
					other = false
				}
			}
			good = nRound == 1 && other
		}
		c.Check("leader rotates by one per round", fn.Pos(), good, why)
	})
}

func usesValue(v, target ssa.Value, d int) bool {
	if d > 8 {
		return false
	}
	if an.Unwrap(v) == target {
		return true
	}
	in, ok := v.(ssa.Instruction)
	if !ok {
		return false
	}
	for _, op := range an.Operands(in) {
		if usesValue(op, target, d+1) {
			return true
		}
	}
	return false
}

// c04Threshold classifies v as d.Quorum(), d.Faulty()+1 or d.Faulty().
func c04Threshold(v ssa.Value) string {
	v = an.Unwrap(v)
	isCall := func(x ssa.Value, name string) bool {
		call, ok := an.Unwrap(x).(*ssa.Call)
		return ok && call.Call.StaticCallee() != nil && call.Call.StaticCallee().Name() == name &&
			strings.HasPrefix(c02Strip(an.FuncName(call.Call.StaticCallee())), "core/qbft.Definition.")
	}
	if isCall(v, "Quorum") {
		return "quorum"
	}
	if isCall(v, "Faulty") {
		return "f"
	}
	if b, ok := v.(*ssa.BinOp); ok && b.Op == token.ADD {
		if k, ok := an.ConstInt(b.Y); ok && k == 1 && isCall(b.X, "Faulty") {
			return "f+1"
		}
	}
	return ""
}
