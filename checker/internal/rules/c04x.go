package rules

import (
	"fmt"
	"go/token"
	"go/types"
	"strings"

	"golang.org/x/tools/go/ssa"

	"charonverif/internal/an"
	"charonverif/internal/rt"
)

// T7 — every comparison of a count with the quorum / f+1 threshold is exact. Formulated on normalised
// comparisons: the threshold side is `Quorum()+k` or `Faulty()+k` (either operand order, through locals and
// in-package helpers that return it), the comparison is brought to the form `count >= T+k` / `count < T+k` /
// `count == T+k` / `count != T+k` (`>` and `<=` shift k by one), and then quorum needs k = 0 with >= or <, and
// f+1 needs k = 1 with >=, <, == or !=. A comparison that lives in a helper whose count is a parameter is
// additionally counted once per in-package call site, so that extracting `hasQuorum(n)` does not thin the rule out.
//
// T8 — the leader index is (… + round) mod nodes with coefficient exactly one for the round: decided by a small
// linear-form evaluator over the returned expression (through conversions, locals and in-package helpers).

func init() {
	Extend("C04", "", func(*rt.Ctx) {},
		// off-by-one hidden behind the other spelling of the comparison
		Mutant{ID: "C04-T7-leq-quorum", File: "core/qbft/qbft.go", Expect: "T7",
			Old: "\tif len(prepares) < d.Quorum() {", New: "\tif len(prepares) <= d.Quorum() {"},
		// operands swapped and strict: Quorum() <= n-1
		Mutant{ID: "C04-T7-swapped-strict", File: "core/qbft/qbft.go", Expect: "T7",
			Old: "\treturn len(commits) >= d.Quorum()", New: "\treturn d.Quorum() < len(commits)"},
		// threshold through a local with an offset
		Mutant{ID: "C04-T7-local-offset", File: "core/qbft/qbft.go", Expect: "T7",
			Old: "\tif len(frc) < d.Faulty()+1 {", New: "\tneed := d.Faulty() + 2\n\tif len(frc) < need {"},
		// f+1 compared with equality against f
		Mutant{ID: "C04-T7-eq-faulty", File: "core/qbft/qbft.go", Expect: "T7",
			Old: "\t\tif len(highestBySource) == d.Faulty()+1 {", New: "\t\tif len(highestBySource) == d.Faulty() {"},
		// leader: round enters twice
		Mutant{ID: "C04-T8-leader-round-twice", File: "core/consensus/qbft/qbft.go", Expect: "T8",
			Old: "\treturn (int64(duty.Slot) + int64(duty.Type) + round) % int64(nodes)", New: "\tbase := int64(duty.Slot) + round\n\n\treturn (base + int64(duty.Type) + round) % int64(nodes)"},
		// leader: round dropped
		Mutant{ID: "C04-T8-leader-no-round", File: "core/consensus/qbft/qbft.go", Expect: "T8",
			Old: "\treturn (int64(duty.Slot) + int64(duty.Type) + round) % int64(nodes)", New: "\t_ = round\n\n\treturn (int64(duty.Slot) + int64(duty.Type)) % int64(nodes)"},
		// leader: modulus is not the number of nodes
		Mutant{ID: "C04-T8-leader-wrong-modulus", File: "core/consensus/qbft/qbft.go", Expect: "T8",
			Old: "\treturn (int64(duty.Slot) + int64(duty.Type) + round) % int64(nodes)", New: "\treturn (int64(duty.Slot) + int64(duty.Type) + round) % int64(nodes-1)"})
}

func c04Exact(c *rt.Ctx) {
	// The vacuity guard is not a frozen count of comparison sites (merging two upon-rule cases into one parametrised
	// case, or extracting `hasQuorum`, legitimately changes it): the minimum is low, and instead every call of
	// Quorum()/Faulty() in the package must end up in a classified comparison (coverage obligation below).
	c.Rule("T7", 8, func() {
		fns := an.PkgFuncsAll(c.SSAPkg("core/qbft"))
		c04Used, c04Fns = map[*ssa.Call]bool{}, fns
		defer func() { c04Used, c04Fns = nil, nil }()
		for _, fn := range fns {
			n := 0
			for _, in := range an.Instrs(fn, false) {
				bin, ok := in.(*ssa.BinOp)
				if !ok || !isCompare(bin.Op) {
					continue
				}
				base, k, side := "", 0, 0
				if b, kk, ok := c04Threshold(bin.X, 0); ok {
					base, k, side = b, kk, 0
				} else if b, kk, ok := c04Threshold(bin.Y, 0); ok {
					base, k, side = b, kk, 1
				} else {
					continue
				}
				op := bin.Op
				count := bin.X
				if side == 0 { // threshold on the left: flip to "count OP threshold"
					count = bin.Y
					switch op {
					case token.LSS:
						op = token.GTR
					case token.LEQ:
						op = token.GEQ
					case token.GTR:
						op = token.LSS
					case token.GEQ:
						op = token.LEQ
					}
				}
				// normalise > and <= to >= and <
				switch op {
				case token.GTR:
					op, k = token.GEQ, k+1
				case token.LEQ:
					op, k = token.LSS, k+1
				}
				n++
				good := false
				kind := base
				switch base {
				case "quorum":
					good = k == 0 && (op == token.GEQ || op == token.LSS)
				case "faulty":
					kind = "f+1"
					good = k == 1 && (op == token.GEQ || op == token.LSS || op == token.EQL || op == token.NEQ)
				}
				shown := fmt.Sprintf("count %s %s%+d", op, map[string]string{"quorum": "Quorum()", "faulty": "Faulty()"}[base], k)
				key := hxStrip(an.FuncName(fn)) + " " + kind + " comparison #" + fmt.Sprint(n)
				c.Check(key, posOf(bin), good,
					"the count is compared with the "+kind+" threshold as `"+shown+"`: with exactly that many live members the rule never fires (or fires one short)")
				// a comparison on a parameter of a small helper stands for every use of the helper
				if c04FromParam(count) {
					m := 0
					for _, g := range fns {
						for _, ci := range an.Calls(g, func(cc *ssa.CallCommon) bool {
							f := cc.StaticCallee()
							return f != nil && an.Orig(f) == an.Orig(fn)
						}, false) {
							m++
							c.Good(key+" used by "+hxStrip(an.FuncName(g))+" #"+fmt.Sprint(m), ci.Pos(), "exact comparison inside the helper")
						}
					}
				}
			}
		}
		// coverage: a threshold that is computed but never reaches a recognised comparison means the rule lost sight of it
		for _, fn := range fns {
			for _, in := range an.Instrs(fn, false) {
				call, ok := in.(*ssa.Call)
				if !ok || c04Used[call] {
					continue
				}
				f := call.Call.StaticCallee()
				if f == nil || !strings.HasPrefix(hxStrip(an.FuncName(f)), "core/qbft.Definition.") || (f.Name() != "Quorum" && f.Name() != "Faulty") {
					continue
				}
				if refs := call.Referrers(); refs == nil || len(*refs) == 0 {
					continue
				}
				if c04OnlyLogged(call) {
					continue
				}
				c.Unsure(hxStrip(an.FuncName(fn))+" "+f.Name()+"() not compared in a recognised form", call.Pos(),
					"the threshold is computed here but does not reach a comparison of the form count OP "+f.Name()+"()+k that the rule can classify")
			}
		}
	})
	c.Rule("T8", 1, func() {
		fn := c.Fn("core/consensus/qbft.leader")
		var round, nodes ssa.Value
		var ints []*ssa.Parameter
		for _, p := range fn.Params {
			if b, ok := p.Type().Underlying().(*types.Basic); ok && b.Info()&types.IsInteger != 0 {
				ints = append(ints, p)
			}
		}
		if len(ints) != 2 {
			c.Bail("leader: expected exactly two integer parameters (round, nodes), found %d", len(ints))
		}
		// the round is the 64-bit one (qbft rounds are int64), the node count a plain int; same types: by position
		round, nodes = ints[0], ints[1]
		k0, k1 := ints[0].Type().Underlying().(*types.Basic).Kind(), ints[1].Type().Underlying().(*types.Basic).Kind()
		if k0 != k1 && k1 == types.Int64 {
			round, nodes = ints[1], ints[0]
		}
		e := &t8Eval{round: round, nodes: nodes}
		cases := an.ReturnCases(fn)
		if len(cases) == 0 {
			c.Bail("leader: no return")
		}
		verdict, why := 0, ""
		for _, rc := range cases {
			if len(rc.Vals) != 1 {
				c.Bail("leader: unexpected result arity")
			}
			st, w := e.leader(rc.Vals[0], nil, 0)
			if st > verdict {
				verdict, why = st, w
			}
		}
		switch verdict {
		case 0:
			c.Good("leader rotates by one per round", fn.Pos(), "(… + 1·round) mod nodes")
		case 1:
			c.Unsure("leader rotates by one per round", fn.Pos(), why)
		default:
			c.Bad("leader rotates by one per round", fn.Pos(), why)
		}
	})
}

// hxStrip removes type-argument lists from a function name.
func hxStrip(s string) string {
	var b strings.Builder
	depth := 0
	for _, r := range s {
		switch {
		case r == '[':
			depth++
		case r == ']':
			depth--
		case depth == 0:
			b.WriteRune(r)
		}
	}
	return b.String()
}

func c04FromParam(v ssa.Value) bool {
	v = an.Resolve(v)
	if _, ok := v.(*ssa.Parameter); ok {
		return true
	}
	if call, ok := v.(*ssa.Call); ok {
		if b, ok := call.Call.Value.(*ssa.Builtin); ok && b.Name() == "len" && len(call.Call.Args) == 1 {
			_, isP := an.Resolve(call.Call.Args[0]).(*ssa.Parameter)
			return isP
		}
	}
	return false
}

// c04Used collects, during one T7 run, the Quorum()/Faulty() calls that took part in a classified comparison.
var c04Used map[*ssa.Call]bool

// c04Fns: the functions of core/qbft during a T7 run (to resolve a threshold handed to a helper as an argument).
var c04Fns []*ssa.Function

// c04OnlyLogged: every use of the value is an argument of a call that returns nothing or a logging field
// (z.Int("quorum", d.Quorum())): not a protocol decision.
func c04OnlyLogged(v ssa.Value) bool {
	refs := v.Referrers()
	if refs == nil {
		return true
	}
	for _, r := range *refs {
		switch x := r.(type) {
		case *ssa.DebugRef:
		case *ssa.Call:
			n := an.CalleeName(&x.Call)
			if !strings.HasPrefix(n, "app/z.") && !strings.HasPrefix(n, "app/log.") && !strings.HasPrefix(n, "fmt.") {
				return false
			}
		case *ssa.MakeInterface:
			if !c04OnlyLogged(x) {
				return false
			}
		default:
			return false
		}
	}
	return true
}

// c04Threshold classifies v as Quorum()+k or Faulty()+k.
func c04Threshold(v ssa.Value, d int) (base string, k int, ok bool) {
	if d > 6 {
		return "", 0, false
	}
	v = an.Resolve(v)
	switch x := v.(type) {
	case *ssa.Parameter:
		// a threshold handed to a helper (`limit int`): every in-package call site must pass the same threshold
		idx := an.ParamIndex(x)
		first := true
		for _, g := range c04Fns {
			for _, ci := range an.Calls(g, func(cc *ssa.CallCommon) bool {
				f := an.StaticBody(cc)
				return f != nil && an.Orig(f) == an.Orig(x.Parent())
			}, false) {
				if idx >= len(ci.Common().Args) {
					return "", 0, false
				}
				b, kk, ok := c04Threshold(ci.Common().Args[idx], d+1)
				if !ok || (!first && (b != base || kk != k)) {
					return "", 0, false
				}
				base, k, first = b, kk, false
			}
		}
		return base, k, !first
	case *ssa.Call:
		if f := x.Call.StaticCallee(); f != nil && strings.HasPrefix(hxStrip(an.FuncName(f)), "core/qbft.Definition.") {
			switch f.Name() {
			case "Quorum":
				if c04Used != nil {
					c04Used[x] = true
				}
				return "quorum", 0, true
			case "Faulty":
				if c04Used != nil {
					c04Used[x] = true
				}
				return "faulty", 0, true
			}
		}
		// an in-package helper that returns the threshold (e.g. `func (d Definition) fPlus1() int`)
		if body := an.StaticBody(&x.Call); body != nil && body.Signature.Results().Len() == 1 {
			first := true
			for _, rc := range an.ReturnCases(body) {
				b, kk, ok := c04Threshold(rc.Vals[0], d+1)
				if !ok || (!first && (b != base || kk != k)) {
					return "", 0, false
				}
				base, k, first = b, kk, false
			}
			return base, k, !first
		}
	case *ssa.BinOp:
		switch x.Op {
		case token.ADD:
			if c, isC := an.ConstInt(x.Y); isC {
				if b, kk, ok := c04Threshold(x.X, d+1); ok {
					return b, kk + int(c), true
				}
			}
			if c, isC := an.ConstInt(x.X); isC {
				if b, kk, ok := c04Threshold(x.Y, d+1); ok {
					return b, kk + int(c), true
				}
			}
		case token.SUB:
			if c, isC := an.ConstInt(x.Y); isC {
				if b, kk, ok := c04Threshold(x.X, d+1); ok {
					return b, kk - int(c), true
				}
			}
		}
	}
	return "", 0, false
}

// t8Eval evaluates the leader expression as a linear form in the round.
type t8Eval struct {
	round, nodes ssa.Value
	depth        int
}

// t8Lin: coefficient of the round in a value; st 0 = exact, 1 = unknown shape, 2 = the round enters non-linearly
type t8Lin struct {
	coef int
	st   int
	why  string
}

type t8Env map[ssa.Value]t8Lin

func (e *t8Eval) isNodes(v ssa.Value, env t8Env) bool {
	v = an.Resolve(v)
	if v == e.nodes {
		return true
	}
	if l, ok := env[v]; ok && l.coef == -999 {
		return true
	}
	return false
}

// leader decides one returned value: 0 good, 1 unsure, 2 bad.
func (e *t8Eval) leader(v ssa.Value, env t8Env, d int) (int, string) {
	v = an.Resolve(v)
	if call, ok := v.(*ssa.Call); ok && d < 4 {
		if body := an.StaticBody(&call.Call); body != nil {
			env2 := e.bind(call, body, env)
			worst, why := 0, ""
			for _, rc := range an.ReturnCases(body) {
				if len(rc.Vals) != 1 {
					return 1, "helper with several results"
				}
				st, w := e.leader(rc.Vals[0], env2, d+1)
				if st > worst {
					worst, why = st, w
				}
			}
			return worst, why
		}
	}
	rem, ok := v.(*ssa.BinOp)
	if !ok || rem.Op != token.REM {
		if l := e.lin(v, env, 0); l.coef == 0 && l.st == 0 {
			return 2, "a returned leader index does not depend on the round: the rotation stands still"
		}
		return 1, "the leader index is not written as a sum taken modulo the number of nodes"
	}
	if !e.isNodes(rem.Y, env) {
		if usesValue(rem.Y, e.nodes, 0) || !usesValue(rem.X, e.nodes, 0) {
			return 2, "the leader index is not reduced modulo the number of nodes"
		}
		return 1, "the modulus of the leader index is not recognisably the number of nodes"
	}
	l := e.lin(rem.X, env, 0)
	switch {
	case l.st == 2:
		return 2, "the round does not enter the leader index as a plain addend (coefficient 1): " + l.why
	case l.st == 1:
		return 1, "cannot evaluate the leader index as a linear form in the round: " + l.why
	case l.coef != 1:
		return 2, fmt.Sprintf("the round enters the leader index with coefficient %d instead of 1: the rotation can skip members or stand still", l.coef)
	}
	return 0, ""
}

func (e *t8Eval) bind(call *ssa.Call, body *ssa.Function, env t8Env) t8Env {
	env2 := t8Env{}
	for i, p := range body.Params {
		if i >= len(call.Call.Args) {
			continue
		}
		a := call.Call.Args[i]
		if e.isNodes(a, env) {
			env2[p] = t8Lin{coef: -999}
			continue
		}
		env2[p] = e.lin(a, env, 0)
	}
	return env2
}

func (e *t8Eval) lin(v ssa.Value, env t8Env, d int) t8Lin {
	if d > 12 {
		return t8Lin{st: 1, why: "expression too deep"}
	}
	v = an.Resolve(v)
	if v == e.round {
		return t8Lin{coef: 1}
	}
	if l, ok := env[v]; ok {
		if l.coef == -999 {
			return t8Lin{}
		}
		return l
	}
	switch x := v.(type) {
	case *ssa.Const, *ssa.Parameter:
		return t8Lin{}
	case *ssa.Phi:
		// an accumulator summing the elements of a locally built list: init + Σ elements
		if init, elems, ok := t8SumLoop(x); ok {
			res := e.lin(init, env, d+1)
			for _, el := range elems {
				l := e.lin(el, env, d+1)
				res.coef += l.coef
				if l.st > res.st {
					res.st, res.why = l.st, l.why
				}
			}
			return res
		}
	case *ssa.BinOp:
		a, b := e.lin(x.X, env, d+1), e.lin(x.Y, env, d+1)
		st, why := a.st, a.why
		if b.st > st {
			st, why = b.st, b.why
		}
		switch x.Op {
		case token.ADD:
			return t8Lin{coef: a.coef + b.coef, st: st, why: why}
		case token.SUB:
			return t8Lin{coef: a.coef - b.coef, st: st, why: why}
		case token.MUL:
			if ka, ok := an.ConstInt(x.X); ok {
				return t8Lin{coef: int(ka) * b.coef, st: st, why: why}
			}
			if kb, ok := an.ConstInt(x.Y); ok {
				return t8Lin{coef: a.coef * int(kb), st: st, why: why}
			}
			if a.coef == 0 && b.coef == 0 {
				return t8Lin{st: st, why: why}
			}
			return t8Lin{st: 2, why: "the round is multiplied by a non-constant"}
		case token.REM:
			if e.isNodes(x.Y, env) && b.coef == 0 {
				return a // congruent modulo the number of nodes
			}
		}
		if a.coef == 0 && b.coef == 0 && a.st == 0 && b.st == 0 {
			return t8Lin{}
		}
		if st < 2 {
			st, why = 2, "the round passes through `"+x.Op.String()+"`"
		}
		return t8Lin{st: st, why: why}
	case *ssa.Call:
		if body := an.StaticBody(&x.Call); body != nil && e.depth < 4 && body.Signature.Results().Len() == 1 {
			env2 := e.bind(x, body, env)
			e.depth++
			defer func() { e.depth-- }()
			var res t8Lin
			first := true
			for _, rc := range an.ReturnCases(body) {
				l := e.lin(rc.Vals[0], env2, d+1)
				if !first && (l.coef != res.coef || l.st != res.st) {
					return t8Lin{st: 1, why: "helper returns different forms"}
				}
				res, first = l, false
			}
			return res
		}
	}
	// any other value: independent of the round unless the round is among its (transitive) operands
	if e.depends(v, env, 0) {
		return t8Lin{st: 1, why: fmt.Sprintf("the round flows through %T", v)}
	}
	return t8Lin{}
}

func (e *t8Eval) depends(v ssa.Value, env t8Env, d int) bool {
	if d > 10 {
		return true
	}
	v = an.Resolve(v)
	if v == e.round {
		return true
	}
	if l, ok := env[v]; ok {
		return l.coef != 0 && l.coef != -999 || l.st != 0
	}
	in, ok := v.(ssa.Instruction)
	if !ok {
		return false
	}
	if _, isPhi := v.(*ssa.Phi); isPhi && d > 4 {
		return false
	}
	// a value read from local memory depends on the round if anything stored into that memory does
	if ld, isLd := v.(*ssa.UnOp); isLd && ld.Op == token.MUL {
		if al := t8BaseAlloc(ld.X); al != nil {
			for _, sv := range t8StoredInto(al) {
				if e.depends(sv, env, d+1) {
					return true
				}
			}
		}
	}
	for _, op := range an.Operands(in) {
		if e.depends(op, env, d+1) {
			return true
		}
	}
	return false
}

func usesValue(v, target ssa.Value, d int) bool {
	if d > 8 {
		return false
	}
	if an.Unwrap(v) == target {
		return true
	}
	in, ok := v.(ssa.Instruction)
	if !ok {
		return false
	}
	for _, op := range an.Operands(in) {
		if usesValue(op, target, d+1) {
			return true
		}
	}
	return false
}

// t8BaseAlloc: the local allocation an address lies in (through element / field addressing and slicing).
func t8BaseAlloc(v ssa.Value) *ssa.Alloc {
	for i := 0; i < 8; i++ {
		switch x := v.(type) {
		case *ssa.Alloc:
			return x
		case *ssa.IndexAddr:
			v = x.X
		case *ssa.FieldAddr:
			v = x.X
		case *ssa.Slice:
			v = x.X
		default:
			return nil
		}
	}
	return nil
}

// t8StoredInto: every value stored into the allocation or into an element / field / slice of it.
func t8StoredInto(al *ssa.Alloc) []ssa.Value {
	var out []ssa.Value
	seen := map[ssa.Value]bool{}
	var walk func(v ssa.Value)
	walk = func(v ssa.Value) {
		if seen[v] || v.Referrers() == nil {
			return
		}
		seen[v] = true
		for _, ref := range *v.Referrers() {
			switch x := ref.(type) {
			case *ssa.Store:
				if x.Addr == v {
					out = append(out, x.Val)
				}
			case *ssa.IndexAddr:
				if x.X == v {
					walk(x)
				}
			case *ssa.FieldAddr:
				if x.X == v {
					walk(x)
				}
			case *ssa.Slice:
				if x.X == v {
					walk(x)
				}
			}
		}
	}
	walk(al)
	return out
}

// t8SumLoop recognises `acc := init; for _, t := range list { acc += t }` (or the index-loop spelling) where list is
// an array / slice literal built in the same function, every element of which is stored exactly once at a constant
// index: the accumulator after the loop is init + the sum of the stored elements.
func t8SumLoop(p *ssa.Phi) (init ssa.Value, elems []ssa.Value, ok bool) {
	fn := p.Parent()
	l := an.InnermostLoop(fn, p.Block())
	if l == nil || l.Header != p.Block() || len(p.Edges) != 2 || len(l.Body) != 2 || an.LoopEarlyExit(l) != nil {
		return nil, nil, false
	}
	var step ssa.Value
	for i, pred := range p.Block().Preds {
		if l.Body[pred] {
			step = p.Edges[i]
		} else {
			init = p.Edges[i]
		}
	}
	add, isAdd := step.(*ssa.BinOp)
	if init == nil || !isAdd || add.Op != token.ADD {
		return nil, nil, false
	}
	var term ssa.Value
	switch {
	case add.X == ssa.Value(p):
		term = add.Y
	case add.Y == ssa.Value(p):
		term = add.X
	default:
		return nil, nil, false
	}
	ld, isLd := an.Unwrap(term).(*ssa.UnOp)
	if !isLd || ld.Op != token.MUL {
		return nil, nil, false
	}
	ia, isIA := ld.X.(*ssa.IndexAddr)
	if !isIA || !l.Body[ia.Block()] || !t8CountsFromZero(l, ia.Index) {
		return nil, nil, false
	}
	coll := l.RangeColl()
	if coll == nil || !an.Equiv(coll, ia.X) {
		return nil, nil, false
	}
	al := t8BaseAlloc(ia.X)
	if al == nil {
		return nil, nil, false
	}
	if sl, isSl := ia.X.(*ssa.Slice); isSl && (sl.Low != nil || sl.High != nil || sl.Max != nil) {
		return nil, nil, false
	}
	arr, isArr := al.Type().Underlying().(*types.Pointer).Elem().Underlying().(*types.Array)
	if !isArr {
		return nil, nil, false
	}
	at := map[int64]ssa.Value{}
	for _, ref := range *al.Referrers() {
		switch x := ref.(type) {
		case *ssa.IndexAddr:
			if x == ia {
				continue
			}
			k, isK := an.ConstInt(x.Index)
			if !isK || x.Referrers() == nil {
				return nil, nil, false
			}
			for _, r2 := range *x.Referrers() {
				st, isSt := r2.(*ssa.Store)
				if !isSt || st.Addr != ssa.Value(x) || l.Body[st.Block()] {
					return nil, nil, false
				}
				if _, dup := at[k]; dup {
					return nil, nil, false
				}
				at[k] = st.Val
			}
		case *ssa.Slice, *ssa.DebugRef:
		default:
			return nil, nil, false
		}
	}
	for k := int64(0); k < arr.Len(); k++ {
		v, has := at[k]
		if !has {
			return nil, nil, false // an element left at zero contributes nothing, but then the literal is not what it seems
		}
		elems = append(elems, v)
	}
	return init, elems, true
}

// t8CountsFromZero: idx is the loop's induction variable running 0, 1, 2, … (phi from 0 stepping by one, or go/ssa's
// range form phi from -1 with idx = phi+1).
func t8CountsFromZero(l *an.Loop, idx ssa.Value) bool {
	phiOK := func(p *ssa.Phi, start int64, next ssa.Value) bool {
		if p.Block() != l.Header || len(p.Edges) != 2 {
			return false
		}
		for i, pred := range p.Block().Preds {
			if l.Body[pred] {
				if next != nil && p.Edges[i] != next {
					return false
				}
				if next == nil {
					b, ok := p.Edges[i].(*ssa.BinOp)
					if !ok || b.Op != token.ADD || b.X != ssa.Value(p) {
						return false
					}
					if k, isK := an.ConstInt(b.Y); !isK || k != 1 {
						return false
					}
				}
			} else if k, isK := an.ConstInt(p.Edges[i]); !isK || k != start {
				return false
			}
		}
		return true
	}
	switch x := an.Unwrap(idx).(type) {
	case *ssa.Phi:
		return phiOK(x, 0, nil)
	case *ssa.BinOp:
		p, isP := x.X.(*ssa.Phi)
		if k, isK := an.ConstInt(x.Y); !isP || x.Op != token.ADD || !isK || k != 1 {
			return false
		}
		return phiOK(p, -1, x)
	}
	return false
}
