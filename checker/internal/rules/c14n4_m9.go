package rules

// M9 — encoding and signing-root methods are pure functions of the value.
//
// "Encoding is a pure function of the value, so equal values yield equal bytes and equal consensus hashes on every
// node": the methods through which the workflow observes a duty data value (MessageRoot, Epoch, Signature,
// DomainName, Marshal*, HashTreeRoot*, Clone, ... of every SignedData / UnsignedData / Eth2SignedData implementor, and
// the codec entry points) may compute their result from the receiver and their arguments only. Necessary condition:
// no result of such a method may depend on receiver-external state (a package-level variable of the module, or an
// object reachable from one) that the encoding surface itself fills with values derived from an *earlier* input.
// Such a memo makes the result a function of the call history: a value computed for one receiver is handed out for
// another one (a memo keyed by anything less than the whole hashed content), and which one depends on the order in
// which peers' messages were hashed.
//
// Decided by a flow analysis over the in-module call closure of every root (static callees, literals, function
// values referenced): forward taint from (a) reads rooted at a package-level variable and (b) the parameters /
// captured variables of each function, through operands, locals, in-module callee summaries and calls. VIOLATION
// needs both halves positively: a read of state rooted at G reaches a result of the root, and some function of the
// encoding surface writes input-derived data to state rooted at G. Lazily initialised tables (stored value does not
// depend on any input), immutable tables, sentinel errors, flags written with constants, mutexes, sync.Pool scratch
// objects and metrics do not satisfy both halves. A write through an opaque (non-module, non-std) method is not
// positive evidence: UNDECIDED. Wall-clock / random sources flowing into a result are reported as well.

import (
	"fmt"
	"go/token"
	"go/types"
	"sort"
	"strings"

	"golang.org/x/tools/go/ssa"

	"charonverif/internal/an"
	"charonverif/internal/rt"
)

func init() {
	Extend("C14", "(M9) no result of a method of a SignedData/UnsignedData/Eth2SignedData implementor (MessageRoot, Epoch, Signature, DomainName, Marshal*, HashTreeRoot*, Clone, ...) or of the codec entry points (marshal, unmarshal, hashProto, VerifyEth2SignedData) depends on state rooted at a package-level variable that the same encoding surface fills with input-derived values (a memo across calls), nor on a wall-clock/random source: the result is a function of the receiver and the arguments only.",
		func(c *rt.Ctx) { c.Rule("M9", 150, func() { c14M9(c) }) },
		Mutant{ID: "C14-M9-randao-root-memo-map-by-epoch-parity", File: "core/signeddata.go", Expect: "M9|core.SignedRandao.MessageRoot",
			Old: "func (s SignedRandao) MessageRoot() ([32]byte, error) {\n",
			New: "var randaoRoots = map[bool][32]byte{}\n\nfunc (s SignedRandao) MessageRoot() ([32]byte, error) {\n\tif r, ok := randaoRoots[s.SignedEpoch.Epoch%2 == 0]; ok {\n\t\treturn r, nil\n\t}\n\n\tif r, err := s.SignedEpoch.HashTreeRoot(); err == nil {\n\t\trandaoRoots[s.SignedEpoch.Epoch%2 == 0] = r\n\t}\n\n"},
		Mutant{ID: "C14-M9-attestation-epoch-memo-syncmap-via-helper", File: "core/eth2signeddata.go", Expect: "M9|core.VersionedAttestation.Epoch",
			Old: "func (a VersionedAttestation) Epoch(_ context.Context, _ eth2wrap.Client) (eth2p0.Epoch, error) {\n",
			New: "var attEpochs sync.Map\n\nfunc rememberAttEpoch(version eth2spec.DataVersion, epoch eth2p0.Epoch) { attEpochs.Store(version, epoch) }\n\nfunc (a VersionedAttestation) Epoch(_ context.Context, _ eth2wrap.Client) (eth2p0.Epoch, error) {\n\tif e, ok := attEpochs.Load(a.Version); ok {\n\t\treturn e.(eth2p0.Epoch), nil\n\t}\n\n\tif d, err := a.Data(); err == nil {\n\t\trememberAttEpoch(a.Version, d.Target.Epoch)\n\t}\n\n",
			More: [][2]string{{"import (\n\t\"context\"\n", "import (\n\t\"context\"\n\t\"sync\"\n\n\teth2spec \"github.com/attestantio/go-eth2-client/spec\"\n"}}},
		Mutant{ID: "C14-M9-exit-signature-last-value-struct", File: "core/signeddata.go", Expect: "M9|core.SignedVoluntaryExit.Signature",
			Old: "func (e SignedVoluntaryExit) Signature() Signature {\n",
			New: "var lastExit struct {\n\tidx eth2p0.ValidatorIndex\n\tsig Signature\n}\n\nfunc (e SignedVoluntaryExit) Signature() Signature {\n\tif lastExit.sig != nil && lastExit.idx == e.Message.ValidatorIndex {\n\t\treturn lastExit.sig\n\t}\n\n\tlastExit.idx, lastExit.sig = e.Message.ValidatorIndex, SigFromETH2(e.SignedVoluntaryExit.Signature)\n\n"},
		Mutant{ID: "C14-M9-aggproof-root-cache-object-by-slot", File: "core/signeddata.go", Expect: "M9|core.VersionedSignedAggregateAndProof.MessageRoot",
			Old: "func (ap VersionedSignedAggregateAndProof) MessageRoot() ([32]byte, error) {\n",
			New: "type aggRootCache struct{ m map[eth2p0.Slot][32]byte }\n\nfunc (c *aggRootCache) get(s eth2p0.Slot) ([32]byte, bool) {\n\tr, ok := c.m[s]\n\treturn r, ok\n}\n\nfunc (c *aggRootCache) put(s eth2p0.Slot, r [32]byte) { c.m[s] = r }\n\nvar aggRoots = &aggRootCache{m: map[eth2p0.Slot][32]byte{}}\n\nfunc (ap VersionedSignedAggregateAndProof) MessageRoot() ([32]byte, error) {\n\tslot, err := ap.Slot()\n\tif err != nil {\n\t\treturn ap.messageRoot()\n\t}\n\n\tif r, ok := aggRoots.get(slot); ok {\n\t\treturn r, nil\n\t}\n\n\tr, err := ap.messageRoot()\n\tif err == nil {\n\t\taggRoots.put(slot, r)\n\t}\n\n\treturn r, err\n}\n\nfunc (ap VersionedSignedAggregateAndProof) messageRoot() ([32]byte, error) {\n"},
		Mutant{ID: "C14-M9-hashproto-memo-by-length", File: "core/consensus/qbft/msg.go", Expect: "M9|hashProto",
			Old: "func hashProto(msg proto.Message) ([32]byte, error) {\n",
			New: "var protoHashes = map[int][32]byte{}\n\nfunc hashProto(msg proto.Message) ([32]byte, error) {\n\tif h, ok := protoHashes[proto.Size(msg)]; ok {\n\t\treturn h, nil\n\t}\n\n\tdefer func() { protoHashes[proto.Size(msg)] = [32]byte{byte(proto.Size(msg))} }()\n\n"},
	)
}

// c14m9Input marks "derived from a parameter or captured variable of the enclosing function" in a taint set.
var c14m9Input = &ssa.Global{}

// c14m9Clock marks "derived from a wall-clock or random source".
var c14m9Clock = &ssa.Global{}

type c14m9Set map[*ssa.Global]token.Pos // mark -> position of the (first) source

func (s c14m9Set) addAll(o c14m9Set) bool {
	ch := false
	for g, p := range o {
		if _, ok := s[g]; !ok {
			s[g] = p
			ch = true
		}
	}
	return ch
}

type c14m9Write struct {
	g      *ssa.Global
	fn     *ssa.Function
	pos    token.Pos
	opaque bool // through a method whose effect is not known
	how    string
}

type c14m9 struct {
	c     *rt.Ctx
	ret   map[*ssa.Function]c14m9Set               // summary: marks reaching a result
	taint map[*ssa.Function]map[ssa.Value]c14m9Set // per function value taint
	mut   map[*ssa.Function]map[int]int8           // callee mutates memory reachable from param i (1 yes, -1 no)
}

func c14m9RepoGlobal(g *ssa.Global) bool {
	if g == nil || g.Pkg == nil || g.Pkg.Pkg == nil {
		return false
	}
	fn := g.Pkg.Func("init")
	return fn != nil && c14InRepo(fn)
}

// c14m9Root: the package-level variable of the module that v (an address or a value) is reached from, if any;
// otherwise the parameter it is reached from.
func c14m9Root(v ssa.Value, depth int) (g *ssa.Global, p *ssa.Parameter) {
	for ; depth < 12 && v != nil; depth++ {
		switch x := v.(type) {
		case *ssa.Global:
			if c14m9RepoGlobal(x) {
				return x, nil
			}
			return nil, nil
		case *ssa.Parameter:
			return nil, x
		case *ssa.FieldAddr:
			v = x.X
		case *ssa.IndexAddr:
			v = x.X
		case *ssa.Field:
			v = x.X
		case *ssa.Index:
			v = x.X
		case *ssa.Lookup:
			v = x.X
		case *ssa.Slice:
			v = x.X
		case *ssa.ChangeType:
			v = x.X
		case *ssa.Convert:
			v = x.X
		case *ssa.ChangeInterface:
			v = x.X
		case *ssa.MakeInterface:
			v = x.X
		case *ssa.TypeAssert:
			v = x.X
		case *ssa.Extract:
			v = x.Tuple
		case *ssa.UnOp:
			if x.Op != token.MUL {
				return nil, nil
			}
			v = x.X
		case *ssa.Phi:
			for _, e := range x.Edges {
				if g, p := c14m9Root(e, depth+1); g != nil || p != nil {
					return g, p
				}
			}
			return nil, nil
		default:
			return nil, nil
		}
	}
	return nil, nil
}

func c14m9TypePath(t types.Type) string {
	if p, ok := t.(*types.Pointer); ok {
		t = p.Elem()
	}
	if n := c14Named(t); n != nil && n.Obj().Pkg() != nil {
		return n.Obj().Pkg().Path() + "." + n.Obj().Name()
	}
	return ""
}

// c14m9Benign: objects whose methods do not carry values from one call into the result of another by contract
// (locks, once, wait groups, scratch pools) or that only observe (metrics, loggers).
func c14m9Benign(t types.Type) bool {
	tp := c14m9TypePath(t)
	switch tp {
	case "sync.Mutex", "sync.RWMutex", "sync.Once", "sync.WaitGroup", "sync.Pool", "sync.Cond":
		return true
	}
	return strings.HasPrefix(tp, "github.com/prometheus/") || strings.HasPrefix(tp, "go.uber.org/zap") || strings.HasPrefix(tp, "go.opentelemetry.io/")
}

// c14m9StdWrite: a method / function of the standard library that stores its argument into the receiver.
func c14m9StdWrite(f *ssa.Function) (write, known bool) {
	if f == nil || f.Pkg == nil || f.Pkg.Pkg == nil {
		return false, false
	}
	path := f.Pkg.Pkg.Path()
	if path != "sync" && path != "sync/atomic" {
		return false, false
	}
	n := f.Name()
	for _, w := range []string{"Store", "Swap", "CompareAnd", "LoadOrStore", "LoadAndDelete", "Delete", "Add", "And", "Or", "Clear"} {
		if strings.HasPrefix(n, w) {
			return true, true
		}
	}
	return false, true // Load, Range, Lock, ...
}

func c14m9IsClock(f *ssa.Function) bool {
	if f == nil || f.Pkg == nil || f.Pkg.Pkg == nil {
		return false
	}
	switch f.Pkg.Pkg.Path() {
	case "math/rand", "math/rand/v2", "crypto/rand":
		return f.Signature.Results().Len() > 0
	case "time":
		return f.Signature.Recv() == nil && (f.Name() == "Now" || f.Name() == "Since" || f.Name() == "Until")
	}
	return false
}

// mutates: f stores into memory reached from its parameter i (directly or through module callees).
func (m *c14m9) mutates(f *ssa.Function, i, depth int) bool {
	if f == nil || f.Blocks == nil || i >= len(f.Params) || depth > 4 {
		return false
	}
	if m.mut[f] == nil {
		m.mut[f] = map[int]int8{}
	}
	if v := m.mut[f][i]; v != 0 {
		return v == 1
	}
	m.mut[f][i] = -1
	target := f.Params[i]
	res := false
	for _, in := range an.Instrs(f, true) {
		switch y := in.(type) {
		case *ssa.Store:
			if _, p := c14m9Root(y.Addr, 0); p == target {
				res = true
			}
		case *ssa.MapUpdate:
			if _, p := c14m9Root(y.Map, 0); p == target {
				res = true
			}
		case ssa.CallInstruction:
			cc := y.Common()
			callee := cc.StaticCallee()
			for j, a := range cc.Args {
				if _, p := c14m9Root(a, 0); p != target {
					continue
				}
				if _, isPtrLike := a.Type().Underlying().(*types.Basic); isPtrLike {
					continue
				}
				if callee != nil && callee.Blocks != nil && c14InRepo(callee) {
					if m.mutates(callee, j, depth+1) {
						res = true
					}
				} else if w, _ := c14m9StdWrite(callee); w && j == 0 {
					res = true
				}
			}
		}
		if res {
			break
		}
	}
	if res {
		m.mut[f][i] = 1
	}
	return res
}

// closure of module functions reachable from root.
func c14m9Closure(root *ssa.Function) []*ssa.Function {
	seen := map[*ssa.Function]bool{}
	var out []*ssa.Function
	var walk func(f *ssa.Function, depth int)
	walk = func(f *ssa.Function, depth int) {
		if f == nil || f.Blocks == nil || seen[f] || depth > 8 || len(out) > 600 || !c14InRepo(f) {
			return
		}
		seen[f] = true
		out = append(out, f)
		for _, b := range f.Blocks {
			for _, in := range b.Instrs {
				if ci, ok := in.(ssa.CallInstruction); ok {
					walk(ci.Common().StaticCallee(), depth+1)
				}
				for _, op := range in.Operands(nil) {
					switch y := (*op).(type) {
					case *ssa.Function:
						walk(y, depth+1)
					case *ssa.MakeClosure:
						if g, ok := y.Fn.(*ssa.Function); ok {
							walk(g, depth+1)
						}
					}
				}
			}
		}
	}
	walk(root, 0)
	return out
}

// flow computes the value taint of f once (using the current callee summaries); reports whether f's summary grew.
func (m *c14m9) flow(f *ssa.Function) bool {
	tv := m.taint[f]
	if tv == nil {
		tv = map[ssa.Value]c14m9Set{}
		m.taint[f] = tv
		for _, p := range f.Params {
			tv[p] = c14m9Set{c14m9Input: p.Pos()}
		}
		for _, fv := range f.FreeVars {
			tv[fv] = c14m9Set{c14m9Input: fv.Pos()}
		}
	}
	add := func(v ssa.Value, s c14m9Set) bool {
		if len(s) == 0 || v == nil {
			return false
		}
		if tv[v] == nil {
			tv[v] = c14m9Set{}
		}
		return tv[v].addAll(s)
	}
	localRoot := func(v ssa.Value) ssa.Value { // the local allocation an address belongs to
		for d := 0; d < 10; d++ {
			switch x := v.(type) {
			case *ssa.Alloc:
				return x
			case *ssa.FieldAddr:
				v = x.X
			case *ssa.IndexAddr:
				v = x.X
			default:
				return nil
			}
		}
		return nil
	}
	if m.ret[f] == nil {
		m.ret[f] = c14m9Set{}
	}
	grew := false
	for changed, round := true, 0; changed && round < 20; round++ {
		changed = false
		for _, b := range f.Blocks {
			for _, in := range b.Instrs {
				var ops []*ssa.Value
				ops = in.Operands(ops)
				val, isVal := in.(ssa.Value)
				if isVal {
					for _, op := range ops {
						if *op != nil && add(val, tv[*op]) {
							changed = true
						}
					}
				}
				switch y := in.(type) {
				case *ssa.UnOp:
					if y.Op == token.MUL {
						if g, _ := c14m9Root(y.X, 0); g != nil && !c14m9Benign(y.Type()) {
							if add(y, c14m9Set{g: y.Pos()}) {
								changed = true
							}
						}
					}
				case *ssa.Lookup:
					if g, _ := c14m9Root(y.X, 0); g != nil {
						if add(y, c14m9Set{g: y.Pos()}) {
							changed = true
						}
					}
				case *ssa.Range:
					if g, _ := c14m9Root(y.X, 0); g != nil {
						if add(y, c14m9Set{g: y.Pos()}) {
							changed = true
						}
					}
				case *ssa.Store:
					if a := localRoot(y.Addr); a != nil && add(a, tv[y.Val]) {
						changed = true
					}
				case *ssa.MapUpdate:
					if add(y.Map, tv[y.Key]) || add(y.Map, tv[y.Value]) {
						changed = true
					}
				case *ssa.Call:
					cc := &y.Call
					callee := cc.StaticCallee()
					if callee != nil && m.ret[callee] != nil {
						// module callee with a summary: its own global/clock reads; input marks come from the arguments
						s := c14m9Set{}
						for g, p := range m.ret[callee] {
							if g != c14m9Input {
								s[g] = p
							}
						}
						if add(y, s) {
							changed = true
						}
					}
					if c14m9IsClock(callee) {
						if add(y, c14m9Set{c14m9Clock: y.Pos()}) {
							changed = true
						}
					}
					// a call handed state rooted at a package-level variable yields a result that depends on it
					for _, a := range cc.Args {
						if g, _ := c14m9Root(a, 0); g != nil && !c14m9Benign(a.Type()) && y.Type() != nil {
							if t, ok := y.Type().(*types.Tuple); ok && t.Len() == 0 {
								continue
							}
							if add(y, c14m9Set{g: y.Pos()}) {
								changed = true
							}
						}
					}
					// arguments written through by the callee: out-parameters (pointers to locals)
					for _, a := range cc.Args {
						if la := localRoot(a); la != nil {
							for _, b := range cc.Args {
								if b != a && add(la, tv[b]) {
									changed = true
								}
							}
						}
					}
				case *ssa.Return:
					for _, r := range y.Results {
						if m.ret[f].addAll(tv[r]) {
							changed, grew = true, true
						}
					}
				}
			}
		}
	}
	return grew
}

// writes of f to state rooted at package-level variables whose stored data is input-derived.
func (m *c14m9) writes(f *ssa.Function) []c14m9Write {
	tv := m.taint[f]
	isInput := func(vs ...ssa.Value) bool {
		for _, v := range vs {
			if v == nil {
				continue
			}
			if _, ok := tv[v][c14m9Input]; ok {
				return true
			}
		}
		return false
	}
	var out []c14m9Write
	for _, b := range f.Blocks {
		for _, in := range b.Instrs {
			switch y := in.(type) {
			case *ssa.Store:
				if g, _ := c14m9Root(y.Addr, 0); g != nil && isInput(y.Val) {
					out = append(out, c14m9Write{g: g, fn: f, pos: y.Pos(), how: "assignment"})
				}
			case *ssa.MapUpdate:
				if g, _ := c14m9Root(y.Map, 0); g != nil && isInput(y.Key, y.Value) {
					out = append(out, c14m9Write{g: g, fn: f, pos: y.Pos(), how: "map update"})
				}
			case ssa.CallInstruction:
				cc := y.Common()
				callee := cc.StaticCallee()
				for j, a := range cc.Args {
					g, _ := c14m9Root(a, 0)
					if g == nil || c14m9Benign(a.Type()) {
						continue
					}
					switch a.Type().Underlying().(type) {
					case *types.Pointer, *types.Map, *types.Slice, *types.Interface:
					default:
						continue // passed by value: the callee cannot write the state
					}
					var others []ssa.Value
					for k, o := range cc.Args {
						if k != j {
							others = append(others, o)
						}
					}
					if !isInput(others...) {
						continue
					}
					name := "a function value"
					if callee != nil {
						name = an.FuncName(callee)
					} else if cc.IsInvoke() {
						name = cc.Method.Name()
					}
					if callee != nil && callee.Blocks != nil && c14InRepo(callee) {
						if m.mutates(callee, j, 0) {
							out = append(out, c14m9Write{g: g, fn: f, pos: in.Pos(), how: "call of " + name})
						}
						continue
					}
					if w, known := c14m9StdWrite(callee); known {
						if w && j == 0 {
							out = append(out, c14m9Write{g: g, fn: f, pos: in.Pos(), how: "call of " + name})
						}
						continue
					}
					if j == 0 && (cc.IsInvoke() || (callee != nil && callee.Signature.Recv() != nil)) {
						out = append(out, c14m9Write{g: g, fn: f, pos: in.Pos(), opaque: true, how: "call of " + name})
					}
				}
			}
		}
	}
	return out
}

func c14M9(c *rt.Ctx) {
	core := c.SSAPkg("core")
	type root struct {
		fn   *ssa.Function
		name string
	}
	var roots []root
	seenRoot := map[*ssa.Function]bool{}
	addRoot := func(f *ssa.Function) {
		if f == nil || f.Blocks == nil || seenRoot[f] || f.Synthetic != "" {
			return
		}
		seenRoot[f] = true
		roots = append(roots, root{f, an.FuncName(f)})
	}
	nTypes := 0
	seenT := map[*types.Named]bool{}
	for _, in := range []string{"SignedData", "UnsignedData", "Eth2SignedData"} {
		for _, nt := range implementors(c, lookupIface(c, "core", in), "core") {
			if seenT[nt] {
				continue
			}
			seenT[nt] = true
			nTypes++
			for _, t := range []types.Type{nt, types.NewPointer(nt)} {
				ms := core.Prog.MethodSets.MethodSet(t)
				for i := 0; i < ms.Len(); i++ {
					if f := core.Prog.MethodValue(ms.At(i)); f != nil && f.Pkg == core {
						addRoot(f)
					}
				}
			}
		}
	}
	if nTypes < 10 {
		c.Bail("M9: expected the SignedData/UnsignedData implementors of package core, found %d", nTypes)
	}
	for _, n := range []string{"core.marshal", "core.unmarshal", "core.VerifyEth2SignedData", "core.ParSignedDataFromProto", "core.ParSignedDataToProto",
		"core.UnsignedDataSetFromProto", "core.UnsignedDataSetToProto", "core/consensus/qbft.hashProto", "core/priority.hashProto"} {
		addRoot(c.FnOpt(n))
	}
	sort.Slice(roots, func(i, j int) bool { return roots[i].name < roots[j].name })

	m := &c14m9{c: c, ret: map[*ssa.Function]c14m9Set{}, taint: map[*ssa.Function]map[ssa.Value]c14m9Set{}, mut: map[*ssa.Function]map[int]int8{}}
	closures := map[*ssa.Function][]*ssa.Function{}
	var surface []*ssa.Function
	inSurface := map[*ssa.Function]bool{}
	for _, r := range roots {
		cl := c14m9Closure(r.fn)
		closures[r.fn] = cl
		for _, f := range cl {
			if !inSurface[f] {
				inSurface[f] = true
				surface = append(surface, f)
			}
		}
	}
	for _, f := range surface {
		m.ret[f] = c14m9Set{}
	}
	for round, grew := 0, true; grew && round < 12; round++ {
		grew = false
		for _, f := range surface {
			if m.flow(f) {
				grew = true
			}
		}
	}
	// input-derived writes of the encoding surface, per package-level variable
	writes := map[*ssa.Global][]c14m9Write{}
	for _, f := range surface {
		if f.Name() == "init" && f.Parent() == nil {
			continue
		}
		for _, w := range m.writes(f) {
			writes[w.g] = append(writes[w.g], w)
		}
	}
	pos := func(p token.Pos) string {
		pp := c.P.Fset.Position(p)
		return fmt.Sprintf("%s:%d", strings.TrimPrefix(pp.Filename, "/repo/"), pp.Line)
	}
	for _, r := range roots {
		construct := r.name + " is a pure function of the value"
		status, why := c14OK, ""
		var gs []*ssa.Global
		for g := range m.ret[r.fn] {
			if g != c14m9Input {
				gs = append(gs, g)
			}
		}
		sort.Slice(gs, func(i, j int) bool { return gs[i].Name() < gs[j].Name() })
		at := r.fn.Pos()
		for _, g := range gs {
			rp := m.ret[r.fn][g]
			if g == c14m9Clock {
				status, at = c14Bad, rp
				why = fmt.Sprintf("its result depends on a wall-clock/random source (%s): equal values do not yield equal results", pos(rp))
				break
			}
			var def, opq *c14m9Write
			for i := range writes[g] {
				w := &writes[g][i]
				if w.opaque && opq == nil {
					opq = w
				}
				if !w.opaque && def == nil {
					def = w
				}
			}
			if def != nil {
				status, at = c14Bad, rp
				why = fmt.Sprintf("its result depends on package-level state %s (read at %s) which %s fills with data derived from its input (%s at %s): the result is a function of the call history, a value computed for one input is handed out for another (memo keyed by less than the whole content)",
					g.Name(), pos(rp), an.FuncName(def.fn), def.how, pos(def.pos))
				break
			}
			if opq != nil && status < c14Unsure {
				status, at = c14Unsure, rp
				why = fmt.Sprintf("its result depends on package-level state %s (read at %s) and %s hands input-derived data to it through %s (%s), whose effect is not known", g.Name(), pos(rp), an.FuncName(opq.fn), opq.how, pos(opq.pos))
			}
		}
		switch status {
		case c14OK:
			c.Good(construct, at, "")
		case c14Unsure:
			c.Unsure(construct, at, why)
		default:
			c.Bad(construct, at, why)
		}
	}
	c.Note("M9: %d roots, %d functions in the encoding surface, %d package-level variables written with input-derived data", len(roots), len(surface), len(writes))
}
