package rules

// K6 — no dealer is silently dropped while FROST protocol messages are transferred between collections.
//
// A FROST ceremony only yields one group key if every node feeds the round-1 broadcast (and share) of EVERY dealer
// into round 2: kryptology's Round2 sums over the broadcasts it is given and only insists on threshold-1 of them, so a
// node that leaves one dealer out finishes successfully with another group key than its peers. Necessary structural
// condition: every loop of package dkg that fills a map of FROST messages (frost.Round1Bcast, frost.Round2Bcast,
// sharing.ShamirShare values or pointers: the transport results, the per-validator round-2 inputs, the outgoing
// messages) stores one entry per iteration, unless the iteration
//   - belongs to another validator (a comparison of the message key's ValIdx field with a non-constant value), or
//   - makes the function fail (non-nil error result / panic).
// Positive evidence of a break: a path of the loop body from the loop header back to the loop header that avoids every
// store and takes no validator-mismatch edge (a `continue` that skips a dealer), or an edge that leaves the loop from
// its body and reaches a successful return (a `break`/early return that leaves the remaining dealers out).
// Additionally the per-validator round-2 input maps (map[uint32]*T, the parameter types of DkgParticipant.Round2) are
// keyed by the dealer: a key that is positively another field of the message key is a violation.
//
// The rule follows the control-flow graph, not the spelling: if/switch, named conditions, negations, in-package
// predicate helpers/methods over the key, continue vs nested if, grouped-by-validator maps (no filter at all), stores
// done through an in-package helper or function literal called from the loop are all accepted.

import (
	"fmt"
	"go/token"
	"go/types"
	"strings"

	"golang.org/x/tools/go/ssa"

	"charonverif/internal/an"
	"charonverif/internal/rt"
)

func init() {
	Extend("C11", "(K6) every loop of package dkg that fills a map of FROST messages (round-1/round-2 broadcasts, Shamir shares: transport results, per-validator round-2 inputs) stores one entry per iteration unless the entry belongs to another validator (msgKey.ValIdx mismatch) or the function fails; no path skips a dealer and no early exit of such a loop reaches a successful return; the round-2 input maps are keyed by the dealer id (msgKey.SourceID).",
		func(c *rt.Ctx) { c.Rule("K6", 6, func() { c11K6(c) }) },
		Mutant{ID: "C11-K6-r2-casts-capped", File: "dkg/frost.go", Expect: "K6",
			Old: "if key.ValIdx != vIdx {\n\t\t\tcontinue\n\t\t}\n\n\t\tcastMap", New: "if key.ValIdx != vIdx || len(castMap) >= 2 {\n\t\t\tcontinue\n\t\t}\n\n\t\tcastMap"},
		Mutant{ID: "C11-K6-r2-shares-only-lower-dealers", File: "dkg/frost.go", Expect: "K6",
			Old: "if key.ValIdx != vIdx {\n\t\t\tcontinue\n\t\t}\n\n\t\tshareMap", New: "if key.ValIdx != vIdx || key.SourceID > key.TargetID {\n\t\t\tcontinue\n\t\t}\n\n\t\tshareMap"},
		Mutant{ID: "C11-K6-r2-casts-break-when-enough", File: "dkg/frost.go", Expect: "K6",
			Old: "\t\tcastMap[key.SourceID] = &cast\n", New: "\t\tcastMap[key.SourceID] = &cast\n\t\tif len(castMap) > 2 {\n\t\t\tbreak\n\t\t}\n"},
		Mutant{ID: "C11-K6-response-undecodable-cast-skipped", File: "dkg/frostp2p.go", Expect: "K6",
			Old: "key, cast, err := round1CastFromProto(castPB)\n\t\t\tif err != nil {\n\t\t\t\treturn nil, nil, err\n\t\t\t}", New: "key, cast, err := round1CastFromProto(castPB)\n\t\t\tif err != nil {\n\t\t\t\tcontinue\n\t\t\t}"},
		Mutant{ID: "C11-K6-response-share-filtered-by-lookup", File: "dkg/frostp2p.go", Expect: "K6",
			Old: "\t\t\tp2pMap[key] = share\n", New: "\t\t\tif _, dup := p2pMap[msgKey{ValIdx: key.ValIdx, SourceID: key.TargetID}]; !dup {\n\t\t\t\tp2pMap[key] = share\n\t\t\t}\n"},
		Mutant{ID: "C11-K6-r2-casts-keyed-by-target", File: "dkg/frost.go", Expect: "K6",
			Old: "castMap[key.SourceID] = &cast", New: "castMap[key.TargetID] = &cast"},
		Mutant{ID: "C11-K6-r2-validator-zero-only", File: "dkg/frost.go", Expect: "K6",
			Old: "if key.ValIdx != vIdx {\n\t\t\tcontinue\n\t\t}\n\n\t\tshareMap", New: "if key.ValIdx != 0 {\n\t\t\tcontinue\n\t\t}\n\n\t\tshareMap"},
	)
}

const (
	c11FrostR1    = "github.com/coinbase/kryptology/pkg/dkg/frost.Round1Bcast"
	c11ShamirT    = "github.com/coinbase/kryptology/pkg/sharing.ShamirShare"
	c11K6ValField = "ValIdx"
	c11K6SrcField = "SourceID"
)

// c11K6MsgMap: t is a map whose values are FROST protocol messages (or pointers to them); ptr reports the pointer form.
func c11K6MsgMap(t types.Type) (kind string, ptr bool, ok bool) {
	m, isMap := t.Underlying().(*types.Map)
	if !isMap {
		return "", false, false
	}
	e := m.Elem()
	if p, isP := e.(*types.Pointer); isP {
		e, ptr = p.Elem(), true
	}
	switch an.TypeName(e) {
	case c11FrostR1:
		return "round-1 broadcast", ptr, true
	case c11FrostR2:
		return "round-2 broadcast", ptr, true
	case c11ShamirT:
		return "round-1 share", ptr, true
	}
	return "", false, false
}

// c11K6KeyField: v is (a conversion of) field f of a value of the message-key struct keyT; returns f's name.
func c11K6KeyField(v ssa.Value, keyT types.Type) (string, bool) {
	for i := 0; i < 8; i++ {
		v = an.Unwrap(v)
		switch x := v.(type) {
		case *ssa.Field:
			if types.Identical(x.X.Type(), keyT) {
				return keyT.Underlying().(*types.Struct).Field(x.Field).Name(), true
			}
			return "", false
		case *ssa.UnOp:
			if x.Op != token.MUL {
				return "", false
			}
			if fa, ok := x.X.(*ssa.FieldAddr); ok {
				if p, isP := fa.X.Type().Underlying().(*types.Pointer); isP && types.Identical(p.Elem(), keyT) {
					return keyT.Underlying().(*types.Struct).Field(fa.Field).Name(), true
				}
			}
			return "", false
		default:
			return "", false
		}
	}
	return "", false
}

// c11K6Cond classifies a branch condition.
//
//	val:    the condition compares the key's validator index with a non-constant value;
//	eqTrue: (val only) the condition is true when the indexes are EQUAL;
//	opaque: the condition is computed from a message key by code the rule cannot see through.
func c11K6Cond(v ssa.Value, keyT types.Type, pkg *ssa.Package, d int) (val, eqTrue, opaque bool) {
	v = an.Unwrap(v)
	if d > 4 {
		return false, false, true
	}
	switch x := v.(type) {
	case *ssa.UnOp:
		if x.Op == token.NOT {
			val, eqTrue, opaque = c11K6Cond(x.X, keyT, pkg, d+1)
			return val, !eqTrue, opaque
		}
	case *ssa.BinOp:
		if x.Op != token.EQL && x.Op != token.NEQ {
			return false, false, false
		}
		fx, okx := c11K6KeyField(x.X, keyT)
		fy, oky := c11K6KeyField(x.Y, keyT)
		other := x.Y
		switch {
		case okx && fx == c11K6ValField && !(oky && fy == c11K6ValField):
		case oky && fy == c11K6ValField && !(okx && fx == c11K6ValField):
			other = x.X
		default:
			return false, false, false
		}
		if _, isConst := an.Unwrap(other).(*ssa.Const); isConst {
			return false, false, false
		}
		return true, x.Op == token.EQL, false
	case *ssa.Call:
		callee := x.Call.StaticCallee()
		takesKey := false
		for _, a := range x.Call.Args {
			t := a.Type()
			if p, isP := t.Underlying().(*types.Pointer); isP {
				t = p.Elem()
			}
			if types.Identical(t, keyT) {
				takesKey = true
			}
		}
		if callee == nil || callee.Pkg != pkg || len(callee.Blocks) == 0 {
			return false, false, takesKey
		}
		rets := an.Returns(callee)
		if len(rets) != 1 || len(returnValues(rets[0])) != 1 {
			return false, false, takesKey
		}
		val, eqTrue, opaque = c11K6Cond(returnValues(rets[0])[0], keyT, pkg, d+1)
		if !val {
			return false, false, takesKey || opaque
		}
		return val, eqTrue, false
	}
	return false, false, false
}

type c11K6Store struct {
	in   ssa.Instruction // the MapUpdate, or the call of the helper/closure that performs it
	mu   *ssa.MapUpdate
	kind string
}

// c11K6CallsOf: call instructions (no go/defer) in package functions whose callee resolves to f (top-level function or
// function literal bound to a local).
func c11K6CallsOf(funcs []*ssa.Function, f *ssa.Function) []ssa.Instruction {
	var out []ssa.Instruction
	for _, g := range funcs {
		for _, in := range an.Instrs(g, false) {
			call, ok := in.(*ssa.Call)
			if !ok {
				continue
			}
			if call.Call.StaticCallee() == f {
				out = append(out, in)
				continue
			}
			// a literal stored in a never-reassigned local: load of an alloc with one store of the closure
			if ld, isLd := call.Call.Value.(*ssa.UnOp); isLd && ld.Op == token.MUL {
				if al, isAl := ld.X.(*ssa.Alloc); isAl {
					if sv, _, ok1 := c11SingleStore(al); ok1 {
						if mc, isMC := sv.(*ssa.MakeClosure); isMC && mc.Fn == ssa.Value(f) {
							out = append(out, in)
						}
					}
				}
			}
		}
	}
	return out
}

// c11K6ErrOperand: the error result of ret (nil if the function has no error result).
func c11K6ErrOperand(ret *ssa.Return) (ssa.Value, bool) {
	res := ret.Parent().Signature.Results()
	if res.Len() == 0 || len(ret.Results) != res.Len() {
		return nil, false
	}
	last := res.At(res.Len() - 1).Type()
	if an.TypeName(last) != "error" {
		return nil, false
	}
	return ret.Results[res.Len()-1], true
}

// c11K6Succeeds walks forward from the edge from->to (to outside the loop) and reports a successful return reachable
// from it: a return without error result, or with a constant nil error. Phis of the first block are evaluated for the
// edge taken; tests of an error value against nil follow the known side. unknown: an error value that is a merge of nil
// and non-nil the walk cannot attribute.
func c11K6Succeeds(from, to *ssa.BasicBlock, loop *an.Loop) (ret *ssa.Return, unknown bool) {
	env := map[ssa.Value]ssa.Value{}
	bind := func(b, pred *ssa.BasicBlock) {
		for _, in := range b.Instrs {
			phi, ok := in.(*ssa.Phi)
			if !ok {
				break
			}
			for i, p := range b.Preds {
				if p == pred && i < len(phi.Edges) {
					env[phi] = phi.Edges[i]
				}
			}
		}
	}
	resolve := func(v ssa.Value) ssa.Value {
		for i := 0; i < 6; i++ {
			if w, ok := env[v]; ok {
				v = w
				continue
			}
			u := an.Unwrap(v)
			if u == v {
				break
			}
			v = u
		}
		return v
	}
	// isNil: 1 nil, 0 non-nil (any non-constant, non-merge value: an error that was produced), -1 unknown
	isNil := func(v ssa.Value) int {
		v = resolve(v)
		switch x := v.(type) {
		case *ssa.Const:
			if x.Value == nil {
				return 1
			}
			return 0
		case *ssa.Phi:
			all := true
			for _, e := range x.Edges {
				if c, isC := an.Unwrap(e).(*ssa.Const); isC && c.Value == nil {
					all = false
				}
			}
			if all {
				return 0
			}
			return -1
		case *ssa.UnOp:
			if x.Op == token.MUL {
				return -1
			}
		}
		return 0
	}
	seen := map[*ssa.BasicBlock]bool{}
	var walk func(b, pred *ssa.BasicBlock)
	walk = func(b, pred *ssa.BasicBlock) {
		if ret != nil || seen[b] {
			return
		}
		seen[b] = true
		bind(b, pred)
		if len(b.Instrs) == 0 {
			return
		}
		switch last := b.Instrs[len(b.Instrs)-1].(type) {
		case *ssa.Return:
			ev, hasErr := c11K6ErrOperand(last)
			if !hasErr {
				ret = last
				return
			}
			switch isNil(ev) {
			case 1:
				ret = last
			case -1:
				unknown = true
			}
			return
		case *ssa.Panic:
			return
		case *ssa.If:
			if bin, ok := an.Unwrap(last.Cond).(*ssa.BinOp); ok && (bin.Op == token.EQL || bin.Op == token.NEQ) && len(b.Succs) == 2 {
				var subj ssa.Value
				if c, isC := an.Unwrap(bin.Y).(*ssa.Const); isC && c.Value == nil {
					subj = bin.X
				} else if c, isC := an.Unwrap(bin.X).(*ssa.Const); isC && c.Value == nil {
					subj = bin.Y
				}
				if subj != nil && an.TypeName(subj.Type()) == "error" {
					if n := isNil(subj); n >= 0 {
						// EQL: true branch when nil
						takeTrue := (bin.Op == token.EQL) == (n == 1)
						if takeTrue {
							walk(b.Succs[0], b)
						} else {
							walk(b.Succs[1], b)
						}
						return
					}
				}
			}
		}
		for _, s := range b.Succs {
			walk(s, b)
		}
	}
	walk(to, from)
	return ret, unknown
}

func c11K6(c *rt.Ctx) {
	pkg := c.SSAPkg("dkg")
	obj := pkg.Pkg.Scope().Lookup("msgKey")
	if obj == nil {
		c.Bail("type dkg.msgKey (key of the FROST message maps) not found")
	}
	keyT := obj.Type()
	kst, ok := keyT.Underlying().(*types.Struct)
	if !ok {
		c.Bail("dkg.msgKey is not a struct")
	}
	hasVal, hasSrc := false, false
	for i := 0; i < kst.NumFields(); i++ {
		switch kst.Field(i).Name() {
		case c11K6ValField:
			hasVal = true
		case c11K6SrcField:
			hasSrc = true
		}
	}
	if !hasVal || !hasSrc {
		c.Bail("dkg.msgKey has no ValIdx/SourceID field: the validator filter of the message loops cannot be recognised")
	}

	var funcs []*ssa.Function
	for _, f := range an.PkgFuncs(pkg) {
		if fn := c.P.Pos(f.Pos()); strings.Contains(fn, "_test.go") {
			continue
		}
		funcs = append(funcs, f)
	}
	// instantiations of generic in-package helpers called from these functions (not package members themselves)
	seenFn := map[*ssa.Function]bool{}
	for _, f := range funcs {
		seenFn[f] = true
	}
	for i := 0; i < len(funcs) && len(funcs) < 4000; i++ {
		for _, in := range an.Instrs(funcs[i], false) {
			ci, ok := in.(ssa.CallInstruction)
			if !ok {
				continue
			}
			g := ci.Common().StaticCallee()
			if g == nil || seenFn[g] || g.Origin() == nil || g.Origin().Pkg != pkg || len(g.Blocks) == 0 {
				continue
			}
			for _, h := range an.Closure(g) {
				if !seenFn[h] {
					seenFn[h] = true
					funcs = append(funcs, h)
				}
			}
		}
	}

	// 1. fill sites
	type loopKey struct {
		fn *ssa.Function
		h  *ssa.BasicBlock
	}
	loops := map[loopKey]*an.Loop{}
	stores := map[loopKey][]c11K6Store{}
	var order []loopKey
	r2in := map[string]int{}
	place := func(st c11K6Store) bool {
		f := st.in.Parent()
		l := an.InnermostLoop(f, st.in.Block())
		if l == nil {
			return false
		}
		k := loopKey{f, l.Header}
		if loops[k] == nil {
			loops[k] = l
			order = append(order, k)
		}
		stores[k] = append(stores[k], st)
		return true
	}
	for _, f := range funcs {
		for _, in := range an.Instrs(f, false) {
			mu, ok := in.(*ssa.MapUpdate)
			if !ok {
				continue
			}
			kind, ptr, isMsg := c11K6MsgMap(mu.Map.Type())
			if !isMsg {
				continue
			}
			if ptr {
				// per-validator round-2 input: keyed by the dealer (a key handed to a helper / function literal as a
				// parameter is followed to the call sites)
				r2in[kind]++
				keys := []ssa.Value{mu.Key}
				if prm, isP := an.Unwrap(mu.Key).(*ssa.Parameter); isP {
					keys = nil
					for _, call := range c11K6CallsOf(funcs, f) {
						args := call.(*ssa.Call).Call.Args
						for i, q := range f.Params {
							if q == prm && i < len(args) {
								keys = append(keys, args[i])
							}
						}
					}
				}
				for _, kv := range keys {
					if name, isF := c11K6KeyField(kv, keyT); isF {
						c.Check("round-2 input ("+kind+") keyed by the dealer id", mu.Pos(), name == c11K6SrcField,
							fmt.Sprintf("the %s map handed to FROST round 2 is keyed by msgKey.%s, not by the dealer (msgKey.SourceID): dealers collapse or are attributed to other participants", kind, name))
					}
				}
			}
			st := c11K6Store{in: mu, mu: mu, kind: kind}
			if place(st) {
				continue
			}
			// the store is done by a helper / function literal: the loops are at its call sites (two levels)
			level := []*ssa.Function{f}
			for d := 0; d < 2 && len(level) > 0; d++ {
				var next []*ssa.Function
				for _, g := range level {
					for _, call := range c11K6CallsOf(funcs, g) {
						if !place(c11K6Store{in: call, mu: mu, kind: kind}) {
							next = append(next, call.Parent())
						}
					}
				}
				level = next
			}
		}
	}
	if len(order) == 0 {
		c.Bail("no loop of package dkg fills a map of FROST messages")
	}

	// 2. per loop: no skip path, no successful early exit
	for _, k := range order {
		l := loops[k]
		sts := stores[k]
		kinds := map[string]bool{}
		storeBlk := map[*ssa.BasicBlock]bool{}
		for _, s := range sts {
			kinds[s.kind] = true
			storeBlk[s.in.Block()] = true
		}
		var kl []string
		for kd := range kinds {
			kl = append(kl, kd)
		}
		if len(kl) > 1 {
			// deterministic
			for i := 0; i < len(kl); i++ {
				for j := i + 1; j < len(kl); j++ {
					if kl[j] < kl[i] {
						kl[i], kl[j] = kl[j], kl[i]
					}
				}
			}
		}
		cons := fmt.Sprintf("%s: every %s of the loop is transferred", k.fn.Name(), strings.Join(kl, "/"))
		pos := sts[0].in.Pos()

		type edge struct{ a, b *ssa.BasicBlock }
		mismatch := map[edge]bool{}
		opaqueIf := map[*ssa.BasicBlock]bool{}
		for b := range l.Body {
			if len(b.Instrs) == 0 {
				continue
			}
			iff, ok := b.Instrs[len(b.Instrs)-1].(*ssa.If)
			if !ok || len(b.Succs) != 2 {
				continue
			}
			val, eqTrue, opaque := c11K6Cond(iff.Cond, keyT, pkg, 0)
			if opaque {
				opaqueIf[b] = true
			}
			if val {
				if eqTrue {
					mismatch[edge{b, b.Succs[1]}] = true
				} else {
					mismatch[edge{b, b.Succs[0]}] = true
				}
			}
		}

		// skip paths: header -> body -> header avoiding store blocks and mismatch edges
		parent := map[*ssa.BasicBlock]*ssa.BasicBlock{}
		var queue []*ssa.BasicBlock
		for _, s := range l.Header.Succs {
			if l.Body[s] && s != l.Header && parent[s] == nil {
				parent[s] = l.Header
				queue = append(queue, s)
			}
		}
		var skipFrom *ssa.BasicBlock
		for len(queue) > 0 && skipFrom == nil {
			b := queue[0]
			queue = queue[1:]
			if storeBlk[b] {
				continue
			}
			for _, t := range b.Succs {
				if mismatch[edge{b, t}] || !l.Body[t] {
					continue
				}
				if t == l.Header {
					skipFrom = b
					break
				}
				if parent[t] == nil {
					parent[t] = b
					queue = append(queue, t)
				}
			}
		}
		bad := false
		if skipFrom != nil {
			// the deciding branch: the last If on the path
			var decide *ssa.If
			sawOpaque := false
			for b := skipFrom; b != nil && b != l.Header; b = parent[b] {
				if len(b.Instrs) == 0 {
					continue
				}
				if iff, ok := b.Instrs[len(b.Instrs)-1].(*ssa.If); ok {
					if decide == nil {
						decide = iff
					}
					if opaqueIf[b] {
						sawOpaque = true
					}
				}
			}
			p := pos
			if decide != nil && decide.Cond.Pos().IsValid() {
				p = decide.Cond.Pos()
			} else if decide != nil {
				p = posOf(decide)
			}
			bad = true
			if sawOpaque {
				c.Unsure(cons, p, "an iteration can end without storing the entry under a condition on the message key the rule cannot see through")
			} else {
				c.Bad(cons, p, "an iteration can end without storing the entry although it belongs to the validator at hand and the function does not fail: the dealer is silently dropped (peers that hold its message derive another group key / public shares)")
			}
		}

		// early exits of the body
		if !bad {
			for b := range l.Body {
				if b == l.Header || bad {
					continue
				}
				for _, t := range b.Succs {
					if l.Body[t] {
						continue
					}
					ret, unknown := c11K6Succeeds(b, t, l)
					if ret != nil {
						p := pos
						if len(b.Instrs) > 0 && posOf(b.Instrs[len(b.Instrs)-1]).IsValid() {
							p = posOf(b.Instrs[len(b.Instrs)-1])
						}
						c.Bad(cons, p, fmt.Sprintf("the loop is left before every entry was transferred and the function still returns successfully (%s): the remaining dealers are silently dropped", c.P.Pos(ret.Pos())))
						bad = true
						break
					}
					if unknown {
						c.Unsure(cons, pos, "the loop is left early and the rule cannot tell whether the function fails on that path")
						bad = true
						break
					}
				}
			}
		}
		if !bad {
			c.Good(cons, pos, "")
		}
	}
	if r2in["round-1 broadcast"] == 0 || r2in["round-1 share"] == 0 {
		c.Unsure("round-2 input assembly", token.NoPos, "no map[uint32]*frost.Round1Bcast / map[uint32]*sharing.ShamirShare (the arguments of DkgParticipant.Round2) is filled in package dkg: the assembly of the round-2 inputs was not found")
	}
}
