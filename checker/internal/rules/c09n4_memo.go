package rules

// C09-G7 — memo soundness on the verifier chain.
//
// The signing root handed to tbls.Verify must be a function of (domain name, epoch, message root) — and of the data's
// own DomainName/Epoch/MessageRoot/Signature further up — on every path. G4 decides that for the paths that compute
// it. A memo (a container that outlives the call: a package-level map or sync.Map, a field of a package-level value,
// a container made by the constructor and captured by the returned closure) between those inputs and the value is
// only sound when it is keyed by every input the cached value was computed from: a lookup whose key leaves one of them
// out answers with the value of another call (another epoch = another fork's domain).
//
// Decided on the paths of every link of the chain (the function NewVerifier returns, core.VerifyEth2SignedData,
// signing.Verify, GetDataRoot, GetDomain; in-package helpers, methods of a cache type and closures executed in place):
//   * every insertion into such a container of a value computed from inputs I (data dependence followed on the path:
//     through calls, conversions, struct literals, parameter objects, helpers) uses a key computed from all of I;
//   * every lookup in such a container whose result reaches a result, a call argument or a branch of the link uses a
//     key computed from all inputs any value inserted into the same container was computed from.
// Inputs are the link's parameters; a method invoked on a parameter (data.Epoch(), data.MessageRoot()) is an input of
// its own (the message root does not determine the epoch), covered by itself or by the whole parameter. The context
// and the beacon-node client handle are environment, not inputs. A key that leaves out an input is positive evidence;
// containers that are only read (constant tables), or written with constants (sets), carry no obligation here — a
// success that bypasses the next link is G4's "success only via".

import (
	"fmt"
	"go/token"
	"go/types"
	"sort"
	"strings"

	"golang.org/x/tools/go/ssa"

	"charonverif/internal/an"
	"charonverif/internal/rt"
)

func init() {
	Extend("C09", "(G7) memo soundness: every container that outlives a call of a link of the verifier chain (NewVerifier's closure, VerifyEth2SignedData, signing.Verify, GetDataRoot, GetDomain) and caches a value computed from the link's inputs is written and read under a key computed from all of those inputs (domain name, epoch, message root, …).",
		func(c *rt.Ctx) { c.Rule("G7", 5, func() { c09G7(c) }) },
		Mutant{ID: "C09-G7-dataroot-cache-without-epoch", File: "eth2util/signing/signing.go", Expect: "G7",
			Old: "func GetDataRoot(ctx context.Context, eth2Cl eth2wrap.Client, name DomainName, epoch eth2p0.Epoch, root eth2p0.Root) ([32]byte, error) {\n",
			New: "func GetDataRoot(ctx context.Context, eth2Cl eth2wrap.Client, name DomainName, epoch eth2p0.Epoch, root eth2p0.Root) ([32]byte, error) {\n\tif v, ok := rootMemo.Load(string(name) + root.String()); ok {\n\t\treturn v.([32]byte), nil\n\t}\n\n",
			More: [][2]string{
				{"\t\treturn [32]byte{}, errors.Wrap(err, \"marshal signing data\")\n\t}\n", "\t\treturn [32]byte{}, errors.Wrap(err, \"marshal signing data\")\n\t}\n\n\trootMemo.Store(string(name)+root.String(), msg)\n"},
				{"// GetDataRoot wraps the signing root", "var rootMemo sync.Map\n\n// GetDataRoot wraps the signing root"},
				{"import (\n\t\"context\"\n", "import (\n\t\"context\"\n\t\"sync\"\n"},
			}},
		Mutant{ID: "C09-G7-domain-cache-by-name", File: "eth2util/signing/signing.go", Expect: "G7",
			Old: "func GetDomain(ctx context.Context, eth2Cl eth2wrap.Client, name DomainName, epoch eth2p0.Epoch) (eth2p0.Domain, error) {\n",
			New: "func GetDomain(ctx context.Context, eth2Cl eth2wrap.Client, name DomainName, epoch eth2p0.Epoch) (eth2p0.Domain, error) {\n\tif d, ok := domainMemo[name]; ok {\n\t\treturn d, nil\n\t}\n\n\td, err := getDomain(ctx, eth2Cl, name, epoch)\n\tif err != nil {\n\t\treturn eth2p0.Domain{}, err\n\t}\n\n\tdomainMemo[name] = d\n\n\treturn d, nil\n}\n\nvar domainMemo = map[DomainName]eth2p0.Domain{}\n\nfunc getDomain(ctx context.Context, eth2Cl eth2wrap.Client, name DomainName, epoch eth2p0.Epoch) (eth2p0.Domain, error) {\n"},
		Mutant{ID: "C09-G7-verify-root-memo-per-domain", File: "eth2util/signing/signing.go", Expect: "G7",
			Old: "\tsigData, err := GetDataRoot(ctx, eth2Cl, domain, epoch, sigRoot)\n\tif err != nil {\n\t\treturn err\n\t}\n",
			New: "\tperDomain := verifyMemo[domain]\n\tif perDomain == nil {\n\t\tperDomain = make(map[eth2p0.Root][32]byte)\n\t\tverifyMemo[domain] = perDomain\n\t}\n\n\tsigData, ok := perDomain[sigRoot]\n\tif !ok {\n\t\tvar err error\n\n\t\tsigData, err = GetDataRoot(ctx, eth2Cl, domain, epoch, sigRoot)\n\t\tif err != nil {\n\t\t\treturn err\n\t\t}\n\n\t\tperDomain[sigRoot] = sigData\n\t}\n",
			More: [][2]string{{"// Verify returns an error if the signature", "var verifyMemo = map[DomainName]map[eth2p0.Root][32]byte{}\n\n// Verify returns an error if the signature"}}},
		Mutant{ID: "C09-G7-verify-epoch-cached-by-root", File: "core/eth2signeddata.go", Expect: "G7",
			Old: "\tepoch, err := data.Epoch(ctx, eth2Cl)\n\tif err != nil {\n\t\treturn err\n\t}\n\n\tsigRoot, err := data.MessageRoot()\n\tif err != nil {\n\t\treturn err\n\t}\n",
			New: "\tsigRoot, err := data.MessageRoot()\n\tif err != nil {\n\t\treturn err\n\t}\n\n\tepoch, ok := epochMemo[sigRoot]\n\tif !ok {\n\t\tepoch, err = data.Epoch(ctx, eth2Cl)\n\t\tif err != nil {\n\t\t\treturn err\n\t\t}\n\n\t\tepochMemo[sigRoot] = epoch\n\t}\n",
			More: [][2]string{{"// VerifyEth2SignedData verifies", "var epochMemo = map[[32]byte]eth2p0.Epoch{}\n\n// VerifyEth2SignedData verifies"}}},
	)
}

// c09Atom is one input of a link: a parameter of the walked function, or (m != "") the result of method m invoked on it.
type c09Atom struct {
	p *ssa.Parameter
	m string
}

func (a c09Atom) String() string {
	if a.m != "" {
		return a.p.Name() + "." + a.m + "()"
	}
	return a.p.Name()
}

type c09MemoAccess struct {
	in   ssa.Instruction
	cont string
	key  an.H09SV
	path an.H09SV // the container instance: the indices on its access path (map of maps) belong to the key
}

// c09KeyParts: the key instance and the indices the container was selected with.
func c09KeyParts(st *an.H09State, a c09MemoAccess) []an.H09SV {
	out := []an.H09SV{a.key}
	cur := a.path
	for i := 0; i < 8 && cur.V != nil; i++ {
		p := st.PathOf(cur)
		for _, s := range p.Steps {
			if s.Kind == "index" {
				out = append(out, s.Idx)
			}
		}
		u, isLoad := p.Base.V.(*ssa.UnOp)
		if !isLoad || u.Op != token.MUL || p.Base == cur {
			break
		}
		ops := st.Ops(p.Base)
		if len(ops) != 1 {
			break
		}
		cur = ops[0]
	}
	return out
}

// c09Deps follows the data dependence of instances on one path.
type c09Deps struct {
	st    *an.H09State
	seen  map[an.H09SV]bool
	atoms map[c09Atom]bool
	reads []c09MemoAccess
}

func newC09Deps(st *an.H09State) *c09Deps {
	return &c09Deps{st: st, seen: map[an.H09SV]bool{}, atoms: map[c09Atom]bool{}}
}

// c09SyncMapMethod: the call is (*sync.Map).<name>.
func c09SyncMapMethod(cc *ssa.CallCommon) string {
	if cc == nil || cc.IsInvoke() {
		return ""
	}
	f := cc.StaticCallee()
	if f == nil {
		return ""
	}
	obj, ok := an.Orig(f).Object().(*types.Func)
	if !ok || obj.Pkg() == nil || obj.Pkg().Path() != "sync" {
		return ""
	}
	sig, _ := obj.Type().(*types.Signature)
	if sig == nil || sig.Recv() == nil || an.TypeName(sig.Recv().Type()) != "sync.Map" {
		return ""
	}
	return obj.Name()
}

// c09Persistent: the container instance outlives the walked call — it is (reached through fields/elements of) a
// package-level variable, or, in a walk of the function a constructor returned, something the constructor made.
// The returned id names the container (variable and access path).
func c09Persistent(st *an.H09State, sv an.H09SV) (id string, ok bool) {
	p := st.PathOf(sv)
	var steps []string
	for _, s := range p.Steps {
		switch s.Kind {
		case "field":
			steps = append(steps, s.Field[strings.LastIndex(s.Field, ".")+1:])
		case "deref":
		default:
			steps = append(steps, "[]")
		}
	}
	suffix := ""
	if len(steps) > 0 {
		suffix = "." + strings.Join(steps, ".")
	}
	b := p.Base
	switch x := b.V.(type) {
	case *ssa.Global:
		return x.Name() + suffix, true
	case *ssa.UnOp:
		if g, isG := x.X.(*ssa.Global); isG && x.Op == token.MUL {
			return g.Name() + suffix, true
		}
		// a field of a value the global points to, loaded through an untracked address
		if x.Op == token.MUL {
			if ops := st.Ops(b); len(ops) == 1 && ops[0] != b {
				if id, ok := c09Persistent(st, ops[0]); ok {
					return id + suffix, true
				}
			}
		}
	case *ssa.MakeMap, *ssa.Alloc:
		if st.TailFn() != nil && b.F == an.H09RootID {
			name := "captured container"
			if v, isV := b.V.(interface{ Name() string }); isV {
				name = "captured " + v.Name()
			}
			return name + suffix, true
		}
	}
	return "", false
}

func (d *c09Deps) visit(sv an.H09SV) {
	if sv.V == nil || d.seen[sv] {
		return
	}
	d.seen[sv] = true
	st := d.st
	switch x := sv.V.(type) {
	case *ssa.Parameter:
		if sv.F == an.H09RootID {
			d.atoms[c09Atom{p: x}] = true
		}
		return
	case *ssa.Const, *ssa.Function, *ssa.Global, *ssa.Builtin:
		return
	case *ssa.Alloc:
		// memory the walker does not track (its address is handed to a call): what the path stored into it
		for i := range st.Trace {
			e := &st.Trace[i]
			switch e.Kind {
			case "store":
				if e.Key == sv || st.PathOf(e.Key).Base == sv {
					d.visit(e.Val)
				} else if ops := st.Ops(e.Key); len(ops) >= 1 && ops[0] == sv {
					d.visit(e.Val)
				}
			}
		}
	case *ssa.Lookup:
		ops := st.Ops(sv)
		if len(ops) == 2 {
			if id, ok := c09Persistent(st, ops[0]); ok {
				d.reads = append(d.reads, c09MemoAccess{in: x, cont: id, key: ops[1], path: ops[0]})
				return
			}
		}
	case *ssa.Call:
		if ce := st.CallEvent(sv); ce != nil && !ce.Inlined {
			cc := c09Common(ce)
			switch c09SyncMapMethod(cc) {
			case "Load", "LoadOrStore", "LoadAndDelete":
				if len(ce.Args) >= 2 {
					if id, ok := c09Persistent(st, ce.Args[0]); ok {
						d.reads = append(d.reads, c09MemoAccess{in: x, cont: id, key: ce.Args[1], path: ce.Args[0]})
						return
					}
				}
			}
			if cc != nil && cc.IsInvoke() {
				if p, isP := ce.Callee.V.(*ssa.Parameter); isP && ce.Callee.F == an.H09RootID && !c09EnvParam(p) {
					d.atoms[c09Atom{p: p, m: cc.Method.Name()}] = true
					return
				}
				// a query of the environment (beacon node) is a function of its arguments
				d.visit(ce.Callee)
			} else if cc != nil && cc.StaticCallee() == nil {
				d.visit(ce.Callee)
			}
			for _, a := range ce.Args {
				d.visit(a)
			}
			return
		}
	}
	if fs, ok := st.FieldsOf(sv); ok {
		for _, f := range fs {
			d.visit(f)
		}
	}
	for _, o := range st.Ops(sv) {
		d.visit(o)
	}
	switch sv.V.(type) {
	case *ssa.Slice, *ssa.FieldAddr, *ssa.IndexAddr:
		// the content of a followed local seen through a slice / element address
		if p := st.PathOf(sv); p.Base != sv {
			d.visit(p.Base)
		}
	}
}

// c09EnvParam: the context and the beacon-node client are the environment of a link, not inputs of the signing root.
func c09EnvParam(p *ssa.Parameter) bool {
	n := an.TypeName(p.Type())
	if n == "context.Context" {
		return true
	}
	if _, isIface := p.Type().Underlying().(*types.Interface); isIface {
		return strings.Contains(n, "eth2wrap") || strings.Contains(n, "go-eth2-client")
	}
	return false
}

func c09AtomsOf(st *an.H09State, svs ...an.H09SV) map[c09Atom]bool {
	d := newC09Deps(st)
	for _, sv := range svs {
		d.visit(sv)
	}
	out := map[c09Atom]bool{}
	for a := range d.atoms {
		if !c09EnvParam(a.p) {
			out[a] = true
		}
	}
	return out
}

// c09Missing: the inputs of need the key does not cover. soft: the only gap is a whole interface parameter of which the
// key holds derived values (whether those determine the cached value is not decided here).
func c09Missing(need, key map[c09Atom]bool) (missing []string, soft bool) {
	soft = true
	for a := range need {
		if key[a] || key[c09Atom{p: a.p}] {
			continue
		}
		derived := false
		if a.m == "" {
			for k := range key {
				if k.p == a.p {
					derived = true
				}
			}
		}
		if !derived {
			soft = false
		}
		missing = append(missing, a.String())
	}
	sort.Strings(missing)
	return missing, soft && len(missing) > 0
}

// c09AllKept: every input the key leaves out is also written to persistent state by the link (possible invalidation).
func c09AllKept(need, key, kept map[c09Atom]bool) bool {
	n := 0
	for a := range need {
		if key[a] || key[c09Atom{p: a.p}] {
			continue
		}
		if !kept[a] {
			return false
		}
		n++
	}
	return n > 0
}

func c09AtomList(m map[c09Atom]bool) string {
	var out []string
	for a := range m {
		out = append(out, a.String())
	}
	sort.Strings(out)
	if len(out) == 0 {
		return "no input"
	}
	return strings.Join(out, ", ")
}

// c09MemoResult is what the memo analysis of one link found.
type c09MemoResult struct {
	stores   int
	reads    int
	sound    map[string]bool // container -> every access decided sound
	// container -> what is inserted: "<callee>" when every inserted value is result 0 of a call of that static
	// callee whose error was nil on the path, "?" otherwise
	valOf    map[string]string
	findings []c09MemoFinding
}

// c09MemoFinding: kind 0 good, 1 undecided, 2 violation.
type c09MemoFinding struct {
	kind      int
	construct string
	pos       token.Pos
	msg       string
}

func (r *c09MemoResult) Good(construct string, pos token.Pos, msg string) {
	r.findings = append(r.findings, c09MemoFinding{0, construct, pos, msg})
}

func (r *c09MemoResult) Unsure(construct string, pos token.Pos, msg string) {
	r.findings = append(r.findings, c09MemoFinding{1, construct, pos, msg})
}

func (r *c09MemoResult) Bad(construct string, pos token.Pos, msg string) {
	r.findings = append(r.findings, c09MemoFinding{2, construct, pos, msg})
}

var c09MemoDone = map[*ssa.Function]*c09MemoResult{}

// c09MemoLink decides the memo obligations of one link (once per function; G7 reports the findings, G4 consults the
// verdict per container). tail: fn is a constructor, the link is the function it returns.
func c09MemoLink(fn *ssa.Function, tail bool) *c09MemoResult {
	if r, ok := c09MemoDone[fn]; ok {
		return r
	}
	type access struct {
		c09MemoAccess
		keyAtoms map[c09Atom]bool
		valAtoms map[c09Atom]bool
	}
	type akey struct {
		in   ssa.Instruction
		cont string
	}
	stores := map[akey]*access{}
	reads := map[akey]*access{}
	valOf := map[string]string{}
	// inputs the link keeps in persistent state outside the memo (`lastEpoch = epoch`): a memo that leaves such an input
	// out of its key may be flushed when it changes — not followed, hence not positive evidence
	kept := map[c09Atom]bool{}
	merge := func(dst map[akey]*access, a c09MemoAccess, st *an.H09State, val *an.H09SV) {
		k := akey{a.in, a.cont}
		ka := c09AtomsOf(st, c09KeyParts(st, a)...)
		e := dst[k]
		if e == nil {
			e = &access{c09MemoAccess: a, keyAtoms: ka, valAtoms: map[c09Atom]bool{}}
			dst[k] = e
		} else {
			// the worst path counts: an input the key lacks on one path is lacking
			for x := range e.keyAtoms {
				if !ka[x] {
					delete(e.keyAtoms, x)
				}
			}
		}
		if val != nil {
			for x := range c09AtomsOf(st, *val) {
				e.valAtoms[x] = true
			}
			what := "?"
			v := c09PeelSV(st, *val)
			if mi, isMI := v.V.(*ssa.MakeInterface); isMI {
				if ops := st.Ops(v); len(ops) == 1 {
					_ = mi
					v = c09PeelSV(st, ops[0])
				}
			}
			if call, idx, ok := st.ResultOf(v); ok && idx == 0 {
				if ce := st.CallEvent(call); ce != nil && !ce.Inlined {
					if cc := c09Common(ce); cc != nil && !cc.IsInvoke() && cc.StaticCallee() != nil {
						if k, isNil := st.ErrOf(call); k && isNil {
							what = an.FuncName(cc.StaticCallee())
						}
					}
				}
			}
			if old, seen := valOf[a.cont]; seen && old != what {
				what = "?"
			}
			valOf[a.cont] = what
		}
	}
	cfg := c09WalkCfg(fn, c09ChainStop...)
	cfg.Tail = tail
	cfg.OnReturn = func(st *an.H09State, _ *ssa.Return, vals []an.H09SV) {
		d := newC09Deps(st)
		for _, v := range vals {
			d.visit(v)
		}
		for i := range st.Trace {
			e := &st.Trace[i]
			switch e.Kind {
			case "mapupdate":
				if id, ok := c09Persistent(st, e.Map); ok {
					v := e.Val
					merge(stores, c09MemoAccess{in: e.In, cont: id, key: e.Key, path: e.Map}, st, &v)
					continue
				}
				d.visit(e.Key)
				d.visit(e.Val)
			case "call":
				if e.Inlined {
					continue
				}
				switch c09SyncMapMethod(c09Common(e)) {
				case "Store", "LoadOrStore", "Swap", "CompareAndSwap":
					if len(e.Args) >= 3 {
						if id, ok := c09Persistent(st, e.Args[0]); ok {
							v := e.Args[len(e.Args)-1]
							merge(stores, c09MemoAccess{in: e.In, cont: id, key: e.Args[1], path: e.Args[0]}, st, &v)
							if c09SyncMapMethod(c09Common(e)) == "Store" {
								continue
							}
						}
					}
				}
				d.visit(e.SV)
				if e.SV.V == nil {
					for _, a := range e.Args {
						d.visit(a)
					}
				}
			case "assume":
				d.visit(e.Atom)
			case "store":
				d.visit(e.Val)
				if _, ok := c09Persistent(st, e.Key); ok {
					for x := range c09AtomsOf(st, e.Val) {
						kept[x] = true
					}
				}
			}
		}
		for _, r := range d.reads {
			merge(reads, r, st, nil)
		}
	}
	res := an.H09Walk(fn, cfg)
	name := an.FuncName(fn)
	if tail {
		name += " (returned function)"
	}
	construct := name + " memo keyed by every input of the cached value"
	out := &c09MemoResult{sound: map[string]bool{}, valOf: valOf}
	c09MemoDone[fn] = out
	c := out
	if !res.Complete || res.Paths == 0 {
		c.Unsure(construct, fn.Pos(), "paths of "+name+" not explored completely: "+res.Why)
		return out
	}
	// inputs the values of each container were computed from
	need := map[string]map[c09Atom]bool{}
	for _, s := range stores {
		if need[s.cont] == nil {
			need[s.cont] = map[c09Atom]bool{}
		}
		for a := range s.valAtoms {
			need[s.cont][a] = true
		}
	}
	var keys []akey
	for k := range stores {
		keys = append(keys, k)
	}
	for k := range reads {
		keys = append(keys, k)
	}
	sort.Slice(keys, func(i, j int) bool {
		if keys[i].in.Pos() != keys[j].in.Pos() {
			return keys[i].in.Pos() < keys[j].in.Pos()
		}
		return keys[i].cont < keys[j].cont
	})
	done := map[akey]bool{}
	for _, k := range keys {
		if done[k] {
			continue
		}
		done[k] = true
		if _, seen := out.sound[k.cont]; !seen {
			out.sound[k.cont] = true
		}
		if s := stores[k]; s != nil {
			out.stores++
			if len(s.valAtoms) > 0 {
				cons := fmt.Sprintf("%s memo %s insertion", name, k.cont)
				missing, soft := c09Missing(s.valAtoms, s.keyAtoms)
				soft = soft || c09AllKept(s.valAtoms, s.keyAtoms, kept)
				switch {
				case len(missing) == 0:
					c.Good(cons, posOf(k.in), "key covers "+c09AtomList(s.valAtoms))
				case soft:
					out.sound[k.cont] = false
					c.Unsure(cons, posOf(k.in), "the cached value is computed from "+strings.Join(missing, ", ")+", which the key does not hold as such (only values derived from it, or the link keeps it in other state it may flush the memo by)")
				default:
					out.sound[k.cont] = false
					c.Bad(cons, posOf(k.in), fmt.Sprintf("the value cached is computed from %s but its key only from %s: %s left out, a later call that differs only there is answered with this value",
						c09AtomList(s.valAtoms), c09AtomList(s.keyAtoms), strings.Join(missing, ", ")))
				}
			}
		}
		if r := reads[k]; r != nil {
			n := need[k.cont]
			if len(n) == 0 {
				continue // only read here (a constant table), or a set of constants: no obligation of this rule
			}
			out.reads++
			cons := fmt.Sprintf("%s memo %s lookup", name, k.cont)
			missing, soft := c09Missing(n, r.keyAtoms)
			soft = soft || c09AllKept(n, r.keyAtoms, kept)
			switch {
			case len(missing) == 0:
				c.Good(cons, posOf(k.in), "key covers "+c09AtomList(n))
			case soft:
				out.sound[k.cont] = false
				c.Unsure(cons, posOf(k.in), "the cached values are computed from "+strings.Join(missing, ", ")+", which the lookup key does not hold as such (only values derived from it, or the link keeps it in other state it may flush the memo by)")
			default:
				out.sound[k.cont] = false
				c.Bad(cons, posOf(k.in), fmt.Sprintf("lookup keyed by %s in a memo whose values are computed from %s: %s left out, the value of another call (another epoch/fork, root or domain) is used",
					c09AtomList(r.keyAtoms), c09AtomList(n), strings.Join(missing, ", ")))
			}
		}
	}
	c.Good(construct, fn.Pos(), fmt.Sprintf("%d memo insertion(s), %d lookup(s)", out.stores, out.reads))
	return out
}

func c09G7(c *rt.Ctx) {
	report := func(r *c09MemoResult) {
		for _, f := range r.findings {
			switch f.kind {
			case 0:
				c.Good(f.construct, f.pos, f.msg)
			case 1:
				c.Unsure(f.construct, f.pos, f.msg)
			default:
				c.Bad(f.construct, f.pos, f.msg)
			}
		}
	}
	report(c09MemoLink(c.Fn("core/sigagg.NewVerifier"), true))
	report(c09MemoLink(c.Fn("core.VerifyEth2SignedData"), false))
	report(c09MemoLink(c.Fn(c09SigningPkg+".Verify"), false))
	report(c09MemoLink(c.Fn(c09SigningPkg+".GetDataRoot"), false))
	report(c09MemoLink(c.Fn(c09SigningPkg+".GetDomain"), false))
}

// c09SoundMemoRead: sv is the result of a lookup in a persistent container that the memo analysis of fn found written
// (with values computed from inputs) and keyed soundly on every access: G4 then leaves the memo hit to G7 instead
// of reporting a value it cannot follow.
func c09SoundMemoRead(st *an.H09State, fn *ssa.Function, sv an.H09SV) (isMemo, sound bool) {
	isMemo, sound, _ = c09SoundMemoOf(st, fn, sv)
	return isMemo, sound
}

// c09SoundMemoOf also says what the container holds ("<callee>": checked results of that callee only; "?": unknown).
func c09SoundMemoOf(st *an.H09State, fn *ssa.Function, sv an.H09SV) (isMemo, sound bool, valOf string) {
	d := newC09Deps(st)
	d.visit(sv)
	if len(d.reads) != 1 || len(d.atoms) != 0 {
		return false, false, ""
	}
	r := c09MemoLink(fn, false)
	cont := d.reads[0].cont
	return true, r.stores > 0 && r.sound[cont], r.valOf[cont]
}
