package rules

// C12-SI — the share index under which a loaded key share is handed to tbls.RecoverSecret is the position of the
// share's public key in the lock's DistValidator.PubShares.
//
// Why it is a necessary condition: Lagrange interpolation at x = shareIdx only yields the validator secret when
// every share sits at the x-coordinate it was created for, and the only record of that coordinate is the order of
// the public shares in the lock. A key that is a function of the position in the list of loaded secrets (or of
// constants / unrelated parameters) alone is right only for the directory order node0..nodeN-1.
//
// Formulation (value provenance, no shapes): every MapUpdate into a map that reaches argument 0 of
// tbls.RecoverSecret in package cmd/combine (through results/parameters of in-package functions) has a key that
//   (a) data-depends on a read of DistValidator.PubShares — through arithmetic, conversions, phis, loop bounds of
//       the loop an induction variable belongs to, contents of local maps/slices, calls; or
//   (b) is guarded by a test that selects from a PubShares-derived collection *at the position variable the key is
//       computed from* (linear search `if pubShares[i] == pk { m[i+1] = s }`).
// VIOLATION only when the backward slice of the key is closed (no unknown source) and contains neither.

import (
	"fmt"
	"go/token"
	"go/types"
	"sort"
	"strings"

	"golang.org/x/tools/go/ssa"

	"charonverif/internal/an"
	"charonverif/internal/rt"
)

func init() {
	Extend("C12", "(SI) in cmd/combine the share index of every key share handed to tbls.RecoverSecret derives from the position of its public share in the lock's DistValidator.PubShares.",
		func(c *rt.Ctx) { c.Rule("SI", 1, func() { c12nShareIdx(c) }) }, c12nSIMutants...)
}

var c12nSIMutants = []Mutant{
	{ID: "C12-SI-index-by-count", File: "cmd/combine/combine.go", Expect: "SI",
		Old: "\t\tresp[shareIdx] = secret\n", New: "\t\t_ = shareIdx\n\t\tresp[len(resp)+1] = secret\n"},
	{ID: "C12-SI-index-by-validator", File: "cmd/combine/combine.go", Expect: "SI",
		Old: "\t\tresp[shareIdx] = secret\n", New: "\t\t_ = shareIdx\n\t\tresp[valIndex+1] = secret\n"},
	{ID: "C12-SI-index-by-counter", File: "cmd/combine/combine.go", Expect: "SI",
		Old:  "\tfor _, secret := range secrets {\n\t\tpubkey, err := tbls.SecretToPublicKey(secret)",
		New:  "\tnext := 0\n\tfor _, secret := range secrets {\n\t\tnext++\n\t\tpubkey, err := tbls.SecretToPublicKey(secret)",
		More: [][2]string{{"\t\tresp[shareIdx] = secret\n", "\t\t_ = shareIdx\n\t\tresp[next] = secret\n"}}},
}

// c12nDep is the result of a backward data slice.
type c12nDep struct {
	lock    bool               // reaches a read of DistValidator.PubShares
	unknown string             // first source the slice cannot close over ("" = closed)
	srcs    map[ssa.Value]bool // phis and parameters met (the "position variables")
	hits    map[string]bool    // names reported by the slicer's field hook for the struct fields read
}

type c12nSlicer struct {
	pkg     *ssa.Package
	fns     []*ssa.Function
	noIndex bool // do not propagate from the index operand of slice/array element selection
	noBound bool // do not propagate from the bound of the loop an induction variable belongs to
	arith   bool // follow the numeric derivation only (constants, phis, arithmetic, spilled locals, parameters)
	loops   map[*ssa.Function][]*an.Loop
	// optional (round 5): a hook naming the struct fields of interest that the slice reads, and a function whose
	// parameters are the inputs of the question (not traced back to its callers)
	field func(t types.Type, idx int) string
	root  *ssa.Function
}

func (s *c12nSlicer) hit(out *c12nDep, t types.Type, idx int) {
	if s.field == nil {
		return
	}
	if n := s.field(t, idx); n != "" {
		if out.hits == nil {
			out.hits = map[string]bool{}
		}
		out.hits[n] = true
	}
}

func (s *c12nSlicer) inPkg(f *ssa.Function) bool {
	return f != nil && f.Blocks != nil && (f.Pkg == s.pkg || (f.Parent() != nil && s.inPkg(f.Parent())))
}

func c12nIsPubShares(t types.Type, idx int) bool {
	if p, ok := t.Underlying().(*types.Pointer); ok {
		t = p.Elem()
	}
	st, ok := t.Underlying().(*types.Struct)
	if !ok || idx >= st.NumFields() {
		return false
	}
	return st.Field(idx).Name() == "PubShares" && strings.HasSuffix(an.TypeName(t), "DistValidator")
}

func (s *c12nSlicer) loopsOf(f *ssa.Function) []*an.Loop {
	if l, ok := s.loops[f]; ok {
		return l
	}
	l := an.Loops(f)
	s.loops[f] = l
	return l
}

// dep: backward reachability over the depends-on relation (worklist; every value is expanded once).
func (s *c12nSlicer) dep(v ssa.Value, _ int) *c12nDep {
	out := &c12nDep{srcs: map[ssa.Value]bool{}}
	seen := map[ssa.Value]bool{}
	work := []ssa.Value{v}
	for len(work) > 0 {
		w := work[len(work)-1]
		work = work[:len(work)-1]
		if w == nil || seen[w] {
			continue
		}
		seen[w] = true
		if len(seen) > 20000 {
			out.unknown = "slice too large"
			break
		}
		work = append(work, s.step(w, out)...)
	}
	return out
}

// step records what v itself contributes to out and returns the values v depends on.
func (s *c12nSlicer) step(v ssa.Value, out *c12nDep) (next []ssa.Value) {
	add := func(vs ...ssa.Value) { next = append(next, vs...) }
	unknown := func(msg string) {
		if out.unknown == "" {
			out.unknown = msg
		}
	}
	if s.arith {
		switch x := v.(type) {
		case *ssa.Const, *ssa.Parameter, *ssa.FreeVar, *ssa.Phi, *ssa.BinOp, *ssa.Convert, *ssa.ChangeType, *ssa.Alloc:
		case *ssa.UnOp:
			if _, isAlloc := x.X.(*ssa.Alloc); x.Op == token.MUL && !isAlloc {
				if _, isFV := x.X.(*ssa.FreeVar); !isFV {
					return nil
				}
			}
		case *ssa.Extract:
			if _, isNext := x.Tuple.(*ssa.Next); !isNext {
				return nil
			}
			out.srcs[x] = true
			return nil
		default:
			return nil
		}
	}
	switch x := v.(type) {
	case *ssa.Const, *ssa.Function, *ssa.Builtin:
	case *ssa.Parameter:
		out.srcs[x] = true
		fn := x.Parent()
		if s.root != nil && fn == s.root {
			break
		}
		pi := -1
		for i, p := range fn.Params {
			if p == x {
				pi = i
			}
		}
		for _, g := range s.fns {
			for _, in := range an.Instrs(g, false) {
				ci, ok := in.(ssa.CallInstruction)
				if !ok || an.Orig(ci.Common().StaticCallee()) != an.Orig(fn) || ci.Common().IsInvoke() {
					continue
				}
				if pi >= 0 && pi < len(ci.Common().Args) {
					add(ci.Common().Args[pi])
				}
			}
		}
	case *ssa.FreeVar:
		fn := x.Parent()
		fi := -1
		for i, fv := range fn.FreeVars {
			if fv == x {
				fi = i
			}
		}
		found := false
		if fn.Parent() != nil {
			for _, in := range an.Instrs(fn.Parent(), false) {
				if mc, ok := in.(*ssa.MakeClosure); ok && mc.Fn == ssa.Value(fn) && fi >= 0 && fi < len(mc.Bindings) {
					found = true
					add(mc.Bindings[fi])
				}
			}
		}
		if !found {
			unknown("free variable " + x.Name())
		}
	case *ssa.Global:
		unknown("global " + x.Name())
	case *ssa.Phi:
		out.srcs[x] = true
		add(x.Edges...)
		// an induction variable also depends on what bounds its loop
		for _, l := range s.loopsOf(x.Parent()) {
			if l.Header != x.Block() || s.noBound {
				continue
			}
			// only the bound tested in the header: an early exit inside the body (`if !found { return }`) says
			// nothing about the value of the variable in the iterations that go on
			if iff, ok := l.Header.Instrs[len(l.Header.Instrs)-1].(*ssa.If); ok {
				add(iff.Cond)
			}
		}
	case *ssa.BinOp:
		add(x.X, x.Y)
	case *ssa.UnOp:
		if x.Op == token.MUL {
			add(s.addrSources(x.X)...)
			add(x.X)
		} else {
			add(x.X)
		}
	case *ssa.Convert:
		add(x.X)
	case *ssa.ChangeType:
		add(x.X)
	case *ssa.ChangeInterface:
		add(x.X)
	case *ssa.MakeInterface:
		add(x.X)
	case *ssa.TypeAssert:
		add(x.X)
	case *ssa.SliceToArrayPointer:
		add(x.X)
	case *ssa.Slice:
		add(x.X, x.Low, x.High, x.Max)
	case *ssa.Extract:
		if nx, ok := x.Tuple.(*ssa.Next); ok {
			// range over map/string: key and value come from the collection
			if r, ok := nx.Iter.(*ssa.Range); ok {
				out.srcs[x] = true
				add(r.X)
				break
			}
		}
		if call, ok := x.Tuple.(*ssa.Call); ok {
			add(s.callDep(call, x.Index, out)...)
			break
		}
		add(x.Tuple)
	case *ssa.Lookup:
		add(x.X, x.Index)
	case *ssa.Index:
		add(x.X)
		if !s.noIndex {
			add(x.Index)
		}
	case *ssa.IndexAddr:
		add(x.X)
		if !s.noIndex {
			add(x.Index)
		}
	case *ssa.Field:
		if c12nIsPubShares(x.X.Type(), x.Field) {
			out.lock = true
		}
		s.hit(out, x.X.Type(), x.Field)
		add(x.X)
	case *ssa.FieldAddr:
		if c12nIsPubShares(x.X.Type(), x.Field) {
			out.lock = true
		}
		s.hit(out, x.X.Type(), x.Field)
		add(x.X)
	case *ssa.Alloc:
		add(s.addrSources(x)...)
	case *ssa.MakeMap:
		for _, ref := range *x.Referrers() {
			if mu, ok := ref.(*ssa.MapUpdate); ok && mu.Map == ssa.Value(x) {
				add(mu.Key, mu.Value)
			}
		}
	case *ssa.MakeSlice:
		add(x.Len)
		add(s.addrSources(x)...)
	case *ssa.MakeClosure:
		add(x.Bindings...)
	case *ssa.Call:
		add(s.callDep(x, -1, out)...)
	case *ssa.Range:
		add(x.X)
	case *ssa.Next:
		add(x.Iter)
	default:
		unknown(fmt.Sprintf("%T", v))
	}
	return next
}

// addrSources: the values stored through an address (and through element/field addresses derived from it).
func (s *c12nSlicer) addrSources(a ssa.Value) []ssa.Value {
	var out []ssa.Value
	refs := a.Referrers()
	if refs == nil {
		return nil
	}
	for _, ref := range *refs {
		switch r := ref.(type) {
		case *ssa.Store:
			if r.Addr == a {
				out = append(out, r.Val)
			}
		case *ssa.IndexAddr:
			if r.X == a {
				out = append(out, s.addrSources(r)...)
				if !s.noIndex {
					out = append(out, r.Index)
				}
			}
		case *ssa.FieldAddr:
			if r.X == a {
				out = append(out, s.addrSources(r)...)
			}
		}
	}
	return out
}

// callDep: what result idx (-1: any) of a call depends on.
func (s *c12nSlicer) callDep(call *ssa.Call, idx int, out *c12nDep) (next []ssa.Value) {
	cc := &call.Call
	if b, ok := cc.Value.(*ssa.Builtin); ok {
		switch b.Name() {
		case "len", "cap", "append", "min", "max", "copy":
			return append(next, cc.Args...)
		}
		if out.unknown == "" {
			out.unknown = "builtin " + b.Name()
		}
		return nil
	}
	next = append(next, cc.Args...)
	if cc.IsInvoke() {
		return append(next, cc.Value) // a method of a value: depends on the receiver and the arguments
	}
	sc := cc.StaticCallee()
	if sc == nil {
		if mc, ok := cc.Value.(*ssa.MakeClosure); ok {
			sc, _ = mc.Fn.(*ssa.Function)
			next = append(next, mc)
		}
	}
	if sc == nil {
		if out.unknown == "" {
			out.unknown = "call of a function value"
		}
		return append(next, cc.Value)
	}
	if !s.inPkg(sc) {
		return next // library function: a function of its arguments
	}
	for _, r := range an.Returns(sc) {
		for i, rv := range r.Results {
			if idx < 0 || i == idx {
				next = append(next, rv)
			}
		}
	}
	return next
}

// c12nMaps resolves a map value to the MakeMap instructions it may be (nil, false when not closed).
func (s *c12nSlicer) mapsOf(v ssa.Value, seen map[ssa.Value]bool, d int) ([]*ssa.MakeMap, bool) {
	if seen[v] || d > 12 {
		return nil, true
	}
	seen[v] = true
	v = an.Resolve(v)
	switch x := v.(type) {
	case *ssa.MakeMap:
		return []*ssa.MakeMap{x}, true
	case *ssa.Const:
		return nil, true // nil map
	case *ssa.Phi:
		var out []*ssa.MakeMap
		for _, e := range x.Edges {
			m, ok := s.mapsOf(e, seen, d+1)
			if !ok {
				return nil, false
			}
			out = append(out, m...)
		}
		return out, true
	case *ssa.Extract:
		call, ok := x.Tuple.(*ssa.Call)
		if !ok {
			return nil, false
		}
		return s.mapsOfCall(call, x.Index, seen, d)
	case *ssa.Call:
		return s.mapsOfCall(x, 0, seen, d)
	case *ssa.Parameter:
		var out []*ssa.MakeMap
		fn := x.Parent()
		n := 0
		for pi, p := range fn.Params {
			if p != x {
				continue
			}
			for _, g := range s.fns {
				for _, in := range an.Instrs(g, false) {
					ci, ok := in.(ssa.CallInstruction)
					if !ok || an.Orig(ci.Common().StaticCallee()) != an.Orig(fn) || pi >= len(ci.Common().Args) {
						continue
					}
					n++
					m, ok := s.mapsOf(ci.Common().Args[pi], seen, d+1)
					if !ok {
						return nil, false
					}
					out = append(out, m...)
				}
			}
		}
		return out, n > 0
	case *ssa.UnOp:
		if x.Op == token.MUL {
			var out []*ssa.MakeMap
			srcs := s.addrSources(x.X)
			if len(srcs) == 0 {
				return nil, false
			}
			for _, w := range srcs {
				m, ok := s.mapsOf(w, seen, d+1)
				if !ok {
					return nil, false
				}
				out = append(out, m...)
			}
			return out, true
		}
	case *ssa.FreeVar:
		fn := x.Parent()
		if fn.Parent() == nil {
			return nil, false
		}
		var out []*ssa.MakeMap
		n := 0
		for fi, fv := range fn.FreeVars {
			if fv != x {
				continue
			}
			for _, in := range an.Instrs(fn.Parent(), false) {
				if mc, ok := in.(*ssa.MakeClosure); ok && mc.Fn == ssa.Value(fn) && fi < len(mc.Bindings) {
					n++
					m, ok := s.mapsOf(mc.Bindings[fi], seen, d+1)
					if !ok {
						return nil, false
					}
					out = append(out, m...)
				}
			}
		}
		return out, n > 0
	case *ssa.Alloc:
		var out []*ssa.MakeMap
		srcs := s.addrSources(x)
		if len(srcs) == 0 {
			return nil, false
		}
		for _, w := range srcs {
			m, ok := s.mapsOf(w, seen, d+1)
			if !ok {
				return nil, false
			}
			out = append(out, m...)
		}
		return out, true
	}
	return nil, false
}

func (s *c12nSlicer) mapsOfCall(call *ssa.Call, idx int, seen map[ssa.Value]bool, d int) ([]*ssa.MakeMap, bool) {
	sc := call.Call.StaticCallee()
	if sc == nil {
		if mc, ok := call.Call.Value.(*ssa.MakeClosure); ok {
			sc, _ = mc.Fn.(*ssa.Function)
		}
	}
	if !s.inPkg(sc) {
		return nil, false
	}
	var out []*ssa.MakeMap
	for _, r := range an.Returns(sc) {
		if idx >= len(r.Results) {
			return nil, false
		}
		m, ok := s.mapsOf(r.Results[idx], seen, d+1)
		if !ok {
			return nil, false
		}
		out = append(out, m...)
	}
	return out, true
}

// updatesOf: every MapUpdate into mk, also through in-package callees / closures that receive it.
func (s *c12nSlicer) updatesOf(v ssa.Value, seen map[ssa.Value]bool) (ups []*ssa.MapUpdate, closed bool) {
	closed = true
	if seen[v] {
		return
	}
	seen[v] = true
	refs := v.Referrers()
	if refs == nil {
		return
	}
	for _, ref := range *refs {
		switch r := ref.(type) {
		case *ssa.MapUpdate:
			if r.Map == v {
				ups = append(ups, r)
			}
		case *ssa.Phi:
			u, c := s.updatesOf(r, seen)
			ups, closed = append(ups, u...), closed && c
		case *ssa.Store:
			if r.Val == v {
				if al, ok := r.Addr.(*ssa.Alloc); ok {
					for _, ar := range *al.Referrers() {
						if ld, ok := ar.(*ssa.UnOp); ok && ld.Op == token.MUL {
							u, c := s.updatesOf(ld, seen)
							ups, closed = append(ups, u...), closed && c
						}
						if mc, ok := ar.(*ssa.MakeClosure); ok {
							fn := mc.Fn.(*ssa.Function)
							for i, b := range mc.Bindings {
								if b == ssa.Value(al) && i < len(fn.FreeVars) {
									for _, fr := range *fn.FreeVars[i].Referrers() {
										if ld, ok := fr.(*ssa.UnOp); ok && ld.Op == token.MUL {
											u, c := s.updatesOf(ld, seen)
											ups, closed = append(ups, u...), closed && c
										}
									}
								}
							}
						}
					}
				}
			}
		case ssa.CallInstruction:
			cc := r.Common()
			sc := cc.StaticCallee()
			if sc == nil || !s.inPkg(sc) {
				continue // library callees (len, RecoverSecret, maps.*) are not taken to insert share entries
			}
			for i, a := range cc.Args {
				if a == v && i < len(sc.Params) {
					u, c := s.updatesOf(sc.Params[i], seen)
					ups, closed = append(ups, u...), closed && c
				}
			}
		case *ssa.MakeClosure:
			fn := r.Fn.(*ssa.Function)
			for i, b := range r.Bindings {
				if b == v && i < len(fn.FreeVars) {
					u, c := s.updatesOf(fn.FreeVars[i], seen)
					ups, closed = append(ups, u...), closed && c
				}
			}
		}
	}
	return
}

func c12nShareIdx(c *rt.Ctx) {
	sp := c.SSAPkg("cmd/combine")
	if sp == nil {
		c.Bail("package cmd/combine not found")
	}
	fns := an.PkgFuncs(sp)
	sl := &c12nSlicer{pkg: sp, fns: fns, loops: map[*ssa.Function][]*an.Loop{}}
	nCalls := 0
	for _, fn := range fns {
		if strings.HasSuffix(c.P.Fset.Position(fn.Pos()).Filename, "_test.go") {
			continue
		}
		for _, in := range an.Instrs(fn, false) {
			call, ok := in.(*ssa.Call)
			if !ok || !an.Static("tbls.RecoverSecret")(&call.Call) || len(call.Call.Args) < 1 {
				continue
			}
			nCalls++
			name := an.FuncName(fn) + " share indices of tbls.RecoverSecret"
			maps, ok := sl.mapsOf(call.Call.Args[0], map[ssa.Value]bool{}, 0)
			if !ok || len(maps) == 0 {
				c.Unsure(name, call.Pos(), "the share map handed to tbls.RecoverSecret cannot be traced back to the place it is built")
				continue
			}
			for _, mk := range maps {
				ups, closed := sl.updatesOf(mk, map[ssa.Value]bool{})
				if len(ups) == 0 {
					c.Unsure(name, mk.Pos(), "no insertion into the share map found")
					continue
				}
				_ = closed
				for _, up := range ups {
					c12nJudgeKey(c, sl, name, up)
				}
			}
		}
	}
	if nCalls == 0 {
		c.Bail("no call of tbls.RecoverSecret in cmd/combine")
	}
}

func c12nJudgeKey(c *rt.Ctx, sl *c12nSlicer, name string, up *ssa.MapUpdate) {
	sl.noIndex = false
	kd := sl.dep(up.Key, 0)
	if kd.lock {
		c.Good(name, up.Pos(), "key derives from DistValidator.PubShares")
		return
	}
	// (b) a guarding test selects from a PubShares-derived collection at a position variable of the key
	fn := up.Parent()
	ctl := map[*ssa.BasicBlock]bool{}
	for _, b := range fn.Blocks {
		if b.Dominates(up.Block()) && b != up.Block() {
			ctl[b] = true
		}
	}
	for _, l := range sl.loopsOf(fn) {
		if l.Body[up.Block()] {
			for b := range l.Body {
				ctl[b] = true
			}
		}
	}
	// the position variables the key is computed from directly (not through loop bounds)
	sl.noBound, sl.arith = true, true
	kdir := sl.dep(up.Key, 0)
	sl.noBound, sl.arith = false, false
	around := map[*ssa.BasicBlock]bool{} // headers of the loops around the insertion
	for _, l := range sl.loopsOf(fn) {
		if l.Body[up.Block()] {
			around[l.Header] = true
		}
	}
	bound := false
	var visit func(v ssa.Value, seen map[ssa.Value]bool, d int)
	visit = func(v ssa.Value, seen map[ssa.Value]bool, d int) {
		if v == nil || seen[v] || d > 25 || bound {
			return
		}
		seen[v] = true
		var coll, idx ssa.Value
		switch x := v.(type) {
		case *ssa.Index:
			coll, idx = x.X, x.Index
		case *ssa.IndexAddr:
			coll, idx = x.X, x.Index
		case *ssa.Lookup:
			coll, idx = x.X, x.Index
		}
		if coll != nil {
			sl.noIndex = false
			cd := sl.dep(coll, 0)
			sl.noIndex, sl.noBound = true, true
			id := sl.dep(idx, 0)
			sl.noIndex, sl.noBound = false, false
			if cd.lock {
				for src := range id.srcs {
					if phi, isPhi := src.(*ssa.Phi); isPhi && kdir.srcs[src] && phi.Parent() == fn && around[phi.Block()] {
						bound = true
						return
					}
				}
			}
		}
		if in, ok := v.(ssa.Instruction); ok {
			for _, op := range an.Operands(in) {
				visit(op, seen, d+1)
			}
		}
		if ld, ok := v.(*ssa.UnOp); ok && ld.Op == token.MUL {
			for _, w := range sl.addrSources(ld.X) {
				visit(w, seen, d+1)
			}
		}
	}
	for b := range ctl {
		if iff, ok := b.Instrs[len(b.Instrs)-1].(*ssa.If); ok {
			visit(iff.Cond, map[ssa.Value]bool{}, 0)
		}
	}
	if bound {
		c.Good(name, up.Pos(), "key position is matched against DistValidator.PubShares by a guarding test")
		return
	}
	if kd.unknown != "" {
		c.Unsure(name, up.Pos(), "the share index is computed from a source the rule cannot follow ("+kd.unknown+")")
		return
	}
	var from []string
	fromSeen := map[string]bool{}
	for src := range kdir.srcs {
		switch x := src.(type) {
		case *ssa.Parameter:
			from = append(from, "parameter "+x.Name())
		case *ssa.Phi:
			if x.Comment != "" {
				from = append(from, "loop/branch variable "+x.Comment)
			} else {
				from = append(from, "a loop/branch variable")
			}
		default:
			from = append(from, "a range variable")
		}
	}
	sort.Strings(from)
	uniq := from[:0]
	for _, f := range from {
		if !fromSeen[f] {
			fromSeen[f] = true
			uniq = append(uniq, f)
		}
	}
	from = uniq
	if len(from) == 0 {
		from = []string{"constants"}
	}
	c.Bad(name, up.Pos(), "the share index under which a key share is handed to tbls.RecoverSecret is computed from "+strings.Join(from, ", ")+
		" only; it does not depend on the position of the share's public key in the lock's DistValidator.PubShares")
}
