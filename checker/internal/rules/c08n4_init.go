package rules

import (
	"go/types"
	"strings"

	"golang.org/x/tools/go/ssa"
	"golang.org/x/tools/go/ssa/ssautil"

	"charonverif/internal/an"
	"charonverif/internal/rt"
)

// C08 S3, library initialisation. The herumi library computes nothing (it crashes or works on an unset curve) before
// bls.Init has run. Necessary condition of every clause of the property: on every path from an entry point of the
// implementation (a method of a type of package tbls that implements tbls.Implementation, or an exported function
// of the package) to a call into the bls library, bls.Init has been executed before - by the package initialiser
// (func init / a package variable initialiser), or by an initialising call on the path itself.
//
// Decided on paths, not on shapes:
//   - a function *initialises* when no path from its entry to a return avoids an initialising event; events are
//     a call of bls.Init, a call of a function that initialises, and once.Do(f) for an f that initialises, where
//     `once` is a package variable that is only ever used with functions that initialise;
//   - a function that contains an event on some path only (a hand-rolled `if !ready {..}` guard) *may* initialise:
//     paths through it are UNDECIDED, never a violation;
//   - an entry point is reported when a path from its entry reaches a library call (stepping into in-package
//     callees) without any certain or possible event, and the package initialiser does not initialise.

const c08InitFn = c08BLS + ".Init"

type c08InitWorld struct {
	pkg   *ssa.Package
	funcs []*ssa.Function
	sure  map[*ssa.Function]bool // initialises on every path to a return
	maybe map[*ssa.Function]bool // contains an initialising event somewhere
	// once variables (package globals) that are used with a function that does not initialise
	dirtyOnce map[*ssa.Global]bool
}

// c08IsLibCall: call is a static call into the bls library (function or method); name is the callee.
func c08IsLibCall(cc *ssa.CallCommon) (name string, ok bool) {
	if cc.IsInvoke() {
		return "", false
	}
	f := cc.StaticCallee()
	if f == nil {
		return "", false
	}
	f = an.Orig(f)
	if f.Pkg == nil || f.Pkg.Pkg.Path() != c08BLS {
		return "", false
	}
	return an.FuncName(f), true
}

// c08OnceDo: call is (*sync.Once).Do(f); returns the package variable holding the Once (nil when it is not one)
// and the function executed.
func c08OnceDo(cc *ssa.CallCommon) (once *ssa.Global, f *ssa.Function, ok bool) {
	callee := cc.StaticCallee()
	if callee == nil || cc.IsInvoke() || an.FuncName(callee) != "sync.Once.Do" || len(cc.Args) != 2 {
		return nil, nil, false
	}
	once, _ = cc.Args[0].(*ssa.Global)
	switch x := cc.Args[1].(type) {
	case *ssa.MakeClosure:
		f, _ = x.Fn.(*ssa.Function)
	case *ssa.Function:
		f = x
	}
	return once, f, true
}

// c08CalledFuncs: the in-package functions a call instruction executes before it returns (static callee, a function
// literal called in place).
func (w *c08InitWorld) callee(cc *ssa.CallCommon) *ssa.Function {
	if cc.IsInvoke() {
		return nil
	}
	var f *ssa.Function
	switch x := cc.Value.(type) {
	case *ssa.Function:
		f = x
	case *ssa.MakeClosure:
		f, _ = x.Fn.(*ssa.Function)
	}
	if f == nil {
		return nil
	}
	f = an.Orig(f)
	if f.Pkg != w.pkg || f.Blocks == nil {
		return nil
	}
	return f
}

// event classifies a call: "sure" (the library is initialised when it returns), "maybe", or "".
func (w *c08InitWorld) event(cc *ssa.CallCommon) string {
	if n, ok := c08IsLibCall(cc); ok && n == c08InitFn {
		return "sure"
	}
	if once, f, ok := c08OnceDo(cc); ok {
		switch {
		case f == nil:
			return ""
		case w.sure[f] && once != nil && !w.dirtyOnce[once]:
			return "sure"
		case w.sure[f] || w.maybe[f]:
			return "maybe"
		}
		return ""
	}
	if f := w.callee(cc); f != nil {
		switch {
		case w.sure[f]:
			return "sure"
		case w.maybe[f]:
			return "maybe"
		}
		return ""
	}
	// a call through a package-level function variable (`var initLib = sync.OnceFunc(func() {..})`)
	if ld, ok := cc.Value.(*ssa.UnOp); ok && !cc.IsInvoke() {
		if g, isG := ld.X.(*ssa.Global); isG && g.Pkg == w.pkg {
			f, known := w.globalFunc(g)
			switch {
			case known && f != nil && w.sure[f]:
				return "sure"
			case known && f != nil && !w.maybe[f]:
				return ""
			case known && f == nil:
				return ""
			}
			return "maybe"
		}
	}
	return ""
}

// globalFunc resolves the function held by a package-level variable that is assigned exactly once (its initialiser):
// a function, a function literal, or sync.OnceFunc / OnceValue / OnceValues of one (which run it on the first call and
// have run it when any call returns). known is false when the variable is assigned elsewhere or from something else.
func (w *c08InitWorld) globalFunc(g *ssa.Global) (f *ssa.Function, known bool) {
	if _, isFunc := g.Type().(*types.Pointer).Elem().Underlying().(*types.Signature); !isFunc {
		return nil, true // not a function variable: calling through it is not modelled, and it is no initialiser
	}
	n := 0
	var val ssa.Value
	for _, fn := range w.funcs {
		for _, in := range an.Instrs(fn, false) {
			if st, ok := in.(*ssa.Store); ok && st.Addr == ssa.Value(g) {
				n++
				val = st.Val
			}
		}
	}
	if n != 1 {
		return nil, false
	}
	fnOf := func(v ssa.Value) *ssa.Function {
		switch x := v.(type) {
		case *ssa.Function:
			return x
		case *ssa.MakeClosure:
			h, _ := x.Fn.(*ssa.Function)
			return h
		}
		return nil
	}
	if h := fnOf(val); h != nil {
		return h, true
	}
	if call, ok := val.(*ssa.Call); ok && len(call.Call.Args) == 1 {
		if h := call.Call.StaticCallee(); h != nil && strings.HasPrefix(an.FuncName(an.Orig(h)), "sync.Once") {
			if inner := fnOf(call.Call.Args[0]); inner != nil {
				return inner, true
			}
		}
	}
	return nil, false
}

// walk explores the paths from the entry of fn on which no certain initialising event has happened yet.
// onCall is consulted for every call on such a path (after events are classified); it returns true to stop the search.
// Returns whether a Return of fn is reachable on such a path.
func (w *c08InitWorld) walk(fn *ssa.Function, onCall func(in ssa.CallInstruction, ev string) bool) (reachesReturn, stopped bool) {
	if len(fn.Blocks) == 0 {
		return true, false
	}
	seen := map[*ssa.BasicBlock]bool{}
	var visit func(b *ssa.BasicBlock) bool
	visit = func(b *ssa.BasicBlock) bool {
		if seen[b] {
			return false
		}
		seen[b] = true
		for _, in := range b.Instrs {
			switch x := in.(type) {
			case *ssa.Return:
				reachesReturn = true
			case ssa.CallInstruction:
				if _, isGo := x.(*ssa.Go); isGo {
					continue
				}
				if _, isDefer := x.(*ssa.Defer); isDefer {
					continue // runs at the exit: initialises nothing for the body
				}
				ev := w.event(x.Common())
				if onCall != nil && onCall(x, ev) {
					return true
				}
				if ev == "sure" {
					return false // every continuation of this path is initialised
				}
			}
		}
		for _, s := range b.Succs {
			if visit(s) {
				return true
			}
		}
		return false
	}
	start := fn.Blocks[0]
	if fn.Synthetic != "" && fn.Name() == "init" {
		// the synthesised package initialiser: skip the `if init$guard { return }` prologue
		for _, b := range fn.Blocks {
			for _, in := range b.Instrs {
				if st, ok := in.(*ssa.Store); ok {
					if g, isG := st.Addr.(*ssa.Global); isG && g.Name() == "init$guard" {
						start = b
					}
				}
			}
		}
	}
	stopped = visit(start)
	return reachesReturn, stopped
}

func c08NewInitWorld(c *rt.Ctx) *c08InitWorld {
	pkg := c.SSAPkg("tbls")
	w := &c08InitWorld{pkg: pkg, sure: map[*ssa.Function]bool{}, maybe: map[*ssa.Function]bool{}, dirtyOnce: map[*ssa.Global]bool{}}
	seen := map[*ssa.Function]bool{}
	var add func(f *ssa.Function)
	add = func(f *ssa.Function) {
		if f == nil || seen[f] || f.Blocks == nil || f.Pkg != pkg {
			return
		}
		seen[f] = true
		w.funcs = append(w.funcs, f)
		for _, a := range f.AnonFuncs {
			add(a)
		}
		// declared init functions are only reachable through the synthetic initialiser
		for _, b := range f.Blocks {
			for _, in := range b.Instrs {
				if ci, ok := in.(ssa.CallInstruction); ok {
					if g := ci.Common().StaticCallee(); g != nil {
						add(an.Orig(g))
					}
				}
			}
		}
	}
	for _, f := range an.PkgFuncs(pkg) {
		add(f)
	}
	add(pkg.Func("init"))
	// fixpoint: maybe (some event somewhere), then sure (no event-free path to a return), then once variables
	for changed := true; changed; {
		changed = false
		for _, f := range w.funcs {
			if !w.maybe[f] {
				for _, in := range an.Instrs(f, false) {
					ci, ok := in.(ssa.CallInstruction)
					if !ok {
						continue
					}
					if _, isGo := ci.(*ssa.Go); isGo {
						continue
					}
					ev := w.event(ci.Common())
					if _, f2, isDo := c08OnceDo(ci.Common()); isDo && f2 != nil && (w.maybe[f2] || w.sure[f2]) {
						ev = "maybe"
					}
					if ev != "" {
						w.maybe[f], changed = true, true
						break
					}
				}
			}
		}
	}
	for round := 0; round < 32; round++ {
		// a once variable is clean while every Do on it runs a function that initialises
		w.dirtyOnce = map[*ssa.Global]bool{}
		for _, f := range w.funcs {
			for _, in := range an.Instrs(f, false) {
				if ci, ok := in.(ssa.CallInstruction); ok {
					if once, f2, isDo := c08OnceDo(ci.Common()); isDo && once != nil && (f2 == nil || !w.sure[f2]) {
						w.dirtyOnce[once] = true
					}
				}
			}
		}
		changed := false
		for _, f := range w.funcs {
			if w.sure[f] || !w.maybe[f] {
				continue
			}
			if ret, _ := w.walk(f, nil); !ret {
				w.sure[f], changed = true, true
			}
		}
		if !changed {
			break
		}
	}
	// the dirty set of the last round was computed before the last additions to sure
	w.dirtyOnce = map[*ssa.Global]bool{}
	for _, f := range w.funcs {
		for _, in := range an.Instrs(f, false) {
			if ci, ok := in.(ssa.CallInstruction); ok {
				if once, f2, isDo := c08OnceDo(ci.Common()); isDo && once != nil && (f2 == nil || !w.sure[f2]) {
					w.dirtyOnce[once] = true
				}
			}
		}
	}
	return w
}

// c08Uninit searches a path from the entry of fn to a library call on which the library has not been initialised.
// found: such a call (no event at all on the path); unsure: a path exists but a possible event lies on it.
func (w *c08InitWorld) uninit(fn *ssa.Function, stack map[*ssa.Function]bool) (found ssa.CallInstruction, unsure string) {
	if stack[fn] {
		return nil, ""
	}
	stack[fn] = true
	defer delete(stack, fn)
	w.walk(fn, func(in ssa.CallInstruction, ev string) bool {
		cc := in.Common()
		switch ev {
		case "sure":
			return false
		case "maybe":
			if unsure == "" {
				unsure = "the call of " + an.CalleeName(cc) + " initialises the library on some of its paths only"
			}
			return false
		}
		if n, ok := c08IsLibCall(cc); ok && n != c08InitFn {
			found = in
			return true
		}
		if _, f2, isDo := c08OnceDo(cc); isDo {
			if f2 != nil && f2.Pkg == w.pkg {
				if f, u := w.uninit(f2, stack); f != nil {
					found = f
					return true
				} else if u != "" && unsure == "" {
					unsure = u
				}
			}
			return false
		}
		if g := w.callee(cc); g != nil {
			if f, u := w.uninit(g, stack); f != nil {
				found = f
				return true
			} else if u != "" && unsure == "" {
				unsure = u
			}
		}
		return false
	})
	if found != nil {
		// a possible event earlier on another branch does not excuse this path, but one on the same path might:
		// the walk stops at the first library call found, possible events seen before it make the verdict unsure
		if unsure != "" {
			return nil, unsure
		}
	}
	return found, unsure
}

func c08LibInit(c *rt.Ctx) {
	w := c08NewInitWorld(c)
	pkgInit := w.pkg.Func("init")
	if pkgInit == nil {
		c.Bail("package initialiser of tbls not found")
	}
	// entry points: methods of the implementations, exported functions
	var entries []*ssa.Function
	for _, f := range an.PkgFuncs(w.pkg) {
		if f.Parent() != nil || f.Object() == nil || !f.Object().Exported() {
			continue
		}
		entries = append(entries, f)
	}
	anyInit := false
	for _, f := range w.funcs {
		for _, in := range an.Instrs(f, false) {
			if ci, ok := in.(ssa.CallInstruction); ok {
				if n, isLib := c08IsLibCall(ci.Common()); isLib && n == c08InitFn {
					anyInit = true
				}
			}
		}
	}
	const cons = "library initialised before "
	byInit := w.sure[pkgInit]
	n := 0
	for _, e := range entries {
		// only entry points that statically reach the library
		first := w.firstLibCall(e, map[*ssa.Function]bool{})
		if first == nil {
			continue
		}
		n++
		name := cons + strings.TrimPrefix(an.FuncName(e), "github.com/obolnetwork/charon/")
		switch {
		case byInit:
			c.Good(name, e.Pos(), "the package initialiser runs bls.Init on every path")
		case !anyInit:
			c.Bad(name, first.Pos(), "package tbls never calls bls.Init: "+an.CalleeName(first.Common())+" runs on an uninitialised library")
		default:
			found, unsure := w.uninit(e, map[*ssa.Function]bool{})
			switch {
			case found != nil && w.maybe[pkgInit]:
				c.Unsure(name, found.Pos(), "the package initialiser runs bls.Init on some of its paths only")
			case found != nil && w.callersInitialise(c, e):
				c.Good(name, e.Pos(), "every call of the entry point (the package-level forwarders) is preceded by an initialising call")
			case found != nil:
				c.Bad(name, found.Pos(), an.CalleeName(found.Common())+" is reached from the entry point on a path on which bls.Init has not run: neither the package initialiser nor a call on the path initialises the library "+
					"(the first tbls call of a process crashes inside the library instead of computing its result)")
			case unsure != "":
				c.Unsure(name, e.Pos(), unsure)
			default:
				c.Good(name, e.Pos(), "every path to the library passes an initialising call")
			}
		}
	}
	if n == 0 {
		c.Bail("no entry point of package tbls reaches the bls library")
	}
}

// callersInitialise: entry point e does not initialise the library itself, but every place of the program that calls
// it (statically, or through an interface its receiver implements) lies in package tbls and is only reached after an
// initialising call of its own function (lazy initialisation in the package-level forwarders).
func (w *c08InitWorld) callersInitialise(c *rt.Ctx, e *ssa.Function) bool {
	var recv types.Type
	if e.Signature.Recv() != nil {
		recv = e.Signature.Recv().Type()
	}
	sites := 0
	for g := range ssautil.AllFunctions(c.P.SSA) {
		if g.Blocks == nil || g.Synthetic != "" {
			continue // wrappers and bound-method thunks: their callers are the invoke sites
		}
		for _, b := range g.Blocks {
			for _, in := range b.Instrs {
				ci, ok := in.(ssa.CallInstruction)
				if !ok {
					continue
				}
				cc := ci.Common()
				switch {
				case cc.IsInvoke():
					if recv == nil || cc.Method.Name() != e.Name() {
						continue
					}
					iface, isI := cc.Value.Type().Underlying().(*types.Interface)
					if !isI || !(types.Implements(recv, iface) || types.Implements(types.NewPointer(recv), iface)) {
						continue
					}
				default:
					h := cc.StaticCallee()
					if h == nil || an.Orig(h) != e {
						continue
					}
				}
				sites++
				if an.Orig(g).Pkg != w.pkg {
					return false
				}
				if _, isCall := ci.(*ssa.Call); !isCall {
					return false
				}
				site := ci
				if _, reached := w.walk(g, func(x ssa.CallInstruction, ev string) bool { return x == site }); reached {
					return false
				}
			}
		}
	}
	return sites > 0
}

// firstLibCall: some call into the bls library (other than Init) that fn executes, stepping into in-package callees.
func (w *c08InitWorld) firstLibCall(fn *ssa.Function, seen map[*ssa.Function]bool) ssa.CallInstruction {
	if seen[fn] {
		return nil
	}
	seen[fn] = true
	for _, b := range fn.Blocks {
		for _, in := range b.Instrs {
			ci, ok := in.(ssa.CallInstruction)
			if !ok {
				continue
			}
			cc := ci.Common()
			if n, isLib := c08IsLibCall(cc); isLib {
				if n != c08InitFn {
					return ci
				}
				continue
			}
			if _, f2, isDo := c08OnceDo(cc); isDo {
				if f2 != nil && f2.Pkg == w.pkg {
					if r := w.firstLibCall(f2, seen); r != nil {
						return r
					}
				}
				continue
			}
			if g := w.callee(cc); g != nil {
				if r := w.firstLibCall(g, seen); r != nil {
					return r
				}
			}
		}
	}
	return nil
}
