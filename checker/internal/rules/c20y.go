package rules

import (
	"fmt"
	"go/token"
	"go/types"
	"strings"

	"golang.org/x/tools/go/ssa"

	"charonverif/internal/an"
	"charonverif/internal/rt"
)

// C20-Z4, hit/miss bookkeeping of the three cache entry points, formulated on values and on reachability under
// valuations of the two decisions (epoch cached? missing set empty?) instead of on block shapes:
//
//   M        the slice the beacon node is asked for after a partial hit (value flowing into the request's Indices
//            from the branch taken when the epoch is cached)
//   fast     a return with nil error that can be reached without passing the beacon request
//   (a) fast is unreachable when the epoch is not cached, and unreachable when len(M) != 0
//   (b) M is built by appending, in a complete scan of the request set R, exactly the elements that are not
//       members of P (membership by a comma-ok lookup in a set filled in a complete scan of P, or by
//       slices.Contains / slices.Index on P), possibly inside an in-package helper that receives R and P
//   (c) P is the requestedIdxs the cache returned for the epoch; without a cached epoch the request asks for R;
//       the slice asked for is the slice recorded as requested; one epoch value throughout; the store is
//       reachable only behind the success of the request.

// c20Frame maps values of a followed helper to the values of the entry point.
type c20Frame struct {
	params map[*ssa.Parameter]ssa.Value
}

func (f *c20Frame) toCaller(v ssa.Value) ssa.Value {
	for i := 0; i < 4; i++ {
		v = an.Unwrap(v)
		p, ok := v.(*ssa.Parameter)
		if !ok {
			return v
		}
		a, bound := f.params[p]
		if !bound {
			return v
		}
		v = a
	}
	return v
}

// c20SameVar: a and b are the same value, or loads of the same variable with no assignment in between.
func c20SameVar(a, b ssa.Value) bool {
	a, b = an.Unwrap(a), an.Unwrap(b)
	if a == b {
		return true
	}
	la, ok1 := a.(*ssa.UnOp)
	lb, ok2 := b.(*ssa.UnOp)
	if !ok1 || !ok2 || la.Op != token.MUL || lb.Op != token.MUL {
		return false
	}
	ca, cb := c19Cell(la.X), c19Cell(lb.X)
	al, isAl := ca.(*ssa.Alloc)
	if !isAl || ca != cb || la.Parent() != lb.Parent() {
		return false
	}
	first, second := ssa.Instruction(la), ssa.Instruction(lb)
	if !an.InstrReaches(first, second) {
		first, second = second, first
	}
	for _, ref := range *al.Referrers() {
		switch r := ref.(type) {
		case *ssa.Store:
			if r.Addr == ssa.Value(al) && an.InstrReaches(first, r) && an.InstrReaches(r, second) {
				return false
			}
		case *ssa.MakeClosure:
			// captured: a closure may assign it; only literals that are certainly not called in between are tolerated
			if cl, ok := r.Fn.(*ssa.Function); ok {
				for i, bnd := range r.Bindings {
					if bnd == ssa.Value(al) && i < len(cl.FreeVars) && len(c19StoresTo(cl.FreeVars[i], 0)) > 0 {
						return false
					}
				}
			}
		}
	}
	return true
}

// c20Membership is a test `elem ∈ source` found in the body of the scan over the request set.
type c20Membership struct {
	cond    ssa.Value // boolean SSA value
	present bool      // truth of cond that means "is a member"
	source  ssa.Value // the list the membership refers to (in the frame of the function containing the test)
	why     string    // non-empty: the membership set is not built soundly
}

// c20FilledFrom: set is a locally made map that is filled, before loop `before` starts, with every element of
// one scanned list and not modified otherwise; returns that list.
func c20FilledFrom(fn *ssa.Function, set ssa.Value, before *an.Loop) (ssa.Value, string) {
	set = an.Unwrap(set)
	if os := c19Origins(set); len(os) == 1 {
		set = os[0]
	}
	if call, isCall := set.(*ssa.Call); isCall {
		return c20FilledByHelper(fn, call)
	}
	mm, ok := set.(*ssa.MakeMap)
	if !ok {
		return nil, "?the set the requested indices are looked up in is neither a locally built map nor the result of a helper of the package that builds one"
	}
	return c20FilledMap(fn, mm, before, nil)
}

// c20FilledByHelper: the set is the single result of an in-package helper that builds a map from a complete scan of
// one of its parameters (`indexSet(list)`); the result is only read in the caller. Returns the argument bound to
// that parameter.
func c20FilledByHelper(fn *ssa.Function, call *ssa.Call) (ssa.Value, string) {
	const notFollowed = "?the set the requested indices are looked up in is produced by a call that is not followed"
	h := an.Orig(call.Call.StaticCallee())
	if call.Call.IsInvoke() || h == nil || h.Pkg != fn.Pkg || len(h.Blocks) == 0 || len(h.Params) != len(call.Call.Args) ||
		h.Signature.Results().Len() != 1 {
		return nil, notFollowed
	}
	for _, ref := range *call.Referrers() {
		switch r := ref.(type) {
		case *ssa.Lookup, *ssa.DebugRef:
		case *ssa.Store:
			// kept in a local (read back through c19Origins)
			if r.Val != ssa.Value(call) {
				return nil, "the set of already requested indices is modified or handed out before use"
			}
		case *ssa.Call:
			if bi, ok := r.Call.Value.(*ssa.Builtin); !ok || bi.Name() != "len" {
				return nil, "the set of already requested indices is modified or handed out before use"
			}
		default:
			return nil, "the set of already requested indices is modified or handed out before use"
		}
	}
	var src ssa.Value
	rets := an.Returns(h)
	if len(rets) == 0 {
		return nil, notFollowed
	}
	for _, r := range rets {
		vals := c20RetVals(r)
		if len(vals) != 1 {
			return nil, notFollowed
		}
		v := an.Unwrap(vals[0])
		if os := c19Origins(v); len(os) == 1 {
			v = os[0]
		}
		mm, ok := v.(*ssa.MakeMap)
		if !ok {
			return nil, notFollowed
		}
		s, why := c20FilledMap(h, mm, nil, r)
		if why != "" {
			return nil, why
		}
		p, isParam := an.Unwrap(s).(*ssa.Parameter)
		if !isParam {
			if os := c19Origins(s); len(os) == 1 {
				p, isParam = os[0].(*ssa.Parameter)
			}
		}
		if !isParam {
			return nil, "?the helper that builds the set of already requested indices does not fill it from one of its parameters"
		}
		idx := -1
		for i, hp := range h.Params {
			if hp == p {
				idx = i
			}
		}
		if idx < 0 {
			return nil, notFollowed
		}
		arg := call.Call.Args[idx]
		if src != nil && !c20SameVar(src, arg) {
			return nil, "the set of already requested indices is filled from more than one list"
		}
		src = arg
	}
	return src, ""
}

// c20FilledMap: the locally made map mm is filled with every element of one scanned list, the scan being complete
// before loop `before` starts (or before return `ret`), and is not modified otherwise; returns that list.
func c20FilledMap(fn *ssa.Function, mm *ssa.MakeMap, before *an.Loop, ret *ssa.Return) (ssa.Value, string) {
	var src ssa.Value
	nUp := 0
	uses, uwhy := c20MapUses(mm)
	if uwhy != "" {
		return nil, uwhy
	}
	for _, ref := range uses {
		switch r := ref.(type) {
		case *ssa.MapUpdate:
			nUp++
			if r.Parent() != fn {
				return nil, "?the set of already requested indices is filled inside a function literal, which is not followed"
			}
			l2 := an.InnermostLoop(fn, r.Block())
			switch {
			case l2 == nil || !c19LoopElem(l2, r.Key):
				return nil, "the set of already requested indices receives a key that is not an element of a scanned list"
			case !c20LoopClosed(l2) || !c19LoopFromStart(l2):
				return nil, "the scan of the stored requestedIdxs can stop early"
			case before != nil && (!l2.Header.Dominates(before.Header) || l2.Body[before.Header]):
				return nil, "the set of already requested indices is not complete before the requested indices are examined"
			case ret != nil && (!l2.Header.Dominates(ret.Block()) || l2.Body[ret.Block()]):
				return nil, "the set of already requested indices is not complete before the requested indices are examined"
			}
			for _, la := range l2.Latches {
				if !r.Block().Dominates(la) {
					return nil, "some stored requested index can be skipped when the set is built"
				}
			}
			if src != nil && src != l2.RangeColl() {
				return nil, "the set of already requested indices is filled from more than one list"
			}
			src = l2.RangeColl()
		case *ssa.Lookup, *ssa.DebugRef:
		case *ssa.Return:
			if r != ret {
				return nil, "the set of already requested indices is modified or handed out before use"
			}
		case *ssa.Store:
			// the result slot of a function with defers, or a local the map is kept in (its loads are among the uses)
			if _, isAl := r.Addr.(*ssa.Alloc); !isAl || r.Val != ssa.Value(mm) {
				return nil, "the set of already requested indices is modified or handed out before use"
			}
		case *ssa.Call:
			if bi, ok := r.Call.Value.(*ssa.Builtin); !ok || bi.Name() != "len" {
				return nil, "the set of already requested indices is modified or handed out before use"
			}
		default:
			return nil, "the set of already requested indices is modified or handed out before use"
		}
	}
	if nUp == 0 {
		return nil, "the set of already requested indices is never filled"
	}
	return src, ""
}

// c20MapUses lists the instructions using the map made by mm: its direct referrers and, when the map is kept in a
// variable that is assigned once (a local captured by a function literal becomes such a cell), the users of every
// load of that variable, in the declaring function and in the literals capturing it.
func c20MapUses(mm *ssa.MakeMap) ([]ssa.Instruction, string) {
	var out []ssa.Instruction
	var cells []ssa.Value
	for _, ref := range *mm.Referrers() {
		out = append(out, ref)
		if st, ok := ref.(*ssa.Store); ok && st.Val == ssa.Value(mm) {
			if al, isAl := st.Addr.(*ssa.Alloc); isAl {
				if len(c19StoresTo(al, 0)) != 1 {
					return nil, "?the variable holding the set of already requested indices is assigned more than once"
				}
				cells = append(cells, al)
			}
		}
	}
	seen := map[ssa.Value]bool{}
	for len(cells) > 0 {
		cell := cells[0]
		cells = cells[1:]
		if seen[cell] || cell.Referrers() == nil {
			continue
		}
		seen[cell] = true
		for _, ref := range *cell.Referrers() {
			switch r := ref.(type) {
			case *ssa.UnOp:
				if r.Op == token.MUL && r.Referrers() != nil {
					out = append(out, *r.Referrers()...)
				}
			case *ssa.MakeClosure:
				if cl, ok := r.Fn.(*ssa.Function); ok {
					for i, b := range r.Bindings {
						if b == cell && i < len(cl.FreeVars) {
							cells = append(cells, cl.FreeVars[i])
						}
					}
				}
			case *ssa.Store, *ssa.DebugRef:
			default:
				return nil, "?the variable holding the set of already requested indices is used in a form that is not followed"
			}
		}
	}
	return out, ""
}

// c20HelperMembership: call is a call, inside the scan of the request set, of a boolean helper of the package (a
// function or a function literal) that receives the examined element and tests its membership by a comma-ok lookup
// or slices.Contains on its parameter; the helper's result is that test or its negation on every path.
func c20HelperMembership(fn *ssa.Function, l *an.Loop, call *ssa.Call, isElem func(ssa.Value) bool) (c20Membership, bool) {
	var h *ssa.Function
	if os := c19Origins(call.Call.Value); len(os) == 1 {
		switch f := os[0].(type) {
		case *ssa.Function:
			h = f
		case *ssa.MakeClosure:
			h, _ = f.Fn.(*ssa.Function)
		}
	}
	h = an.Orig(h)
	if call.Call.IsInvoke() || h == nil || len(h.Blocks) == 0 || h.Pkg != fn.Pkg || len(h.Params) != len(call.Call.Args) ||
		h.Signature.Results().Len() != 1 || !types.Identical(h.Signature.Results().At(0).Type().Underlying(), types.Typ[types.Bool]) {
		return c20Membership{}, false
	}
	pi := -1
	for i, a := range call.Call.Args {
		if isElem(a) {
			pi = i
		}
	}
	if pi < 0 {
		return c20Membership{}, false
	}
	p := h.Params[pi]
	isP := func(v ssa.Value) bool { return c19Only(v, p) }
	toCaller := func(v ssa.Value) ssa.Value {
		if os := c19Origins(v); len(os) == 1 {
			if q, ok := os[0].(*ssa.Parameter); ok {
				for i, hp := range h.Params {
					if hp == q {
						return call.Call.Args[i]
					}
				}
			}
			return os[0]
		}
		return v
	}
	type inner struct {
		cond    ssa.Value
		present bool
		source  ssa.Value
		set     ssa.Value
	}
	var tests []inner
	for _, in := range an.Instrs(h, false) {
		switch x := in.(type) {
		case *ssa.Lookup:
			if !x.CommaOk || !an.IsMapType(x.X.Type()) || !isP(x.Index) {
				continue
			}
			for _, ref := range *x.Referrers() {
				if ex, ok := ref.(*ssa.Extract); ok && ex.Index == 1 {
					tests = append(tests, inner{cond: ex, present: true, set: toCaller(x.X)})
				}
			}
		case *ssa.Call:
			f := x.Call.StaticCallee()
			if f != nil && len(x.Call.Args) == 2 && isP(x.Call.Args[1]) && an.FuncName(f) == "slices.Contains" {
				tests = append(tests, inner{cond: x, present: true, source: toCaller(x.Call.Args[0])})
			}
		}
	}
	if len(tests) != 1 {
		return c20Membership{}, false
	}
	t := tests[0]
	// polarity of the helper's result with respect to the inner test
	var res [2]map[string]bool
	for i, truth := range []bool{false, true} {
		w := &c19Walker{atom: func(_ *c19Walker, v ssa.Value) (int, bool, bool) {
			if v == t.cond {
				return 0, false, true
			}
			return 0, false, false
		}, val: []bool{truth}}
		w.ret = func(r *ssa.Return, w *c19Walker) string {
			vals := c19RetVals(r)
			if len(vals) != 1 {
				return "?"
			}
			if b, ok := w.eval(vals[0], 0); ok {
				if b {
					return "true"
				}
				return "false"
			}
			return "?"
		}
		w.run(h.Blocks[0], nil)
		res[i] = w.out
	}
	mb := c20Membership{cond: call}
	switch {
	case c19Is1(res[1], "true") && c19Is1(res[0], "false"):
		mb.present = t.present
	case c19Is1(res[1], "false") && c19Is1(res[0], "true"):
		mb.present = !t.present
	default:
		return c20Membership{}, false
	}
	if t.set != nil {
		mb.source, mb.why = c20FilledFrom(fn, t.set, l)
	} else {
		mb.source = t.source
	}
	return mb, true
}

// c20Memberships lists the membership tests of elem inside loop l.
func c20Memberships(fn *ssa.Function, l *an.Loop, elem ssa.Value) []c20Membership {
	var out []c20Membership
	isElem := func(v ssa.Value) bool {
		if an.Equiv(v, elem) || c20SameVar(v, elem) {
			return true
		}
		// two reads of the element of the current iteration (`xs[i]` spelled twice)
		_, isSlice := l.RangeColl().Type().Underlying().(*types.Slice)
		return isSlice && types.Identical(v.Type(), elem.Type()) && c19LoopElem(l, v) && c19LoopElem(l, elem)
	}
	for _, in := range an.Instrs(fn, false) {
		if !l.Body[in.Block()] {
			continue
		}
		switch x := in.(type) {
		case *ssa.Lookup:
			if !x.CommaOk || !an.IsMapType(x.X.Type()) || !isElem(x.Index) {
				continue
			}
			for _, ref := range *x.Referrers() {
				if ex, ok := ref.(*ssa.Extract); ok && ex.Index == 1 {
					src, why := c20FilledFrom(fn, x.X, l)
					out = append(out, c20Membership{cond: ex, present: true, source: src, why: why})
				}
			}
		case *ssa.Call:
			if _, isB := x.Call.Value.(*ssa.Builtin); !isB && !x.Call.IsInvoke() {
				if mb, ok := c20HelperMembership(fn, l, x, isElem); ok {
					out = append(out, mb)
					continue
				}
			}
			f := x.Call.StaticCallee()
			if f == nil || len(x.Call.Args) != 2 || !isElem(x.Call.Args[1]) {
				continue
			}
			switch an.FuncName(f) {
			case "slices.Contains":
				out = append(out, c20Membership{cond: x, present: true, source: x.Call.Args[0]})
			case "slices.Index":
				// idx >= 0 / idx != -1 / idx > -1 mean present; idx < 0 / idx == -1 mean absent
				for _, ref := range *x.Referrers() {
					bin, ok := ref.(*ssa.BinOp)
					if !ok {
						continue
					}
					op, other := bin.Op, bin.Y
					if bin.Y == ssa.Value(x) {
						op, other = c20Flip(bin.Op), bin.X
					}
					k, isK := an.ConstInt(other)
					if !isK {
						continue
					}
					switch {
					case (op == token.GEQ && k == 0) || (op == token.GTR && k == -1) || (op == token.NEQ && k == -1):
						out = append(out, c20Membership{cond: bin, present: true, source: x.Call.Args[0]})
					case (op == token.LSS && k == 0) || (op == token.LEQ && k == -1) || (op == token.EQL && k == -1):
						out = append(out, c20Membership{cond: bin, present: false, source: x.Call.Args[0]})
					}
				}
			}
		}
	}
	return out
}

// c20IterOutcome walks one iteration of loop l under the walker produced by mk and reports whether block mark
// is executed: outcomes "yes" / "no" (and "?..." when the body cannot be followed).
func c20IterOutcome(l *an.Loop, w *c19Walker, mark *ssa.BasicBlock) map[string]bool {
	var body *ssa.BasicBlock
	for _, s := range l.Header.Succs {
		if l.Body[s] && s != l.Header {
			body = s
		}
	}
	if body == nil {
		return map[string]bool{"?no loop body": true}
	}
	w.stop = func(b *ssa.BasicBlock, w *c19Walker) (string, bool) {
		if b == l.Header {
			for _, pb := range w.path {
				if pb == mark {
					return "yes", true
				}
			}
			return "no", true
		}
		if !l.Body[b] {
			return "?leaves the loop", true
		}
		return "", false
	}
	w.ret = func(*ssa.Return, *c19Walker) string { return "?returns inside the loop" }
	w.run(body, l.Header)
	return w.out
}

// c20Missing is the verdict on the provenance of the missing set.
type c20Missing struct {
	vals    map[ssa.Value]bool // the values (in the entry point) that denote the missing set
	reqSet  ssa.Value          // R, in the entry point's frame
	prev    ssa.Value          // P, in the entry point's frame
	bad     string             // missing != R minus members
	prevBad string             // membership set not built soundly
	unsure  string
	nothing bool // nothing is ever added
}

// c20MissingProvenance follows M backwards through phis and appends (and into an in-package helper that returns it).
func c20MissingProvenance(fn *ssa.Function, m ssa.Value) c20Missing {
	res := c20Missing{vals: map[ssa.Value]bool{}}
	type site struct {
		ap    *ssa.Call
		frame *c20Frame
	}
	var appends []site
	seen := map[ssa.Value]bool{}
	top := &c20Frame{params: map[*ssa.Parameter]ssa.Value{}}
	var walk func(v ssa.Value, fr *c20Frame, depth int)
	walk = func(v ssa.Value, fr *c20Frame, depth int) {
		if seen[v] {
			return
		}
		seen[v] = true
		if fr == top {
			res.vals[v] = true
		}
		switch x := v.(type) {
		case *ssa.Phi:
			for _, e := range x.Edges {
				walk(e, fr, depth)
			}
		case *ssa.Const:
			if x.Value != nil {
				res.unsure = "missing set starts from a non-empty constant"
			}
		case *ssa.MakeSlice:
			if n, ok := an.ConstInt(x.Len); !ok || n != 0 {
				res.unsure = "missing set starts from a non-empty slice"
			}
		case *ssa.Slice:
			// s[:0] of the same family, or the empty literal `[]T{}`
			if c20EmptySliceLit(x) {
				return
			}
			res.unsure = "missing set is a sub-slice that is not followed"
		case *ssa.ChangeType:
			walk(x.X, fr, depth)
		case *ssa.Extract:
			call, ok := x.Tuple.(*ssa.Call)
			if !ok {
				res.unsure = fmt.Sprintf("missing set has an origin that is not followed (%T)", x.Tuple)
				return
			}
			h := an.Orig(call.Call.StaticCallee())
			if call.Call.IsInvoke() || h == nil || h.Pkg != fn.Pkg || len(h.Blocks) == 0 || depth >= 2 || len(h.Params) != len(call.Call.Args) {
				res.unsure = "missing set is produced by a call that is not followed"
				return
			}
			nf := &c20Frame{params: map[*ssa.Parameter]ssa.Value{}}
			for i, p := range h.Params {
				nf.params[p] = fr.toCaller(call.Call.Args[i])
			}
			for _, r := range an.Returns(h) {
				vals := c20RetVals(r)
				if x.Index < len(vals) {
					walk(vals[x.Index], nf, depth+1)
				}
			}
		case *ssa.Call:
			if bi, ok := x.Call.Value.(*ssa.Builtin); ok && bi.Name() == "append" {
				appends = append(appends, site{x, fr})
				walk(x.Call.Args[0], fr, depth)
				return
			}
			h := an.Orig(x.Call.StaticCallee())
			if x.Call.IsInvoke() || h == nil || h.Pkg != fn.Pkg || len(h.Blocks) == 0 || depth >= 2 || len(h.Params) != len(x.Call.Args) ||
				h.Signature.Results().Len() != 1 {
				res.unsure = "missing set is produced by a call that is not followed"
				return
			}
			nf := &c20Frame{params: map[*ssa.Parameter]ssa.Value{}}
			for i, p := range h.Params {
				nf.params[p] = fr.toCaller(x.Call.Args[i])
			}
			for _, r := range an.Returns(h) {
				if vals := c20RetVals(r); len(vals) == 1 {
					walk(vals[0], nf, depth+1)
				}
			}
		case *ssa.UnOp:
			if x.Op == token.MUL {
				if al, ok := c19Cell(x.X).(*ssa.Alloc); ok {
					st := c19StoresTo(al, 0)
					if len(st) > 0 {
						for _, sv := range st {
							walk(sv, fr, depth)
						}
						return
					}
				}
			}
			res.unsure = "missing set is read from memory that is not followed"
		default:
			res.unsure = fmt.Sprintf("missing set has an origin that is not followed (%T)", v)
		}
	}
	walk(m, top, 0)
	if res.unsure != "" {
		return res
	}
	if len(appends) == 0 {
		res.nothing = true
		return res
	}
	fail := func(w string) {
		if res.bad == "" {
			res.bad = w
		}
	}
	prevFail := func(w string) {
		if res.prevBad == "" {
			res.prevBad = w
		}
	}
	for _, s := range appends {
		ap, fr := s.ap, s.frame
		f := ap.Parent()
		elems := appendedElems(ap)
		l := an.InnermostLoop(f, ap.Block())
		if len(elems) != 1 || l == nil || !c19LoopElem(l, elems[0]) {
			fail("an index is added to the missing set that is not the index currently examined")
			continue
		}
		if !c20LoopClosed(l) || !c19LoopFromStart(l) {
			fail("the loop over the requested indices can stop early")
		}
		rs := fr.toCaller(l.RangeColl())
		if res.reqSet != nil && !c20SameVar(res.reqSet, rs) {
			fail("missing indices are collected from different request sets")
		}
		res.reqSet = rs
		// the element is appended exactly when it is not a member
		elem := elems[0]
		if ld, ok := an.Unwrap(elem).(*ssa.UnOp); ok && ld.Op == token.MUL {
			// the element read through its address: compare by the loop element it denotes
			elem = ld
		}
		ms := c20Memberships(f, l, elem)
		// absence of a recognised lookup is evidence only if the examined index is not handed to a call that is not followed
		opaque := ""
		for _, in := range an.Instrs(f, false) {
			call, isCall := in.(*ssa.Call)
			if !isCall || !l.Body[in.Block()] {
				continue
			}
			if _, isB := call.Call.Value.(*ssa.Builtin); isB {
				continue
			}
			known := false
			for _, mb := range ms {
				if mb.cond == ssa.Value(call) {
					known = true
				}
			}
			if sc := call.Call.StaticCallee(); sc != nil && (an.FuncName(sc) == "slices.Contains" || an.FuncName(sc) == "slices.Index") {
				known = true
			}
			if known {
				continue
			}
			for _, a := range call.Call.Args {
				if an.Equiv(a, elem) || c20SameVar(a, elem) {
					opaque = "the examined index is handed to " + an.CalleeName(&call.Call) + ", which is not followed as a membership test"
				}
			}
		}
		if len(ms) == 0 {
			if opaque != "" {
				res.unsure = opaque
				continue
			}
			fail("an index is added to the missing set without having been looked up (and found absent) in the set of stored requested indices")
			continue
		}
		decided := false
		notWalked := false
		for _, mb := range ms {
			var outs [2]map[string]bool
			for i, present := range []bool{false, true} {
				truth := present == mb.present
				w := &c19Walker{atom: func(_ *c19Walker, v ssa.Value) (int, bool, bool) {
					if v == mb.cond {
						return 0, false, true
					}
					return 0, false, false
				}, val: []bool{truth}}
				outs[i] = c20IterOutcome(l, w, ap.Block())
			}
			exact := c19Is1(outs[0], "yes") && c19Is1(outs[1], "no")
			if !exact && (c20HasUnknown(outs[0]) || c20HasUnknown(outs[1])) {
				// the iteration holds a nested loop (or another shape the path walker gives up on): decide by
				// reachability inside one iteration under the two truth values of the membership test
				at := func(present bool) func(ssa.Value) (bool, bool) {
					return func(v ssa.Value) (bool, bool) {
						if v == mb.cond {
							return present == mb.present, true
						}
						return false, false
					}
				}
				whenIn, u1 := c20IterReach(l, ap.Block(), at(true))
				whenOut, u2 := c20IterReach(l, ap.Block(), at(false))
				switch {
				case u1 || u2:
					notWalked = true
				case whenOut && !whenIn:
					exact = true
				case !whenOut && !whenIn:
					notWalked = true
				}
			}
			if exact {
				decided = true
				if mb.why != "" {
					prevFail(mb.why)
					continue
				}
				src := fr.toCaller(mb.source)
				if res.prev != nil && !c20SameVar(res.prev, src) {
					prevFail("the membership of the requested indices is decided against more than one list")
				}
				res.prev = src
			}
		}
		if !decided {
			if opaque != "" {
				res.unsure = opaque
				continue
			}
			if notWalked {
				res.unsure = "the iteration that adds the index is not followed (merged conditions)"
				continue
			}
			fail("an index is added to the missing set without having been looked up (and found absent) in the set of stored requested indices")
		}
	}
	return res
}

func c20HasUnknown(m map[string]bool) bool {
	for k := range m {
		if strings.HasPrefix(k, "?") {
			return true
		}
	}
	return false
}

// c20HitMiss decides the hit/miss obligations of one entry point.
func c20HitMiss(c *rt.Ctx, role c20Role) {
	fn := c20Fn(c, role.entry)
	epochP := fn.Params[2]
	fetch := c20Helper(c, role, "fetch")
	store := c20Helper(c, role, "storeOrAmend")
	fetchCall := c.OneCall(fn, func(cc *ssa.CallCommon) bool { return cc.StaticCallee() == fetch }, fetch.Name(), false)
	storeCall := c.OneCall(fn, func(cc *ssa.CallCommon) bool { return cc.StaticCallee() == store }, store.Name(), false)
	beacon := c.OneCall(fn, an.Invoke(c20Pkg+".Client."+role.beacon), "eth2Cl."+role.beacon, false)
	var okFetch ssa.Value
	for _, ref := range *fetchCall.Value().Referrers() {
		if ex, ok := ref.(*ssa.Extract); ok && ex.Index == 1 {
			okFetch = ex
		}
	}
	if okFetch == nil {
		c.Bail("%s: availability result of %s is discarded", role.entry, fetch.Name())
	}
	// fast returns: success without passing the beacon request
	fast := map[*ssa.Return]bool{}
	var fastPos token.Pos
	for _, r := range an.Returns(fn) {
		vals := c20RetVals(r)
		if len(vals) != 2 || !an.IsNilConst(vals[1]) {
			continue
		}
		if k, isC := vals[0].(*ssa.Const); isC && k.Value == nil {
			continue
		}
		if !an.Dominates(beacon, r) {
			fast[r] = true
			fastPos = posOf(r)
		}
	}
	if len(fast) == 0 {
		c.Bail("%s: no return that answers from the cache alone", role.entry)
	}
	// the request
	opts := beacon.Common().Args[1]
	idx := c20FieldStore(opts, "Indices")

	// which edges of the merge in front of the request come from the "epoch is cached" side: decided by walking
	// from the fetch under okFetch = true / false
	reach := func(okVal bool, lenM ssa.Value, lenM0 bool) (map[string]bool, map[*ssa.BasicBlock]map[*ssa.BasicBlock]bool) {
		entered := map[*ssa.BasicBlock]map[*ssa.BasicBlock]bool{} // block -> predecessors it was entered from
		w := &c19Walker{val: []bool{okVal, lenM0}}
		w.atom = func(w *c19Walker, v ssa.Value) (int, bool, bool) {
			if v == okFetch {
				return 0, false, true
			}
			if lenM != nil {
				if neg, ok := c19EmptyCmpF(v, func(la ssa.Value) bool {
					if c20SameVar(la, lenM) {
						return true
					}
					// inside a followed helper: the parameter bound to the set
					os := w.origins(la)
					return len(w.bind) > 0 && len(os) == 1 && c20SameVar(c19Subst1(la, w.bind), lenM)
				}); ok {
					return 1, neg, true
				}
			}
			return 0, false, false
		}
		w.stop = func(b *ssa.BasicBlock, w *c19Walker) (string, bool) {
			if len(w.path) > 0 {
				from := w.path[len(w.path)-1]
				if entered[b] == nil {
					entered[b] = map[*ssa.BasicBlock]bool{}
				}
				entered[b][from] = true
			}
			if b == beacon.Block() {
				return "asks the beacon node", true
			}
			return "", false
		}
		w.ret = func(r *ssa.Return, _ *c19Walker) string {
			if fast[r] {
				return "answers from the cache alone"
			}
			return "other return"
		}
		w.run(fetchCall.Block(), nil)
		return w.out, entered
	}
	outMiss, enteredMiss := reach(false, nil, false)
	outHit, enteredHit := reach(true, nil, false)
	if u := c20Budget(outMiss, outHit); u != "" {
		c.Unsure(role.entry+" cache-only answer requires a cached epoch", fastPos, u)
		return
	}
	c.Check(role.entry+" cache-only answer requires a cached epoch", fastPos, !outMiss["answers from the cache alone"],
		"a return that does not ask the beacon node is reachable although the epoch is not cached")

	// G: the set whose emptiness guards the cache-only answer. Candidates are the slices whose length is compared
	// with zero somewhere in the entry point (or that are handed to a boolean helper of the package); G is one
	// for which the cache-only answer becomes unreachable once it is non-empty.
	var cands []ssa.Value
	addCand := func(v ssa.Value) {
		if _, isSlice := v.Type().Underlying().(*types.Slice); !isSlice {
			return
		}
		for _, x := range cands {
			if x == v {
				return
			}
		}
		cands = append(cands, v)
	}
	for _, in := range an.Instrs(fn, false) {
		call, ok := in.(*ssa.Call)
		if !ok {
			continue
		}
		if bi, isB := call.Call.Value.(*ssa.Builtin); isB {
			if bi.Name() == "len" && len(call.Call.Args) == 1 {
				addCand(call.Call.Args[0])
			}
			continue
		}
		if h := an.Orig(call.Call.StaticCallee()); h != nil && !call.Call.IsInvoke() && h.Pkg == fn.Pkg && h.Signature.Results().Len() == 1 &&
			types.Identical(h.Signature.Results().At(0).Type().Underlying(), types.Typ[types.Bool]) {
			for _, a := range call.Call.Args {
				addCand(a)
			}
		}
	}
	var G ssa.Value
	budget := ""
	for _, x := range cands {
		outFull, _ := reach(true, x, false) // cached, x not empty
		if u := c20Budget(outFull); u != "" {
			budget = u
			continue
		}
		if outFull["answers from the cache alone"] {
			continue
		}
		outNone, _ := reach(true, x, true) // cached, x empty
		if outNone["answers from the cache alone"] {
			G = x
			break
		}
	}
	switch {
	case G != nil:
		c.Good(role.entry+" cache-only answer requires an empty missing set", fastPos, "")
	case budget != "":
		c.Unsure(role.entry+" cache-only answer requires an empty missing set", fastPos, budget)
		return
	default:
		c.Bad(role.entry+" cache-only answer requires an empty missing set", fastPos,
			"the return that answers from the cache alone is not confined to `len(missing) == 0`: it is reachable although some requested index was never asked for")
		return
	}

	// provenance of G
	mp := c20MissingProvenance(fn, G)
	switch {
	case mp.unsure != "":
		c.Unsure(role.entry+" missing = requested minus stored requestedIdxs", fn.Pos(), mp.unsure)
		return
	case mp.nothing:
		c.Bad(role.entry+" missing = requested minus stored requestedIdxs", fn.Pos(), "nothing is ever added to the missing set")
		return
	}
	c.Check(role.entry+" missing = requested minus already-requested", fn.Pos(), mp.bad == "", mp.bad)
	if mp.prevBad == "" && mp.prev != nil && !c20FromCallField(mp.prev, fetchCall.Value(), "requestedIdxs") {
		mp.prevBad = "the set of already requested indices is not filled from the requestedIdxs stored for the epoch (a validator without a duty would be asked for again, or a never-asked one taken as known)"
	}
	if mp.prevBad == "" && mp.prev == nil && mp.bad == "" {
		mp.prevBad = "?cannot determine the list the requested indices are compared with"
	}
	if strings.HasPrefix(mp.prevBad, "?") {
		c.Unsure(role.entry+" already-requested = stored requestedIdxs", fn.Pos(), strings.TrimPrefix(mp.prevBad, "?"))
	} else {
		c.Check(role.entry+" already-requested = stored requestedIdxs", fn.Pos(), mp.prevBad == "", mp.prevBad)
	}

	// the beacon request: what its Indices hold when the request is reached with / without a cached epoch. A phi
	// is split by incoming edge only where the two sides merge.
	if idx == nil {
		c.Unsure(role.entry+" beacon request indices", beacon.Pos(), "cannot resolve the Indices of the request options")
	} else {
		var valsUnder func(ent map[*ssa.BasicBlock]map[*ssa.BasicBlock]bool, v ssa.Value, d int) []ssa.Value
		valsUnder = func(ent map[*ssa.BasicBlock]map[*ssa.BasicBlock]bool, v ssa.Value, d int) []ssa.Value {
			ph, ok := v.(*ssa.Phi)
			if !ok || d > 4 {
				return []ssa.Value{v}
			}
			blk := ph.Block()
			mixed := false
			for _, pred := range blk.Preds {
				if enteredHit[blk][pred] != enteredMiss[blk][pred] {
					mixed = true
				}
			}
			if !mixed {
				return []ssa.Value{v}
			}
			var out []ssa.Value
			for i, e := range ph.Edges {
				if ent[blk][blk.Preds[i]] {
					out = append(out, valsUnder(ent, e, d+1)...)
				}
			}
			return out
		}
		good, why := true, ""
		if outHit["asks the beacon node"] {
			for _, v := range valsUnder(enteredHit, idx, 0) {
				if !mp.vals[v] && !c20SameVar(v, G) {
					good, why = false, "after a partial hit the beacon node is not asked for exactly the missing indices"
				}
			}
		}
		if outMiss["asks the beacon node"] {
			for _, v := range valsUnder(enteredMiss, idx, 0) {
				switch {
				case mp.vals[v]:
					good, why = false, "the missing set is requested although the epoch may not be cached"
				case mp.reqSet != nil && !c20SameVar(v, mp.reqSet):
					good, why = false, "without a cached epoch the beacon node is not asked for the full requested set the hit/miss decision is computed from"
				}
			}
		}
		c.Check(role.entry+" beacon request indices", beacon.Pos(), good, why)
		rec := c20FieldStore(storeCall.Common().Args[2], "requestedIdxs")
		if rec == nil {
			c.Unsure(role.entry+" recorded requestedIdxs = requested indices", storeCall.Pos(), "cannot resolve the requestedIdxs handed to the cache store")
		} else {
			c.Check(role.entry+" recorded requestedIdxs = requested indices", storeCall.Pos(), c20SameVar(rec, idx),
				"the indices recorded as requested for the epoch are not the slice sent to the beacon node")
		}
	}
	ep := c20FieldStore(opts, "Epoch")
	isEpoch := func(v ssa.Value) bool { return v != nil && (v == ssa.Value(epochP) || c19Only(v, epochP)) }
	okEp := isEpoch(ep) && isEpoch(fetchCall.Common().Args[1]) && isEpoch(storeCall.Common().Args[1])
	c.Check(role.entry+" one epoch for lookup, request and store", beacon.Pos(), okEp,
		"cache lookup, beacon request and cache store do not all use the epoch parameter")
	// the response is what gets stored: guarded by its error
	g, w := an.Guarded(beacon, storeCall, an.DefaultGuard)
	c.Check(role.entry+" store only a successful response", storeCall.Pos(), g, "cache store reachable although the beacon request failed: "+w)
}

// c20Budget reports a walk that could not be completed.
func c20Budget(outs ...map[string]bool) string {
	for _, o := range outs {
		for k := range o {
			if strings.HasPrefix(k, "?") && k != "?cycle" {
				return "the entry point cannot be followed (" + strings.TrimPrefix(k, "?") + ")"
			}
		}
	}
	return ""
}

// c19Subst1 maps a parameter of a followed helper to the argument it is bound to (without looking through phis).
func c19Subst1(v ssa.Value, bind map[*ssa.Parameter]ssa.Value) ssa.Value {
	for i := 0; i < 4; i++ {
		v = an.Unwrap(v)
		p, ok := v.(*ssa.Parameter)
		if !ok {
			return v
		}
		a, bound := bind[p]
		if !bound {
			return v
		}
		v = a
	}
	return v
}
