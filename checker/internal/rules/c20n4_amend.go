package rules

import (
	"go/token"
	"go/types"

	"golang.org/x/tools/go/ssa"

	"charonverif/internal/an"
	"charonverif/internal/rt"
)

// C20-Z6: what the amend path of storeOrAmend*Duties adds to an epoch that is already cached.
//
// Two callers may both miss the cache for overlapping index sets before either stores (the lookup and the store
// are separate critical sections), so the batch handed to the store can contain duties of indices that have been
// recorded in the meantime. The cache answers later requests for a recorded index from the stored duties alone.
// Hence, for the stored duties of an epoch to equal the beacon node's answer for the recorded indices:
//
//   (a) a fetched duty is added to an already cached epoch only when its validator index is NEW, i.e. a member of
//       N = (indices requested by this fetch) minus (indices already recorded for the epoch). Adding the fetched
//       batch whole, or filtering it against any other list, stores the duties of an overlapping index twice;
//   (b) for every new index ALL fetched duties of that index are added: the scan over the fetched duties (and the
//       scan over the new indices that drives it) runs to the end - a validator may have several duties per epoch;
//   (c) the indices recorded as requested on that path are exactly N.
//
// The rule follows values, not shapes: the value written into <role>.duties[epoch] is followed backwards through
// appends, phis, local variables, slices.Clone and in-package helpers to (i) the stored slice, (ii) the fetched
// batch as a whole, (iii) single appended elements. Every element site must lie in a loop over the fetched duties
// and be unreachable, in one iteration, when "validator index of the duty == witness" is false (or when a
// membership test says otherwise), where the witness ranges over N (decided by c20MissingProvenance, the same
// engine that decides the missing set of the entry points) or over the request's indices behind a test that
// excludes the recorded ones. Shapes that are not followed give UNDECIDED.

type c20Amend struct {
	c    *rt.Ctx
	role c20Role
	name string
	dKey string // field key of the role's duties map
	rKey string // field key of the role's requestedIdxs map
	elT  types.Type
	viT  types.Type
	bind map[*ssa.Parameter]ssa.Value
}

type c20RootKind int

const (
	c20RootUnknown c20RootKind = iota
	c20RootFetched
	c20RootState
)

// root classifies where a slice value comes from: the batch handed in by the caller (a non-receiver parameter or a
// field of it), or one of the role's maps (key = field key).
func (a *c20Amend) root(v ssa.Value) (c20RootKind, string) { return a.root1(v, 0) }

func (a *c20Amend) root1(v ssa.Value, d int) (c20RootKind, string) {
	for i := 0; i < 24 && d < 8; i++ {
		v = an.Unwrap(v)
		if os := c19Origins(v); len(os) > 1 || (len(os) == 1 && os[0] != v) {
			k0, key0 := a.root1(os[0], d+1)
			for _, o := range os[1:] {
				if k, key := a.root1(o, d+1); k != k0 || key != key0 {
					return c20RootUnknown, ""
				}
			}
			return k0, key0
		}
		switch x := v.(type) {
		case *ssa.Parameter:
			if arg, ok := a.bind[x]; ok {
				v = arg
				continue
			}
			if a.fetchedParam(x) {
				return c20RootFetched, ""
			}
			return c20RootUnknown, ""
		case *ssa.FreeVar:
			cell := c19Cell(x)
			if cell == ssa.Value(x) {
				return c20RootUnknown, ""
			}
			v = cell
			continue
		case *ssa.Alloc:
			st := c19StoresTo(x, 0)
			if len(st) != 1 {
				return c20RootUnknown, ""
			}
			v = st[0]
			continue
		case *ssa.Call:
			if f := x.Call.StaticCallee(); f != nil && an.FuncName(f) == "slices.Clone" && len(x.Call.Args) == 1 {
				v = x.Call.Args[0]
				continue
			}
			return c20RootUnknown, ""
		}
		key, base, ok := an.FieldOf(v)
		if !ok {
			return c20RootUnknown, ""
		}
		if key == a.dKey || key == a.rKey {
			return c20RootState, key
		}
		v = base
	}
	return c20RootUnknown, ""
}

// fetchedParam: the parameter carries the fetched batch (a slice of duties / indices, or a record holding them),
// not the cache or one of its stores.
func (a *c20Amend) fetchedParam(p *ssa.Parameter) bool {
	t := p.Type()
	if pt, ok := t.Underlying().(*types.Pointer); ok {
		t = pt.Elem()
	}
	isBatch := func(t types.Type) bool {
		sl, ok := t.Underlying().(*types.Slice)
		return ok && (types.Identical(sl.Elem(), a.elT) || types.Identical(sl.Elem(), a.viT))
	}
	if isBatch(t) {
		return true
	}
	st, ok := t.Underlying().(*types.Struct)
	if !ok {
		return false
	}
	for i := 0; i < st.NumFields(); i++ {
		if isBatch(st.Field(i).Type()) {
			return true
		}
	}
	return false
}

type c20AmendSite struct {
	ap   *ssa.Call
	elem ssa.Value
}

type c20Batch struct {
	sites  []c20AmendSite
	whole  []ssa.Instruction // the fetched batch enters as a whole here
	state  bool              // the slice already stored is part of the value
	key    string            // field key of the map the value is stored into
	unsure string
}

func c20EmptySliceLit(x *ssa.Slice) bool {
	if al, ok := x.X.(*ssa.Alloc); ok {
		if pt, ok := al.Type().Underlying().(*types.Pointer); ok {
			if arr, ok := pt.Elem().Underlying().(*types.Array); ok && arr.Len() == 0 {
				return true
			}
		}
	}
	if hi, ok := an.ConstInt(x.High); ok && hi == 0 && x.Low == nil {
		return true
	}
	return false
}

// collect follows a slice value backwards to its ingredients.
func (a *c20Amend) collect(v ssa.Value, at ssa.Instruction, out *c20Batch, seen map[ssa.Value]bool, depth int) {
	v = an.Unwrap(v)
	if seen[v] {
		return
	}
	seen[v] = true
	unsure := func(w string) {
		if out.unsure == "" {
			out.unsure = w
		}
	}
	if _, isSlice := v.Type().Underlying().(*types.Slice); isSlice {
		switch k, key := a.root(v); {
		case k == c20RootFetched:
			out.whole = append(out.whole, at)
			return
		case k == c20RootState && key == out.key:
			out.state = true
			return
		case k == c20RootState:
			unsure("a value read from another map of the store flows into the stored value")
			return
		}
	}
	switch x := v.(type) {
	case *ssa.Phi:
		for _, e := range x.Edges {
			a.collect(e, at, out, seen, depth)
		}
	case *ssa.Const:
		if x.Value != nil {
			unsure("stored duties start from a constant that is not nil")
		}
	case *ssa.MakeSlice:
		if n, ok := an.ConstInt(x.Len); !ok || n != 0 {
			unsure("stored duties are assembled in a pre-sized slice (filled by index), which is not followed")
		}
	case *ssa.Slice:
		if c20EmptySliceLit(x) {
			return
		}
		if _, isSl := x.X.Type().Underlying().(*types.Slice); isSl && x.Low == nil && x.High == nil {
			a.collect(x.X, at, out, seen, depth)
			return
		}
		unsure("stored duties contain a sub-slice that is not followed")
	case *ssa.UnOp:
		if x.Op == token.MUL {
			if al, ok := c19Cell(x.X).(*ssa.Alloc); ok {
				if st := c19StoresTo(al, 0); len(st) > 0 {
					for _, sv := range st {
						a.collect(sv, at, out, seen, depth)
					}
					return
				}
			}
		}
		unsure("stored duties are read from memory that is not followed")
	case *ssa.Extract:
		call, ok := x.Tuple.(*ssa.Call)
		if !ok {
			unsure("stored duties have an origin that is not followed")
			return
		}
		a.intoHelper(call, x.Index, at, out, seen, depth)
	case *ssa.Call:
		if bi, ok := x.Call.Value.(*ssa.Builtin); ok && bi.Name() == "append" && len(x.Call.Args) == 2 {
			a.collect(x.Call.Args[0], x, out, seen, depth)
			if elems := appendedElems(x); elems != nil {
				for _, e := range elems {
					out.sites = append(out.sites, c20AmendSite{x, e})
				}
				return
			}
			a.collect(x.Call.Args[1], x, out, seen, depth)
			return
		}
		if f := x.Call.StaticCallee(); f != nil && an.FuncName(f) == "slices.Clone" && len(x.Call.Args) == 1 {
			a.collect(x.Call.Args[0], x, out, seen, depth)
			return
		}
		a.intoHelper(x, -1, at, out, seen, depth)
	default:
		unsure("stored duties have an origin that is not followed")
	}
}

func (a *c20Amend) intoHelper(call *ssa.Call, idx int, at ssa.Instruction, out *c20Batch, seen map[ssa.Value]bool, depth int) {
	h := an.Orig(call.Call.StaticCallee())
	if call.Call.IsInvoke() || h == nil || h.Pkg != call.Parent().Pkg || len(h.Blocks) == 0 || depth >= 2 || len(h.Params) != len(call.Call.Args) ||
		(idx < 0 && h.Signature.Results().Len() != 1) {
		if out.unsure == "" {
			out.unsure = "stored duties are produced by " + an.CalleeName(&call.Call) + ", which is not followed"
		}
		return
	}
	for i, p := range h.Params {
		if _, dup := a.bind[p]; !dup {
			a.bind[p] = call.Call.Args[i]
		}
	}
	for _, r := range an.Returns(h) {
		vals := c20RetVals(r)
		switch {
		case idx < 0 && len(vals) == 1:
			a.collect(vals[0], r, out, seen, depth+1)
		case idx >= 0 && idx < len(vals):
			a.collect(vals[idx], r, out, seen, depth+1)
		}
	}
}

// c20ReachUnder: can `target` be reached from `start` inside the region when every branch whose condition `truth`
// decides takes the decided edge only? uncertain is set when a merged (phi) condition involving a decided atom
// could not be evaluated.
func c20ReachUnder(start, target *ssa.BasicBlock, within func(*ssa.BasicBlock) bool, truth func(ssa.Value) (bool, bool)) (reached, uncertain bool) {
	var eval func(v ssa.Value, d int) (bool, bool)
	eval = func(v ssa.Value, d int) (bool, bool) {
		if d > 6 {
			return false, false
		}
		if val, ok := truth(v); ok {
			return val, true
		}
		switch x := v.(type) {
		case *ssa.UnOp:
			if x.Op == token.NOT {
				val, ok := eval(x.X, d+1)
				return !val, ok
			}
		case *ssa.Phi:
			known, all, first := 0, true, false
			for i, e := range x.Edges {
				val, ok := eval(e, d+1)
				if !ok {
					all = false
					continue
				}
				known++
				if i == 0 || known == 1 {
					first = val
				} else if val != first {
					all = false
				}
			}
			if all && known == len(x.Edges) {
				return first, true
			}
			if known > 0 {
				uncertain = true
			}
		}
		return false, false
	}
	seen := map[*ssa.BasicBlock]bool{}
	var visit func(b *ssa.BasicBlock) bool
	visit = func(b *ssa.BasicBlock) bool {
		if b == target {
			return true
		}
		if seen[b] || !within(b) {
			return false
		}
		seen[b] = true
		if len(b.Instrs) > 0 {
			if iff, ok := b.Instrs[len(b.Instrs)-1].(*ssa.If); ok {
				if val, known := eval(iff.Cond, 0); known {
					if val {
						return visit(b.Succs[0])
					}
					return visit(b.Succs[1])
				}
			}
		}
		for _, s := range b.Succs {
			if visit(s) {
				return true
			}
		}
		return false
	}
	return visit(start), uncertain
}

// iterReach: is the block reached in one iteration of loop l (started at the top of the body) under truth?
func c20IterReach(l *an.Loop, target *ssa.BasicBlock, truth func(ssa.Value) (bool, bool)) (reached, uncertain bool) {
	within := func(b *ssa.BasicBlock) bool { return l.Body[b] && b != l.Header }
	for _, s := range l.Header.Succs {
		if !l.Body[s] || s == l.Header {
			continue
		}
		r, u := c20ReachUnder(s, target, within, truth)
		reached = reached || r
		uncertain = uncertain || u
	}
	return reached, uncertain
}

type c20ListClass int

const (
	c20ListUnknown  c20ListClass = iota
	c20ListNew                   // N = request of this fetch minus recorded
	c20ListRequest               // the indices of this fetch
	c20ListRecorded              // the indices already recorded for the epoch
	c20ListBadNew                // built like N but not from (request, recorded)
)

// classify decides which index list v denotes (in function f).
func (a *c20Amend) classify(f *ssa.Function, v ssa.Value) (c20ListClass, string) {
	if v == nil {
		return c20ListUnknown, "no list"
	}
	switch k, key := a.root(v); {
	case k == c20RootFetched:
		return c20ListRequest, ""
	case k == c20RootState && key == a.rKey:
		return c20ListRecorded, ""
	case k == c20RootState:
		return c20ListUnknown, "a list read from the duties map"
	}
	// inside a helper: the list is the argument of the (single) call site, built in the caller
	for i := 0; i < 4; i++ {
		p, isP := an.Unwrap(v).(*ssa.Parameter)
		if !isP {
			break
		}
		arg, bound := a.bind[p]
		if !bound {
			break
		}
		v = arg
		if in, ok := an.Unwrap(v).(ssa.Instruction); ok && in.Parent() != nil {
			f = in.Parent()
		}
	}
	res := c20MissingProvenance(f, v)
	switch {
	case res.unsure != "":
		return c20ListUnknown, "set of new indices: " + res.unsure
	case res.nothing:
		return c20ListUnknown, "set of new indices: nothing is ever added to it"
	case res.bad != "":
		return c20ListBadNew, res.bad
	case res.prevBad != "":
		return c20ListBadNew, res.prevBad
	}
	rk, _ := a.root(res.reqSet)
	pk, pkey := a.root(res.prev)
	if rk == c20RootFetched && pk == c20RootState && pkey == a.rKey {
		return c20ListNew, ""
	}
	if pk == c20RootUnknown && res.prev != nil {
		for _, o := range c19Origins(res.prev) {
			if res.vals[o] || res.vals[an.Unwrap(o)] {
				return c20ListBadNew, "the requested indices are looked up in the very list of new indices being built, not in the indices already recorded for the epoch"
			}
		}
		if res.vals[res.prev] {
			return c20ListBadNew, "the requested indices are looked up in the very list of new indices being built, not in the indices already recorded for the epoch"
		}
	}
	if rk == c20RootUnknown || pk == c20RootUnknown {
		return c20ListUnknown, "set of new indices: the scanned list or the list it is compared with is not followed"
	}
	if rk != c20RootFetched {
		return c20ListBadNew, "the set of new indices is not collected from the indices requested by this fetch"
	}
	return c20ListBadNew, "the set of new indices is not decided against the indices already recorded for the epoch"
}

func c20AmendRole(c *rt.Ctx, role c20Role) {
	store := c20Helper(c, role, "storeOrAmend")
	a := &c20Amend{c: c, role: role, name: store.Name(), bind: map[*ssa.Parameter]ssa.Value{},
		dKey: c20Pkg + "." + role.name + "Duties.duties", rKey: c20Pkg + "." + role.name + "Duties.requestedIdxs"}
	// the functions that may write the role's maps: the store and the in-package functions it calls
	funcs := []*ssa.Function{store}
	seenF := map[*ssa.Function]bool{store: true}
	for i := 0; i < len(funcs) && i < 16; i++ {
		for _, ci := range an.Calls(funcs[i], func(cc *ssa.CallCommon) bool { return !cc.IsInvoke() && cc.StaticCallee() != nil }, true) {
			h := an.Orig(ci.Common().StaticCallee())
			if h == nil || seenF[h] || h.Pkg != store.Pkg || len(h.Blocks) == 0 || h.Parent() != nil {
				continue
			}
			seenF[h] = true
			funcs = append(funcs, h)
			// a helper with one call site sees its caller's values through its parameters
			if call, ok := ci.(*ssa.Call); ok && len(h.Params) == len(call.Call.Args) {
				for k, p := range h.Params {
					if _, dup := a.bind[p]; !dup {
						a.bind[p] = call.Call.Args[k]
					}
				}
			}
		}
	}
	var dUps, rUps []*ssa.MapUpdate
	for _, f := range funcs {
		dUps = append(dUps, mapUpdates(f, isFieldMap(a.dKey))...)
		rUps = append(rUps, mapUpdates(f, isFieldMap(a.rKey))...)
	}
	if len(dUps) == 0 || len(rUps) == 0 {
		c.Bail("%s: no assignment into %s / %s is found in the store helper or the functions it calls", a.name, a.dKey, a.rKey)
	}
	mt, ok := dUps[0].Map.Type().Underlying().(*types.Map)
	if !ok {
		c.Bail("%s: %s is not a map", a.name, a.dKey)
	}
	sl, ok := mt.Elem().Underlying().(*types.Slice)
	if !ok {
		c.Bail("%s: %s does not hold slices of duties", a.name, a.dKey)
	}
	a.elT = sl.Elem()
	rmt, ok := rUps[0].Map.Type().Underlying().(*types.Map)
	if !ok {
		c.Bail("%s: %s is not a map", a.name, a.rKey)
	}
	rsl, ok := rmt.Elem().Underlying().(*types.Slice)
	if !ok {
		c.Bail("%s: %s does not hold slices of indices", a.name, a.rKey)
	}
	a.viT = rsl.Elem()

	amends := 0
	undecided := false
	for _, mu := range dUps {
		b := &c20Batch{key: a.dKey}
		a.collect(mu.Value, mu, b, map[ssa.Value]bool{}, 0)
		cons := a.name + " amend: duties added to a cached epoch"
		switch {
		case b.unsure != "":
			undecided = true
			c.Unsure(cons, posOf(mu), b.unsure)
		case b.state && len(b.whole) > 0:
			amends++
			c.Bad(cons, posOf(b.whole[0]), "the fetched batch is appended as a whole to the duties already stored for the epoch: duties of an index that another caller recorded in the meantime "+
				"(two overlapping requests that both missed) are stored a second time; only duties of indices not yet recorded may be added")
		case b.state && len(b.sites) > 0:
			amends++
			for _, s := range b.sites {
				a.site(s)
			}
		case !b.state && len(b.whole) > 0 && len(b.sites) == 0:
			c.Good(a.name+" first store keeps the fetched batch", posOf(mu), "")
		case !b.state && len(b.sites) > 0:
			amends++
			c.Bad(cons, posOf(mu), "the duties stored for the epoch are replaced by a filtered part of the fetched batch: no ingredient of the new value is the slice stored before, "+
				"so the duties of the indices recorded earlier are dropped while the indices stay recorded")
		}
	}
	if amends == 0 && !undecided {
		c.Bad(a.name+" amend: duties added to a cached epoch", store.Pos(), "no assignment adds fetched duties to the duties already stored for the epoch: a partial hit is fetched and recorded but never stored")
	}
	// (c) what is recorded as requested on the amend path
	recordsMore, recordUnknown := 0, false
	for _, mu := range rUps {
		rb := &c20Batch{key: a.rKey}
		a.collect(mu.Value, mu, rb, map[ssa.Value]bool{}, 0)
		switch {
		case rb.unsure != "":
			recordUnknown = true
		case rb.state && (len(rb.sites) > 0 || len(rb.whole) > 0):
			recordsMore++
		case !rb.state && len(rb.whole) > 0 && len(rb.sites) == 0:
			// first store of the epoch: the indices of the fetch
		default:
			recordUnknown = true
		}
	}
	if recordsMore == 0 && !recordUnknown && amends > 0 {
		c.Bad(a.name+" amend: indices recorded as requested", store.Pos(), "duties are added to a cached epoch but the indices they belong to are never added to the recorded indices: "+
			"the next request for them misses again and their duties are stored once more")
	}
	for _, mu := range rUps {
		call, ok := an.Unwrap(mu.Value).(*ssa.Call)
		if !ok {
			if os := c19Origins(mu.Value); len(os) == 1 {
				call, ok = os[0].(*ssa.Call)
			}
		}
		if !ok {
			continue
		}
		bi, isB := call.Call.Value.(*ssa.Builtin)
		if !isB || bi.Name() != "append" || len(call.Call.Args) != 2 || appendedElems(call) != nil {
			continue
		}
		if k, key := a.root(call.Call.Args[0]); k != c20RootState || key != a.rKey {
			continue
		}
		cons := a.name + " amend: indices recorded as requested"
		switch cl, why := a.classify(call.Parent(), call.Call.Args[1]); cl {
		case c20ListNew:
			c.Good(cons, posOf(mu), "")
		case c20ListBadNew:
			c.Bad(cons, posOf(mu), why)
		case c20ListRequest:
			c.Bad(cons, posOf(mu), "all indices of this fetch are recorded again, including the ones already recorded")
		case c20ListRecorded:
			c.Bad(cons, posOf(mu), "the recorded indices are appended to themselves")
		default:
			c.Note("Z6: %s: the list appended to the recorded indices is not followed (%s)", a.name, why)
		}
	}
}

// site decides one `append(…, d)` that feeds the duties stored for a cached epoch.
func (a *c20Amend) site(s c20AmendSite) {
	c := a.c
	f := s.ap.Parent()
	cons := a.name + " amend: duties added to a cached epoch"
	pos := posOf(s.ap)
	blk := s.ap.Block()
	loops := an.LoopsContaining(f, blk)
	var ld *an.Loop
	// the scan is looked for among all loops: an append followed by `break` lies on an exit path of the scan, not
	// in its natural-loop body
	for _, l := range an.Loops(f) {
		coll := l.RangeColl()
		if coll == nil || !c19LoopElem(l, s.elem) {
			continue
		}
		if k, _ := a.root(coll); k == c20RootFetched && (ld == nil || len(l.Body) < len(ld.Body)) {
			ld = l
		}
	}
	if ld == nil {
		c.Unsure(cons, pos, "the appended duty is not recognised as the element of a loop over the fetched duties")
		return
	}
	// the scan must cover the whole batch, not a part of it
	for _, o := range c19Origins(ld.RangeColl()) {
		if sub, isSub := an.Unwrap(o).(*ssa.Slice); isSub {
			if _, ofSlice := sub.X.Type().Underlying().(*types.Slice); ofSlice && (sub.Low != nil || sub.High != nil) {
				if lo, isK := an.ConstInt(sub.Low); isK && lo > 0 {
					c.Bad(a.name+" amend: scan over the fetched duties", pos, "the loop scans the fetched duties from a later position on: the duties in front of it are never stored although their indices are recorded")
				} else {
					c.Unsure(a.name+" amend: scan over the fetched duties", pos, "the loop scans a sub-slice of the fetched duties whose bounds are not followed")
				}
				return
			}
		}
	}
	if !c20LoopClosed(ld) || !c19LoopFromStart(ld) || !ld.Body[blk] {
		c.Bad(a.name+" amend: scan over the fetched duties", pos, "the loop over the fetched duties can stop before the last duty (early exit after a match): "+
			"a validator with several duties in the epoch loses all but the first while its index is recorded as requested")
		return
	}
	c.Good(a.name+" amend: scan over the fetched duties", pos, "")
	inner := loops[0]
	// the validator index of the examined duty
	isVI := func(v ssa.Value) bool {
		if v == nil {
			return false
		}
		v = an.Unwrap(v) // `uint64(d.ValidatorIndex) == uint64(idx)`
		return types.Identical(v.Type(), a.viT) && c19LoopElem(ld, v)
	}
	var viRep ssa.Value
	type eqCand struct{ x ssa.Value }
	var eqs []eqCand
	opaque := ""
	for _, in := range an.Instrs(f, false) {
		if !ld.Body[in.Block()] {
			continue
		}
		if v, ok := in.(ssa.Value); ok && viRep == nil && isVI(v) {
			viRep = v
		}
		switch x := in.(type) {
		case *ssa.BinOp:
			if x.Op != token.EQL && x.Op != token.NEQ {
				continue
			}
			var other ssa.Value
			switch {
			case isVI(x.X) && !isVI(x.Y):
				other = x.Y
			case isVI(x.Y) && !isVI(x.X):
				other = x.X
			default:
				continue
			}
			dup := false
			for _, e := range eqs {
				if e.x == other || an.Equiv(e.x, other) || c20SameVar(e.x, other) {
					dup = true
				}
			}
			if !dup {
				eqs = append(eqs, eqCand{other})
			}
		case *ssa.Call:
			if _, isB := x.Call.Value.(*ssa.Builtin); isB {
				continue
			}
			if sc := x.Call.StaticCallee(); sc != nil && (an.FuncName(sc) == "slices.Contains" || an.FuncName(sc) == "slices.Index") {
				continue
			}
			callee := an.CalleeName(&x.Call)
			if callee == "" {
				callee = "a function value"
			}
			why := "the examined duty is handed to " + callee + ", which is not followed as a test of its validator index"
			if x.Call.StaticCallee() == nil {
				opaque = why // a function value or an interface method decides inside the scan
			}
			for _, arg := range x.Call.Args {
				if _, isLit := arg.(*ssa.MakeClosure); isLit || isVI(arg) || c19LoopElem(ld, arg) {
					opaque = why
				}
			}
		}
	}
	var bads, unsures []string
	good := false
	note := func(list *[]string, w string) { *list = append(*list, w) }

	// --- equality with a witness index
	for _, e := range eqs {
		x := e.x
		same := func(y ssa.Value) bool { return y == x || an.Equiv(y, x) || c20SameVar(y, x) }
		truth := func(want bool) func(ssa.Value) (bool, bool) {
			return func(v ssa.Value) (bool, bool) {
				bin, ok := v.(*ssa.BinOp)
				if !ok || (bin.Op != token.EQL && bin.Op != token.NEQ) {
					return false, false
				}
				if !(isVI(bin.X) && same(bin.Y)) && !(isVI(bin.Y) && same(bin.X)) {
					return false, false
				}
				return (bin.Op == token.EQL) == want, true
			}
		}
		whenEq, u1 := c20IterReach(inner, blk, truth(true))
		whenNeq, u2 := c20IterReach(inner, blk, truth(false))
		if u1 || u2 {
			note(&unsures, "the comparison of the duty's validator index is merged with other conditions in a form that is not evaluated")
			continue
		}
		switch {
		case whenNeq && !whenEq:
			note(&bads, "a fetched duty is appended exactly when its validator index differs from the index examined")
			continue
		case whenNeq:
			continue // not a guard of this append
		case !whenEq:
			note(&unsures, "the append is not reached in an iteration although the validator index matches")
			continue
		}
		// the witness must be new
		var lx *an.Loop
		for _, l := range an.Loops(f) {
			if l.RangeColl() != nil && c19LoopElem(l, x) && (lx == nil || len(l.Body) < len(lx.Body)) {
				lx = l
			}
		}
		if lx == nil {
			note(&unsures, "the index a duty is matched against is not the element of a loop that is followed")
			continue
		}
		outer := lx.Body[ld.Header] && lx != ld
		closedX := c20LoopClosed(lx) && c19LoopFromStart(lx)
		switch cl, why := a.classify(f, lx.RangeColl()); cl {
		case c20ListNew:
			if outer && !closedX {
				note(&bads, "the loop over the newly requested indices can stop early: the duties of the remaining new indices are not stored although the indices are recorded")
				continue
			}
			good = true
		case c20ListBadNew:
			note(&bads, "duties are matched against a set of new indices that is not (requested by this fetch) minus (already recorded): "+why)
		case c20ListRecorded:
			note(&bads, "duties are matched against the indices already recorded for the epoch: exactly the duties that are already stored are added again")
		case c20ListRequest:
			// every index of this fetch is examined: the append must be unreachable for an index already recorded
			ms := c20Memberships(f, lx, x)
			decided := false
			sawRecorded := false
			for _, mb := range ms {
				if mb.why != "" {
					continue
				}
				if k, key := a.root(mb.source); k != c20RootState || key != a.rKey {
					continue
				}
				sawRecorded = true
				at := func(present bool) func(ssa.Value) (bool, bool) {
					return func(v ssa.Value) (bool, bool) {
						if v == mb.cond {
							return present == mb.present, true
						}
						return false, false
					}
				}
				whenIn, u3 := c20IterReach(lx, blk, at(true))
				whenOut, u4 := c20IterReach(lx, blk, at(false))
				if u3 || u4 {
					continue
				}
				if !whenIn && whenOut {
					decided = true
				}
			}
			switch {
			case decided && outer && !closedX:
				note(&bads, "the loop over the requested indices can stop early: the duties of the remaining new indices are not stored")
			case decided:
				good = true
			case sawRecorded:
				note(&bads, "duties of an index that is already recorded for the epoch are added again (the membership test does not keep the append from running)")
			case len(ms) > 0:
				note(&unsures, "the requested index is tested for membership in a list that is not followed to the recorded indices")
			default:
				note(&bads, "duties are matched against every index of this fetch, whether or not it is already recorded for the epoch: a concurrent overlapping request makes them stored twice")
			}
		default:
			note(&unsures, "the list of indices a duty is matched against is not followed ("+why+")")
		}
	}
	// --- membership of the duty's validator index in a list
	if viRep != nil && !good {
		for _, mb := range c20Memberships(f, ld, viRep) {
			at := func(present bool) func(ssa.Value) (bool, bool) {
				return func(v ssa.Value) (bool, bool) {
					if v == mb.cond {
						return present == mb.present, true
					}
					return false, false
				}
			}
			whenIn, u1 := c20IterReach(inner, blk, at(true))
			whenOut, u2 := c20IterReach(inner, blk, at(false))
			if u1 || u2 {
				note(&unsures, "the membership test of the duty's validator index is merged with other conditions in a form that is not evaluated")
				continue
			}
			if whenIn == whenOut {
				continue
			}
			if mb.why != "" {
				note(&unsures, mb.why[1:])
				continue
			}
			cl, why := a.classify(f, mb.source)
			switch {
			case whenIn && cl == c20ListNew, whenOut && cl == c20ListRecorded:
				good = true
			case whenIn && cl == c20ListRequest:
				note(&bads, "a fetched duty is added when its validator index is among the indices of this fetch - true for every fetched duty, recorded or not")
			case whenIn && cl == c20ListRecorded:
				note(&bads, "a fetched duty is added exactly when its validator index is already recorded for the epoch")
			case whenOut && (cl == c20ListNew || cl == c20ListRequest):
				note(&bads, "a fetched duty is added exactly when its validator index is NOT among the newly requested indices")
			case cl == c20ListBadNew:
				note(&bads, "duties are filtered by a set of new indices that is not (requested by this fetch) minus (already recorded): "+why)
			default:
				note(&unsures, "the list the duty's validator index is looked up in is not followed ("+why+")")
			}
		}
	}
	switch {
	case good:
		c.Good(cons, pos, "")
	case len(bads) > 0:
		c.Bad(cons, pos, bads[0])
	case len(unsures) > 0:
		c.Unsure(cons, pos, unsures[0])
	case opaque != "":
		c.Unsure(cons, pos, opaque)
	default:
		c.Bad(cons, pos, "a fetched duty is added to a cached epoch without any test of its validator index against the newly requested indices")
	}
}

func c20Z6(c *rt.Ctx) {
	for _, role := range c20Roles {
		c20AmendRole(c, role)
	}
}

// c20N4Mutants: one-edit mutants of the amend path. Those that edit all three siblings alike are invisible to Z1.
func c20N4Mutants() []Mutant {
	const f = "app/eth2wrap/cache.go"
	type role struct{ field, duty string }
	roles := []role{{"proposerDuties", "ProposerDuty"}, {"attesterDuties", "AttesterDuty"}, {"syncDuties", "SyncCommitteeDuty"}}
	all := func(id, expect string, edit func(r role) [2]string) Mutant {
		m := Mutant{ID: id, File: f, Expect: expect}
		for i, r := range roles {
			e := edit(r)
			if i == 0 {
				m.Old, m.New = e[0], e[1]
			} else {
				m.More = append(m.More, e)
			}
		}
		return m
	}
	appendLine := func(r role) string {
		return "c." + r.field + ".duties[epoch] = append(c." + r.field + ".duties[epoch], newlyFetchedDuties...)"
	}
	scanHead := func(r role) string {
		return "newlyFetchedDuties := []eth2v1." + r.duty + "{}\n\n\tfor _, idx := range newlyFetchedIdxs {"
	}
	return []Mutant{
		all("C20-Z6-amend-appends-whole-batch", "Z6|amend: duties added to a cached epoch", func(r role) [2]string {
			return [2]string{appendLine(r), "c." + r.field + ".duties[epoch] = append(c." + r.field + ".duties[epoch], dutiesForEpoch.duties...)"}
		}),
		all("C20-Z6-amend-matches-all-requested", "Z6|amend: duties added to a cached epoch", func(r role) [2]string {
			return [2]string{scanHead(r), "newlyFetchedDuties := []eth2v1." + r.duty + "{}\n\n\tfor _, idx := range dutiesForEpoch.requestedIdxs {"}
		}),
		all("C20-Z6-amend-overwrites-stored", "Z6|amend: duties added to a cached epoch", func(r role) [2]string {
			return [2]string{appendLine(r), "c." + r.field + ".duties[epoch] = newlyFetchedDuties"}
		}),
		all("C20-Z6-new-indices-not-recorded", "Z6|amend: indices recorded as requested", func(r role) [2]string {
			return [2]string{"\tc." + r.field + ".requestedIdxs[epoch] = append(c." + r.field + ".requestedIdxs[epoch], newlyFetchedIdxs...)\n", ""}
		}),
		all("C20-Z6-new-indices-against-own-list", "Z6|amend", func(r role) [2]string {
			return [2]string{"alreadyRequestedIdxs := c." + r.field + ".requestedIdxs[epoch]\n\n\tfor _, idx := range dutiesForEpoch.requestedIdxs {\n\t\tif !slices.Contains(alreadyRequestedIdxs, idx) {",
				"alreadyRequestedIdxs := c." + r.field + ".requestedIdxs[epoch]\n\t_ = alreadyRequestedIdxs\n\n\tfor _, idx := range dutiesForEpoch.requestedIdxs {\n\t\tif !slices.Contains(newlyFetchedIdxs, idx) {"}
		}),
		{ID: "C20-Z6-sync-scan-breaks-after-match", File: f, Expect: "Z6|storeOrAmendSyncDuties amend: scan over the fetched duties",
			Old: "\t\t\t\tnewlyFetchedDuties = append(newlyFetchedDuties, d)\n\t\t\t}\n\t\t}\n\t}\n\n\tc.syncDuties.duties[epoch]",
			New: "\t\t\t\tnewlyFetchedDuties = append(newlyFetchedDuties, d)\n\n\t\t\t\tbreak\n\t\t\t}\n\t\t}\n\t}\n\n\tc.syncDuties.duties[epoch]"},
		{ID: "C20-Z6-attester-filter-by-recorded", File: f, Expect: "Z6|storeOrAmendAttesterDuties amend: duties added to a cached epoch",
			Old: scanHead(roles[1]), New: "newlyFetchedDuties := []eth2v1.AttesterDuty{}\n\n\tfor _, idx := range alreadyRequestedIdxs {"},
		{ID: "C20-Z6-proposer-scan-skips-first-duty", File: f, Expect: "Z6|storeOrAmendProposerDuties amend: scan over the fetched duties",
			Old: scanHead(roles[0]) + "\n\t\tfor _, d := range dutiesForEpoch.duties {",
			New: scanHead(roles[0]) + "\n\t\tfor _, d := range dutiesForEpoch.duties[1:] {"},
		{ID: "C20-Z6-proposer-new-index-loop-returns-early", File: f, Expect: "Z6|storeOrAmendProposerDuties amend",
			Old: "\t\t\t\tnewlyFetchedDuties = append(newlyFetchedDuties, d)\n\t\t\t}\n\t\t}\n\t}\n\n\tc.proposerDuties.duties[epoch]",
			New: "\t\t\t\tnewlyFetchedDuties = append(newlyFetchedDuties, d)\n\t\t\t}\n\t\t}\n\n\t\tif len(newlyFetchedDuties) > 0 {\n\t\t\tbreak\n\t\t}\n\t}\n\n\tc.proposerDuties.duties[epoch]"},
	}
}
