package rules

import (
	"go/token"
	"go/types"

	"golang.org/x/tools/go/ssa"

	"charonverif/internal/an"
	"charonverif/internal/rt"
)

// C13 rule B7 — the dedup table only grows.
//
// "One signed hash per (peer, message id)" holds for a session only if an entry of the dedup table, once
// recorded, stays there: removing it (delete, clear, maps.DeleteFunc, installing another table on a server that
// is already serving) re-enables signing a second hash for the same (peer, id). The rule follows the table as a
// VALUE: every value derived from the struct field that holds the table (loads of the field, inner maps of a
// nested layout, locals, closure captures, parameters of in-package helpers it is handed to, results of in-package
// getters) is collected by forward propagation over the whole package, whatever function, literal or callback
// the use sits in; then every use is classified:
//
//	read (lookup, range, len, nil test)                          fine
//	m[k] = v                                                     judged by B2 (compare-then-store)
//	delete / clear / maps.DeleteFunc                              VIOLATION (unless the function is provably dead)
//	handed to code the analyser cannot see, stored elsewhere      UNDECIDED
//	field = <table> on an object created in the same call chain  fine (construction)
//	field = <table> under `table == nil` / `len(table) == 0`      fine (lazy construction: nothing is lost)
//	field = <table> on an object that is positively shared       VIOLATION (all recorded hashes dropped)

type c13n4State struct {
	c       *rt.Ctx
	pkg     *ssa.Package
	funcs   []*ssa.Function
	key     string
	derived map[ssa.Value]bool
	cells   map[ssa.Value]bool // Alloc / FreeVar cells that hold a derived value
	work    []ssa.Value
	callers map[*ssa.Function][]ssa.CallInstruction
	refd    map[*ssa.Function]bool // referenced anywhere in the package (called or used as a value)
	asValue map[*ssa.Function]bool
	agg     *h1617Agg
	reads   int
	seenUse map[ssa.Instruction]bool
}

const c13n4K = "dedup only grows: "

func c13B7(c *rt.Ctx) {
	s, fieldStores := c13n4Collect(c)
	for _, st := range fieldStores {
		s.fieldStore(st)
	}
	// the object that holds the table is itself overwritten (`*s = server{...}`) or swapped (`x.srv = newServer()`)
	// on an object that is not under construction
	owner := c13n4Owner(s.key)
	for _, f := range s.funcs {
		for _, in := range an.Instrs(f, false) {
			st, ok := in.(*ssa.Store)
			if !ok || owner == "" || an.TypeName(st.Val.Type()) != owner {
				continue
			}
			_, isPtr := st.Val.Type().Underlying().(*types.Pointer)
			base := st.Addr
			if isPtr {
				switch a := st.Addr.(type) {
				case *ssa.Alloc, *ssa.FreeVar:
					continue // a local variable
				case *ssa.FieldAddr:
					base = a.X
				}
			}
			k := c13n4K + c13ShortName(c13Outer(f)) + " holder of the table replaced only during construction"
			switch fr := s.freshAt(st, base); {
			case fr == 1 || s.dead(f) || s.onceOnly(f):
				s.agg.ok(k, st.Pos())
			case fr == -1:
				s.agg.bad(k, st.Pos(), "the "+an.Short(owner)+" that holds the dedup table is replaced on an object that is already in use: every hash recorded so far is dropped, so a second, different hash is signed for the same (peer, message id) in the same session")
			default:
				s.agg.unsure(k, st.Pos(), "a "+an.Short(owner)+" is stored over an object that is not known to be under construction: its dedup table is replaced")
			}
		}
	}
	if s.reads == 0 {
		s.agg.unsure(c13n4K+"table uses", token.NoPos, "no lookup of the dedup table was found")
	}
	s.agg.flush()
}

// c13n4IsTable returns a predicate: the SSA value is (derived from) the dedup table, wherever it was obtained
// (field load, getter, local alias, closure capture, helper parameter, inner map of a nested layout).
func c13n4IsTable(c *rt.Ctx) func(ssa.Value) bool {
	s, _ := c13n4Collect(c)
	direct := isFieldMap(s.key)
	return func(v ssa.Value) bool { return direct(v) || s.derived[v] || s.derived[an.Unwrap(v)] }
}

// c13n4Collect computes the set of values derived from the dedup table field and classifies their uses.
func c13n4Collect(c *rt.Ctx) (*c13n4State, []*ssa.Store) {
	pkg := c.SSAPkg(c13Pkg)
	s := &c13n4State{c: c, pkg: pkg, funcs: an.PkgFuncs(pkg), key: c13N.dedup,
		derived: map[ssa.Value]bool{}, cells: map[ssa.Value]bool{}, callers: map[*ssa.Function][]ssa.CallInstruction{},
		refd: map[*ssa.Function]bool{}, asValue: map[*ssa.Function]bool{}, agg: newAgg(c), seenUse: map[ssa.Instruction]bool{}}
	s.index()
	var fieldStores []*ssa.Store
	seeds := 0
	for _, f := range s.funcs {
		for _, in := range an.Instrs(f, false) {
			switch x := in.(type) {
			case *ssa.FieldAddr:
				if an.FieldKey(x.X.Type(), x.Field) != s.key {
					continue
				}
				seeds++
				for _, ref := range *x.Referrers() {
					switch r := ref.(type) {
					case *ssa.UnOp:
						if r.Op == token.MUL {
							s.mark(r)
						}
					case *ssa.Store:
						if r.Addr == ssa.Value(x) {
							fieldStores = append(fieldStores, r)
						} else {
							s.agg.unsure(c13n4K+c13ShortName(c13Outer(f))+" field address", r.Pos(), "the address of the dedup table field is stored: the table can be replaced behind the analyser's back")
						}
					case *ssa.DebugRef:
					default:
						s.agg.unsure(c13n4K+c13ShortName(c13Outer(f))+" field address", ref.Pos(), "the address of the dedup table field escapes: the table can be replaced behind the analyser's back")
					}
				}
			case *ssa.Field:
				if an.FieldKey(x.X.Type(), x.Field) == s.key {
					seeds++
					s.mark(x)
				}
			}
		}
	}
	if seeds == 0 {
		c.Bail("the dedup table field %s is never accessed in %s", s.key, c13Pkg)
	}
	for len(s.work) > 0 {
		v := s.work[len(s.work)-1]
		s.work = s.work[:len(s.work)-1]
		s.propagate(v)
	}
	return s, fieldStores
}

func c13n4Owner(key string) string {
	for i := len(key) - 1; i >= 0; i-- {
		if key[i] == '.' {
			return key[:i]
		}
	}
	return ""
}

func (s *c13n4State) index() {
	for _, f := range s.funcs {
		for _, in := range an.Instrs(f, false) {
			ci, isCall := in.(ssa.CallInstruction)
			if isCall {
				if callee := ci.Common().StaticCallee(); callee != nil && c13PkgOf(callee) == s.pkg && len(callee.Blocks) > 0 {
					s.callers[callee] = append(s.callers[callee], ci)
				}
			}
			for _, op := range an.Operands(in) {
				switch x := op.(type) {
				case *ssa.Function:
					s.refd[x] = true
					if !(isCall && ci.Common().Value == op) {
						s.asValue[x] = true
					}
				case *ssa.MakeClosure:
					if w, ok := x.Fn.(*ssa.Function); ok {
						s.refd[w] = true
						if w.Synthetic != "" && w.Object() != nil {
							if fo, ok := w.Object().(*types.Func); ok {
								if m := s.pkg.Prog.FuncValue(fo); m != nil {
									s.refd[m] = true
									s.asValue[m] = true
								}
							}
						}
					}
				}
			}
		}
	}
}

func (s *c13n4State) mark(v ssa.Value) {
	if v == nil || s.derived[v] {
		return
	}
	s.derived[v] = true
	s.work = append(s.work, v)
}

func (s *c13n4State) markCell(cell ssa.Value) {
	if cell == nil || s.cells[cell] {
		return
	}
	s.cells[cell] = true
	refs := cell.Referrers()
	if refs == nil {
		return
	}
	for _, ref := range *refs {
		switch r := ref.(type) {
		case *ssa.UnOp:
			if r.Op == token.MUL {
				s.mark(r)
			}
		case *ssa.MakeClosure:
			if fn, ok := r.Fn.(*ssa.Function); ok {
				for i, b := range r.Bindings {
					if b == cell && i < len(fn.FreeVars) {
						s.markCell(fn.FreeVars[i])
					}
				}
			}
		}
	}
}

func isMapType(t types.Type) bool {
	_, ok := t.Underlying().(*types.Map)
	return ok
}

func (s *c13n4State) site(in ssa.Instruction, kind string) string {
	name := "?"
	if in.Parent() != nil {
		name = c13ShortName(c13Outer(in.Parent()))
	}
	return c13n4K + name + " " + kind
}

// propagate classifies every use of the derived value v and extends the derived set.
func (s *c13n4State) propagate(v ssa.Value) {
	refs := v.Referrers()
	if refs == nil {
		return
	}
	for _, ref := range *refs {
		switch r := ref.(type) {
		case *ssa.DebugRef:
		case *ssa.ChangeType:
			s.mark(r)
		case *ssa.Convert:
			s.mark(r)
		case *ssa.Phi:
			s.mark(r)
		case *ssa.MakeInterface:
			s.mark(r)
		case *ssa.Lookup:
			if r.X != v {
				continue // used as a key
			}
			s.reads++
			s.agg.ok(s.site(r, "lookup"), r.Pos())
			if r.CommaOk {
				if tup, ok := r.Type().(*types.Tuple); ok && isMapType(tup.At(0).Type()) {
					for _, e := range *r.Referrers() {
						if ex, ok := e.(*ssa.Extract); ok && ex.Index == 0 {
							s.mark(ex)
						}
					}
				}
			} else if isMapType(r.Type()) {
				s.mark(r)
			}
		case *ssa.Range:
			for _, n := range *r.Referrers() {
				nx, ok := n.(*ssa.Next)
				if !ok {
					continue
				}
				for _, e := range *nx.Referrers() {
					if ex, ok := e.(*ssa.Extract); ok && ex.Index == 2 && isMapType(ex.Type()) {
						s.mark(ex)
					}
				}
			}
		case *ssa.MapUpdate:
			switch {
			case r.Map == v:
				s.agg.ok(s.site(r, "store (judged by B2 compare-then-store)"), r.Pos())
			case r.Value == v && s.derived[r.Map]:
				// inner table installed in the outer one: a store of the outer table, judged where r.Map is visited
			case r.Value == v:
				s.agg.unsure(s.site(r, "alias"), r.Pos(), "the dedup table is stored into another map: its entries can be removed through that alias")
			}
		case *ssa.BinOp, *ssa.If:
		case *ssa.Store:
			if r.Val != v {
				continue
			}
			switch a := r.Addr.(type) {
			case *ssa.Alloc:
				s.markCell(a)
			case *ssa.FreeVar:
				s.markCell(a)
			case *ssa.FieldAddr:
				if an.FieldKey(a.X.Type(), a.Field) == s.key {
					continue // judged as a field store
				}
				s.agg.unsure(s.site(r, "alias"), r.Pos(), "the dedup table is stored into another field: its entries can be removed through that alias")
			default:
				s.agg.unsure(s.site(r, "alias"), r.Pos(), "the dedup table is stored through a pointer the analyser does not follow")
			}
		case *ssa.MakeClosure:
			if fn, ok := r.Fn.(*ssa.Function); ok {
				for i, b := range r.Bindings {
					if b == v && i < len(fn.FreeVars) {
						s.mark(fn.FreeVars[i])
					}
				}
			}
		case *ssa.Return:
			f := r.Parent()
			idx := -1
			for i, x := range r.Results {
				if x == v {
					idx = i
				}
			}
			if idx < 0 {
				continue
			}
			if f.Parent() != nil || s.asValue[f] || (f.Object() != nil && f.Object().Exported()) {
				s.agg.unsure(s.site(r, "escape"), r.Pos(), "the dedup table is returned by a function whose callers are not all known")
				continue
			}
			for _, ci := range s.callers[f] {
				cv := ci.Value()
				if cv == nil {
					continue
				}
				if f.Signature.Results().Len() == 1 {
					s.mark(cv)
					continue
				}
				for _, e := range *cv.Referrers() {
					if ex, ok := e.(*ssa.Extract); ok && ex.Index == idx {
						s.mark(ex)
					}
				}
			}
		case ssa.CallInstruction:
			s.call(r, v)
		case *ssa.Extract, *ssa.Next:
		default:
			s.agg.unsure(s.site(ref, "use"), ref.Pos(), "use of the dedup table in a form that is not recognised")
		}
	}
}

var c13n4Readers = map[string]bool{
	"maps.Keys": true, "maps.Values": true, "maps.All": true, "maps.Clone": true, "maps.Equal": true, "maps.EqualFunc": true,
	"golang.org/x/exp/maps.Keys": true, "golang.org/x/exp/maps.Values": true, "golang.org/x/exp/maps.Clone": true,
	"golang.org/x/exp/maps.Equal": true, "golang.org/x/exp/maps.EqualFunc": true,
}

var c13n4Removers = map[string]bool{
	"maps.DeleteFunc": true, "golang.org/x/exp/maps.DeleteFunc": true, "golang.org/x/exp/maps.Clear": true,
}

func (s *c13n4State) call(ci ssa.CallInstruction, v ssa.Value) {
	cc := ci.Common()
	if cc.Value == v {
		return
	}
	argIdx := -1
	for i, a := range cc.Args {
		if a == v {
			argIdx = i
			break
		}
	}
	if argIdx < 0 {
		return
	}
	if bi, ok := cc.Value.(*ssa.Builtin); ok {
		switch bi.Name() {
		case "len":
			s.reads++
		case "delete", "clear":
			if argIdx == 0 {
				s.removal(ci, bi.Name())
			}
		case "print", "println":
		default:
			s.agg.unsure(s.site(ci, "use"), ci.Pos(), "builtin "+bi.Name()+" applied to the dedup table")
		}
		return
	}
	callee := cc.StaticCallee()
	if callee != nil && callee.Origin() != nil {
		// instantiation of a generic (maps.DeleteFunc[...]): classify by the generic's name
		name := an.FuncName(callee.Origin())
		switch {
		case c13n4Removers[name] && argIdx == 0:
			s.removal(ci, an.Short(name))
			return
		case c13n4Readers[name]:
			s.reads++
			return
		}
	}
	if callee != nil {
		name := an.FuncName(callee)
		switch {
		case c13n4Removers[name] && argIdx == 0:
			s.removal(ci, an.Short(name))
			return
		case c13n4Readers[name]:
			s.reads++
			return
		}
		if c13PkgOf(callee) == s.pkg && len(callee.Blocks) > 0 {
			// in-package helper (also a method with the table as receiver of a named map type): follow into it
			params := callee.Params
			if cc.IsInvoke() {
				return
			}
			if argIdx < len(params) {
				s.mark(params[argIdx])
				return
			}
		}
	}
	s.agg.unsure(s.site(ci, "escape"), ci.Pos(), "the dedup table is handed to code the analyser does not follow: entries may be removed there")
}

// dead: a function that nothing in the package refers to and that cannot be reached from outside.
func (s *c13n4State) dead(f *ssa.Function) bool {
	for f.Parent() != nil {
		if !s.refd[f] {
			return true
		}
		f = f.Parent()
	}
	if s.refd[f] {
		return false
	}
	obj := f.Object()
	if obj == nil || obj.Exported() || obj.Name() == "init" {
		return false
	}
	if f.Signature.Recv() != nil {
		// an unexported method can still be reached through an interface of the package
		sc := s.pkg.Pkg.Scope()
		for _, n := range sc.Names() {
			if tn, ok := sc.Lookup(n).(*types.TypeName); ok {
				if it, ok := tn.Type().Underlying().(*types.Interface); ok {
					for i := 0; i < it.NumMethods(); i++ {
						if it.Method(i).Name() == obj.Name() {
							return false
						}
					}
				}
			}
		}
	}
	return true
}

func (s *c13n4State) removal(ci ssa.CallInstruction, how string) {
	if s.seenUse[ci] {
		return
	}
	s.seenUse[ci] = true
	k := s.site(ci, "entries are never removed")
	if s.dead(ci.Parent()) {
		s.agg.ok(k+" (unreferenced function)", ci.Pos())
		return
	}
	s.agg.bad(k, ci.Pos(), how+" removes recorded hashes from the dedup table: after the removal a second, different hash is signed for the same (peer, message id) in the same session")
}

// fresh: +1 the object addressed by v is created in the same call chain (under construction), -1 it is positively an
// object that others already hold (loaded from a field or global, receiver of a handler or callback), 0 unknown.
func (s *c13n4State) fresh(v ssa.Value, d int) int {
	if d > 6 {
		return 0
	}
	for i := 0; i < 16; i++ {
		v = c13Origin(v)
		if fa, ok := v.(*ssa.FieldAddr); ok {
			v = fa.X
			continue
		}
		if ia, ok := v.(*ssa.IndexAddr); ok {
			v = ia.X
			continue
		}
		break
	}
	switch x := v.(type) {
	case *ssa.Alloc:
		return 1
	case *ssa.Parameter:
		f := x.Parent()
		if f.Parent() != nil || s.asValue[f] || (f.Object() != nil && f.Object().Exported()) {
			return -1
		}
		idx := -1
		for i, p := range f.Params {
			if p == x {
				idx = i
			}
		}
		if idx < 0 || len(s.callers[f]) == 0 {
			return 0
		}
		out := 1
		for _, ci := range s.callers[f] {
			cc := ci.Common()
			if cc.IsInvoke() || idx >= len(cc.Args) {
				return 0
			}
			switch s.fresh(cc.Args[idx], d+1) {
			case -1:
				return -1
			case 0:
				out = 0
			}
		}
		return out
	case *ssa.Call:
		callee := x.Call.StaticCallee()
		if callee == nil || c13PkgOf(callee) != s.pkg || len(callee.Blocks) == 0 || callee.Signature.Results().Len() != 1 {
			return 0
		}
		out := 1
		for _, r := range an.Returns(callee) {
			if len(r.Results) != 1 {
				return 0
			}
			switch s.fresh(r.Results[0], d+1) {
			case -1:
				return -1
			case 0:
				out = 0
			}
		}
		return out
	case *ssa.UnOp:
		if x.Op == token.MUL {
			switch x.X.(type) {
			case *ssa.FieldAddr, *ssa.Global:
				return -1
			}
		}
	case *ssa.FreeVar:
		return 0
	}
	return 0
}

// rootOf strips loads of single-assignment cells and field/element selections.
func c13n4RootOf(v ssa.Value) ssa.Value {
	for i := 0; i < 16; i++ {
		v = c13Origin(v)
		if fa, ok := v.(*ssa.FieldAddr); ok {
			v = fa.X
			continue
		}
		if ia, ok := v.(*ssa.IndexAddr); ok {
			v = ia.X
			continue
		}
		break
	}
	return v
}

// freshAt is fresh for a store instruction: an object created by an enclosing function is no longer under
// construction inside a function literal that outlives that function (a registered handler or callback).
func (s *c13n4State) freshAt(st *ssa.Store, base ssa.Value) int {
	r := s.fresh(base, 0)
	if r != 1 {
		return r
	}
	var rf *ssa.Function
	switch x := c13n4RootOf(base).(type) {
	case *ssa.Parameter:
		rf = x.Parent()
	case ssa.Instruction:
		rf = x.Parent()
	}
	if rf == nil || rf == st.Parent() {
		return r
	}
	for f := st.Parent(); f != nil && f != rf; f = f.Parent() {
		if f.Parent() == nil {
			return 0
		}
		if !c13LiteralLocal(f, s.pkg) {
			return -1
		}
	}
	return r
}

// emptyGuarded: the store is executed only when the table currently installed in the same field is nil or empty.
func (s *c13n4State) emptyGuarded(st *ssa.Store) bool {
	isTable := func(v ssa.Value) bool {
		v = an.Unwrap(v)
		if s.derived[v] {
			return true
		}
		if call, ok := v.(*ssa.Call); ok {
			if bi, ok := call.Call.Value.(*ssa.Builtin); ok && bi.Name() == "len" && len(call.Call.Args) == 1 {
				return s.derived[an.Unwrap(call.Call.Args[0])]
			}
		}
		return false
	}
	isZero := func(v ssa.Value) bool {
		if an.IsNilConst(v) {
			return true
		}
		n, ok := an.ConstInt(v)
		return ok && n == 0
	}
	b := st.Block()
	for d := b.Idom(); d != nil; d = d.Idom() {
		iff, ok := d.Instrs[len(d.Instrs)-1].(*ssa.If)
		if !ok {
			continue
		}
		bin, ok := iff.Cond.(*ssa.BinOp)
		if !ok {
			continue
		}
		x, y := bin.X, bin.Y
		op := bin.Op
		if isZero(x) && isTable(y) {
			x, y = y, x
			op = c13n4Flip(op)
		}
		if !(isTable(x) && isZero(y)) {
			continue
		}
		var succ *ssa.BasicBlock
		switch op {
		case token.EQL, token.LEQ: // == nil, len == 0, len <= 0
			succ = d.Succs[0]
		case token.NEQ, token.GTR: // != nil, len != 0, len > 0
			succ = d.Succs[1]
		case token.LSS: // len < 1
			if n, ok := an.ConstInt(y); ok && n == 1 {
				succ = d.Succs[0]
			}
		}
		if succ == nil {
			if n, ok := an.ConstInt(y); ok && n == 1 && (op == token.LSS) {
				succ = d.Succs[0]
			} else if ok && n == 1 && op == token.GEQ {
				succ = d.Succs[1]
			}
		}
		if succ != nil && len(succ.Preds) == 1 && (succ == b || succ.Dominates(b)) {
			return true
		}
	}
	return false
}

// onceOnly: f is a function literal whose only use is as the argument of sync.Once.Do (one-time lazy construction).
func (s *c13n4State) onceOnly(f *ssa.Function) bool {
	if f == nil || f.Parent() == nil {
		return false
	}
	mc := c13MakerOf(f)
	if mc == nil || mc.Referrers() == nil {
		return false
	}
	n := 0
	for _, ref := range *mc.Referrers() {
		switch x := ref.(type) {
		case *ssa.DebugRef:
		case ssa.CallInstruction:
			callee := x.Common().StaticCallee()
			if callee == nil || an.FuncName(callee) != "sync.Once.Do" {
				return false
			}
			n++
		default:
			return false
		}
	}
	return n > 0
}

func c13n4Flip(op token.Token) token.Token {
	switch op {
	case token.LSS:
		return token.GTR
	case token.GTR:
		return token.LSS
	case token.LEQ:
		return token.GEQ
	case token.GEQ:
		return token.LEQ
	}
	return op
}

func (s *c13n4State) fieldStore(st *ssa.Store) {
	fa := st.Addr.(*ssa.FieldAddr)
	k := s.site(st, "table installed only on an object under construction")
	fr := s.freshAt(st, fa.X)
	if fr == 1 {
		s.agg.ok(k, st.Pos())
		return
	}
	if s.emptyGuarded(st) || s.onceOnly(st.Parent()) {
		s.agg.ok(k, st.Pos())
		return
	}
	if s.dead(st.Parent()) {
		s.agg.ok(k+" (unreferenced function)", st.Pos())
		return
	}
	if fr == -1 && !s.derived[an.Unwrap(st.Val)] {
		s.agg.bad(k, st.Pos(), "another table is installed on an object that is already in use: every hash recorded so far is dropped, so a second, different hash is signed for the same (peer, message id) in the same session")
		return
	}
	s.agg.unsure(k, st.Pos(), "cannot tell whether the object whose dedup table is assigned is still under construction")
}
