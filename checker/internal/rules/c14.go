package rules

import (
	"fmt"
	"go/ast"
	"go/constant"
	"go/parser"
	"go/token"
	"go/types"
	"sort"
	"strings"

	"golang.org/x/tools/go/ssa"

	"charonverif/internal/an"
	"charonverif/internal/load"
	"charonverif/internal/rt"
)

func c14(c *rt.Ctx) {
	c.Rule("M1", 16, func() { c14M1(c) })
	c.Rule("M2", 7, func() { c14M2(c) })
	c.Rule("M3", 26, func() { c14M3(c) })
	c.Rule("M4", 4, func() { c14M4(c) }) // structural minimum: two decoders x (recover, at least one decode call under it)
	c.Rule("M5", 34, func() { c14M5(c) })
	c.Rule("M6", 70, func() { c14M6(c) })
	c.Rule("M8", 4, func() { c14M8(c) })
}

// ---------------------------------------------------------------------------------------------
// shared helpers

// c14FieldSel decodes a field selection instruction.
func c14FieldSel(v ssa.Value) (st types.Type, name string, base ssa.Value, ok bool) {
	switch x := v.(type) {
	case *ssa.FieldAddr:
		pt, ok := x.X.Type().Underlying().(*types.Pointer)
		if !ok {
			return nil, "", nil, false
		}
		s, ok := pt.Elem().Underlying().(*types.Struct)
		if !ok {
			return nil, "", nil, false
		}
		return pt.Elem(), s.Field(x.Field).Name(), x.X, true
	case *ssa.Field:
		s, ok := x.X.Type().Underlying().(*types.Struct)
		if !ok {
			return nil, "", nil, false
		}
		return x.X.Type(), s.Field(x.Field).Name(), x.X, true
	}
	return nil, "", nil, false
}

// c14ConstName names the constant of named type nt with the value of k ("" if none).
func c14ConstName(nt *types.Named, k *ssa.Const) string {
	if nt.Obj().Pkg() == nil || k.Value == nil {
		return ""
	}
	sc := nt.Obj().Pkg().Scope()
	var names []string
	for _, n := range sc.Names() {
		if cst, ok := sc.Lookup(n).(*types.Const); ok && types.Identical(cst.Type(), nt) && cst.Val().ExactString() == k.Value.ExactString() {
			names = append(names, n)
		}
	}
	sort.Strings(names)
	if len(names) == 0 {
		return ""
	}
	return names[0]
}

func c14Named(t types.Type) *types.Named {
	for {
		p, ok := t.(*types.Pointer)
		if !ok {
			break
		}
		t = p.Elem()
	}
	n, _ := t.(*types.Named)
	return n
}

func c14SortedKeys[V any](m map[string]V) []string {
	var out []string
	for k := range m {
		out = append(out, k)
	}
	sort.Strings(out)
	return out
}

// ---------------------------------------------------------------------------------------------
// M1 dispatch exhaustiveness

// c14Carries: the resolved argument is the tag value or an aggregate that contains it.
func c14Carries(arg, tag symCV) bool {
	if arg == tag {
		return true
	}
	return arg.v != nil && arg.v == tag.v && arg.f == tag.f && arg.p != tag.p && symPathCovers(arg.p, tag.p)
}

// c14DependsCV: the value is computed from the tag (comparisons, conversions, calls on it) - used to tell an
// undecided branch that is about the tag from an unrelated one.
func c14DependsCV(st *symState, v ssa.Value, f int, tag symCV, depth int) bool {
	c := st.resolve(v, f)
	if c14Carries(tag, c) || c14Carries(c, tag) {
		return true
	}
	if depth > 6 || (c.p != "" && !strings.HasPrefix(c.p, "#")) {
		return false
	}
	in, ok := c.v.(ssa.Instruction)
	if !ok {
		return false
	}
	if _, isPhi := in.(*ssa.Phi); isPhi {
		return false
	}
	for _, op := range in.Operands(nil) {
		if op != nil && *op != nil && c14DependsCV(st, *op, c.f, tag, depth+1) {
			return true
		}
	}
	return false
}

// c14TagOutcome summarises the returns of a function explored under "tag == k".
type c14TagOutcome struct {
	nilRet, unknownRet, nonNilRet int
	nilUnderDoubt                 int // nil returns reached through an undecided branch on the tag
	reached                       bool
	complete                      bool
}

// c14ExploreTag explores fn with the fact tag == k. tagOf yields the tag's canonical value in the root frame.
// Static callees of the same package that receive the tag are explored in place. reach (optional) is matched
// against every call executed on a path.
func c14ExploreTag(fn *ssa.Function, tagOf func(x *symX) symCV, k constant.Value, reach an.Matcher) c14TagOutcome {
	var out c14TagOutcome
	var tag symCV
	out.complete = symExplore(fn, symHooks{
		Init: func(x *symX) {
			tag = tagOf(x)
			x.st.learn(tag, k, true)
		},
		Inline: func(x *symX, site ssa.CallInstruction, callee *ssa.Function) bool {
			if !c14SamePkg(callee, fn) {
				return false
			}
			if callee.Parent() != nil {
				return true // closures of the function under analysis
			}
			for _, a := range site.Common().Args {
				if c14Carries(x.R(a), tag) {
					return true
				}
			}
			return false
		},
		Before: func(x *symX, in ssa.Instruction) {
			switch y := in.(type) {
			case *ssa.If:
				if x.Bool(y.Cond) == 0 && c14DependsCV(x.st, y.Cond, x.fr.id, tag, 0) {
					x.SetFlag("tag-undecided")
				}
			case ssa.CallInstruction:
				if reach != nil && reach(y.Common()) {
					out.reached = true
				}
			}
		},
		Return: func(x *symX, ret *ssa.Return, res []symCV) {
			if len(res) == 0 {
				return
			}
			switch x.NilCV(res[len(res)-1]) {
			case -1:
				out.nilRet++
				if x.Flag("tag-undecided") {
					out.nilUnderDoubt++
				}
			case 1:
				out.nonNilRet++
			default:
				out.unknownRet++
			}
		},
	})
	return out
}

// c14DutyConsts: the declared constants of core.DutyType and a value that is none of them.
func c14DutyConsts(c *rt.Ctx) (map[string]constant.Value, constant.Value) {
	sc := c.Pkg("core").Types.Scope()
	obj := sc.Lookup("DutyType")
	if obj == nil {
		c.Bail("core.DutyType not found")
	}
	out := map[string]constant.Value{}
	max := int64(0)
	for _, n := range sc.Names() {
		if cst, ok := sc.Lookup(n).(*types.Const); ok && types.Identical(cst.Type(), obj.Type()) {
			out[n] = cst.Val()
			if v, ok := constant.Int64Val(cst.Val()); ok && v > max {
				max = v
			}
		}
	}
	if len(out) == 0 {
		c.Bail("core.DutyType has no constants")
	}
	return out, constant.MakeInt64(max + 1000003)
}

func c14M1(c *rt.Ctx) {
	consts, other := c14DutyConsts(c)
	type decoder struct {
		fn  *ssa.Function
		tag func(x *symX) symCV
	}
	decoders := map[string]decoder{}
	for _, name := range []string{"core.ParSignedDataFromProto", "core.unmarshalUnsignedData"} {
		fn := c.Fn(name)
		var tagParam *ssa.Parameter
		for _, p := range fn.Params {
			if _, isPtr := p.Type().(*types.Pointer); !isPtr && an.TypeName(p.Type()) == "core.DutyType" {
				tagParam = p
			}
		}
		if tagParam == nil {
			c.Bail("%s: no duty type parameter", name)
		}
		d := decoder{fn, func(x *symX) symCV { return x.R(tagParam) }}
		decoders[name] = d
		o := c14ExploreTag(fn, d.tag, other, nil)
		switch {
		case !o.complete:
			c.Unsure(name+" default→error", fn.Pos(), "path exploration exceeded its budget")
		case o.nilRet+o.unknownRet+o.nonNilRet == 0:
			c.Bad(name+" default→error", fn.Pos(), "an unknown duty type reaches no return")
		case o.nilRet > o.nilUnderDoubt:
			c.Bad(name+" default→error", fn.Pos(), "an unknown duty type reaches a successful return: the decoder accepts data it has no type for")
		case o.nilRet > 0 || o.unknownRet > 0:
			c.Unsure(name+" default→error", fn.Pos(), "cannot tell whether every return reached with an unknown duty type carries an error")
		default:
			c.Good(name+" default→error", fn.Pos(), "")
		}
	}
	coveredMemo := map[string]int{}
	covered := func(dec, k string) int {
		key := dec + "|" + k
		if v, ok := coveredMemo[key]; ok {
			return v
		}
		kv, ok := consts[k]
		v := c14Bad
		if ok {
			o := c14ExploreTag(decoders[dec].fn, decoders[dec].tag, kv, nil)
			switch {
			case !o.complete:
				v = c14Unsure
			case o.nilRet+o.unknownRet > 0:
				v = c14OK
			}
		}
		coveredMemo[key] = v
		return v
	}
	report := func(construct string, pos token.Pos, st int, why string) {
		switch st {
		case c14OK:
			c.Good(construct, pos, "")
		case c14Unsure:
			c.Unsure(construct, pos, "path exploration exceeded its budget")
		default:
			c.Bad(construct, pos, why)
		}
	}

	// signed: duty types of every call that hands a locally constructed duty plus a ParSignedDataSet on
	type site struct {
		fn  string
		pos token.Pos
	}
	signed := map[string]site{}
	var pkgs []string
	for _, p := range c.P.Pkgs {
		rel := strings.TrimPrefix(p.PkgPath, load.Mod+"/")
		if strings.HasPrefix(rel, "testutil") || strings.HasPrefix(rel, "test") || rel == p.PkgPath {
			continue
		}
		pkgs = append(pkgs, rel)
	}
	sort.Strings(pkgs)
	var spkgs []*ssa.Package
	for _, rel := range pkgs {
		spkgs = append(spkgs, c.P.SSAPkg(rel))
	}
	flow := newC14Flow(spkgs)
	for _, rel := range pkgs {
		sp := c.P.SSAPkg(rel)
		if sp == nil {
			continue
		}
		for _, fn := range an.PkgFuncs(sp) {
			for _, in := range an.Instrs(fn, false) {
				call, ok := in.(ssa.CallInstruction)
				if !ok {
					continue
				}
				var duty ssa.Value
				hasSet := false
				for _, a := range call.Common().Args {
					if _, isPtr := a.Type().(*types.Pointer); isPtr {
						continue
					}
					switch an.TypeName(a.Type()) {
					case "core.Duty":
						duty = a
					case "core.ParSignedDataSet":
						hasSet = true
					}
				}
				if duty == nil || !hasSet {
					continue
				}
				for _, o := range flow.origins(duty, 0) {
					switch o.kind {
					case "ctor":
						if _, seen := signed[o.name]; !seen {
							signed[o.name] = site{an.FuncName(fn), in.Pos()}
						}
					case "forwarded":
					default:
						c.Unsure("duty origin in "+an.FuncName(fn), in.Pos(), "cannot tell which duty type accompanies the partial-signature set: "+o.name)
					}
				}
			}
		}
	}
	for _, k := range c14SortedKeys(signed) {
		s := signed[k]
		report("core.ParSignedDataFromProto covers "+k, s.pos, covered("core.ParSignedDataFromProto", k),
			"partial signatures of this duty type are produced (in "+s.fn+") but the peer-side decoder has no successful case for it")
	}

	// unsigned: the duty types for which fetcher.Fetch reaches the subscriber fan-out
	fetch := c.Fn("core/fetcher.Fetcher.Fetch")
	var dutyParam *ssa.Parameter
	for _, p := range fetch.Params {
		if _, isPtr := p.Type().(*types.Pointer); !isPtr && an.TypeName(p.Type()) == "core.Duty" {
			dutyParam = p
		}
	}
	if dutyParam == nil {
		c.Bail("fetcher.Fetch: no core.Duty parameter")
	}
	typeIdx := -1
	if st, ok := dutyParam.Type().Underlying().(*types.Struct); ok {
		for i := 0; i < st.NumFields(); i++ {
			if st.Field(i).Name() == "Type" {
				typeIdx = i
			}
		}
	}
	if typeIdx < 0 {
		c.Bail("core.Duty has no Type field")
	}
	fetchTag := func(x *symX) symCV { return x.st.project(x.R(dutyParam), fmt.Sprintf(".%d", typeIdx)) }
	subs := an.FieldCall("core/fetcher.Fetcher.subs")
	nReach := 0
	for _, k := range c14SortedKeys(consts) {
		o := c14ExploreTag(fetch, fetchTag, consts[k], subs)
		if !o.complete {
			c.Unsure("core.unmarshalUnsignedData covers "+k, fetch.Pos(), "path exploration of fetcher.Fetch exceeded its budget")
			continue
		}
		if !o.reached {
			continue
		}
		nReach++
		report("core.unmarshalUnsignedData covers "+k, fetch.Pos(), covered("core.unmarshalUnsignedData", k),
			"the fetcher produces unsigned data for this duty type but the consensus-side decoder has no successful case for it")
	}
	if nReach == 0 {
		c.Bail("fetcher.Fetch: the subscriber fan-out is not reached for any duty type")
	}
}

type c14Origin struct{ kind, name string }

func init() {
	Register(&Prop{
		ID: "C14",
		Decides: "core data encoding, decided per path by a symbolic walk of the SSA (phis by entry edge, locals by last store, in-package helpers and closures explored in place, nil/constant facts learned at branches): " +
			"(M1) under `type == K` ParSignedDataFromProto / unmarshalUnsignedData reach a return whose error is not known non-nil for every duty type K the repository produces partial signatures / unsigned data for, and only non-nil errors for a type that is no declared constant; " +
			"(M2) in both hashProto copies every proto Marshal call is MarshalOptions.Marshal with Deterministic==true, every Hasher.PutBytes argument is the byte result of such a call whose error is known nil at that point, a successful return yields HashRoot's checked result, and the copies perform the same hasher steps; " +
			"(M3) VerifyEth2SignedData calls the methods of the decoded value in one order and never calls a later one while an earlier error may be non-nil; a version payload that UnmarshalJSON can store nil (JSON null) is known non-nil or preceded by a successful validating library accessor wherever a method of that receive prefix dereferences it; dutydb uses a decoded UnsignedData for nothing but Clone() and uses the clone only where Clone() is known to have succeeded; " +
			"(M4) every decode call of the two *FromProto decoders is preceded on every path by a defer of a function that calls recover() itself and stores a non-nil error into the named error result whenever the recovered value may be non-nil; " +
			"(M5) every successful return of a Clone/clone of a SignedData/UnsignedData implementor yields the content of a local of the receiver's type filled from the receiver by a successful cloneSSZMarshaler/cloneJSONMarshaler call and not assigned afterwards (byte copy for Signature, element-wise checked Clone for SyncContributions), and the two codec helpers decode exactly the bytes they encoded; " +
			"(M6) all functions of one versioned wrapper that dispatch on the version handle the same versions, and a payload field that is only reached when the version is K / the value is (un)blinded belongs to K / has that polarity.",
		NotDecided: "round-trip equality of values and signing roots, byte-level totality of the SSZ/JSON decoders of go-eth2-client, nil sub-objects below the version payload (validated by the library decoders), determinism of JSON encodings.",
		Run:        c14,
		Mutants:    c14Mutants,
	})
}

// ---------------------------------------------------------------------------------------------
// obligation aggregation: the explorer meets the same instruction on many paths; an obligation holds when it
// holds on all of them, is UNDECIDED when some path could not be judged and a VIOLATION when one path breaks it.

const (
	c14OK = iota
	c14Unsure
	c14Bad
)

type c14Item struct {
	construct string
	pos       token.Pos
	status    int
	why       string
}

type c14Agg struct {
	order []string
	items map[string]*c14Item
}

func newC14Agg() *c14Agg { return &c14Agg{items: map[string]*c14Item{}} }

func (a *c14Agg) add(construct string, pos token.Pos, status int, why string) {
	a.addAt(construct, "", pos, status, why)
}

// addAt distinguishes instances of one construct at one position by a context (the inlining chain of a helper
// that serves several call sites).
func (a *c14Agg) addAt(construct, ctx string, pos token.Pos, status int, why string) {
	k := fmt.Sprintf("%s@%d@%s", construct, pos, ctx)
	it := a.items[k]
	if it == nil {
		it = &c14Item{construct: construct, pos: pos}
		a.items[k] = it
		a.order = append(a.order, k)
	}
	if status > it.status {
		it.status, it.why = status, why
	}
}

func (a *c14Agg) has(construct string) bool {
	for _, it := range a.items {
		if it.construct == construct {
			return true
		}
	}
	return false
}

func (a *c14Agg) flush(c *rt.Ctx) {
	for _, k := range a.order {
		it := a.items[k]
		switch it.status {
		case c14OK:
			c.Good(it.construct, it.pos, "")
		case c14Unsure:
			c.Unsure(it.construct, it.pos, it.why)
		default:
			c.Bad(it.construct, it.pos, it.why)
		}
	}
}

// c14PkgOf returns the package a function belongs to (the generic origin's package for an instantiation, the
// enclosing function's for a literal).
func c14PkgOf(fn *ssa.Function) *ssa.Package {
	for i := 0; i < 8 && fn != nil; i++ {
		if fn.Pkg != nil {
			return fn.Pkg
		}
		if o := fn.Origin(); o != nil && o != fn {
			fn = o
			continue
		}
		fn = fn.Parent()
	}
	return nil
}

func c14SamePkg(a, b *ssa.Function) bool {
	pa, pb := c14PkgOf(a), c14PkgOf(b)
	return pa != nil && pa == pb
}

// c14InRepo: the function is declared in the analysed module (its body is available).
func c14InRepo(fn *ssa.Function) bool {
	p := c14PkgOf(fn)
	return p != nil && p.Pkg != nil && (p.Pkg.Path() == load.Mod || strings.HasPrefix(p.Pkg.Path(), load.Mod+"/"))
}

// c14ContainsRepo is c14Contains following static callees anywhere in the module.
func c14ContainsRepo(fn *ssa.Function, m an.Matcher, depth int, seen map[*ssa.Function]bool) bool {
	if fn == nil || fn.Blocks == nil || depth > 3 || seen[fn] {
		return false
	}
	seen[fn] = true
	for _, in := range an.Instrs(fn, true) {
		ci, ok := in.(ssa.CallInstruction)
		if !ok {
			continue
		}
		if m(ci.Common()) {
			return true
		}
		if g := ci.Common().StaticCallee(); g != nil && c14InRepo(g) && c14ContainsRepo(g, m, depth+1, seen) {
			return true
		}
	}
	return false
}

// c14InlineRepoIf is c14InlineIf for helpers anywhere in the module.
func c14InlineRepoIf(m an.Matcher) func(x *symX, site ssa.CallInstruction, callee *ssa.Function) bool {
	memo := map[*ssa.Function]bool{}
	return func(x *symX, site ssa.CallInstruction, callee *ssa.Function) bool {
		if !c14InRepo(callee) {
			return false
		}
		if v, ok := memo[callee]; ok {
			return v
		}
		v := c14ContainsRepo(callee, m, 0, map[*ssa.Function]bool{})
		memo[callee] = v
		return v
	}
}

// c14Contains: fn, or a static callee of the same package up to three calls below it, contains a call matching m.
func c14Contains(fn *ssa.Function, m an.Matcher, depth int, seen map[*ssa.Function]bool) bool {
	if fn == nil || fn.Blocks == nil || depth > 3 || seen[fn] {
		return false
	}
	seen[fn] = true
	for _, in := range an.Instrs(fn, true) {
		ci, ok := in.(ssa.CallInstruction)
		if !ok {
			continue
		}
		if m(ci.Common()) {
			return true
		}
		if g := ci.Common().StaticCallee(); g != nil && c14SamePkg(g, fn) && c14Contains(g, m, depth+1, seen) {
			return true
		}
	}
	return false
}

// c14InlineIf builds an Inline hook: static callees of the root's package (helpers, closures) that contain a call
// matching m somewhere below them are explored in place.
func c14InlineIf(root *ssa.Function, m an.Matcher) func(x *symX, site ssa.CallInstruction, callee *ssa.Function) bool {
	memo := map[*ssa.Function]bool{}
	return func(x *symX, site ssa.CallInstruction, callee *ssa.Function) bool {
		if !c14SamePkg(callee, root) {
			return false
		}
		if v, ok := memo[callee]; ok {
			return v
		}
		v := c14Contains(callee, m, 0, map[*ssa.Function]bool{})
		memo[callee] = v
		return v
	}
}

// ---------------------------------------------------------------------------------------------
// M2 deterministic marshalling before hashing

const c14ProtoMarshal = "google.golang.org/protobuf/proto.MarshalOptions.Marshal"

func c14IsProtoMarshal(cc *ssa.CallCommon) bool {
	f := cc.StaticCallee()
	return f != nil && strings.HasPrefix(an.FuncName(f), "google.golang.org/protobuf/proto.") && strings.Contains(f.Name(), "Marshal") && !strings.Contains(f.Name(), "Unmarshal")
}

func c14IsHashStep(cc *ssa.CallCommon) bool {
	f := cc.StaticCallee()
	return f != nil && strings.HasPrefix(an.FuncName(f), "github.com/ferranbt/fastssz.Hasher.")
}

func c14M2(c *rt.Ctx) {
	var seqs []map[string]bool
	var fns []*ssa.Function
	for _, name := range []string{"core/consensus/qbft.hashProto", "core/priority.hashProto"} {
		fn := c.Fn(name)
		fns = append(fns, fn)
		if !c14ContainsRepo(fn, c14IsProtoMarshal, 0, map[*ssa.Function]bool{}) {
			c.Bail("%s: no protobuf marshalling call found", name)
		}
		agg := newC14Agg()
		seq := map[string]bool{}
		nSucc := 0
		cMarsh, cPut, cRoot := name+" marshals deterministically", name+" hashes the deterministic bytes", name+" returns the hash root"
		complete := symExplore(fn, symHooks{
			Inline: c14InlineRepoIf(an.Any(c14IsProtoMarshal, c14IsHashStep)),
			Before: func(x *symX, in ssa.Instruction) {
				call, ok := in.(*ssa.Call)
				if !ok {
					return
				}
				switch {
				case c14IsProtoMarshal(&call.Call):
					st, why := c14DeterministicAt(x, call)
					agg.add(cMarsh, call.Pos(), st, why)
				case an.Static("github.com/ferranbt/fastssz.Hasher.PutBytes")(&call.Call) && len(call.Call.Args) == 2:
					st, why := c14DetBytes(x, call.Call.Args[1], 0)
					agg.add(cPut, call.Pos(), st, why)
				}
			},
			Return: func(x *symX, ret *ssa.Return, res []symCV) {
				if len(res) != 2 {
					agg.add(cRoot, fn.Pos(), c14Unsure, "unexpected result arity")
					return
				}
				root := res[0]
				rc, isCall := root.v.(*ssa.Call)
				isRoot := isCall && root.p == "#0" && an.Static("github.com/ferranbt/fastssz.Hasher.HashRoot")(&rc.Call)
				switch x.NilCV(res[1]) {
				case 1:
					return // error return
				case 0:
					// `return hh.HashRoot()`: value and error of the same call handed on together
					if !(isRoot && res[1] == (symCV{v: root.v, f: root.f, p: "#1"})) {
						agg.add(cRoot, posOf(ret), c14Unsure, "cannot tell whether this return reports success")
						return
					}
				default:
					if !isRoot {
						if isCall {
							agg.add(cRoot, fn.Pos(), c14Unsure, "the returned hash is the result of "+an.CalleeName(&rc.Call)+", which was not explored")
						} else {
							agg.add(cRoot, fn.Pos(), c14Bad, "a successful return does not yield Hasher.HashRoot's result")
						}
						return
					}
					if x.CallOK(rc, root.f) != 1 {
						agg.add(cRoot, fn.Pos(), c14Bad, "the hash root is returned as success although HashRoot may have failed")
						return
					}
				}
				agg.add(cRoot, fn.Pos(), c14OK, "")
				nSucc++
				var steps []string
				nPut := 0
				for _, ev := range x.Trace() {
					if call, ok := ev.In.(*ssa.Call); ok && c14IsHashStep(&call.Call) {
						steps = append(steps, an.CalleeName(&call.Call))
						if call.Call.StaticCallee().Name() == "PutBytes" {
							nPut++
						}
					}
				}
				if nPut == 0 {
					agg.add(cPut, fn.Pos(), c14Bad, "a successful return hashes no bytes at all")
				}
				seq[strings.Join(steps, " → ")] = true
			},
		})
		if !complete {
			c.Bail("%s: path exploration exceeded its budget", name)
		}
		if nSucc == 0 {
			agg.add(cRoot, fn.Pos(), c14Bad, "no successful return")
		}
		for _, k := range []string{cMarsh, cPut, cRoot} {
			if !agg.has(k) {
				agg.add(k, fn.Pos(), c14Unsure, "no instance found on any explored path")
			}
		}
		agg.flush(c)
		seqs = append(seqs, seq)
	}
	a, b := strings.Join(c14SortedKeys(seqs[0]), " | "), strings.Join(c14SortedKeys(seqs[1]), " | ")
	c.Check("hashProto siblings agree (qbft, priority)", fns[1].Pos(), a == b,
		"the two copies perform different hashing steps: "+a+"  vs  "+b)
}

// c14DeterministicAt: the call is proto.MarshalOptions.Marshal on an options value whose Deterministic field is the
// constant true on this path (literal, local variable assigned field by field, result of an in-package helper).
func c14DeterministicAt(x *symX, call *ssa.Call) (int, string) {
	f := call.Call.StaticCallee()
	if n := an.FuncName(f); n != c14ProtoMarshal && n != c14ProtoMarshal+"Append" {
		return c14Bad, "marshals with " + n + ", whose map ordering is not deterministic"
	}
	st, ok := f.Signature.Recv().Type().Underlying().(*types.Struct)
	if !ok || len(call.Call.Args) == 0 {
		return c14Unsure, "unexpected receiver of " + an.FuncName(f)
	}
	idx := -1
	for i := 0; i < st.NumFields(); i++ {
		if st.Field(i).Name() == "Deterministic" {
			idx = i
		}
	}
	if idx < 0 {
		return c14Unsure, "MarshalOptions has no Deterministic field"
	}
	opts := x.R(call.Call.Args[0])
	d := x.st.project(opts, fmt.Sprintf(".%d", idx))
	if k, ok := x.st.constOf(d); ok && k.Kind() == constant.Bool {
		if constant.BoolVal(k) {
			return c14OK, ""
		}
		return c14Bad, "Deterministic option is false"
	}
	if strings.HasPrefix(d.p, symZero) {
		return c14Bad, "Deterministic option is not set"
	}
	if k, ok := opts.v.(*ssa.Const); ok && opts.p == "" && k.Value == nil {
		return c14Bad, "Deterministic option is not set"
	}
	if g, ok := opts.v.(*ssa.Global); ok {
		// an unexported package-level options variable that is only assigned by its initialiser
		if k, ok := c14GlobalFieldConst(g, idx); ok {
			if k.Kind() == constant.Bool && constant.BoolVal(k) {
				return c14OK, ""
			}
			return c14Bad, "Deterministic option of the package-level marshal options is not true"
		}
	}
	return c14Unsure, "cannot resolve the marshal options to a local literal (" + opts.String() + ")"
}

// c14GlobalFieldConst: field idx of the unexported package-level struct variable g has a constant value: g is
// assigned only by the package initialiser (evaluated with the path explorer) and nothing else in the package writes
// it or takes its address.
func c14GlobalFieldConst(g *ssa.Global, idx int) (constant.Value, bool) {
	if g.Pkg == nil || g.Object() == nil || g.Object().Exported() {
		return nil, false
	}
	init := g.Pkg.Func("init")
	if init == nil {
		return nil, false
	}
	for _, fn := range an.PkgFuncs(g.Pkg) {
		for _, in := range an.Instrs(fn, false) {
			for _, op := range in.Operands(nil) {
				if op == nil || *op != ssa.Value(g) {
					continue
				}
				switch y := in.(type) {
				case *ssa.UnOp:
					if y.Op != token.MUL {
						return nil, false
					}
				case *ssa.FieldAddr:
					for _, ref := range *y.Referrers() {
						if _, isLoad := ref.(*ssa.UnOp); !isLoad {
							return nil, false
						}
					}
				case *ssa.DebugRef:
				default:
					return nil, false
				}
			}
		}
	}
	var val constant.Value
	n, bad := 0, false
	gv := symCV{v: g}
	complete := symExplore(init, symHooks{
		Before: func(x *symX, in ssa.Instruction) {
			st, ok := in.(*ssa.Store)
			if !ok {
				return
			}
			base, path, ok := x.st.addr(st.Addr, x.fr.id)
			if !ok || base != gv {
				return
			}
			want := fmt.Sprintf(".%d", idx)
			var d symCV
			switch {
			case path == "":
				d = x.st.project(x.R(st.Val), want)
			case path == want:
				d = x.R(st.Val)
			default:
				return
			}
			k, isK := x.st.constOf(d)
			if !isK {
				if strings.HasPrefix(d.p, symZero) {
					k, isK = constant.MakeBool(false), true
				}
			}
			if !isK || (val != nil && !constant.Compare(val, token.EQL, k)) {
				bad = true
				return
			}
			val = k
			n++
		},
	})
	if !complete || bad || n == 0 {
		return nil, false
	}
	return val, true
}

// c14DetBytes: v is (a full copy of) the byte result of a protobuf Marshal call that is known to have succeeded on
// this path. Deterministic-ness of that call is its own obligation.
func c14DetBytes(x *symX, v ssa.Value, depth int) (int, string) {
	return c14DetBytesCV(x, x.R(v), depth)
}

func c14DetBytesCV(x *symX, c symCV, depth int) (int, string) {
	if depth > 6 {
		return c14Unsure, "hashed bytes too indirect"
	}
	if call, ok := c.v.(*ssa.Call); ok && c.p == "#0" && c14IsProtoMarshal(&call.Call) {
		switch x.CallOK(call, c.f) {
		case 1:
			return c14OK, ""
		default:
			return c14Bad, "the bytes put into the hasher are the result of a Marshal call whose error is not known to be nil here"
		}
	}
	if c.p == "" {
		switch y := c.v.(type) {
		case *ssa.Slice:
			// b[0:len(b)]
			full := y.Max == nil
			if y.Low != nil {
				if k, ok := an.ConstInt(y.Low); !ok || k != 0 {
					full = false
				}
			}
			if y.High != nil {
				hc, ok := y.High.(*ssa.Call)
				if !ok || !c14IsBuiltin(hc, "len") || x.st.resolve(hc.Call.Args[0], c.f) != x.st.resolve(y.X, c.f) {
					full = false
				}
			}
			if !full {
				return c14Bad, "only a part of the encoding is put into the hasher"
			}
			return c14DetBytesCV(x, x.st.resolve(y.X, c.f), depth+1)
		case *ssa.Call:
			// copies: bytes.Clone(b), slices.Clone(b), append([]byte(nil), b...)
			if f := y.Call.StaticCallee(); f != nil {
				n := an.FuncName(f)
				if (n == "bytes.Clone" || strings.HasPrefix(n, "slices.Clone")) && len(y.Call.Args) == 1 {
					return c14DetBytesCV(x, x.st.resolve(y.Call.Args[0], c.f), depth+1)
				}
			}
			if c14IsBuiltin(y, "append") && len(y.Call.Args) == 2 {
				if x.st.nilOf(y.Call.Args[0], c.f, 0) == -1 {
					return c14DetBytesCV(x, x.st.resolve(y.Call.Args[1], c.f), depth+1)
				}
			}
		}
	}
	// derived from an encoding in a way we do not understand?
	if in, ok := c.v.(ssa.Instruction); ok && c.p == "" {
		for _, op := range in.Operands(nil) {
			if op == nil || *op == nil {
				continue
			}
			oc := x.st.resolve(*op, c.f)
			if call, ok := oc.v.(*ssa.Call); ok && c14IsProtoMarshal(&call.Call) {
				return c14Unsure, "the hashed bytes are derived from the encoding in an unrecognised way"
			}
		}
	}
	if call, ok := c.v.(*ssa.Call); ok {
		if f := call.Call.StaticCallee(); f == nil || f.Blocks != nil || c14InRepo(f) {
			return c14Unsure, "the hashed bytes are produced by " + an.CalleeName(&call.Call) + ", which was not explored"
		}
	}
	return c14Bad, "the bytes put into the hasher are not the checked result of a protobuf Marshal call"
}

// ---------------------------------------------------------------------------------------------
// M4 panic recovery around peer-data decoding

func c14IsRecover(cc *ssa.CallCommon) bool {
	b, ok := cc.Value.(*ssa.Builtin)
	return ok && b.Name() == "recover"
}

// c14ErrSlot: the named error result of fn, i.e. the local the panic-recovery exit returns.
func c14ErrSlot(fn *ssa.Function) *ssa.Alloc {
	if fn.Recover == nil {
		return nil
	}
	for _, in := range fn.Recover.Instrs {
		if r, ok := in.(*ssa.Return); ok && len(r.Results) > 0 {
			if ld, ok := r.Results[len(r.Results)-1].(*ssa.UnOp); ok && ld.Op == token.MUL && an.IsErrorType(ld.Type()) {
				if al, ok := ld.X.(*ssa.Alloc); ok {
					return al
				}
			}
		}
	}
	return nil
}

// c14RecoversInto decides whether the deferred call df converts a panic of fn into fn's error result: the deferred
// function itself (closure or named function - recover() is only effective when called directly by it) calls
// recover(), and on every path on which the recovered value may be non-nil it stores a non-nil error into the slot
// (captured variable or pointer argument).
func c14RecoversInto(fn *ssa.Function, df *ssa.Defer, slot *ssa.Alloc) (status int, armed bool, why string) {
	callee := df.Call.StaticCallee()
	if callee == nil || callee.Blocks == nil {
		return c14Bad, false, "deferred call has no analysable static callee"
	}
	if len(an.Calls(callee, c14IsRecover, false)) == 0 {
		return c14Bad, false, "the deferred function does not call recover() itself (recover is only effective when called directly by the deferred function)"
	}
	if slot == nil {
		return c14Bad, true, "function has no named error result read on the panic-recovery exit"
	}
	// how the deferred function names the slot
	var names []ssa.Value
	if mc, ok := df.Call.Value.(*ssa.MakeClosure); ok {
		for i, b := range mc.Bindings {
			if b == ssa.Value(slot) && i < len(callee.FreeVars) {
				names = append(names, callee.FreeVars[i])
			}
		}
	}
	for i, a := range df.Call.Args {
		if a == ssa.Value(slot) && i < len(callee.Params) {
			names = append(names, callee.Params[i])
		}
	}
	if len(names) == 0 {
		return c14Bad, true, "the deferred function neither captures nor receives the error result"
	}
	status, why = c14OK, ""
	nPanicked := 0
	complete := symExplore(callee, symHooks{
		Inline: func(x *symX, site ssa.CallInstruction, g *ssa.Function) bool {
			// helpers that are handed the recovered value and the slot
			return c14SamePkg(g, callee) && g.Parent() != nil
		},
		Return: func(x *symX, ret *ssa.Return, res []symCV) {
			// the recovered value on this path
			panicked := int8(0)
			seen := false
			for _, ev := range x.Trace() {
				if call, ok := ev.In.(*ssa.Call); ok && ev.Frame == 0 && c14IsRecover(&call.Call) {
					seen = true
					panicked = x.NilCV(symCV{v: call, f: 0})
				}
			}
			if !seen || panicked == -1 {
				return // no panic on this path
			}
			nPanicked++
			stored := int8(-1)
			for _, ev := range x.Trace() {
				if _, isStore := ev.In.(*ssa.Store); !isStore || !ev.Addr || ev.Path != "" {
					continue
				}
				for _, n := range names {
					if ev.Base == (symCV{v: n}) {
						stored = x.NilCV(ev.Val) // the last assignment on the path counts
					}
				}
			}
			switch stored {
			case 1:
			case 0:
				if status < c14Unsure {
					status, why = c14Unsure, "cannot tell whether the value assigned to the error result after a recovered panic is non-nil"
				}
			default:
				status, why = c14Bad, "the recovered panic is not assigned to the error result on every path (a panic would be swallowed and a zero value returned as success)"
			}
		},
	})
	if !complete {
		return c14Unsure, true, "path exploration exceeded its budget"
	}
	if nPanicked == 0 && status == c14OK {
		return c14Bad, true, "no path of the deferred function handles a recovered panic"
	}
	return status, true, why
}

func c14M4(c *rt.Ctx) {
	for _, it := range []struct{ fn, sink string }{
		{"core.ParSignedDataFromProto", "core.unmarshal"},
		{"core.UnsignedDataSetFromProto", "core.unmarshalUnsignedData"},
	} {
		fn := c.Fn(it.fn)
		isSink := an.Static(it.sink)
		// a decoder may also be reached through a function value (a table of decoders, a func-typed parameter):
		// such a call is a possible decode call and has to run under the armed recover as well
		isDyn := func(cc *ssa.CallCommon) bool {
			if cc.IsInvoke() || cc.StaticCallee() != nil {
				return false
			}
			_, isB := cc.Value.(*ssa.Builtin)
			return !isB
		}
		if !c14Contains(fn, isSink, 0, map[*ssa.Function]bool{}) && !c14Contains(fn, isDyn, 0, map[*ssa.Function]bool{}) {
			c.Bail("no call to %s and no call through a function value in %s (or its helpers)", it.sink, it.fn)
		}
		// a decoder that hands its whole job to one helper of the package (which then owns the deferred recover and
		// the decode calls) is judged on that helper
		root := fn
		for hop := 0; hop < 2; hop++ {
			hasDefer := false
			for _, in := range an.Instrs(fn, false) {
				if _, ok := in.(*ssa.Defer); ok {
					hasDefer = true
				}
			}
			if hasDefer || len(an.Calls(fn, isSink, false)) > 0 {
				break
			}
			cands := map[*ssa.Function]bool{}
			for _, ci := range an.Calls(fn, func(cc *ssa.CallCommon) bool {
				g := cc.StaticCallee()
				return g != nil && c14SamePkg(g, fn) && c14Contains(g, isSink, 0, map[*ssa.Function]bool{})
			}, false) {
				cands[ci.Common().StaticCallee()] = true
			}
			if len(cands) != 1 {
				break
			}
			for g := range cands {
				fn = g
			}
		}
		slot := c14ErrSlot(fn)
		good := map[*ssa.Defer]bool{}
		armed := map[*ssa.Defer]bool{}
		best, why := c14Bad, "no deferred function that recovers and assigns the error result"
		for _, in := range an.Instrs(fn, false) {
			df, ok := in.(*ssa.Defer)
			if !ok {
				continue
			}
			st, arm, w := c14RecoversInto(fn, df, slot)
			armed[df] = arm
			if st == c14OK {
				good[df] = true
			}
			if st <= best {
				best, why = st, w
			}
		}
		switch best {
		case c14OK:
			c.Good(it.fn+" recovers panics into its error result", root.Pos(), "")
		case c14Unsure:
			c.Unsure(it.fn+" recovers panics into its error result", root.Pos(), why)
		default:
			c.Bad(it.fn+" recovers panics into its error result", root.Pos(), why)
		}
		// every decode call (in the function or in a helper explored in place) runs after the recover was armed
		agg := newC14Agg()
		construct := it.fn + " recover armed before " + it.sink
		inlineSink := c14InlineIf(fn, func(cc *ssa.CallCommon) bool { return isSink(cc) || isDyn(cc) })
		complete := symExplore(fn, symHooks{
			Inline: func(x *symX, site ssa.CallInstruction, callee *ssa.Function) bool {
				if inlineSink(x, site, callee) {
					return true
				}
				if !c14SamePkg(callee, fn) {
					return false
				}
				for _, a := range site.Common().Args { // a helper that is handed the decoding closure
					if x.IsClosureArg(a) {
						return true
					}
				}
				return false
			},
			Before: func(x *symX, in ssa.Instruction) {
				call, ok := in.(*ssa.Call)
				if !ok {
					return
				}
				dyn := false
				if !isSink(&call.Call) {
					// a call through a function value the explorer could not resolve on this path
					if !isDyn(&call.Call) || x.DynCallee(call) != nil {
						return
					}
					dyn = true
				}
				ok = false
				for _, ev := range x.Trace() {
					if df, isDf := ev.In.(*ssa.Defer); isDf && ev.Frame == 0 && armed[df] {
						ok = true
					}
				}
				switch {
				case ok:
					agg.addAt(construct, x.Chain(), call.Pos(), c14OK, "")
				case dyn:
					agg.addAt(construct, x.Chain(), call.Pos(), c14Unsure, "a call through a function value (possibly a decoder) runs before the deferred recover is armed")
				default:
					agg.addAt(construct, x.Chain(), call.Pos(), c14Bad, "the decode call is not preceded by the deferred recover on every path: a panicking decoder crashes the caller")
				}
			},
		})
		if !complete {
			c.Unsure(construct, fn.Pos(), "path exploration exceeded its budget")
		}
		if len(agg.items) == 0 {
			c.Unsure(construct, fn.Pos(), "no decode call reached on any explored path")
		}
		agg.flush(c)
	}
	// facts that make M3 a crash rule (recorded, not judged)
	if fn := c.FnOpt("p2p.RegisterHandler"); fn != nil {
		n := 0
		for _, f := range an.Closure(fn) {
			n += len(an.Calls(f, func(cc *ssa.CallCommon) bool { b, ok := cc.Value.(*ssa.Builtin); return ok && b.Name() == "recover" }, false))
		}
		c.Note("fact: p2p.RegisterHandler stream handler contains %d recover() calls (0 = a panicking handler crashes the process)", n)
	} else {
		c.Note("fact: p2p.RegisterHandler not found")
	}
	if fn := c.FnOpt("core/qbft.Run"); fn != nil {
		rec, repanic := 0, 0
		for _, f := range an.Closure(fn) {
			k := len(an.Calls(f, func(cc *ssa.CallCommon) bool { b, ok := cc.Value.(*ssa.Builtin); return ok && b.Name() == "recover" }, false))
			rec += k
			if k > 0 {
				for _, in := range an.Instrs(f, false) {
					if _, ok := in.(*ssa.Panic); ok {
						repanic++
					}
				}
			}
		}
		c.Note("fact: core/qbft.Run has %d recover() calls and %d re-panic sites in the recovering closure", rec, repanic)
	}
}

// ---------------------------------------------------------------------------------------------
// M5 Clone is encode∘decode of the receiver into a fresh value

func c14M5(c *rt.Ctx) {
	// the two codec helpers
	c14CloneHelper(c, "core.cloneSSZMarshaler", "MarshalSSZ", func(cc *ssa.CallCommon) bool {
		return cc.IsInvoke() && cc.Method.Name() == "UnmarshalSSZ"
	}, 0)
	c14CloneHelper(c, "core.cloneJSONMarshaler", "MarshalJSON", an.Static("encoding/json.Unmarshal"), 0)

	seen := map[string]bool{}
	for _, ifn := range []string{"SignedData", "UnsignedData"} {
		for _, nt := range implementors(c, lookupIface(c, "core", ifn), "core") {
			tn := an.TypeName(nt)
			if seen[tn] {
				continue
			}
			seen[tn] = true
			for _, m := range []string{"Clone", "clone"} {
				fn := c.FnOpt(tn + "." + m)
				if fn == nil {
					if m == "Clone" {
						c.Unsure(tn+".Clone", token.NoPos, "Clone method not found")
					}
					continue
				}
				st, why := c14CloneOK(fn)
				construct := tn + "." + m + " returns a fresh re-decoded copy"
				switch st {
				case c14OK:
					c.Good(construct, fn.Pos(), "")
				case c14Unsure:
					c.Unsure(construct, fn.Pos(), why)
				default:
					c.Bad(construct, fn.Pos(), why)
				}
			}
		}
	}
}

var c14IsCodec = an.Static("core.cloneSSZMarshaler", "core.cloneJSONMarshaler")

// c14CloneHelper checks clone{SSZ,JSON}Marshaler on every path: a successful return is only reached after the source
// parameter was encoded, exactly those bytes were decoded into the target parameter, and both calls succeeded.
func c14CloneHelper(c *rt.Ctx, name, enc string, dec an.Matcher, bytesArg int) {
	fn := c.Fn(name)
	if len(fn.Params) != 2 {
		c.Bail("%s: unexpected signature", name)
	}
	status, why := c14OK, ""
	worse := func(st int, w string) {
		if st > status {
			status, why = st, w
		}
	}
	nSucc := 0
	complete := symExplore(fn, symHooks{
		Inline: func(x *symX, site ssa.CallInstruction, callee *ssa.Function) bool {
			return c14SamePkg(callee, fn) && (callee.Parent() != nil || c14Contains(callee, dec, 0, map[*ssa.Function]bool{}))
		},
		Return: func(x *symX, ret *ssa.Return, res []symCV) {
			if len(res) != 1 {
				worse(c14Unsure, "unexpected results")
				return
			}
			src, dst := x.st.resolve(fn.Params[0], 0), x.st.resolve(fn.Params[1], 0)
			// the encode and decode calls executed on this path
			var encEv, decEv *symEvent
			tr := x.Trace()
			for i := range tr {
				ev := &tr[i]
				call, ok := ev.In.(*ssa.Call)
				if !ok {
					continue
				}
				if call.Call.IsInvoke() && call.Call.Method.Name() == enc && ev.Recv == src {
					encEv = ev
				}
				if dec(&call.Call) {
					decEv = ev
				}
			}
			errc := res[0]
			switch x.NilCV(errc) {
			case 1:
				return // failure
			case 0:
				// `return v.UnmarshalSSZ(bytes)`: the decode error is handed on
				ok := false
				if decEv != nil {
					if e, has := symErrOf(decEv.In.(*ssa.Call), decEv.Frame, x.st); has && e == errc {
						ok = true
					}
				}
				if !ok {
					worse(c14Unsure, "cannot tell whether a return reports success")
					return
				}
			}
			nSucc++
			if encEv == nil {
				worse(c14Bad, "nil is returned on a path on which the source was not encoded with "+enc)
				return
			}
			if decEv == nil {
				worse(c14Bad, "nil is returned on a path on which nothing was decoded into the target")
				return
			}
			encCall, decCall := encEv.In.(*ssa.Call), decEv.In.(*ssa.Call)
			if x.CallOK(encCall, encEv.Frame) != 1 {
				worse(c14Bad, "nil is returned although "+an.CalleeName(&encCall.Call)+" may have failed")
			}
			if x.NilCV(errc) == -1 && x.CallOK(decCall, decEv.Frame) != 1 {
				worse(c14Bad, "nil is returned although "+an.CalleeName(&decCall.Call)+" may have failed")
			}
			want := symCV{v: encCall, f: encEv.Frame, p: "#0"}
			if len(decEv.Args) <= bytesArg || want != decEv.Args[bytesArg] {
				worse(c14Bad, "the encoded bytes of the source are not what is decoded into the target")
			}
			target := decEv.Recv
			if !decCall.Call.IsInvoke() && len(decEv.Args) > 0 {
				target = decEv.Args[len(decEv.Args)-1]
			}
			if x.UnboxCV(target) != dst && target != dst {
				worse(c14Bad, "the bytes are not decoded into the target parameter")
			}
		},
	})
	if !complete {
		worse(c14Unsure, "path exploration exceeded its budget")
	}
	if nSucc == 0 {
		worse(c14Bad, "no successful return")
	}
	switch status {
	case c14OK:
		c.Good(name+" is encode∘decode", fn.Pos(), "")
	case c14Unsure:
		c.Unsure(name+" is encode∘decode", fn.Pos(), why)
	default:
		c.Bad(name+" is encode∘decode", fn.Pos(), why)
	}
}

// c14CloneOK decides one Clone/clone method: on every path to a successful return the returned value is a fresh
// copy of the receiver (c14FreshCV). Helpers and sibling clone methods of the package are explored in place.
func c14CloneOK(fn *ssa.Function) (int, string) {
	if len(fn.Params) == 0 {
		return c14Bad, "no receiver"
	}
	recv := fn.Params[0]
	status, why := c14OK, ""
	worse := func(st int, w string) {
		if st > status {
			status, why = st, w
		}
	}
	nSucc := 0
	isCloneCall := func(cc *ssa.CallCommon) bool {
		f := cc.StaticCallee()
		return f != nil && (f.Name() == "Clone" || f.Name() == "clone") && f.Signature.Recv() != nil
	}
	complete := symExplore(fn, symHooks{
		MaxDepth: 5,
		Inline: func(x *symX, site ssa.CallInstruction, callee *ssa.Function) bool {
			if !c14SamePkg(callee, fn) || c14IsCodec(site.Common()) {
				return false
			}
			if callee.Parent() != nil {
				return true
			}
			// helpers and delegate clone methods applied to the receiver itself
			if isCloneCall(site.Common()) {
				return len(site.Common().Args) > 0 && x.Unbox(site.Common().Args[0]) == x.st.resolve(recv, 0)
			}
			return c14Contains(callee, c14IsCodec, 0, map[*ssa.Function]bool{})
		},
		Return: func(x *symX, ret *ssa.Return, res []symCV) {
			if len(res) == 0 {
				worse(c14Bad, "returns nothing")
				return
			}
			last := res[len(res)-1]
			if an.IsErrorType(ret.Results[len(res)-1].Type()) {
				switch x.NilCV(last) {
				case 1:
					return
				case 0:
					worse(c14Unsure, "cannot tell whether a return reports success")
					return
				}
			}
			nSucc++
			st, w := c14FreshCV(x, res[0], x.st.resolve(recv, 0), recv.Type(), 0)
			worse(st, w)
		},
	})
	if !complete {
		worse(c14Unsure, "path exploration exceeded its budget")
	}
	if nSucc == 0 {
		worse(c14Bad, "no successful return")
	}
	return status, why
}

func c14BaseOf(c symCV) symCV { return symCV{v: c.v, f: c.f} }

// c14FreshCV: the value returned on this path is a fresh copy of the receiver:
//   - the content of a local of the receiver's type that was filled by a successful cloneSSZMarshaler/cloneJSONMarshaler
//     call from the receiver and not assigned afterwards;
//   - a make([]byte, len(recv)) buffer filled with copy(buf, recv);
//   - an initially empty slice grown by append(acc, e) where every e is the checked Clone() of an element of the receiver.
func c14FreshCV(x *symX, c, recv symCV, recvType types.Type, depth int) (int, string) {
	if depth > 6 {
		return c14Unsure, "returned value too indirect"
	}
	c = x.UnboxCV(c)
	if c.v == nil {
		return c14Unsure, "returned value not resolved"
	}
	if c.v == recv.v && c.f == recv.f {
		if c.p == "" {
			return c14Bad, "returns the receiver itself, not a copy"
		}
		return c14Bad, "returns a part of the receiver, not a copy"
	}
	tr := x.Trace()
	if al, ok := c.v.(*ssa.Alloc); ok && c.p != "" {
		if strings.HasPrefix(c.p, symZero) {
			return c14Bad, "returned local is never filled by cloneSSZMarshaler/cloneJSONMarshaler"
		}
		if !strings.HasPrefix(c.p, "@") || strings.ContainsAny(c.p[1:], ".[") {
			return c14Unsure, "returned value is a component of a local"
		}
		return c14FilledByCodec(x, c14BaseOf(c), al, recv, recvType)
	}
	if ld, ok := c.v.(*ssa.UnOp); ok && c.p == "" && ld.Op == token.MUL {
		// a local aggregate some of whose components were assigned individually
		if base, path, ok := x.st.addr(ld.X, c.f); ok && path == "" {
			if al, isAlloc := base.v.(*ssa.Alloc); isAlloc && base.p == "" {
				return c14FilledByCodec(x, base, al, recv, recvType)
			}
		}
	}
	if c.p != "" {
		if call, ok := c.v.(*ssa.Call); ok {
			return c14Unsure, "returned value is a result of " + an.CalleeName(&call.Call) + ", which was not explored"
		}
		return c14Bad, "returned value is loaded from shared memory, not a re-decoded copy"
	}
	// the event that produced a call value (arguments as of its execution)
	evOf := func(v ssa.Value, f int) *symEvent {
		for i := len(tr) - 1; i >= 0; i-- {
			if tr[i].In == v.(ssa.Instruction) && tr[i].Frame == f {
				return &tr[i]
			}
		}
		return nil
	}
	switch y := c.v.(type) {
	case *ssa.MakeSlice:
		// explicit byte copy: make(len(recv)) + copy(dst, recv)
		lc := x.st.resolve(y.Len, c.f)
		l, ok := lc.v.(*ssa.Call)
		if n, isK := x.st.constOf(lc); isK {
			if v, exact := constant.Int64Val(n); exact && v == 0 {
				return c14OK, "" // empty slice: shares nothing
			}
		}
		if !ok || lc.p != "" || !c14IsBuiltin(l, "len") || x.st.resolve(l.Call.Args[0], lc.f) != recv {
			for _, ev := range tr {
				if call, ok := ev.In.(*ssa.Call); ok && c14IsBuiltin(call, "copy") && len(ev.Args) == 2 && ev.Args[0] == c && ev.Args[1] == recv {
					return c14Unsure, "copy buffer is not recognisably sized len(receiver)"
				}
			}
			return c14Bad, "copy buffer is not sized len(receiver)"
		}
		for _, ev := range tr {
			if call, ok := ev.In.(*ssa.Call); ok && c14IsBuiltin(call, "copy") && len(ev.Args) == 2 && ev.Args[0] == c && ev.Args[1] == recv {
				return c14OK, ""
			}
		}
		for _, ev := range tr {
			st, isStore := ev.In.(*ssa.Store)
			if !isStore || !ev.Addr || ev.Base != c {
				continue
			}
			// `for i := range recv { buf[i] = recv[i] }` (plain elements) or `buf[i] = checked Clone() of recv[i]`:
			// a loop over the receiver, indexed by its own index variable, that is left early only towards
			// failing returns
			sameElem := ev.Val.v == recv.v && ev.Val.f == recv.f && ev.Path != "" && strings.HasSuffix(ev.Val.p, ev.Path)
			if !sameElem && ev.Path != "" {
				if src, ok := c14ElemCloneSrc(x, ev.Val, recv); ok && strings.HasSuffix(src.p, ev.Path) {
					sameElem = true
				}
			}
			if sameElem {
				if l := an.InnermostLoop(st.Parent(), st.Block()); l != nil && c14LoopExitsFail(l) {
					ia, isIA := st.Addr.(*ssa.IndexAddr)
					if rc := l.RangeColl(); rc != nil && x.st.resolve(rc, ev.Frame) == recv && isIA && c14IsLoopIndex(l, ia.Index) {
						return c14OK, ""
					}
				}
			}
			return c14Unsure, "fresh buffer is filled element by element; cannot tell whether every element of the receiver is copied"
		}
		// a buffer that is filled element by element somewhere, on a path on which that loop did not run
		for _, ref := range *y.Referrers() {
			if ia, ok := ref.(*ssa.IndexAddr); ok {
				for _, r2 := range *ia.Referrers() {
					if st, ok := r2.(*ssa.Store); ok && st.Addr == ssa.Value(ia) {
						return c14OK, ""
					}
				}
			}
		}
		return c14Bad, "fresh buffer is never filled with copy(buf, receiver)"
	case *ssa.Call:
		if c14IsBuiltin(y, "append") {
			ev := evOf(y, c.f)
			if ev == nil || len(ev.Args) != 2 {
				return c14Unsure, "append not found on the path"
			}
			if ev.Elems == nil {
				// append([]byte(nil), recv...): a copy when the elements are plain values
				if sl, ok := y.Type().Underlying().(*types.Slice); ok {
					if _, basic := sl.Elem().Underlying().(*types.Basic); basic && ev.Args[1] == recv {
						if st, w := c14FreshCV(x, ev.Args[0], recv, recvType, depth+1); st != c14OK && x.NilCV(ev.Args[0]) != -1 {
							return st, w
						}
						return c14OK, ""
					}
				}
				return c14Bad, "element-wise clone: a whole slice is appended"
			}
			for _, e := range ev.Elems {
				if !c14ElemCloneCV(x, e, recv) {
					return c14Bad, "appended element is not the checked Clone() of the receiver's element"
				}
			}
			acc := ev.Args[0]
			if x.NilCV(acc) == -1 {
				return c14OK, ""
			}
			if acc == c {
				return c14OK, "" // accumulator of an earlier iteration of the same statement
			}
			return c14FreshCV(x, acc, recv, recvType, depth+1)
		}
		if f := y.Call.StaticCallee(); f != nil {
			n := an.FuncName(f)
			if (n == "bytes.Clone" || strings.HasPrefix(n, "slices.Clone")) && len(y.Call.Args) == 1 {
				if sl, ok := y.Call.Args[0].Type().Underlying().(*types.Slice); ok {
					if _, basic := sl.Elem().Underlying().(*types.Basic); basic && x.st.resolve(y.Call.Args[0], c.f) == recv {
						return c14OK, "" // a copy of a slice of plain values
					}
				}
			}
		}
		return c14Unsure, "returned value is the result of " + an.CalleeName(&y.Call) + ", which was not explored"
	case *ssa.Const:
		if symIsNilConst(y) {
			return c14OK, "" // nil shares nothing (a nil receiver slice clones to nil)
		}
		return c14Bad, "returns a constant / zero value as the clone"
	case *ssa.Parameter:
		return c14Bad, "returns a parameter, not a copy"
	}
	return c14Unsure, fmt.Sprintf("returned value (%T) is not recognisably a fresh copy", c.v)
}

// c14FilledByCodec: the local `base` (of the receiver's type) was filled from the receiver by a successful codec call
// on this path and not assigned afterwards.
func c14FilledByCodec(x *symX, base symCV, al *ssa.Alloc, recv symCV, recvType types.Type) (int, string) {
	tr := x.Trace()
	if an.TypeName(al.Type()) != an.TypeName(recvType) {
		return c14Bad, "fresh value has another type than the receiver"
	}
	codecAt := -1
	var codec *ssa.Call
	for i, ev := range tr {
		call, ok := ev.In.(*ssa.Call)
		if !ok || !c14IsCodec(&call.Call) || len(ev.Args) != 2 {
			continue
		}
		if x.UnboxCV(ev.Args[1]) != base {
			if x.UnboxCV(ev.Args[0]) == base || c14BaseOf(x.UnboxCV(ev.Args[0])) == base {
				return c14Bad, "fresh value is used as the clone source"
			}
			continue
		}
		src := x.UnboxCV(ev.Args[0])
		if src != recv && !c14IsSpillOf(x, src, recv) {
			return c14Bad, "the value encoded by " + an.CalleeName(&call.Call) + " is not the receiver"
		}
		codecAt, codec = i, call
		if x.CallOK(call, ev.Frame) != 1 {
			return c14Bad, "the copy is returned although the codec may have failed"
		}
	}
	if codec == nil {
		// handed to some other decoder?
		for _, ev := range tr {
			call, ok := ev.In.(*ssa.Call)
			if !ok {
				continue
			}
			for _, a := range ev.Args {
				if x.UnboxCV(a) == base {
					return c14Unsure, "returned local is filled by " + an.CalleeName(&call.Call) + ", not by cloneSSZMarshaler/cloneJSONMarshaler"
				}
			}
			if ev.Recv.v != nil && x.UnboxCV(ev.Recv) == base {
				return c14Unsure, "returned local is filled by " + an.CalleeName(&call.Call) + ", not by cloneSSZMarshaler/cloneJSONMarshaler"
			}
		}
		return c14Bad, "returned local is never filled by cloneSSZMarshaler/cloneJSONMarshaler"
	}
	for i, ev := range tr {
		if _, isStore := ev.In.(*ssa.Store); !isStore || !ev.Addr || ev.Base != base {
			continue
		}
		if c14BaseOf(ev.Val) == base && ev.Path == "" {
			continue // `resp = resp`: named results are re-assigned by `return resp, nil`
		}
		if i > codecAt {
			if ev.Path != "" {
				return c14Bad, "fresh value is modified field by field"
			}
			return c14Bad, "fresh value is assigned outside the codec"
		}
	}
	return c14OK, ""
}

// c14IsSpillOf: c is the address of a local that holds nothing but a copy of the receiver parameter (`&p`).
func c14IsSpillOf(x *symX, c, recv symCV) bool {
	al, ok := c.v.(*ssa.Alloc)
	if !ok || c.p != "" {
		return false
	}
	src := an.UniqueStore(al)
	return src != nil && x.st.resolve(src, c.f) == recv
}

// c14IsLoopIndex: v is the index variable of loop l (the header phi, or phi+1 as go/ssa writes range-over-slice).
func c14IsLoopIndex(l *an.Loop, v ssa.Value) bool {
	v = an.Unwrap(v)
	if p, ok := v.(*ssa.Phi); ok {
		return p.Block() == l.Header
	}
	if b, ok := v.(*ssa.BinOp); ok && b.Op == token.ADD && l.Body[b.Block()] {
		if p, ok := b.X.(*ssa.Phi); ok && p.Block() == l.Header {
			if k, ok := an.ConstInt(b.Y); ok && k == 1 {
				return true
			}
		}
	}
	return false
}

// c14LoopExitsFail: the loop is left before its collection is exhausted only towards returns whose error result is
// known non-nil (`if err != nil { return nil, err }`, `return nil, errors.New(...)`).
func c14LoopExitsFail(l *an.Loop) bool {
	for b := range l.Body {
		if b == l.Header {
			continue
		}
		for _, s := range b.Succs {
			if l.Body[s] {
				continue
			}
			seen := map[*ssa.BasicBlock]bool{}
			var ok func(blk *ssa.BasicBlock) bool
			ok = func(blk *ssa.BasicBlock) bool {
				if seen[blk] {
					return true
				}
				seen[blk] = true
				if l.Body[blk] || len(blk.Instrs) == 0 {
					return false
				}
				switch t := blk.Instrs[len(blk.Instrs)-1].(type) {
				case *ssa.Panic:
					return true
				case *ssa.Return:
					if len(t.Results) == 0 {
						return false
					}
					e := t.Results[len(t.Results)-1]
					return an.IsErrorType(e.Type()) && c14NonNilAt(e, blk)
				}
				for _, n := range blk.Succs {
					if !ok(n) {
						return false
					}
				}
				return len(blk.Succs) > 0
			}
			if !ok(s) {
				return false
			}
		}
	}
	return true
}

// c14NonNilAt: the error value v is known non-nil in block blk: freshly constructed, or blk is only reached through
// the non-nil edge of a nil test of v.
func c14NonNilAt(v ssa.Value, blk *ssa.BasicBlock) bool {
	switch y := v.(type) {
	case *ssa.MakeInterface:
		return true
	case *ssa.Call:
		if symAlwaysNonNilErr(y.Call.StaticCallee(), 0, 0) {
			return true
		}
	}
	for d := blk; d != nil && d.Idom() != nil; d = d.Idom() {
		p := d.Idom()
		iff, ok := p.Instrs[len(p.Instrs)-1].(*ssa.If)
		if !ok {
			continue
		}
		bin, ok := iff.Cond.(*ssa.BinOp)
		if !ok || (bin.Op != token.NEQ && bin.Op != token.EQL) {
			continue
		}
		var o ssa.Value
		switch {
		case symIsNilConst(bin.X):
			o = bin.Y
		case symIsNilConst(bin.Y):
			o = bin.X
		default:
			continue
		}
		if o != v {
			continue
		}
		t := p.Succs[0]
		if bin.Op == token.EQL {
			t = p.Succs[1]
		}
		if len(t.Preds) == 1 && (t == blk || t.Dominates(blk)) {
			return true
		}
	}
	return false
}

// c14ElemCloneSrc: e is (a checked type assertion of) the successful Clone() of a component of the receiver; the
// component is returned.
func c14ElemCloneSrc(x *symX, e, recv symCV) (symCV, bool) {
	for i := 0; i < 6; i++ {
		e = x.UnboxCV(e)
		switch y := e.v.(type) {
		case *ssa.TypeAssert:
			if e.p != "" && e.p != "#0" {
				return symCV{}, false
			}
			e = x.st.resolve(y.X, e.f)
			continue
		case *ssa.Call:
			f := y.Call.StaticCallee()
			if f == nil || (f.Name() != "Clone" && f.Name() != "clone") || (e.p != "" && e.p != "#0") {
				return symCV{}, false
			}
			if x.CallOK(y, e.f) != 1 {
				return symCV{}, false
			}
			for _, ev := range x.Trace() {
				if ev.In == ssa.Instruction(y) && ev.Frame == e.f && len(ev.Args) > 0 {
					a := ev.Args[0]
					return a, a.v == recv.v && a.f == recv.f && a.p != ""
				}
			}
			return symCV{}, false
		}
		return symCV{}, false
	}
	return symCV{}, false
}

// c14ElemCloneCV: e is (a checked type assertion of) the successful Clone() of a component of the receiver.
func c14ElemCloneCV(x *symX, e, recv symCV) bool {
	for i := 0; i < 6; i++ {
		e = x.UnboxCV(e)
		switch y := e.v.(type) {
		case *ssa.TypeAssert:
			if e.p != "" && e.p != "#0" {
				return false
			}
			e = x.st.resolve(y.X, e.f)
			continue
		case *ssa.Call:
			f := y.Call.StaticCallee()
			if f == nil || (f.Name() != "Clone" && f.Name() != "clone") || (e.p != "" && e.p != "#0") {
				return false
			}
			if x.CallOK(y, e.f) != 1 {
				return false
			}
			for _, ev := range x.Trace() {
				if ev.In == ssa.Instruction(y) && ev.Frame == e.f && len(ev.Args) > 0 {
					a := ev.Args[0]
					return a.v == recv.v && a.f == recv.f && a.p != ""
				}
			}
			return false
		}
		return false
	}
	return false
}

func c14IsBuiltin(call *ssa.Call, name string) bool {
	b, ok := call.Call.Value.(*ssa.Builtin)
	return ok && b.Name() == name
}

// ---------------------------------------------------------------------------------------------
// versioned wrappers (shared by M3 and M6)

type c14Wrap struct {
	Name    string            // "VersionedSignedProposal"
	T       *types.Named      // core wrapper
	L       *types.Named      // embedded library struct
	VT      *types.Named      // type of L.Version
	Payload map[string]string // payload field of L -> version short name ("BellatrixBlinded" -> "Bellatrix")
}

// c14VersionShort: constant name of version type nt for k, without the type-name prefix.
func c14VersionShort(nt *types.Named, k *ssa.Const) string {
	n := c14ConstName(nt, k)
	if n == "" {
		return "#" + k.Value.ExactString()
	}
	return strings.TrimPrefix(n, nt.Obj().Name())
}

// c14Wrappers discovers the versioned wrapper types of package core: a struct embedding exactly one
// library struct that has a `Version` field of a named version type and one pointer field per version.
func c14Wrappers(c *rt.Ctx) []c14Wrap {
	var out []c14Wrap
	sc := c.Pkg("core").Types.Scope()
	for _, n := range sc.Names() {
		tn, ok := sc.Lookup(n).(*types.TypeName)
		if !ok || tn.IsAlias() {
			continue
		}
		nt, ok := tn.Type().(*types.Named)
		if !ok {
			continue
		}
		st, ok := nt.Underlying().(*types.Struct)
		if !ok || st.NumFields() != 1 || !st.Field(0).Embedded() {
			continue
		}
		ln, ok := st.Field(0).Type().(*types.Named)
		if !ok {
			continue
		}
		ls, ok := ln.Underlying().(*types.Struct)
		if !ok {
			continue
		}
		var vt *types.Named
		for i := 0; i < ls.NumFields(); i++ {
			if ls.Field(i).Name() == "Version" {
				vt, _ = ls.Field(i).Type().(*types.Named)
			}
		}
		if vt == nil || vt.Obj().Pkg() == nil {
			continue
		}
		var shorts []string
		vsc := vt.Obj().Pkg().Scope()
		for _, cn := range vsc.Names() {
			if cst, ok := vsc.Lookup(cn).(*types.Const); ok && types.Identical(cst.Type(), vt) && strings.HasPrefix(cn, vt.Obj().Name()) {
				shorts = append(shorts, strings.TrimPrefix(cn, vt.Obj().Name()))
			}
		}
		w := c14Wrap{Name: n, T: nt, L: ln, VT: vt, Payload: map[string]string{}}
		for i := 0; i < ls.NumFields(); i++ {
			f := ls.Field(i)
			if _, isPtr := f.Type().(*types.Pointer); !isPtr {
				continue
			}
			for _, s := range shorts {
				if f.Name() == s || f.Name() == s+"Blinded" {
					w.Payload[f.Name()] = s
				}
			}
		}
		if len(w.Payload) == 0 {
			continue
		}
		out = append(out, w)
	}
	return out
}

// c14PayloadSel: v selects a payload field of the wrapper's library struct.
func (w c14Wrap) payloadSel(v ssa.Value) (field string, base ssa.Value, ok bool) {
	st, name, base, ok := c14FieldSel(v)
	if !ok {
		return "", nil, false
	}
	if n := c14Named(st); n == nil || n.Obj() != w.L.Obj() {
		return "", nil, false
	}
	if _, isP := w.Payload[name]; !isP {
		return "", nil, false
	}
	return name, base, true
}

// c14WrapFuncs: the functions of package core that belong to wrapper w (methods, and package
// functions returning w).
func c14WrapFuncs(c *rt.Ctx, w c14Wrap) []*ssa.Function {
	var out []*ssa.Function
	want := "core." + w.Name
	for _, fn := range an.PkgFuncs(c.SSAPkg("core")) {
		if fn.Parent() != nil {
			continue
		}
		sig := fn.Signature
		if sig.Recv() != nil {
			if an.TypeName(sig.Recv().Type()) == want {
				out = append(out, fn)
			}
			continue
		}
		for i := 0; i < sig.Results().Len(); i++ {
			if _, isPtr := sig.Results().At(i).Type().(*types.Pointer); !isPtr && an.TypeName(sig.Results().At(i).Type()) == want {
				out = append(out, fn)
				break
			}
		}
	}
	return out
}

// ---------------------------------------------------------------------------------------------
// M6 version-switch agreement

// c14VersionConst: v is a constant of a version type with the same type name as the wrapper's
// (go-eth2-client spec.DataVersion and charon's eth2util.DataVersion share constant names).
func c14VersionConst(v ssa.Value, w c14Wrap) (string, bool) {
	k, ok := v.(*ssa.Const)
	if !ok || k.Value == nil {
		return "", false
	}
	nt := c14Named(k.Type())
	if nt == nil || nt.Obj().Name() != w.VT.Obj().Name() {
		return "", false
	}
	return c14VersionShort(nt, k), true
}

func c14IsVersionTyped(v ssa.Value, w c14Wrap) bool {
	nt := c14Named(v.Type())
	return nt != nil && nt.Obj().Name() == w.VT.Obj().Name()
}

// c14HasVersionCmp: fn compares a value with a version constant in its own body.
func c14HasVersionCmp(fn *ssa.Function, w c14Wrap) bool {
	for _, in := range an.Instrs(fn, false) {
		if b, ok := in.(*ssa.BinOp); ok && (b.Op == token.EQL || b.Op == token.NEQ) {
			if _, ok := c14VersionConst(b.X, w); ok {
				return true
			}
			if _, ok := c14VersionConst(b.Y, w); ok {
				return true
			}
		}
	}
	return false
}

type c14SiteObs struct {
	pos     token.Pos
	field   string
	first   bool
	common  map[string]bool // versions known on every visit
	blinded int8            // +1 / -1 when every visit agrees, 0 otherwise
	owner   string
}

// c14M6Root is the result of exploring one root function of a wrapper.
type c14M6Root struct {
	fn       *ssa.Function
	owners   []*ssa.Function // the functions whose comparisons dispatch on the version
	handled  map[string]bool
	ordering bool // the version is also compared by order / used as an index: the handled set is not exact
	sites    map[string]*c14SiteObs
	complete bool
}

func c14M6Explore(fn *ssa.Function, w c14Wrap, inWrap map[*ssa.Function]bool, hasCmp func(*ssa.Function) bool) c14M6Root {
	res := c14M6Root{fn: fn, handled: map[string]bool{}, sites: map[string]*c14SiteObs{}}
	verVal := map[symCV]*types.Named{}
	blVal := map[symCV]bool{}
	ownerSeen := map[*ssa.Function]bool{}
	known := func(x *symX) map[string]bool {
		out := map[string]bool{}
		for c, nt := range verVal {
			if k, ok := x.st.eqf[c]; ok {
				out[c14VersionShort(nt, ssa.NewConst(k, nt))] = true
			}
		}
		return out
	}
	res.complete = symExplore(fn, symHooks{
		Budget: 1500000,
		Init: func(x *symX) {
			for _, p := range fn.Params {
				if b, ok := p.Type().Underlying().(*types.Basic); ok && b.Kind() == types.Bool {
					blVal[x.R(p)] = true
				}
			}
		},
		Inline: func(x *symX, site ssa.CallInstruction, callee *ssa.Function) bool {
			return inWrap[callee] && hasCmp(callee)
		},
		After: func(x *symX, in ssa.Instruction) {
			switch y := in.(type) {
			case *ssa.UnOp:
				if y.Op == token.MUL {
					if _, name, _, ok := c14FieldSel(y.X); ok && name == "Blinded" {
						blVal[x.R(y)] = true
					}
				}
			case *ssa.Field:
				if _, name, _, ok := c14FieldSel(y); ok && name == "Blinded" {
					blVal[x.R(y)] = true
				}
			}
		},
		Before: func(x *symX, in ssa.Instruction) {
			for s := range known(x) {
				res.handled[s] = true
			}
			switch y := in.(type) {
			case *ssa.BinOp:
				var other ssa.Value
				var kv ssa.Value
				if _, ok := c14VersionConst(y.X, w); ok {
					other, kv = y.Y, y.X
				} else if _, ok := c14VersionConst(y.Y, w); ok {
					other, kv = y.X, y.Y
				}
				if other == nil {
					return
				}
				switch y.Op {
				case token.EQL, token.NEQ:
					verVal[x.R(other)] = c14Named(kv.Type())
					_, f := x.Frame()
					if !ownerSeen[f] {
						ownerSeen[f] = true
						res.owners = append(res.owners, f)
					}
				case token.LSS, token.LEQ, token.GTR, token.GEQ:
					res.ordering = true
				}
			case *ssa.Lookup:
				if c14IsVersionTyped(y.Index, w) {
					res.ordering = true
				}
			case *ssa.Index:
				if c14IsVersionTyped(y.Index, w) {
					res.ordering = true
				}
			case *ssa.IndexAddr:
				if c14IsVersionTyped(y.Index, w) {
					res.ordering = true
				}
			}
			v, ok := in.(ssa.Value)
			if !ok {
				return
			}
			field, _, ok := w.payloadSel(v)
			if !ok {
				return
			}
			key := fmt.Sprintf("%s%p", x.Chain(), in)
			cur := known(x)
			bl := int8(0)
			for c := range blVal {
				if k, ok := x.st.eqf[c]; ok && k.Kind() == constant.Bool {
					b := int8(-1)
					if constant.BoolVal(k) {
						b = 1
					}
					if bl != 0 && bl != b {
						bl = 2 // contradictory indicators: unknown
					} else if bl == 0 {
						bl = b
					}
				}
			}
			if bl == 2 {
				bl = 0
			}
			so := res.sites[key]
			if so == nil {
				_, f := x.Frame()
				so = &c14SiteObs{pos: in.Pos(), field: field, first: true, common: cur, blinded: bl, owner: an.FuncName(f)}
				res.sites[key] = so
				return
			}
			for s := range so.common {
				if !cur[s] {
					delete(so.common, s)
				}
			}
			if so.blinded != bl {
				so.blinded = 0
			}
		},
	})
	return res
}

func c14M6(c *rt.Ctx) {
	ws := c14Wrappers(c)
	if len(ws) == 0 {
		c.Bail("no versioned wrapper types found in package core")
	}
	for _, w := range ws {
		funcs := c14WrapFuncs(c, w)
		inWrap := map[*ssa.Function]bool{}
		for _, fn := range funcs {
			inWrap[fn] = true
		}
		// free helpers of the package (not functions of another wrapper) that the wrapper's functions hand the
		// dispatch to, e.g. one shared "field of version" selector: explored in place like the wrapper's own methods
		{
			foreign := map[*ssa.Function]bool{}
			for _, o := range ws {
				if o.Name != w.Name {
					for _, fn := range c14WrapFuncs(c, o) {
						foreign[fn] = true
					}
				}
			}
			work := append([]*ssa.Function(nil), funcs...)
			depth := map[*ssa.Function]int{}
			for len(work) > 0 {
				fn := work[0]
				work = work[1:]
				if depth[fn] >= 4 {
					continue
				}
				for _, ci := range an.Calls(fn, func(cc *ssa.CallCommon) bool { return cc.StaticCallee() != nil }, true) {
					g := ci.Common().StaticCallee()
					if g == nil || g.Blocks == nil || inWrap[g] || foreign[g] || g.Parent() != nil || !c14SamePkg(g, fn) || g.TypeParams().Len() > 0 || len(g.TypeArgs()) > 0 {
						continue
					}
					inWrap[g] = true
					depth[g] = depth[fn] + 1
					work = append(work, g)
				}
			}
		}
		cmpMemo := map[*ssa.Function]bool{}
		var hasCmp func(fn *ssa.Function) bool
		hasCmp = func(fn *ssa.Function) bool {
			if v, ok := cmpMemo[fn]; ok {
				return v
			}
			cmpMemo[fn] = false
			v := c14HasVersionCmp(fn, w)
			if !v {
				for _, ci := range an.Calls(fn, func(cc *ssa.CallCommon) bool { return inWrap[cc.StaticCallee()] }, true) {
					if hasCmp(ci.Common().StaticCallee()) {
						v = true
					}
				}
			}
			cmpMemo[fn] = v
			return v
		}
		// helpers: wrapper functions called by another wrapper function are explored inside their callers
		helper := map[*ssa.Function]bool{}
		for _, fn := range funcs {
			for _, ci := range an.Calls(fn, func(cc *ssa.CallCommon) bool { g := cc.StaticCallee(); return inWrap[g] && g != fn }, true) {
				if g := ci.Common().StaticCallee(); hasCmp(g) {
					helper[g] = true
				}
			}
		}
		var roots []c14M6Root
		for _, fn := range funcs {
			if helper[fn] || !hasCmp(fn) {
				continue
			}
			roots = append(roots, c14M6Explore(fn, w, inWrap, hasCmp))
		}
		// group the roots by the function(s) that own the dispatch
		type group struct {
			name     string
			fn       *ssa.Function
			handled  map[string]bool
			ordering bool
			complete bool
			roots    []c14M6Root
		}
		groups := map[string]*group{}
		var order []string
		for _, r := range roots {
			owners := r.owners
			if len(owners) == 0 {
				continue
			}
			own := false
			for _, o := range owners {
				if o == r.fn {
					own = true
				}
			}
			if own {
				owners = []*ssa.Function{r.fn}
			}
			for _, o := range owners {
				top := o
				for top.Parent() != nil {
					top = top.Parent()
				}
				n := an.FuncName(top)
				g := groups[n]
				if g == nil {
					g = &group{name: n, fn: top, handled: map[string]bool{}, complete: true}
					for s := range r.handled {
						g.handled[s] = true
					}
					groups[n] = g
					order = append(order, n)
				} else {
					for s := range g.handled {
						if !r.handled[s] {
							delete(g.handled, s) // every root that dispatches through this function must handle the version
						}
					}
				}
				g.ordering = g.ordering || r.ordering
				g.complete = g.complete && r.complete
				g.roots = append(g.roots, r)
			}
		}
		sort.Strings(order)
		// A single dispatching function shared by two or more functions of the wrapper agrees with itself: the
		// condition holds by construction (the case↔payload pairing is still checked below).
		if len(order) == 0 || (len(order) == 1 && len(groups[order[0]].roots) < 2) {
			c.Unsure("core."+w.Name, w.T.Obj().Pos(), "fewer than two version switches found for a versioned wrapper")
			continue
		}
		// hasBlinded: version short -> library struct has a Blinded twin
		hasBl := map[string]bool{}
		for f, s := range w.Payload {
			if strings.HasSuffix(f, "Blinded") {
				hasBl[s] = true
			}
		}
		// expected set: the versions handled by a majority of the wrapper's dispatching functions
		union := map[string]bool{}
		for _, n := range order {
			for s := range groups[n].handled {
				union[s] = true
			}
		}
		for s := range union {
			k := 0
			for _, n := range order {
				if groups[n].handled[s] {
					k++
				}
			}
			if 2*k <= len(order) {
				delete(union, s)
			}
		}
		for _, n := range order {
			g := groups[n]
			var missing []string
			for _, s := range c14SortedKeys(union) {
				if !g.handled[s] {
					missing = append(missing, s)
				}
			}
			switch {
			case !g.complete:
				c.Unsure(n+" handles every version", g.fn.Pos(), "path exploration exceeded its budget")
			case len(missing) == 0:
				c.Good(n+" handles every version", g.fn.Pos(), "")
			case g.ordering:
				c.Unsure(n+" handles every version", g.fn.Pos(), "the version is also compared by order or used as an index; cannot tell whether "+strings.Join(missing, ", ")+" is handled")
			default:
				c.Bad(n+" handles every version", g.fn.Pos(), "version(s) "+strings.Join(missing, ", ")+" handled by the sibling functions of "+w.Name+" have no case here")
			}
			good, why, pos := true, "", g.fn.Pos()
			for _, r := range g.roots {
				var keys []string
				for k := range r.sites {
					keys = append(keys, k)
				}
				sort.Strings(keys)
				for _, k := range keys {
					so := r.sites[k]
					short := w.Payload[so.field]
					if len(so.common) > 0 && !so.common[short] {
						good, why, pos = false, fmt.Sprintf("the %s case accesses payload field %s of version %s", strings.Join(c14SortedKeys(so.common), "/"), so.field, short), so.pos
					}
					if !hasBl[short] {
						continue
					}
					isBl := strings.HasSuffix(so.field, "Blinded")
					if (so.blinded == 1 && !isBl) || (so.blinded == -1 && isBl) {
						pol := "blinded"
						if so.blinded == -1 {
							pol = "non-blinded"
						}
						good, why, pos = false, fmt.Sprintf("payload field %s is accessed on the %s branch", so.field, pol), so.pos
					}
				}
			}
			c.Check(n+" case↔payload pairing", pos, good, why)
		}
	}
}

// ---------------------------------------------------------------------------------------------
// M3 decode-nullable payloads are validated before they are dereferenced (E7)

var c14IsJSONUnmarshal = an.Static("encoding/json.Unmarshal")

// c14Nullable: payload fields of w that UnmarshalJSON can leave nil. On every path, the value stored into a payload
// field is judged where it is stored: a pointer variable whose address was handed to json.Unmarshal (JSON null resets
// it to nil) is nullable unless the path has established that it is non-nil; a value whose origin is not understood is
// "unknown". found=false: no UnmarshalJSON.
func c14Nullable(c *rt.Ctx, w c14Wrap) (nullable map[string]token.Pos, unknown map[string]token.Pos, found bool) {
	fn := c.FnOpt("core." + w.Name + ".UnmarshalJSON")
	if fn == nil {
		return nil, nil, false
	}
	nullable, unknown = map[string]token.Pos{}, map[string]token.Pos{}
	complete := symExplore(fn, symHooks{
		Inline: c14InlineIf(fn, c14IsJSONUnmarshal),
		Before: func(x *symX, in ssa.Instruction) {
			st, ok := in.(*ssa.Store)
			if !ok {
				return
			}
			field, _, ok := w.payloadSel(st.Addr)
			if !ok {
				return
			}
			val := x.R(st.Val)
			if x.NilCV(val) == 1 {
				return
			}
			if x.NilCV(val) == -1 {
				nullable[field] = st.Pos()
				return
			}
			// content of a local whose address was given to json.Unmarshal?
			if _, isAlloc := val.v.(*ssa.Alloc); isAlloc && strings.HasPrefix(val.p, "@") {
				base := c14BaseOf(val)
				for _, ev := range x.Trace() {
					call, ok := ev.In.(*ssa.Call)
					if !ok || !c14IsJSONUnmarshal(&call.Call) {
						continue
					}
					for _, a := range ev.Args {
						if x.UnboxCV(a) == base {
							nullable[field] = st.Pos()
							return
						}
					}
				}
			}
			unknown[field] = st.Pos()
		},
	})
	if !complete {
		c.Bail("core.%s.UnmarshalJSON: path exploration exceeded its budget", w.Name)
	}
	for f := range nullable {
		delete(unknown, f)
	}
	return nullable, unknown, true
}

type c14Touch struct {
	unguardedP []token.Pos
	unguardedF []string
	validates  map[string]bool // field -> a nil test of it rejects with an error
	libCalls   []*ssa.Call     // accessor calls on the embedded library value that succeeded on every successful path
	complete   bool
}

// c14PayloadOfCV: c is the payload pointer field of the receiver (value or pointer receiver).
func (w c14Wrap) payloadOfCV(c, recv symCV, spills map[ssa.Value]bool) (string, bool) {
	if (c.v != recv.v && !spills[c.v]) || c.f != recv.f || c.p == "" {
		return "", false
	}
	p := c.p
	// strip a memory epoch "@n"
	if strings.HasPrefix(p, "@") {
		i := 1
		for i < len(p) && p[i] >= '0' && p[i] <= '9' {
			i++
		}
		p = p[i:]
	}
	ls, ok := w.L.Underlying().(*types.Struct)
	if !ok {
		return "", false
	}
	for i := 0; i < ls.NumFields(); i++ {
		if _, isP := w.Payload[ls.Field(i).Name()]; isP && p == fmt.Sprintf(".0.%d", i) {
			return ls.Field(i).Name(), true
		}
	}
	return "", false
}

// c14TouchOf analyses how method fn of wrapper w uses the decode-nullable payload fields of its receiver: every
// dereference of such a pointer must happen on a path that has established it non-nil (a nil test) or after a
// successful accessor call on the embedded library value (libOK tells whether an accessor validates payloads).
func c14TouchOf(fn *ssa.Function, w c14Wrap, nullable map[string]bool, libOK func(*ssa.Function) bool) c14Touch {
	t := c14Touch{validates: map[string]bool{}}
	recvP := fn.Params[0]
	hasErr := false
	res := fn.Signature.Results()
	for i := 0; i < res.Len(); i++ {
		if an.IsErrorType(res.At(i).Type()) {
			hasErr = true
		}
	}
	var recv symCV
	isLibAccessor := func(call *ssa.Call) bool {
		f := call.Call.StaticCallee()
		if f == nil || f.Signature.Recv() == nil || len(call.Call.Args) == 0 {
			return false
		}
		rn := c14Named(f.Signature.Recv().Type())
		return rn != nil && rn.Obj() == w.L.Obj()
	}
	// locals the receiver is spilled to (its address is taken for pointer-receiver accessors of the embedded value)
	spills := map[ssa.Value]bool{}
	for _, in := range an.Instrs(fn, false) {
		if al, ok := in.(*ssa.Alloc); ok && an.UniqueStore(al) == ssa.Value(recvP) {
			spills[al] = true
		}
	}
	// accessor calls whose receiver is (the address of) the embedded value of this method's receiver
	rooted := map[symVKey]bool{}
	isRooted := func(x *symX, v ssa.Value) bool {
		c := x.Unbox(v)
		if c.v == recv.v && c.f == recv.f {
			return true
		}
		if _, isPtr := v.Type().Underlying().(*types.Pointer); isPtr {
			if base, _, ok := x.st.addr(v, x.fr.id); ok {
				if (base.v == recv.v || spills[base.v]) && base.f == recv.f {
					return true
				}
				if _, isAlloc := base.v.(*ssa.Alloc); isAlloc && base.p == "" {
					if content, ok := x.st.mem[symAKey{base, ""}]; ok && content.v == recv.v && content.f == recv.f {
						return true
					}
				}
			}
		}
		return false
	}
	seenNonNil, seenNil := map[string]bool{}, map[string]bool{}
	libAll := map[*ssa.Call]int{} // accessor -> number of successful paths on which it succeeded
	nSucc := 0
	reported := map[string]bool{}
	fieldTok := map[string]symCV{}
	t.complete = symExplore(fn, symHooks{
		Init: func(x *symX) { recv = x.R(recvP) },
		Inline: func(x *symX, site ssa.CallInstruction, callee *ssa.Function) bool {
			if !c14SamePkg(callee, fn) {
				return false
			}
			if callee.Parent() != nil {
				return true
			}
			for _, a := range site.Common().Args {
				ac := x.Unbox(a)
				if ac.v == recv.v && ac.f == recv.f || x.IsClosureArg(a) {
					return true
				}
				// a helper that is handed an error (e.g. the error result of a validating accessor) may be the
				// one that tests it: the success/failure split of the accessor happens inside the helper
				if an.IsErrorType(a.Type()) && !symIsNilConst(a) {
					return true
				}
			}
			return false
		},
		Before: func(x *symX, in ssa.Instruction) {
			if call, ok := in.(*ssa.Call); ok && isLibAccessor(call) && isRooted(x, call.Call.Args[0]) {
				rooted[symVKey{call, x.fr.id}] = true
			}
			var ptr ssa.Value
			switch y := in.(type) {
			case *ssa.FieldAddr:
				ptr = y.X
			case *ssa.IndexAddr:
				ptr = y.X
			case *ssa.UnOp:
				if y.Op == token.MUL {
					ptr = y.X
				}
			case *ssa.Call:
				cc := &y.Call
				if !cc.IsInvoke() && len(cc.Args) > 0 {
					if f := cc.StaticCallee(); f != nil && f.Signature.Recv() != nil {
						if _, isPtr := cc.Args[0].Type().Underlying().(*types.Pointer); isPtr {
							ptr = cc.Args[0]
						}
					}
				}
			}
			if ptr == nil {
				return
			}
			pc := x.R(ptr)
			field, ok := w.payloadOfCV(pc, recv, spills)
			if !ok {
				return
			}
			fieldTok[field] = pc
			if !nullable[field] || x.NilCV(pc) == 1 {
				return
			}
			// a successful validating accessor earlier on the path?
			for _, ev := range x.Trace() {
				call, ok := ev.In.(*ssa.Call)
				if !ok || !isLibAccessor(call) || !rooted[symVKey{call, ev.Frame}] {
					continue
				}
				if hasErr && x.CallOK(call, ev.Frame) == 1 && call.Call.Signature().Results().Len() > 0 && libOK(call.Call.StaticCallee()) {
					return
				}
			}
			key := fmt.Sprintf("%s@%d", field, posOf(in))
			if !reported[key] {
				reported[key] = true
				t.unguardedF = append(t.unguardedF, field)
				t.unguardedP = append(t.unguardedP, posOf(in))
			}
		},
		After: func(x *symX, in ssa.Instruction) {
			// remember the token of every payload pointer that is read (for the nil-test bookkeeping at returns)
			if ld, ok := in.(*ssa.UnOp); ok && ld.Op == token.MUL {
				pc := x.R(ld)
				if field, ok := w.payloadOfCV(pc, recv, spills); ok {
					fieldTok[field] = pc
				}
			}
			if fv, ok := in.(*ssa.Field); ok {
				pc := x.R(fv)
				if field, ok := w.payloadOfCV(pc, recv, spills); ok {
					fieldTok[field] = pc
				}
			}
		},
		Return: func(x *symX, ret *ssa.Return, resv []symCV) {
			if !hasErr || len(resv) == 0 {
				return
			}
			if x.NilCV(resv[len(resv)-1]) == 1 {
				return
			}
			nSucc++
			for f, tok := range fieldTok {
				switch x.NilCV(tok) {
				case 1:
					seenNonNil[f] = true
				case -1:
					seenNil[f] = true
				}
			}
			done := map[*ssa.Call]bool{}
			for _, ev := range x.Trace() {
				call, ok := ev.In.(*ssa.Call)
				if !ok || !isLibAccessor(call) || !rooted[symVKey{call, ev.Frame}] || done[call] {
					continue
				}
				if x.CallOK(call, ev.Frame) == 1 && call.Call.Signature().Results().Len() > 0 {
					done[call] = true
					libAll[call]++
				}
			}
		},
	})
	for f := range seenNonNil {
		if !seenNil[f] {
			t.validates[f] = true
		}
	}
	for call, n := range libAll {
		if n == nSucc && nSucc > 0 {
			t.libCalls = append(t.libCalls, call)
		}
	}
	sort.Slice(t.libCalls, func(i, j int) bool { return t.libCalls[i].Pos() < t.libCalls[j].Pos() })
	return t
}

// c14LibValidates confirms (on the library's source) that accessor f of the embedded library struct
// nil-tests payload fields itself or one call level below it.
func c14LibValidates(c *rt.Ctx, f *ssa.Function, w c14Wrap) (bool, string) {
	obj := f.Object()
	if obj == nil || !obj.Pos().IsValid() {
		return false, "no source position for " + an.FuncName(f)
	}
	file := c.P.Fset.Position(obj.Pos()).Filename
	if file == "" {
		return false, "no source file for " + an.FuncName(f)
	}
	af, err := parser.ParseFile(token.NewFileSet(), file, nil, parser.SkipObjectResolution)
	if err != nil {
		return false, "cannot parse " + file
	}
	recvName := func(fd *ast.FuncDecl) (typ, name string) {
		if fd.Recv == nil || len(fd.Recv.List) != 1 {
			return "", ""
		}
		t := fd.Recv.List[0].Type
		if s, ok := t.(*ast.StarExpr); ok {
			t = s.X
		}
		id, ok := t.(*ast.Ident)
		if !ok {
			return "", ""
		}
		if len(fd.Recv.List[0].Names) == 1 {
			name = fd.Recv.List[0].Names[0].Name
		}
		return id.Name, name
	}
	find := func(method string) *ast.FuncDecl {
		for _, d := range af.Decls {
			if fd, ok := d.(*ast.FuncDecl); ok && fd.Name.Name == method && fd.Body != nil {
				if tn, _ := recvName(fd); tn == w.L.Obj().Name() {
					return fd
				}
			}
		}
		return nil
	}
	count := func(fd *ast.FuncDecl) (n int, callees []string) {
		_, rn := recvName(fd)
		ast.Inspect(fd.Body, func(nd ast.Node) bool {
			switch x := nd.(type) {
			case *ast.BinaryExpr:
				if x.Op != token.EQL && x.Op != token.NEQ {
					return true
				}
				for _, pair := range [][2]ast.Expr{{x.X, x.Y}, {x.Y, x.X}} {
					id, isNil := pair[1].(*ast.Ident)
					sel, isSel := pair[0].(*ast.SelectorExpr)
					if isNil && id.Name == "nil" && isSel {
						if base, ok := sel.X.(*ast.Ident); ok && base.Name == rn {
							if _, isP := w.Payload[sel.Sel.Name]; isP {
								n++
							}
						}
					}
				}
			case *ast.CallExpr:
				if sel, ok := x.Fun.(*ast.SelectorExpr); ok {
					if base, ok := sel.X.(*ast.Ident); ok && base.Name == rn && rn != "" {
						callees = append(callees, sel.Sel.Name)
					}
				}
			}
			return true
		})
		return
	}
	fd := find(f.Name())
	if fd == nil {
		return false, "declaration of " + an.FuncName(f) + " not found in " + file
	}
	n, callees := count(fd)
	for _, cn := range callees {
		if g := find(cn); g != nil {
			k, _ := count(g)
			n += k
		}
	}
	if n == 0 {
		return false, an.FuncName(f) + " contains no nil test of a version payload (directly or one call below)"
	}
	return true, fmt.Sprintf("%d payload nil tests", n)
}

func c14M3(c *rt.Ctx) {
	ws := map[string]c14Wrap{}
	for _, w := range c14Wrappers(c) {
		ws[w.Name] = w
	}
	// receive prefix: the order in which VerifyEth2SignedData (and the helpers it hands the value to) calls the
	// methods of the decoded value; a fallible method must have succeeded before a later one is called
	vf := c.Fn("core.VerifyEth2SignedData")
	var dataP *ssa.Parameter
	for _, p := range vf.Params {
		if an.TypeName(p.Type()) == "core.Eth2SignedData" {
			dataP = p
		}
	}
	if dataP == nil {
		c.Bail("VerifyEth2SignedData: no Eth2SignedData parameter")
	}
	var data symCV
	agg := newC14Agg()
	var seqs [][]string
	onData := func(ev symEvent) (*ssa.Call, bool) {
		call, ok := ev.In.(*ssa.Call)
		return call, ok && call.Call.IsInvoke() && ev.Recv == data
	}
	complete := symExplore(vf, symHooks{
		Init: func(x *symX) { data = x.R(dataP) },
		Inline: func(x *symX, site ssa.CallInstruction, callee *ssa.Function) bool {
			if !c14SamePkg(callee, vf) {
				return false
			}
			if callee.Parent() != nil {
				return true
			}
			for _, a := range site.Common().Args {
				if x.R(a) == data || x.IsClosureArg(a) {
					return true
				}
			}
			return false
		},
		Before: func(x *symX, in ssa.Instruction) {
			call, ok := in.(*ssa.Call)
			if !ok || !call.Call.IsInvoke() || x.R(call.Call.Value) != data {
				return
			}
			for _, ev := range x.Trace() {
				prev, ok := onData(ev)
				if !ok {
					continue
				}
				if _, has := symErrOf(prev, ev.Frame, x.st); !has {
					continue
				}
				construct := "core.VerifyEth2SignedData " + prev.Call.Method.Name() + " error checked before later calls"
				if x.CallOK(prev, ev.Frame) == 1 {
					agg.add(construct, prev.Pos(), c14OK, "")
				} else {
					agg.add(construct, prev.Pos(), c14Bad, call.Call.Method.Name()+"() is called although "+prev.Call.Method.Name()+"() may have failed")
				}
			}
		},
		Return: func(x *symX, ret *ssa.Return, res []symCV) {
			var seq []string
			seen := map[string]bool{}
			for _, ev := range x.Trace() {
				if call, ok := onData(ev); ok && !seen[call.Call.Method.Name()] {
					seen[call.Call.Method.Name()] = true
					seq = append(seq, call.Call.Method.Name())
				}
			}
			seqs = append(seqs, seq)
		},
	})
	if !complete {
		c.Bail("VerifyEth2SignedData: path exploration exceeded its budget")
	}
	var order []string
	for _, s := range seqs {
		if len(s) > len(order) {
			order = s
		}
	}
	if len(order) < 2 {
		c.Bail("VerifyEth2SignedData: expected calls on the signed data")
	}
	idx := map[string]int{}
	for i, m := range order {
		idx[m] = i
	}
	for _, s := range seqs {
		last := -1
		for _, m := range s {
			i, ok := idx[m]
			if !ok || i < last {
				c.Bail("VerifyEth2SignedData: calls on the signed data are not totally ordered")
			}
			last = i
		}
	}
	agg.flush(c)
	c.Note("M3 receive prefix: %s", strings.Join(order, " → "))

	libMemo := map[*ssa.Function][2]string{}
	n := 0
	for _, nt := range implementors(c, lookupIface(c, "core", "Eth2SignedData"), "core") {
		w, ok := ws[nt.Obj().Name()]
		if !ok {
			continue // delegates decoding to the library type; not decided here
		}
		n++
		tn := "core." + w.Name
		nullPos, unkPos, found := c14Nullable(c, w)
		if !found {
			c.Unsure(tn+" decode-nullable payloads", nt.Obj().Pos(), "UnmarshalJSON not found")
			continue
		}
		c.Good(tn+" decode-nullable payloads", nt.Obj().Pos(), "fields left nil by JSON null: "+strings.Join(c14SortedKeys(nullPos), ","))
		nullable := map[string]bool{}
		for f := range nullPos {
			nullable[f] = true
		}
		for f := range unkPos {
			nullable[f] = true
		}
		libOK := func(f *ssa.Function) bool {
			if v, ok := libMemo[f]; ok {
				return v[0] == "ok"
			}
			ok, why := c14LibValidates(c, f, w)
			libMemo[f] = [2]string{map[bool]string{true: "ok", false: "no"}[ok], why}
			return ok
		}
		libValidated := ""
		validated := map[string]string{}
		reported := map[string]bool{}
		for _, m := range order {
			fn := c.FnOpt(tn + "." + m)
			if fn == nil {
				c.Unsure(tn+"."+m, nt.Obj().Pos(), "method of the receive prefix not found")
				continue
			}
			t := c14TouchOf(fn, w, nullable, libOK)
			status, why, pos := c14OK, "", fn.Pos()
			if !t.complete {
				status, why = c14Unsure, "path exploration exceeded its budget"
			}
			for i, f := range t.unguardedF {
				if libValidated != "" || validated[f] != "" || reported[f] {
					continue
				}
				reported[f] = true
				pos = t.unguardedP[i]
				if _, unk := unkPos[f]; unk {
					if status < c14Unsure {
						status, why = c14Unsure, fmt.Sprintf("cannot tell whether UnmarshalJSON can leave payload %s nil; %s() dereferences it unchecked", f, m)
					}
					continue
				}
				status = c14Bad
				why = fmt.Sprintf("payload %s is nil after decoding JSON null (UnmarshalJSON stores it unchecked) and %s() dereferences it with no nil test or validating accessor earlier in the receive prefix (%s): a peer-supplied message panics the process",
					f, m, strings.Join(order, "→"))
			}
			switch status {
			case c14OK:
				c.Good(tn+"."+m+" validates nullable payloads before use", pos, "")
			case c14Unsure:
				c.Unsure(tn+"."+m+" validates nullable payloads before use", pos, why)
			default:
				c.Bad(tn+"."+m+" validates nullable payloads before use", pos, why)
			}
			for _, g := range t.libCalls {
				if libOK(g.Call.StaticCallee()) {
					libValidated = m
				} else if len(nullable) > 0 {
					c.Unsure(tn+"."+m+" accessor "+g.Call.StaticCallee().Name(), g.Pos(), "cannot confirm that the library accessor validates the payload: "+libMemo[g.Call.StaticCallee()][1])
				}
			}
			for f := range t.validates {
				if validated[f] == "" {
					validated[f] = m
				}
			}
		}
	}
	if n == 0 {
		c.Bail("no versioned Eth2SignedData implementor found")
	}

	// unsigned data decided by consensus: dutydb consumes the decoded value only through its clone
	dbFuncs := an.PkgFuncs(c.SSAPkg("core/dutydb"))
	for _, fn := range dbFuncs {
		if fn.Parent() != nil {
			continue
		}
		for _, p := range fn.Params {
			if _, isPtr := p.Type().(*types.Pointer); isPtr || an.TypeName(p.Type()) != "core.UnsignedData" {
				continue
			}
			construct := an.FuncName(fn) + " uses decoded unsigned data only via Clone()"
			// A helper that is only ever handed the re-encoded clone (never the decoded value, never used as a
			// function value) receives no decoded data: the obligation lies with its callers.
			prov := c14ParamProvenance(dbFuncs, fn, p, map[*ssa.Parameter]bool{})
			if prov == c14ProvClean {
				c.Good(construct, fn.Pos(), "every call site passes the result of Clone()")
				continue
			}
			st, why := c14OnlyViaClone(fn, p)
			if st == c14Bad && prov == c14ProvUnknown {
				st, why = c14Unsure, "cannot tell whether the callers pass decoded data or its clone; "+why
			}
			switch st {
			case c14OK:
				c.Good(construct, fn.Pos(), "")
			case c14Unsure:
				c.Unsure(construct, fn.Pos(), why)
			default:
				c.Bad(construct, fn.Pos(), why)
			}
		}
	}
}

const (
	c14ProvClean   = iota // every caller passes the (type-asserted / boxed) result of a Clone() invocation
	c14ProvDecoded        // the function is an entry point, is used as a function value, or a caller passes its own un-cloned parameter
	c14ProvUnknown
)

// c14ParamProvenance classifies what the in-package callers of fn hand to its parameter p.
func c14ParamProvenance(pkgFuncs []*ssa.Function, fn *ssa.Function, p *ssa.Parameter, busy map[*ssa.Parameter]bool) int {
	if busy[p] {
		return c14ProvClean // recursion: decided by the other call sites
	}
	busy[p] = true
	defer delete(busy, p)
	idx := -1
	for i, q := range fn.Params {
		if q == p {
			idx = i
		}
	}
	if idx < 0 || fn.Object() == nil || fn.Object().Exported() {
		return c14ProvDecoded
	}
	sameFn := func(v ssa.Value) bool {
		g, ok := v.(*ssa.Function)
		return ok && (g == fn || g.Object() != nil && g.Object() == fn.Object())
	}
	nSites, worst := 0, c14ProvClean
	for _, caller := range pkgFuncs {
		for _, in := range an.Instrs(caller, false) {
			if _, isDbg := in.(*ssa.DebugRef); isDbg {
				continue
			}
			var site *ssa.CallCommon
			if ci, ok := in.(ssa.CallInstruction); ok && ci.Common().StaticCallee() == fn && !ci.Common().IsInvoke() {
				if _, isCall := in.(*ssa.Call); isCall {
					site = ci.Common()
				}
			}
			for _, op := range in.Operands(nil) {
				if op == nil || *op == nil || !sameFn(*op) {
					continue
				}
				if site != nil && *op == site.Value {
					continue
				}
				return c14ProvDecoded // function value (table entry, method expression, go/defer): callers unknown
			}
			if site == nil || idx >= len(site.Args) {
				continue
			}
			nSites++
			switch c14ValueProvenance(pkgFuncs, site.Args[idx], busy, 0) {
			case c14ProvDecoded:
				return c14ProvDecoded
			case c14ProvUnknown:
				worst = c14ProvUnknown
			}
		}
	}
	if nSites == 0 {
		return c14ProvDecoded
	}
	return worst
}

// c14ContainerProvenance: an element of a set of unsigned data. The set handed to an exported entry point of the
// package (MemDB.Store) holds the values as decoded by consensus - nothing in this package has cloned them.
func c14ContainerProvenance(m ssa.Value) int {
	if p, ok := an.Resolve(m).(*ssa.Parameter); ok && p.Parent() != nil && p.Parent().Parent() == nil {
		if obj := p.Parent().Object(); obj != nil && obj.Exported() {
			return c14ProvDecoded
		}
	}
	return c14ProvUnknown
}

func c14ValueProvenance(pkgFuncs []*ssa.Function, v ssa.Value, busy map[*ssa.Parameter]bool, depth int) int {
	if depth > 12 {
		return c14ProvUnknown
	}
	switch y := v.(type) {
	case *ssa.MakeInterface:
		return c14ValueProvenance(pkgFuncs, y.X, busy, depth+1)
	case *ssa.ChangeInterface:
		return c14ValueProvenance(pkgFuncs, y.X, busy, depth+1)
	case *ssa.ChangeType:
		return c14ValueProvenance(pkgFuncs, y.X, busy, depth+1)
	case *ssa.TypeAssert:
		return c14ValueProvenance(pkgFuncs, y.X, busy, depth+1)
	case *ssa.Lookup:
		return c14ContainerProvenance(y.X)
	case *ssa.Extract:
		if ta, ok := y.Tuple.(*ssa.TypeAssert); ok && y.Index == 0 {
			return c14ValueProvenance(pkgFuncs, ta.X, busy, depth+1)
		}
		if lk, ok := y.Tuple.(*ssa.Lookup); ok && y.Index == 0 {
			return c14ContainerProvenance(lk.X)
		}
		if nx, ok := y.Tuple.(*ssa.Next); ok {
			if rg, ok := nx.Iter.(*ssa.Range); ok {
				return c14ContainerProvenance(rg.X)
			}
		}
		if call, ok := y.Tuple.(*ssa.Call); ok && y.Index == 0 && call.Call.IsInvoke() && call.Call.Method.Name() == "Clone" {
			return c14ProvClean
		}
	case *ssa.Call:
		if y.Call.IsInvoke() && y.Call.Method.Name() == "Clone" {
			return c14ProvClean
		}
	case *ssa.Phi:
		worst := c14ProvClean
		for _, e := range y.Edges {
			switch c14ValueProvenance(pkgFuncs, e, busy, depth+1) {
			case c14ProvDecoded:
				return c14ProvDecoded
			case c14ProvUnknown:
				worst = c14ProvUnknown
			}
		}
		return worst
	case *ssa.UnOp:
		if al, ok := y.X.(*ssa.Alloc); ok && y.Op == token.MUL && al.Referrers() != nil {
			worst, n := c14ProvClean, 0
			for _, ref := range *al.Referrers() {
				switch r := ref.(type) {
				case *ssa.Store:
					if r.Addr != ssa.Value(al) {
						return c14ProvUnknown
					}
					n++
					switch c14ValueProvenance(pkgFuncs, r.Val, busy, depth+1) {
					case c14ProvDecoded:
						return c14ProvDecoded
					case c14ProvUnknown:
						worst = c14ProvUnknown
					}
				case *ssa.UnOp, *ssa.DebugRef:
				default:
					return c14ProvUnknown
				}
			}
			if n == 0 {
				return c14ProvUnknown
			}
			return worst
		}
	case *ssa.Parameter:
		if an.TypeName(y.Type()) == "core.UnsignedData" && y.Parent() != nil {
			return c14ParamProvenance(pkgFuncs, y.Parent(), y, busy)
		}
	}
	return c14ProvUnknown
}

// c14OnlyViaClone: on every path of fn (helpers of the package that receive the value are explored in place) the
// decoded value p is used for nothing but calling its Clone() method, and the clone is used only where that call is
// known to have succeeded.
func c14OnlyViaClone(fn *ssa.Function, p *ssa.Parameter) (int, string) {
	status, why := c14OK, ""
	worse := func(st int, w string) {
		if st > status {
			status, why = st, w
		}
	}
	var pv symCV
	nClone := 0
	inlines := func(x *symX, cc *ssa.CallCommon) bool {
		callee := cc.StaticCallee()
		if callee == nil || callee.Blocks == nil || !c14SamePkg(callee, fn) || cc.IsInvoke() {
			return false
		}
		if callee.Parent() != nil {
			return true
		}
		for _, a := range cc.Args {
			if x.Unbox(a) == pv {
				return true
			}
		}
		return false
	}
	isCloneOfP := func(c symCV) (*ssa.Call, bool) {
		call, ok := c.v.(*ssa.Call)
		if !ok || !call.Call.IsInvoke() || call.Call.Method.Name() != "Clone" {
			return nil, false
		}
		return call, true
	}
	cloneFrames := map[symVKey]bool{} // Clone() invocations on p (call, frame)
	complete := symExplore(fn, symHooks{
		Init:   func(x *symX) { pv = x.R(p) },
		Inline: func(x *symX, site ssa.CallInstruction, callee *ssa.Function) bool { return inlines(x, site.Common()) },
		Before: func(x *symX, in ssa.Instruction) {
			switch y := in.(type) {
			case *ssa.DebugRef, *ssa.Phi:
				return
			case *ssa.Call:
				if y.Call.IsInvoke() && y.Call.Method.Name() == "Clone" && x.R(y.Call.Value) == pv {
					nClone++
					fid, _ := x.Frame()
					cloneFrames[symVKey{y, fid}] = true
				}
			}
			fid, _ := x.Frame()
			for _, op := range in.Operands(nil) {
				if op == nil || *op == nil {
					continue
				}
				oc := x.R(*op)
				uc := x.UnboxCV(oc)
				if uc == pv {
					switch y := in.(type) {
					case *ssa.Call:
						if y.Call.IsInvoke() && y.Call.Method.Name() == "Clone" && *op == y.Call.Value {
							continue
						}
						if inlines(x, &y.Call) {
							continue
						}
					case *ssa.Store:
						if base, _, ok := x.st.addr(y.Addr, fid); ok && *op == y.Val {
							if _, isAlloc := base.v.(*ssa.Alloc); isAlloc && base.p == "" {
								continue // spilled into a local variable; loads resolve to the value again
							}
						}
					case *ssa.MakeInterface, *ssa.ChangeInterface, *ssa.ChangeType:
						continue // judged where the converted value is used
					case *ssa.MakeClosure:
						continue
					}
					worse(c14Bad, fmt.Sprintf("the decoded value is used directly (%T in %s), not through its re-encoded clone", in, an.FuncName(in.Parent())))
					continue
				}
				// uses of the clone
				if call, ok := isCloneOfP(symCV{v: oc.v, f: oc.f}); ok && oc.p == "#0" && cloneFrames[symVKey{call, oc.f}] {
					if _, isExtract := in.(*ssa.Extract); isExtract {
						continue
					}
					if x.CallOK(call, oc.f) != 1 {
						worse(c14Bad, "the clone is used although Clone() may have failed")
					}
				}
			}
		},
	})
	if !complete {
		worse(c14Unsure, "path exploration exceeded its budget")
	}
	if nClone == 0 {
		worse(c14Bad, "the decoded value is never cloned")
	}
	return status, why
}

var c14Mutants = []Mutant{
	// M1
	{ID: "C14-M1-signed-case-retargeted", File: "core/proto.go", Expect: "M1|ParSignedDataFromProto covers DutyRandao",
		Old: "case DutyRandao:", New: "case DutyInfoSync:"},
	{ID: "C14-M1-signed-default-accepts", File: "core/proto.go", Expect: "M1|ParSignedDataFromProto default",
		Old: "\tdefault:\n\t\treturn ParSignedData{}, errors.New(\"unsupported duty type\")\n",
		New: "\tdefault:\n\t\tsignedData = Signature{}\n"},
	{ID: "C14-M1-unsigned-case-retargeted", File: "core/unsigneddata.go", Expect: "M1|unmarshalUnsignedData covers DutyAggregator",
		Old: "\tcase DutyAggregator:\n\t\tvar respVersioned", New: "\tcase DutyPrepareAggregator:\n\t\tvar respVersioned"},
	{ID: "C14-M1-unsigned-default-nil", File: "core/unsigneddata.go", Expect: "M1|unmarshalUnsignedData default",
		Old: "return nil, errors.New(\"unsupported unsigned data duty type\")", New: "return nil, nil"},
	// M2
	{ID: "C14-M2-priority-nondeterministic", File: "core/priority/prioritiser.go", Expect: "M2|core/priority.hashProto marshals",
		Old: "Deterministic: true", New: "Deterministic: false"},
	{ID: "C14-M2-qbft-plain-marshal", File: "core/consensus/qbft/msg.go", Expect: "M2|core/consensus/qbft.hashProto marshals",
		Old: "proto.MarshalOptions{Deterministic: true}.Marshal(msg)", New: "proto.Marshal(msg)"},
	{ID: "C14-M2-priority-hash-other-bytes", File: "core/priority/prioritiser.go", Expect: "M2|core/priority.hashProto hashes",
		Old: "hh.PutBytes(b)", New: "hh.PutBytes(b[:0])"},
	{ID: "C14-M2-qbft-extra-step", File: "core/consensus/qbft/msg.go", Expect: "M2|siblings",
		Old: "\thh.Merkleize(index)\n", New: "\thh.Merkleize(index)\n\thh.Merkleize(index)\n"},
	{ID: "C14-M2-qbft-marshal-error-weakened", File: "core/consensus/qbft/msg.go", Expect: "M2|core/consensus/qbft.hashProto hashes",
		Old: "if err != nil {\n\t\treturn [32]byte{}, errors.Wrap(err, \"marshal proto\")", New: "if err != nil && len(b) > 0 {\n\t\treturn [32]byte{}, errors.Wrap(err, \"marshal proto\")"},
	// M3
	{ID: "C14-M3-proposal-epoch-error-weakened", File: "core/eth2signeddata.go", Expect: "M3|core.VersionedSignedProposal.MessageRoot",
		Old: "slot, err := p.Slot()\n\tif err != nil {", New: "slot, err := p.Slot()\n\tif err != nil && slot != 0 {"},
	{ID: "C14-M3-verify-root-before-epoch", File: "core/eth2signeddata.go", Expect: "M3|core.VersionedSignedProposal.MessageRoot",
		Old: "\tepoch, err := data.Epoch(ctx, eth2Cl)\n\tif err != nil {\n\t\treturn err\n\t}\n\n\tsigRoot, err := data.MessageRoot()\n\tif err != nil {\n\t\treturn err\n\t}\n",
		New: "\tsigRoot, err := data.MessageRoot()\n\tif err != nil {\n\t\treturn err\n\t}\n\n\tepoch, err := data.Epoch(ctx, eth2Cl)\n\tif err != nil {\n\t\treturn err\n\t}\n"},
	{ID: "C14-M3-verify-epoch-error-dropped", File: "core/eth2signeddata.go", Expect: "M3|VerifyEth2SignedData Epoch",
		Old: "\tepoch, err := data.Epoch(ctx, eth2Cl)\n\tif err != nil {\n\t\treturn err\n\t}", New: "\tepoch, err := data.Epoch(ctx, eth2Cl)\n\tif err != nil {\n\t\tepoch = 0\n\t}"},
	{ID: "C14-M3-dutydb-uses-decoded-directly", File: "core/dutydb/memory.go", Expect: "M3|storeProposalUnsafe",
		Old: "proposal, ok := cloned.(core.VersionedProposal)", New: "proposal, ok := unsignedData.(core.VersionedProposal)",
		More: [][2]string{{"cloned, err := unsignedData.Clone() // Clone before storing.\n\tif err != nil {\n\t\treturn err\n\t}\n\n\tproposal", "_, err := unsignedData.Clone() // Clone before storing.\n\tif err != nil {\n\t\treturn err\n\t}\n\n\tproposal"}}},
	{ID: "C14-M3-aggproof-epoch-skips-accessor", File: "core/eth2signeddata.go", Expect: "M3|core.VersionedSignedAggregateAndProof.Epoch",
		Old: "slot, err := ap.Slot()\n\tif err != nil {\n\t\treturn 0, err\n\t}\n", New: "slot, err := ap.Slot()\n\tif err != nil {\n\t\treturn 0, err\n\t}\n\n\tslot = ap.Electra.Message.Aggregate.Data.Slot\n",
		More: [][2]string{{"func (ap VersionedSignedAggregateAndProof) Epoch(ctx context.Context, eth2Cl eth2wrap.Client) (eth2p0.Epoch, error) {\n\tslot, err := ap.Slot()\n\tif err != nil {\n\t\treturn 0, err\n\t}\n", "func (ap VersionedSignedAggregateAndProof) Epoch(ctx context.Context, eth2Cl eth2wrap.Client) (eth2p0.Epoch, error) {\n\tslot, err := ap.Slot()\n\tif err != nil && slot > 0 {\n\t\treturn 0, err\n\t}\n"}}},
	// M4
	{ID: "C14-M4-signed-recover-swallowed", File: "core/proto.go", Expect: "M4|core.ParSignedDataFromProto recovers",
		Old: "\t\t\toerr = recoverPanicErr(r)\n\t\t}\n\t}()\n\n\tif err := protonil.Check(data)", New: "\t\t\t_ = recoverPanicErr(r)\n\t\t}\n\t}()\n\n\tif err := protonil.Check(data)"},
	{ID: "C14-M4-unsigned-not-deferred", File: "core/proto.go", Expect: "M4|core.UnsignedDataSetFromProto recovers",
		Old: "(_ UnsignedDataSet, oerr error) {\n\tdefer func() {", New: "(_ UnsignedDataSet, oerr error) {\n\tfunc() {"},
	{ID: "C14-M4-unsigned-recover-conditional", File: "core/proto.go", Expect: "M4|core.UnsignedDataSetFromProto recovers",
		Old: "\t\tif r := recover(); r != nil {\n\t\t\toerr = recoverPanicErr(r)\n\t\t}\n\t}()\n\n\tif set == nil", New: "\t\tif r := recover(); r != nil && typ.Valid() {\n\t\t\toerr = recoverPanicErr(r)\n\t\t}\n\t}()\n\n\tif set == nil"},
	// M5
	{ID: "C14-M5-randao-returns-receiver", File: "core/signeddata.go", Expect: "M5|core.SignedRandao.clone",
		Old: "return SignedRandao{}, errors.Wrap(err, \"clone randao\")\n\t}\n\n\treturn resp, nil", New: "return SignedRandao{}, errors.Wrap(err, \"clone randao\")\n\t}\n\n\treturn s, nil"},
	{ID: "C14-M5-attdata-codec-error-weakened", File: "core/unsigneddata.go", Expect: "M5|core.AttestationData.Clone",
		Old: "err := cloneSSZMarshaler(a, &resp)\n\tif err != nil {\n\t\treturn nil, errors.Wrap(err, \"clone attestation\")", New: "err := cloneSSZMarshaler(a, &resp)\n\tif err != nil && sszMarshallingEnabled {\n\t\treturn nil, errors.Wrap(err, \"clone attestation\")"},
	{ID: "C14-M5-ssz-helper-decodes-other-bytes", File: "core/signeddata.go", Expect: "M5|core.cloneSSZMarshaler",
		Old: "v.UnmarshalSSZ(bytes)", New: "v.UnmarshalSSZ(bytes[:0])"},
	{ID: "C14-M5-versioned-aggatt-encodes-fresh", File: "core/unsigneddata.go", Expect: "M5|core.VersionedAggregatedAttestation.Clone",
		Old: "var resp VersionedAggregatedAttestation\n\n\terr := cloneSSZMarshaler(a, &resp)", New: "var resp VersionedAggregatedAttestation\n\n\terr := cloneSSZMarshaler(resp, &resp)"},
	{ID: "C14-M5-signature-aliases", File: "core/signeddata.go", Expect: "M5|core.Signature.clone",
		Old: "\tresp := make([]byte, len(s))\n\tcopy(resp, s)\n\n\treturn resp", New: "\tresp := []byte(s)\n\n\treturn resp"},
	{ID: "C14-M5-contributions-append-original", File: "core/unsigneddata.go", Expect: "M5|core.SyncContributions.Clone",
		Old: "resp = append(resp, clonedContrib)", New: "_ = clonedContrib\n\t\tresp = append(resp, contrib)"},
	{ID: "C14-M5-json-helper-error-replaced", File: "core/signeddata.go", Expect: "M5|core.cloneJSONMarshaler",
		Old: "bytes, err := data.MarshalJSON()\n\tif err != nil {\n\t\treturn errors.Wrap(err, \"marshal data\")\n\t}\n\n\tif err := json.Unmarshal", New: "bytes, err := data.MarshalJSON()\n\tif err != nil {\n\t\tbytes = []byte(\"{}\")\n\t}\n\n\tif err := json.Unmarshal"},
	// added with the path-sensitive reformulation (helpers explored in place, facts per path)
	{ID: "C14-M2-qbft-bytes-replaced-on-branch", File: "core/consensus/qbft/msg.go", Expect: "M2|core/consensus/qbft.hashProto hashes",
		Old: "\thh.PutBytes(b)\n", New: "\tif len(b) == 0 {\n\t\tb = []byte{0}\n\t}\n\n\thh.PutBytes(b)\n"},
	{ID: "C14-M2-priority-hashroot-error-weakened", File: "core/priority/prioritiser.go", Expect: "M2|core/priority.hashProto returns",
		Old: "hash, err := hh.HashRoot()\n\tif err != nil {", New: "hash, err := hh.HashRoot()\n\tif err != nil && len(b) == 0 {"},
	{ID: "C14-M2-qbft-options-reset", File: "core/consensus/qbft/msg.go", Expect: "M2|core/consensus/qbft.hashProto marshals",
		Old: "b, err := proto.MarshalOptions{Deterministic: true}.Marshal(msg)", New: "opts := proto.MarshalOptions{Deterministic: true}\n\topts = proto.MarshalOptions{AllowPartial: true}\n\tb, err := opts.Marshal(msg)"},
	{ID: "C14-M3-verify-root-error-dropped", File: "core/eth2signeddata.go", Expect: "M3|VerifyEth2SignedData MessageRoot",
		Old: "\tsigRoot, err := data.MessageRoot()\n\tif err != nil {\n\t\treturn err\n\t}", New: "\tsigRoot, err := data.MessageRoot()\n\tif err != nil {\n\t\tsigRoot = [32]byte{}\n\t}"},
	{ID: "C14-M3-dutydb-clone-error-weakened", File: "core/dutydb/memory.go", Expect: "M3|storeAttestationUnsafe",
		Old: "cloned, err := unsignedData.Clone() // Clone before storing.\n\tif err != nil {\n\t\treturn err\n\t}\n\n\tattData, ok", New: "cloned, err := unsignedData.Clone() // Clone before storing.\n\tif err != nil && pubkey == \"\" {\n\t\treturn err\n\t}\n\n\tattData, ok"},
	{ID: "C14-M4-signed-recover-in-nested-closure", File: "core/proto.go", Expect: "M4|core.ParSignedDataFromProto recovers",
		Old: "\t\tif r := recover(); r != nil {\n\t\t\toerr = recoverPanicErr(r)\n\t\t}\n\t}()\n\n\tif err := protonil.Check(data)", New: "\t\tfunc() {\n\t\t\tif r := recover(); r != nil {\n\t\t\t\toerr = recoverPanicErr(r)\n\t\t\t}\n\t\t}()\n\t}()\n\n\tif err := protonil.Check(data)"},
	{ID: "C14-M4-unsigned-recover-stores-nil", File: "core/proto.go", Expect: "M4|core.UnsignedDataSetFromProto recovers",
		Old: "\t\tif r := recover(); r != nil {\n\t\t\toerr = recoverPanicErr(r)\n\t\t}\n\t}()\n\n\tif set == nil", New: "\t\tif r := recover(); r != nil {\n\t\t\toerr = nil\n\t\t}\n\t}()\n\n\tif set == nil"},
	{ID: "C14-M4-signed-decode-before-defer", File: "core/proto.go", Expect: "M4|core.ParSignedDataFromProto recover armed",
		Old: "(_ ParSignedData, oerr error) {\n\tdefer func() {", New: "(_ ParSignedData, oerr error) {\n\t_ = unmarshal(data.GetData(), new(Signature))\n\n\tdefer func() {"},
	{ID: "C14-M5-syncmsg-second-codec-unchecked", File: "core/signeddata.go", Expect: "M5|core.SignedSyncMessage.clone",
		Old: "\t\treturn SignedSyncMessage{}, errors.Wrap(err, \"clone signed sync message\")\n\t}\n", New: "\t\treturn SignedSyncMessage{}, errors.Wrap(err, \"clone signed sync message\")\n\t}\n\n\t_ = cloneSSZMarshaler(s, &resp)\n"},
	{ID: "C14-M5-contributions-clone-error-weakened", File: "core/unsigneddata.go", Expect: "M5|core.SyncContributions.Clone",
		Old: "\t\tcloned, err := contrib.Clone()\n\t\tif err != nil {", New: "\t\tcloned, err := contrib.Clone()\n\t\tif err != nil && len(resp) > 0 {"},
	{ID: "C14-M5-signature-copy-from-itself", File: "core/signeddata.go", Expect: "M5|core.Signature.clone",
		Old: "\tcopy(resp, s)\n", New: "\tcopy(resp, resp)\n"},
	{ID: "C14-M6-proposal-setsig-blinded-swapped", File: "core/signeddata.go", Expect: "M6|core.VersionedSignedProposal.SetSignature case",
		Old: "\t\tif resp.Blinded {\n\t\t\tresp.CapellaBlinded.Signature = sig.ToETH2()", New: "\t\tif !resp.Blinded {\n\t\t\tresp.CapellaBlinded.Signature = sig.ToETH2()"},
	{ID: "C14-M6-aggproof-root-no-fulu", File: "core/signeddata.go", Expect: "M6|core.VersionedSignedAggregateAndProof.MessageRoot",
		Old: "\tcase eth2spec.DataVersionFulu:\n\t\tif ap.Fulu == nil {\n\t\t\treturn [32]byte{}, errors.New(\"unmarshal fulu\")", New: "\tcase eth2spec.DataVersionUnknown:\n\t\tif ap.Fulu == nil {\n\t\t\treturn [32]byte{}, errors.New(\"unmarshal fulu\")"},
	{ID: "C14-M1-unsigned-sync-case-errors", File: "core/unsigneddata.go", Expect: "M1|unmarshalUnsignedData covers DutySyncContribution",
		Old: "\t\tvar plural SyncContributions\n\t\tif err := unmarshal(data, &plural); err == nil {\n\t\t\treturn plural, nil\n\t\t}\n\n\t\tvar single SyncContribution\n\t\tif err := unmarshal(data, &single); err != nil {\n\t\t\treturn nil, errors.Wrap(err, \"unmarshal sync contribution\")\n\t\t}\n\n\t\treturn single, nil",
		New: "\t\tvar plural SyncContributions\n\t\tif err := unmarshal(data, &plural); err == nil {\n\t\t\treturn nil, errors.New(\"plural\")\n\t\t}\n\n\t\tvar single SyncContribution\n\t\tif err := unmarshal(data, &single); err != nil {\n\t\t\treturn nil, errors.Wrap(err, \"unmarshal sync contribution\")\n\t\t}\n\n\t\treturn nil, errors.New(\"single\")"},
	// M6
	{ID: "C14-M6-att-setsig-no-fulu", File: "core/signeddata.go", Expect: "M6|core.VersionedAttestation.SetSignature handles",
		Old: "\tcase eth2spec.DataVersionFulu:\n\t\tresp.Fulu.Signature = sig.ToETH2()\n\tdefault:\n\t\treturn nil, errors.New(\"unknown attestation version\"", New: "\tdefault:\n\t\treturn nil, errors.New(\"unknown attestation version\""},
	{ID: "C14-M6-proposal-root-wrong-field", File: "core/signeddata.go", Expect: "M6|core.VersionedSignedProposal.MessageRoot case",
		Old: "return p.Capella.Message.HashTreeRoot()", New: "return p.Bellatrix.Message.HashTreeRoot()"},
	{ID: "C14-M6-proposal-sig-blinded-flipped", File: "core/signeddata.go", Expect: "M6|core.VersionedSignedProposal.Signature case",
		Old: "if p.Blinded {\n\t\t\treturn SigFromETH2(p.DenebBlinded.Signature)", New: "if !p.Blinded {\n\t\t\treturn SigFromETH2(p.DenebBlinded.Signature)"},
	{ID: "C14-M6-aggproof-ssz-no-altair", File: "core/ssz.go", Expect: "M6|core.VersionedSignedAggregateAndProof.sszValFromVersion",
		Old: "case eth2util.DataVersionAltair:\n\t\tif ap.Altair == nil {", New: "case eth2util.DataVersionUnknown:\n\t\tif ap.Altair == nil {"},
	{ID: "C14-M6-aggatt-json-wrong-slot", File: "core/unsigneddata.go", Expect: "M6|core.VersionedAggregatedAttestation.UnmarshalJSON case",
		Old: "return errors.Wrap(err, \"unmarshal capella\")\n\t\t}\n\n\t\tresp.Capella = att", New: "return errors.Wrap(err, \"unmarshal capella\")\n\t\t}\n\n\t\tresp.Deneb = att"},
	{ID: "C14-M6-att-ctor-wrong-field", File: "core/signeddata.go", Expect: "M6|core.NewVersionedAttestation case",
		Old: "case eth2spec.DataVersionElectra:\n\t\tif att.Electra == nil {\n\t\t\treturn VersionedAttestation{},", New: "case eth2spec.DataVersionElectra:\n\t\tif att.Deneb == nil {\n\t\t\treturn VersionedAttestation{},"},
}
