package rules

import (
	"fmt"
	"go/ast"
	"go/parser"
	"go/token"
	"go/types"
	"sort"
	"strings"

	"golang.org/x/tools/go/ssa"

	"charonverif/internal/an"
	"charonverif/internal/load"
	"charonverif/internal/rt"
)

func c14(c *rt.Ctx) {
	c.Rule("M1", 16, func() { c14M1(c) })
	c.Rule("M2", 7, func() { c14M2(c) })
	c.Rule("M3", 26, func() { c14M3(c) })
	c.Rule("M4", 15, func() { c14M4(c) })
	c.Rule("M5", 34, func() { c14M5(c) })
	c.Rule("M6", 70, func() { c14M6(c) })
}

// ---------------------------------------------------------------------------------------------
// shared helpers

// c14RetVals returns the results of a return, looking through named-result spill slots
// (`defer` makes returns read `*slot` after a store in the same block).
func c14RetVals(r *ssa.Return) []ssa.Value {
	out := make([]ssa.Value, len(r.Results))
	for i, v := range r.Results {
		out[i] = v
		ld, ok := v.(*ssa.UnOp)
		if !ok || ld.Op != token.MUL {
			continue
		}
		al, ok := ld.X.(*ssa.Alloc)
		if !ok {
			continue
		}
		for _, in := range r.Block().Instrs {
			if in == ssa.Instruction(ld) {
				break
			}
			if st, ok := in.(*ssa.Store); ok && st.Addr == ssa.Value(al) {
				out[i] = st.Val
			}
		}
	}
	return out
}

// c14ErrOf returns the error result of a return (nil if the function has none).
func c14ErrOf(r *ssa.Return) ssa.Value {
	vals := c14RetVals(r)
	if len(vals) == 0 {
		return nil
	}
	last := vals[len(vals)-1]
	if !an.IsErrorType(last.Type()) {
		return nil
	}
	return last
}

func c14IsNil(v ssa.Value) bool {
	k, ok := v.(*ssa.Const)
	return ok && k.Value == nil
}

// c14Returns lists the returns of fn except the panic-recovery exit.
func c14Returns(fn *ssa.Function) []*ssa.Return {
	var out []*ssa.Return
	for _, r := range an.Returns(fn) {
		if fn.Recover != nil && r.Block() == fn.Recover {
			continue
		}
		out = append(out, r)
	}
	return out
}

// c14ReachRets: the returns reachable from the top of block b.
func c14ReachRets(b *ssa.BasicBlock) []*ssa.Return {
	var out []*ssa.Return
	for x := range an.ReachBlocks(b, nil) {
		if len(x.Instrs) == 0 {
			continue
		}
		if r, ok := x.Instrs[len(x.Instrs)-1].(*ssa.Return); ok {
			out = append(out, r)
		}
	}
	return out
}

// c14Success: (a return with the nil error constant is reachable from b, any return is reachable).
func c14Success(b *ssa.BasicBlock) (bool, bool) {
	rets := c14ReachRets(b)
	for _, r := range rets {
		if e := c14ErrOf(r); e != nil && c14IsNil(e) {
			return true, true
		}
	}
	return false, len(rets) > 0
}

// c14Cmp is a branch on `Val == K` / `Val != K` (negations folded): Eq is the successor taken
// when Val equals the constant.
type c14Cmp struct {
	If     *ssa.If
	Val    ssa.Value
	K      *ssa.Const
	Eq, Ne *ssa.BasicBlock
}

func c14Cmps(fn *ssa.Function) []c14Cmp {
	var out []c14Cmp
	for _, b := range fn.Blocks {
		if len(b.Instrs) == 0 {
			continue
		}
		iff, ok := b.Instrs[len(b.Instrs)-1].(*ssa.If)
		if !ok {
			continue
		}
		cond, neg := iff.Cond, false
		for {
			u, ok := cond.(*ssa.UnOp)
			if !ok || u.Op != token.NOT {
				break
			}
			cond, neg = u.X, !neg
		}
		bin, ok := cond.(*ssa.BinOp)
		if !ok || (bin.Op != token.EQL && bin.Op != token.NEQ) {
			continue
		}
		var k *ssa.Const
		var v ssa.Value
		if kk, ok := bin.Y.(*ssa.Const); ok && kk.Value != nil {
			k, v = kk, bin.X
		} else if kk, ok := bin.X.(*ssa.Const); ok && kk.Value != nil {
			k, v = kk, bin.Y
		} else {
			continue
		}
		cm := c14Cmp{If: iff, Val: v, K: k, Eq: b.Succs[0], Ne: b.Succs[1]}
		if (bin.Op == token.EQL) == neg {
			cm.Eq, cm.Ne = cm.Ne, cm.Eq
		}
		out = append(out, cm)
	}
	return out
}

// c14Edge: block b is only executed after the branch took `succ` (not `other`).
func c14Edge(succ, other, b *ssa.BasicBlock) bool {
	return succ != other && len(succ.Preds) == 1 && succ.Dominates(b)
}

// c14FieldSel decodes a field selection instruction.
func c14FieldSel(v ssa.Value) (st types.Type, name string, base ssa.Value, ok bool) {
	switch x := v.(type) {
	case *ssa.FieldAddr:
		pt, ok := x.X.Type().Underlying().(*types.Pointer)
		if !ok {
			return nil, "", nil, false
		}
		s, ok := pt.Elem().Underlying().(*types.Struct)
		if !ok {
			return nil, "", nil, false
		}
		return pt.Elem(), s.Field(x.Field).Name(), x.X, true
	case *ssa.Field:
		s, ok := x.X.Type().Underlying().(*types.Struct)
		if !ok {
			return nil, "", nil, false
		}
		return x.X.Type(), s.Field(x.Field).Name(), x.X, true
	}
	return nil, "", nil, false
}

// c14ConstName names the constant of named type nt with the value of k ("" if none).
func c14ConstName(nt *types.Named, k *ssa.Const) string {
	if nt.Obj().Pkg() == nil || k.Value == nil {
		return ""
	}
	sc := nt.Obj().Pkg().Scope()
	var names []string
	for _, n := range sc.Names() {
		if cst, ok := sc.Lookup(n).(*types.Const); ok && types.Identical(cst.Type(), nt) && cst.Val().ExactString() == k.Value.ExactString() {
			names = append(names, n)
		}
	}
	sort.Strings(names)
	if len(names) == 0 {
		return ""
	}
	return names[0]
}

func c14Named(t types.Type) *types.Named {
	for {
		p, ok := t.(*types.Pointer)
		if !ok {
			break
		}
		t = p.Elem()
	}
	n, _ := t.(*types.Named)
	return n
}

func c14SortedKeys[V any](m map[string]V) []string {
	var out []string
	for k := range m {
		out = append(out, k)
	}
	sort.Strings(out)
	return out
}

// ---------------------------------------------------------------------------------------------
// M1 dispatch exhaustiveness

type c14Dispatch struct {
	cases    map[string]c14Cmp // constant name -> branch
	defaults []*ssa.BasicBlock
}

// c14DispatchOn collects the `tag == const` chain of fn (switch or if-chain) for tags accepted
// by isTag, with the blocks reached when no constant matches.
func c14DispatchOn(fn *ssa.Function, isTag func(ssa.Value) bool) c14Dispatch {
	d := c14Dispatch{cases: map[string]c14Cmp{}}
	var cmps []c14Cmp
	cmpBlock := map[*ssa.BasicBlock]bool{}
	for _, cm := range c14Cmps(fn) {
		nt := c14Named(cm.K.Type())
		if nt == nil || !isTag(cm.Val) {
			continue
		}
		cmps = append(cmps, cm)
		cmpBlock[cm.If.Block()] = true
	}
	for _, cm := range cmps {
		name := c14ConstName(c14Named(cm.K.Type()), cm.K)
		if name == "" {
			name = "#" + cm.K.Value.ExactString()
		}
		d.cases[name] = cm
		if !cmpBlock[cm.Ne] {
			d.defaults = append(d.defaults, cm.Ne)
		}
	}
	return d
}

func c14M1(c *rt.Ctx) {
	isDutyTypeParam := func(v ssa.Value) bool {
		p, ok := v.(*ssa.Parameter)
		return ok && an.TypeName(p.Type()) == "core.DutyType"
	}
	decoders := map[string]c14Dispatch{}
	for _, name := range []string{"core.ParSignedDataFromProto", "core.unmarshalUnsignedData"} {
		fn := c.Fn(name)
		d := c14DispatchOn(fn, isDutyTypeParam)
		if len(d.cases) == 0 || len(d.defaults) == 0 {
			c.Bail("%s: no dispatch on the duty type parameter found", name)
		}
		decoders[name] = d
		good, why := true, ""
		for _, b := range d.defaults {
			succ, any := c14Success(b)
			if succ {
				good, why = false, "an unknown duty type reaches a successful return: the decoder accepts data it has no type for"
			} else if !any {
				good, why = false, "the no-match edge reaches no return"
			}
		}
		c.Check(name+" default→error", fn.Pos(), good, why)
	}
	covered := func(dec, k string) bool {
		cm, ok := decoders[dec].cases[k]
		if !ok {
			return false
		}
		succ, _ := c14Success(cm.Eq)
		return succ
	}

	// signed: duty types of every call that hands a locally constructed duty plus a ParSignedDataSet on
	type site struct {
		fn  string
		pos token.Pos
	}
	signed := map[string]site{}
	var pkgs []string
	for _, p := range c.P.Pkgs {
		rel := strings.TrimPrefix(p.PkgPath, load.Mod+"/")
		if strings.HasPrefix(rel, "testutil") || strings.HasPrefix(rel, "test") || rel == p.PkgPath {
			continue
		}
		pkgs = append(pkgs, rel)
	}
	sort.Strings(pkgs)
	for _, rel := range pkgs {
		sp := c.P.SSAPkg(rel)
		if sp == nil {
			continue
		}
		for _, fn := range an.PkgFuncs(sp) {
			for _, in := range an.Instrs(fn, false) {
				call, ok := in.(ssa.CallInstruction)
				if !ok {
					continue
				}
				var duty ssa.Value
				hasSet := false
				for _, a := range call.Common().Args {
					if _, isPtr := a.Type().(*types.Pointer); isPtr {
						continue
					}
					switch an.TypeName(a.Type()) {
					case "core.Duty":
						duty = a
					case "core.ParSignedDataSet":
						hasSet = true
					}
				}
				if duty == nil || !hasSet {
					continue
				}
				for _, o := range c14DutyOrigins(duty, 0) {
					switch o.kind {
					case "ctor":
						if _, seen := signed[o.name]; !seen {
							signed[o.name] = site{an.FuncName(fn), in.Pos()}
						}
					case "forwarded":
					default:
						c.Unsure("duty origin in "+an.FuncName(fn), in.Pos(), "cannot tell which duty type accompanies the partial-signature set: "+o.name)
					}
				}
			}
		}
	}
	for _, k := range c14SortedKeys(signed) {
		s := signed[k]
		c.Check("core.ParSignedDataFromProto covers "+k, s.pos, covered("core.ParSignedDataFromProto", k),
			"partial signatures of this duty type are produced (in "+s.fn+") but the peer-side decoder has no successful case for it")
	}

	// unsigned: the cases of fetcher.Fetch that reach the subscriber fan-out
	fetch := c.Fn("core/fetcher.Fetcher.Fetch")
	subs := c.SomeCalls(fetch, an.FieldCall("core/fetcher.Fetcher.subs"), "fetcher subscribers", false)
	fd := c14DispatchOn(fetch, func(v ssa.Value) bool {
		ld, ok := v.(*ssa.UnOp)
		if !ok || ld.Op != token.MUL {
			return false
		}
		st, name, _, ok := c14FieldSel(ld.X)
		return ok && an.TypeName(st) == "core.Duty" && name == "Type"
	})
	if len(fd.cases) == 0 {
		c.Bail("fetcher.Fetch: no dispatch on duty.Type found")
	}
	for _, k := range c14SortedKeys(fd.cases) {
		cm := fd.cases[k]
		reaches := false
		for _, s := range subs {
			if !an.EdgeCuts(cm.Eq, s, nil) {
				reaches = true
			}
		}
		if !reaches {
			continue
		}
		c.Check("core.unmarshalUnsignedData covers "+k, posOf(cm.If), covered("core.unmarshalUnsignedData", k),
			"the fetcher produces unsigned data for this duty type but the consensus-side decoder has no successful case for it")
	}
}

type c14Origin struct{ kind, name string }

// c14DutyOrigins classifies where a core.Duty value comes from: a duty constructor of package
// core ("ctor", constant name), a parameter / decoded / received value ("forwarded"), or unknown.
func c14DutyOrigins(v ssa.Value, depth int) []c14Origin {
	if depth > 8 {
		return []c14Origin{{"unknown", "too deep"}}
	}
	v = an.Resolve(v)
	switch x := v.(type) {
	case *ssa.Parameter:
		return []c14Origin{{"forwarded", "parameter"}}
	case *ssa.Phi:
		var out []c14Origin
		for _, e := range x.Edges {
			out = append(out, c14DutyOrigins(e, depth+1)...)
		}
		return out
	case *ssa.Call:
		callee := x.Call.StaticCallee()
		if callee == nil {
			return []c14Origin{{"forwarded", "dynamic call"}}
		}
		if callee.Pkg == nil || callee.Pkg.Pkg.Path() != load.Mod+"/core" || callee.Blocks == nil {
			return []c14Origin{{"forwarded", "result of " + an.FuncName(callee)}}
		}
		// constructor: stores one DutyType constant into the Type field of the result
		var names []string
		for _, in := range an.Instrs(callee, false) {
			st, ok := in.(*ssa.Store)
			if !ok {
				continue
			}
			t, name, _, ok := c14FieldSel(st.Addr)
			if !ok || an.TypeName(t) != "core.Duty" || name != "Type" {
				continue
			}
			k, isK := st.Val.(*ssa.Const)
			if !isK {
				return []c14Origin{{"forwarded", "computed by " + an.FuncName(callee)}}
			}
			if n := c14ConstName(c14Named(k.Type()), k); n != "" {
				names = append(names, n)
			}
		}
		if len(names) == 1 {
			return []c14Origin{{"ctor", names[0]}}
		}
		return []c14Origin{{"forwarded", "result of " + an.FuncName(callee)}}
	case *ssa.UnOp:
		if x.Op == token.MUL {
			if fv, ok := x.X.(*ssa.FreeVar); ok {
				fn := fv.Parent()
				idx := -1
				for i, f := range fn.FreeVars {
					if f == fv {
						idx = i
					}
				}
				if fn.Parent() != nil && idx >= 0 {
					for _, in := range an.Instrs(fn.Parent(), false) {
						if mc, ok := in.(*ssa.MakeClosure); ok && mc.Fn == ssa.Value(fn) {
							if al, ok := mc.Bindings[idx].(*ssa.Alloc); ok {
								var out []c14Origin
								for _, ref := range *al.Referrers() {
									if st, ok := ref.(*ssa.Store); ok && st.Addr == ssa.Value(al) {
										out = append(out, c14DutyOrigins(st.Val, depth+1)...)
									}
								}
								if len(out) > 0 {
									return out
								}
							}
						}
					}
				}
				return []c14Origin{{"unknown", "captured variable"}}
			}
			if al, ok := x.X.(*ssa.Alloc); ok {
				var out []c14Origin
				for _, ref := range *al.Referrers() {
					if st, ok := ref.(*ssa.Store); ok && st.Addr == ssa.Value(al) {
						out = append(out, c14DutyOrigins(st.Val, depth+1)...)
					}
				}
				if len(out) > 0 {
					return out
				}
			}
			return []c14Origin{{"forwarded", "loaded from memory"}}
		}
		if x.Op == token.ARROW {
			return []c14Origin{{"forwarded", "received from channel"}}
		}
	case *ssa.Extract, *ssa.Field, *ssa.Lookup, *ssa.Index, *ssa.TypeAssert:
		return []c14Origin{{"forwarded", "component of another value"}}
	}
	return []c14Origin{{"unknown", fmt.Sprintf("%T", v)}}
}

func init() {
	Register(&Prop{
		ID: "C14",
		Decides: "core data encoding: (M1) the duty-type dispatch of ParSignedDataFromProto / unmarshalUnsignedData rejects unknown types and has a successful case for every duty type the repository produces partial signatures / unsigned data for; " +
			"(M2) both hashProto copies hash the checked output of proto.MarshalOptions{Deterministic:true}.Marshal and perform the same hashing steps; " +
			"(M3) a version payload that UnmarshalJSON can leave nil (JSON null) is nil-tested or validated by a library accessor before the first dereference on the receive prefix Epoch→MessageRoot→Signature of VerifyEth2SignedData, and dutydb consumes consensus-decided unsigned data only through its checked Clone(); " +
			"(M4) the two *FromProto decoders run their decode calls under a deferred recover that assigns the error result; " +
			"(M5) every Clone/clone of a SignedData/UnsignedData implementor returns a fresh value filled by the checked SSZ/JSON codec helper from the receiver (byte copy for Signature, element-wise for SyncContributions); " +
			"(M6) all version switches of one versioned wrapper handle the same set of versions and each case touches only the payload field of its own version and blinded polarity.",
		NotDecided: "round-trip equality of values and signing roots, byte-level totality of the SSZ/JSON decoders of go-eth2-client, nil sub-objects below the version payload (validated by the library decoders), determinism of JSON encodings.",
		Run:        c14,
		Mutants:    c14Mutants,
	})
}

// ---------------------------------------------------------------------------------------------
// M2 deterministic marshalling before hashing

const c14ProtoMarshal = "google.golang.org/protobuf/proto.MarshalOptions.Marshal"

func c14M2(c *rt.Ctx) {
	isHashStep := func(cc *ssa.CallCommon) bool {
		f := cc.StaticCallee()
		if f == nil {
			return false
		}
		n := an.FuncName(f)
		return strings.HasPrefix(n, "github.com/ferranbt/fastssz.Hasher.")
	}
	var seqs []string
	var fns []*ssa.Function
	for _, name := range []string{"core/consensus/qbft.hashProto", "core/priority.hashProto"} {
		fn := c.Fn(name)
		fns = append(fns, fn)
		// every proto marshalling call of the function
		var marsh []ssa.CallInstruction
		for _, ci := range an.Calls(fn, func(cc *ssa.CallCommon) bool {
			f := cc.StaticCallee()
			return f != nil && strings.HasPrefix(an.FuncName(f), "google.golang.org/protobuf/proto.") && strings.Contains(f.Name(), "Marshal")
		}, true) {
			marsh = append(marsh, ci)
		}
		if len(marsh) == 0 {
			c.Bail("%s: no protobuf marshalling call found", name)
		}
		for _, m := range marsh {
			ok, why := c14Deterministic(m)
			c.Check(name+" marshals deterministically", m.Pos(), ok, why)
		}
		// the hashed bytes are the deterministic encoding
		puts := an.Calls(fn, an.Static("github.com/ferranbt/fastssz.Hasher.PutBytes"), true)
		if len(puts) == 0 {
			c.Bail("%s: no Hasher.PutBytes call found", name)
		}
		for _, p := range puts {
			good := false
			if len(marsh) == 1 && len(p.Common().Args) == 2 {
				if ex, ok := p.Common().Args[1].(*ssa.Extract); ok && ex.Index == 0 && ex.Tuple == marsh[0].Value() {
					g, _ := an.Guarded(marsh[0], p, an.DefaultGuard)
					good = g
				}
			}
			c.Check(name+" hashes the deterministic bytes", p.Pos(), good, "the bytes put into the hasher are not the checked result of the function's single protobuf Marshal call")
		}
		var seq []string
		for _, ci := range an.Calls(fn, isHashStep, false) {
			if _, isDefer := ci.(*ssa.Defer); isDefer {
				continue
			}
			seq = append(seq, an.CalleeName(ci.Common()))
		}
		seqs = append(seqs, strings.Join(seq, " → "))
		// the result is the hasher's root
		roots := an.Calls(fn, an.Static("github.com/ferranbt/fastssz.Hasher.HashRoot"), false)
		good := len(roots) == 1
		if good {
			for _, r := range c14Returns(fn) {
				if e := c14ErrOf(r); e == nil || !c14IsNil(e) {
					continue
				}
				ex, ok := c14RetVals(r)[0].(*ssa.Extract)
				if !ok || ex.Index != 0 || ex.Tuple != roots[0].Value() {
					good = false
				}
			}
		}
		c.Check(name+" returns the hash root", fn.Pos(), good, "a successful return does not yield Hasher.HashRoot's result")
	}
	c.Check("hashProto siblings agree (qbft, priority)", fns[1].Pos(), seqs[0] == seqs[1],
		"the two copies perform different hashing steps: "+seqs[0]+"  vs  "+seqs[1])
}

// c14Deterministic: the call is proto.MarshalOptions{...Deterministic: true...}.Marshal.
func c14Deterministic(m ssa.CallInstruction) (bool, string) {
	f := m.Common().StaticCallee()
	if an.FuncName(f) != c14ProtoMarshal {
		return false, "marshals with " + an.FuncName(f) + ", whose map ordering is not deterministic"
	}
	ld, ok := m.Common().Args[0].(*ssa.UnOp)
	if !ok || ld.Op != token.MUL {
		return false, "marshal options are not a local literal"
	}
	al, ok := ld.X.(*ssa.Alloc)
	if !ok {
		return false, "marshal options are not a local literal"
	}
	set, why := c14DetAlloc(al, m, 0)
	if why != "" {
		return false, why
	}
	if !set {
		return false, "Deterministic option is not set"
	}
	return true, ""
}

// c14DetAlloc: the local MarshalOptions value in al has Deterministic assigned the constant true
// (and nothing else) before instruction m, and does not escape.
func c14DetAlloc(al *ssa.Alloc, m ssa.Instruction, depth int) (bool, string) {
	if depth > 3 {
		return false, "marshal options copied through too many locals"
	}
	set := false
	var whole []*ssa.Store
	var fieldStores []*ssa.Store
	for _, ref := range *al.Referrers() {
		switch x := ref.(type) {
		case *ssa.UnOp, *ssa.DebugRef:
		case *ssa.Store:
			if x.Addr != ssa.Value(al) {
				return false, "marshal options escape before the call"
			}
			whole = append(whole, x)
			if _, isK := x.Val.(*ssa.Const); isK {
				continue
			}
			src, ok := x.Val.(*ssa.UnOp)
			if !ok || src.Op != token.MUL {
				return false, "marshal options are assigned a computed value"
			}
			b, ok := src.X.(*ssa.Alloc)
			if !ok {
				return false, "marshal options are copied from shared memory"
			}
			s, why := c14DetAlloc(b, x, depth+1)
			if why != "" {
				return false, why
			}
			set = set || s
		case *ssa.FieldAddr:
			_, name, _, _ := c14FieldSel(x)
			for _, r2 := range *x.Referrers() {
				st, ok := r2.(*ssa.Store)
				if !ok {
					if _, isLoad := r2.(*ssa.UnOp); isLoad {
						continue
					}
					return false, "a field of the marshal options escapes"
				}
				if name != "Deterministic" {
					continue
				}
				k, isK := st.Val.(*ssa.Const)
				if !isK || k.Value == nil || k.Value.ExactString() != "true" {
					return false, "Deterministic option is not the constant true"
				}
				if !an.Dominates(st, m) {
					return false, "Deterministic is not assigned on every path before the call"
				}
				fieldStores = append(fieldStores, st)
				set = true
			}
		default:
			return false, "marshal options escape before the call"
		}
	}
	for _, w := range whole {
		for _, f := range fieldStores {
			if !an.Dominates(w, f) {
				return false, "marshal options are overwritten after Deterministic was set"
			}
		}
	}
	return set, ""
}

// ---------------------------------------------------------------------------------------------
// M4 panic recovery around peer-data decoding

func c14M4(c *rt.Ctx) {
	for _, it := range []struct{ fn, sink string }{
		{"core.ParSignedDataFromProto", "core.unmarshal"},
		{"core.UnsignedDataSetFromProto", "core.unmarshalUnsignedData"},
	} {
		fn := c.Fn(it.fn)
		sinks := c.SomeCalls(fn, an.Static(it.sink), it.sink, false)
		// the deferred recover closures that convert a panic into the error result
		var recs, armed []*ssa.Defer
		why := "no deferred function that recovers and assigns the error result"
		for _, in := range an.Instrs(fn, false) {
			df, ok := in.(*ssa.Defer)
			if !ok {
				continue
			}
			mc, ok := df.Call.Value.(*ssa.MakeClosure)
			if !ok {
				continue
			}
			if lit, isFn := mc.Fn.(*ssa.Function); isFn && len(an.Calls(lit, func(cc *ssa.CallCommon) bool { b, ok := cc.Value.(*ssa.Builtin); return ok && b.Name() == "recover" }, false)) > 0 {
				armed = append(armed, df)
			}
			ok2, w := c14RecoverSetsErr(fn, mc)
			if ok2 {
				recs = append(recs, df)
			} else {
				why = w
			}
		}
		c.Check(it.fn+" recovers panics into its error result", fn.Pos(), len(recs) > 0, why)
		for _, s := range sinks {
			good := false
			for _, d := range armed {
				if an.Dominates(d, s) {
					good = true
				}
			}
			c.Check(it.fn+" recover armed before "+it.sink, s.Pos(), good, "the decode call is not dominated by the deferred recover: a panicking decoder crashes the caller")
		}
	}
	// facts that make M3 a crash rule (recorded, not judged)
	if fn := c.FnOpt("p2p.RegisterHandler"); fn != nil {
		n := 0
		for _, f := range an.Closure(fn) {
			n += len(an.Calls(f, func(cc *ssa.CallCommon) bool { b, ok := cc.Value.(*ssa.Builtin); return ok && b.Name() == "recover" }, false))
		}
		c.Note("fact: p2p.RegisterHandler stream handler contains %d recover() calls (0 = a panicking handler crashes the process)", n)
	} else {
		c.Note("fact: p2p.RegisterHandler not found")
	}
	if fn := c.FnOpt("core/qbft.Run"); fn != nil {
		rec, repanic := 0, 0
		for _, f := range an.Closure(fn) {
			k := len(an.Calls(f, func(cc *ssa.CallCommon) bool { b, ok := cc.Value.(*ssa.Builtin); return ok && b.Name() == "recover" }, false))
			rec += k
			if k > 0 {
				for _, in := range an.Instrs(f, false) {
					if _, ok := in.(*ssa.Panic); ok {
						repanic++
					}
				}
			}
		}
		c.Note("fact: core/qbft.Run has %d recover() calls and %d re-panic sites in the recovering closure", rec, repanic)
	}
}

// c14RecoverSetsErr: the closure calls recover(), branches on `!= nil` and on that edge stores a
// non-nil value into the captured error result of fn (the slot the recover exit returns).
func c14RecoverSetsErr(fn *ssa.Function, mc *ssa.MakeClosure) (bool, string) {
	lit, ok := mc.Fn.(*ssa.Function)
	if !ok {
		return false, "deferred value is not a function literal"
	}
	// the error slot: the alloc read by fn's recover block as its error result
	var slot ssa.Value
	if fn.Recover != nil {
		for _, in := range fn.Recover.Instrs {
			if r, ok := in.(*ssa.Return); ok && len(r.Results) > 0 {
				if ld, ok := r.Results[len(r.Results)-1].(*ssa.UnOp); ok && ld.Op == token.MUL && an.IsErrorType(ld.Type()) {
					slot = ld.X
				}
			}
		}
	}
	if slot == nil {
		return false, "function has no named error result read on the panic-recovery exit"
	}
	fvIdx := -1
	for i, b := range mc.Bindings {
		if b == slot {
			fvIdx = i
		}
	}
	if fvIdx < 0 {
		return false, "deferred closure does not capture the error result"
	}
	fv := lit.FreeVars[fvIdx]
	recs := an.Calls(lit, func(cc *ssa.CallCommon) bool { b, ok := cc.Value.(*ssa.Builtin); return ok && b.Name() == "recover" }, false)
	if len(recs) == 0 {
		return false, "deferred closure does not call recover()"
	}
	for _, rc := range recs {
		rv := rc.Value()
		if rv == nil {
			continue
		}
		for _, cd := range an.CondsOn(lit, rv) {
			if cd.Other == nil || !an.IsNilConst(cd.Other) || (cd.Op != token.EQL && cd.Op != token.NEQ) {
				continue
			}
			panicked := cd.Succ(cd.Op == token.NEQ)
			other := cd.Succ(cd.Op != token.NEQ)
			if panicked == other {
				continue
			}
			// on the panicked edge every path to the closure's exit assigns a non-nil error
			_, esc := an.EscapePath(cd.If, func(in ssa.Instruction) bool {
				st, ok := in.(*ssa.Store)
				return ok && st.Addr == ssa.Value(fv) && !c14IsNil(st.Val)
			}, an.PassOpt{PanicIsExit: false, Prune: func(b *ssa.BasicBlock, succ int) bool {
				return b == cd.If.Block() && b.Succs[succ] == other
			}})
			if !esc {
				return true, ""
			}
		}
	}
	return false, "the recovered panic is not assigned to the error result (a panic would be swallowed and a zero value returned as success)"
}

// ---------------------------------------------------------------------------------------------
// M5 Clone is encode∘decode of the receiver into a fresh value

func c14M5(c *rt.Ctx) {
	// the two codec helpers
	c14CloneHelper(c, "core.cloneSSZMarshaler", "MarshalSSZ", func(cc *ssa.CallCommon) bool {
		return cc.IsInvoke() && cc.Method.Name() == "UnmarshalSSZ"
	}, 0)
	c14CloneHelper(c, "core.cloneJSONMarshaler", "MarshalJSON", an.Static("encoding/json.Unmarshal"), 0)

	seen := map[string]bool{}
	for _, ifn := range []string{"SignedData", "UnsignedData"} {
		for _, nt := range implementors(c, lookupIface(c, "core", ifn), "core") {
			tn := an.TypeName(nt)
			if seen[tn] {
				continue
			}
			seen[tn] = true
			for _, m := range []string{"Clone", "clone"} {
				fn := c.FnOpt(tn + "." + m)
				if fn == nil {
					if m == "Clone" {
						c.Unsure(tn+".Clone", token.NoPos, "Clone method not found")
					}
					continue
				}
				ok, why := c14CloneOK(fn)
				c.Check(tn+"."+m+" returns a fresh re-decoded copy", fn.Pos(), ok, why)
			}
		}
	}
}

// c14CloneHelper checks clone{SSZ,JSON}Marshaler: bytes := data.Marshal(); decode(bytes) into v; both
// errors checked before the nil return.
func c14CloneHelper(c *rt.Ctx, name, enc string, dec an.Matcher, bytesArg int) {
	fn := c.Fn(name)
	if len(fn.Params) != 2 {
		c.Bail("%s: unexpected signature", name)
	}
	var encCall, decCall ssa.CallInstruction
	for _, ci := range an.Calls(fn, func(cc *ssa.CallCommon) bool {
		return cc.IsInvoke() && cc.Method.Name() == enc && cc.Value == ssa.Value(fn.Params[0])
	}, false) {
		encCall = ci
	}
	why := ""
	good := encCall != nil
	if !good {
		why = "the source is not encoded with " + enc
	}
	if good {
		for _, ci := range an.Calls(fn, dec, false) {
			args := ci.Common().Args
			if len(args) <= bytesArg {
				continue
			}
			ex, ok := args[bytesArg].(*ssa.Extract)
			if !ok || ex.Index != 0 || ex.Tuple != encCall.Value() {
				continue
			}
			// the decode target is parameter v
			target := ci.Common().Value
			if !ci.Common().IsInvoke() {
				target = args[len(args)-1]
			}
			if an.Unwrap(target) == ssa.Value(fn.Params[1]) {
				decCall = ci
			}
		}
		if decCall == nil {
			good, why = false, "the encoded bytes of the source are not decoded into the target"
		}
	}
	if good {
		n := 0
		for _, r := range c14Returns(fn) {
			if e := c14ErrOf(r); e == nil || !c14IsNil(e) {
				continue
			}
			n++
			for _, g := range []ssa.CallInstruction{encCall, decCall} {
				if ok, w := an.Guarded(g, r, an.DefaultGuard); !ok {
					good, why = false, "nil is returned although "+an.CalleeName(g.Common())+" may have failed: "+w
				}
			}
		}
		if n == 0 {
			good, why = false, "no successful return"
		}
	}
	c.Check(name+" is encode∘decode", fn.Pos(), good, why)
}

// c14CloneOK decides one Clone/clone method.
func c14CloneOK(fn *ssa.Function) (bool, string) {
	if len(fn.Params) == 0 {
		return false, "no receiver"
	}
	recv := fn.Params[0]
	nSucc := 0
	for _, r := range c14Returns(fn) {
		vals := c14RetVals(r)
		if len(vals) == 0 {
			return false, "returns nothing"
		}
		e := c14ErrOf(r)
		if e != nil && !c14IsNil(e) {
			// error return, or delegation `return x.clone()`
			if ex, ok := e.(*ssa.Extract); ok {
				if call, ok := ex.Tuple.(*ssa.Call); ok && c14IsCloneOfRecv(call, recv) {
					if v0, ok := an.Unwrap(vals[0]).(*ssa.Extract); ok && v0.Tuple == ex.Tuple && v0.Index == 0 {
						nSucc++ // `return x.clone()`: value and error of the delegate passed on together
					}
				}
			}
			continue // error return: the value is not used
		}
		nSucc++
		if ok, why := c14Fresh(fn, recv, vals[0], r, 0); !ok {
			return false, why
		}
	}
	if nSucc == 0 {
		return false, "no successful return"
	}
	return true, ""
}

func c14IsCloneOfRecv(call *ssa.Call, recv *ssa.Parameter) bool {
	f := call.Call.StaticCallee()
	if f == nil || (f.Name() != "clone" && f.Name() != "Clone") || len(call.Call.Args) == 0 || call.Call.Args[0] != ssa.Value(recv) {
		return false
	}
	sig := f.Signature
	return sig.Recv() != nil && an.TypeName(sig.Recv().Type()) == an.TypeName(recv.Type())
}

// c14Fresh: v (returned by ret on success) is a fresh copy of recv.
func c14Fresh(fn *ssa.Function, recv *ssa.Parameter, v ssa.Value, ret *ssa.Return, depth int) (bool, string) {
	if depth > 6 {
		return false, "returned value too indirect"
	}
	switch x := v.(type) {
	case *ssa.MakeInterface:
		return c14Fresh(fn, recv, x.X, ret, depth+1)
	case *ssa.ChangeType:
		return c14Fresh(fn, recv, x.X, ret, depth+1)
	case *ssa.Parameter:
		return false, "returns the receiver itself, not a copy"
	case *ssa.Call:
		if c14IsCloneOfRecv(x, recv) {
			return true, ""
		}
		return false, "returned value is the result of " + an.CalleeName(&x.Call) + ", not a re-decoded copy"
	case *ssa.Extract:
		if call, ok := x.Tuple.(*ssa.Call); ok && x.Index == 0 && c14IsCloneOfRecv(call, recv) {
			if ok, w := an.Guarded(call, ret, an.DefaultGuard); !ok {
				return false, "delegate clone's error is not checked: " + w
			}
			return true, ""
		}
		return false, "returned value is not produced by cloning the receiver"
	case *ssa.UnOp:
		if x.Op != token.MUL {
			break
		}
		al, ok := x.X.(*ssa.Alloc)
		if !ok {
			return false, "returned value is loaded from shared memory"
		}
		if an.TypeName(al.Type()) != an.TypeName(recv.Type()) {
			return false, "fresh value has another type than the receiver"
		}
		var codec *ssa.Call
		for _, ref := range *al.Referrers() {
			switch y := ref.(type) {
			case *ssa.MakeInterface:
				for _, r2 := range *y.Referrers() {
					call, ok := r2.(*ssa.Call)
					if !ok || !an.Static("core.cloneSSZMarshaler", "core.cloneJSONMarshaler")(&call.Call) {
						return false, "fresh value escapes to " + fmt.Sprint(r2)
					}
					if call.Call.Args[1] != ssa.Value(y) {
						return false, "fresh value is used as the clone source"
					}
					mi, ok := call.Call.Args[0].(*ssa.MakeInterface)
					if !ok || mi.X != ssa.Value(recv) {
						return false, "the value encoded by " + an.CalleeName(&call.Call) + " is not the receiver"
					}
					codec = call
				}
			case *ssa.UnOp:
			case *ssa.Store:
				return false, "fresh value is assigned outside the codec"
			case *ssa.FieldAddr:
				return false, "fresh value is modified field by field"
			}
		}
		if codec == nil {
			return false, "returned local is never filled by cloneSSZMarshaler/cloneJSONMarshaler"
		}
		if ok, w := an.Guarded(codec, ret, an.DefaultGuard); !ok {
			return false, "the copy is returned although the codec may have failed: " + w
		}
		return true, ""
	case *ssa.MakeSlice:
		// explicit byte copy: make(len(recv)) + copy(dst, recv)
		if l, ok := x.Len.(*ssa.Call); !ok || !c14IsBuiltin(l, "len") || l.Call.Args[0] != ssa.Value(recv) {
			return false, "copy buffer is not sized len(receiver)"
		}
		for _, ref := range *x.Referrers() {
			if call, ok := ref.(*ssa.Call); ok && c14IsBuiltin(call, "copy") && call.Call.Args[0] == ssa.Value(x) && call.Call.Args[1] == ssa.Value(recv) && an.Dominates(call, ret) {
				return true, ""
			}
		}
		return false, "fresh buffer is never filled with copy(buf, receiver)"
	case *ssa.Phi:
		// element-wise: make(T, 0, ..) grown by append(acc, clone-of-element)
		for _, e := range x.Edges {
			switch y := e.(type) {
			case *ssa.MakeSlice:
				if n, ok := an.ConstInt(y.Len); !ok || n != 0 {
					return false, "element-wise clone starts from a non-empty slice"
				}
			case *ssa.Call:
				if !c14IsBuiltin(y, "append") || y.Call.Args[0] != ssa.Value(x) {
					return false, "element-wise clone: accumulator is not append(acc, …)"
				}
				elems := appendedElems(y)
				if len(elems) != 1 {
					return false, "element-wise clone: cannot resolve the appended element"
				}
				l := an.InnermostLoop(fn, y.Block())
				if l == nil || an.Unwrap(l.RangeColl()) != ssa.Value(recv) {
					return false, "element-wise clone does not range over the receiver"
				}
				if !c14ElemClone(elems[0], l) {
					return false, "appended element is not the checked Clone() of the receiver's element"
				}
			default:
				return false, "element-wise clone: unexpected accumulator source"
			}
		}
		return true, ""
	}
	return false, fmt.Sprintf("returned value (%T) is not recognisably a fresh copy", v)
}

func c14IsBuiltin(call *ssa.Call, name string) bool {
	b, ok := call.Call.Value.(*ssa.Builtin)
	return ok && b.Name() == name
}

// c14ElemClone: v is (a checked type assertion of) element.Clone() for the loop's range element.
func c14ElemClone(v ssa.Value, l *an.Loop) bool {
	for i := 0; i < 6; i++ {
		switch x := v.(type) {
		case *ssa.Extract:
			if x.Index != 0 {
				return false
			}
			switch t := x.Tuple.(type) {
			case *ssa.TypeAssert:
				v = t.X
				continue
			case *ssa.Call:
				f := t.Call.StaticCallee()
				if f == nil || (f.Name() != "Clone" && f.Name() != "clone") || len(t.Call.Args) == 0 {
					return false
				}
				return l.ElemOf(t.Call.Args[0])
			}
			return false
		case *ssa.TypeAssert:
			v = x.X
			continue
		}
		return false
	}
	return false
}

// ---------------------------------------------------------------------------------------------
// versioned wrappers (shared by M3 and M6)

type c14Wrap struct {
	Name    string            // "VersionedSignedProposal"
	T       *types.Named      // core wrapper
	L       *types.Named      // embedded library struct
	VT      *types.Named      // type of L.Version
	Payload map[string]string // payload field of L -> version short name ("BellatrixBlinded" -> "Bellatrix")
}

// c14VersionShort: constant name of version type nt for k, without the type-name prefix.
func c14VersionShort(nt *types.Named, k *ssa.Const) string {
	n := c14ConstName(nt, k)
	if n == "" {
		return "#" + k.Value.ExactString()
	}
	return strings.TrimPrefix(n, nt.Obj().Name())
}

// c14Wrappers discovers the versioned wrapper types of package core: a struct embedding exactly one
// library struct that has a `Version` field of a named version type and one pointer field per version.
func c14Wrappers(c *rt.Ctx) []c14Wrap {
	var out []c14Wrap
	sc := c.Pkg("core").Types.Scope()
	for _, n := range sc.Names() {
		tn, ok := sc.Lookup(n).(*types.TypeName)
		if !ok || tn.IsAlias() {
			continue
		}
		nt, ok := tn.Type().(*types.Named)
		if !ok {
			continue
		}
		st, ok := nt.Underlying().(*types.Struct)
		if !ok || st.NumFields() != 1 || !st.Field(0).Embedded() {
			continue
		}
		ln, ok := st.Field(0).Type().(*types.Named)
		if !ok {
			continue
		}
		ls, ok := ln.Underlying().(*types.Struct)
		if !ok {
			continue
		}
		var vt *types.Named
		for i := 0; i < ls.NumFields(); i++ {
			if ls.Field(i).Name() == "Version" {
				vt, _ = ls.Field(i).Type().(*types.Named)
			}
		}
		if vt == nil || vt.Obj().Pkg() == nil {
			continue
		}
		var shorts []string
		vsc := vt.Obj().Pkg().Scope()
		for _, cn := range vsc.Names() {
			if cst, ok := vsc.Lookup(cn).(*types.Const); ok && types.Identical(cst.Type(), vt) && strings.HasPrefix(cn, vt.Obj().Name()) {
				shorts = append(shorts, strings.TrimPrefix(cn, vt.Obj().Name()))
			}
		}
		w := c14Wrap{Name: n, T: nt, L: ln, VT: vt, Payload: map[string]string{}}
		for i := 0; i < ls.NumFields(); i++ {
			f := ls.Field(i)
			if _, isPtr := f.Type().(*types.Pointer); !isPtr {
				continue
			}
			for _, s := range shorts {
				if f.Name() == s || f.Name() == s+"Blinded" {
					w.Payload[f.Name()] = s
				}
			}
		}
		if len(w.Payload) == 0 {
			continue
		}
		out = append(out, w)
	}
	return out
}

// c14PayloadSel: v selects a payload field of the wrapper's library struct.
func (w c14Wrap) payloadSel(v ssa.Value) (field string, base ssa.Value, ok bool) {
	st, name, base, ok := c14FieldSel(v)
	if !ok {
		return "", nil, false
	}
	if n := c14Named(st); n == nil || n.Obj() != w.L.Obj() {
		return "", nil, false
	}
	if _, isP := w.Payload[name]; !isP {
		return "", nil, false
	}
	return name, base, true
}

// c14WrapFuncs: the functions of package core that belong to wrapper w (methods, and package
// functions returning w).
func c14WrapFuncs(c *rt.Ctx, w c14Wrap) []*ssa.Function {
	var out []*ssa.Function
	want := "core." + w.Name
	for _, fn := range an.PkgFuncs(c.SSAPkg("core")) {
		if fn.Parent() != nil {
			continue
		}
		sig := fn.Signature
		if sig.Recv() != nil {
			if an.TypeName(sig.Recv().Type()) == want {
				out = append(out, fn)
			}
			continue
		}
		for i := 0; i < sig.Results().Len(); i++ {
			if _, isPtr := sig.Results().At(i).Type().(*types.Pointer); !isPtr && an.TypeName(sig.Results().At(i).Type()) == want {
				out = append(out, fn)
				break
			}
		}
	}
	return out
}

// ---------------------------------------------------------------------------------------------
// M6 version-switch agreement

type c14VerCase struct {
	c14Cmp
	Short string
}

// c14VersionCases: comparisons of fn against constants of a version type with the same type name as
// the wrapper's (go-eth2-client spec.DataVersion and charon's eth2util.DataVersion share constant names).
func c14VersionCases(fn *ssa.Function, w c14Wrap) []c14VerCase {
	var out []c14VerCase
	for _, cm := range c14Cmps(fn) {
		nt := c14Named(cm.K.Type())
		if nt == nil || nt.Obj().Name() != w.VT.Obj().Name() {
			continue
		}
		out = append(out, c14VerCase{cm, c14VersionShort(nt, cm.K)})
	}
	return out
}

type c14BoolBranch struct{ T, F *ssa.BasicBlock }

// c14BlindedBranches: branches on a `Blinded` bool field or on a bool parameter (possibly negated).
func c14BlindedBranches(fn *ssa.Function) []c14BoolBranch {
	var out []c14BoolBranch
	for _, b := range fn.Blocks {
		if len(b.Instrs) == 0 {
			continue
		}
		iff, ok := b.Instrs[len(b.Instrs)-1].(*ssa.If)
		if !ok {
			continue
		}
		cond, neg := iff.Cond, false
		for {
			u, ok := cond.(*ssa.UnOp)
			if !ok || u.Op != token.NOT {
				break
			}
			cond, neg = u.X, !neg
		}
		isBl := false
		switch x := cond.(type) {
		case *ssa.Parameter:
			isBl = types.Identical(x.Type().Underlying(), types.Typ[types.Bool])
		case *ssa.UnOp:
			if x.Op == token.MUL {
				_, name, _, ok := c14FieldSel(x.X)
				isBl = ok && name == "Blinded"
			}
		case *ssa.Field:
			_, name, _, ok := c14FieldSel(x)
			isBl = ok && name == "Blinded"
		}
		if !isBl {
			continue
		}
		br := c14BoolBranch{T: b.Succs[0], F: b.Succs[1]}
		if neg {
			br.T, br.F = br.F, br.T
		}
		out = append(out, br)
	}
	return out
}

func c14M6(c *rt.Ctx) {
	ws := c14Wrappers(c)
	if len(ws) == 0 {
		c.Bail("no versioned wrapper types found in package core")
	}
	for _, w := range ws {
		type fnCases struct {
			fn    *ssa.Function
			cases []c14VerCase
			set   map[string]bool
		}
		var fcs []fnCases
		union := map[string]bool{}
		for _, fn := range c14WrapFuncs(c, w) {
			cs := c14VersionCases(fn, w)
			if len(cs) == 0 {
				continue
			}
			fc := fnCases{fn: fn, cases: cs, set: map[string]bool{}}
			for _, k := range cs {
				fc.set[k.Short] = true
				union[k.Short] = true
			}
			fcs = append(fcs, fc)
		}
		if len(fcs) < 2 {
			c.Unsure("core."+w.Name, w.T.Obj().Pos(), "fewer than two version switches found for a versioned wrapper")
			continue
		}
		// hasBlinded: version short -> library struct has a Blinded twin
		hasBl := map[string]bool{}
		for f, s := range w.Payload {
			if strings.HasSuffix(f, "Blinded") {
				hasBl[s] = true
			}
		}
		// expected set: the versions handled by a majority of the wrapper's switches
		for s := range union {
			k := 0
			for _, fc := range fcs {
				if fc.set[s] {
					k++
				}
			}
			if 2*k <= len(fcs) {
				delete(union, s)
			}
		}
		for _, fc := range fcs {
			name := an.FuncName(fc.fn)
			var missing []string
			for _, s := range c14SortedKeys(union) {
				if !fc.set[s] {
					missing = append(missing, s)
				}
			}
			c.Check(name+" handles every version", fc.fn.Pos(), len(missing) == 0,
				"version(s) "+strings.Join(missing, ", ")+" handled by the sibling functions of "+w.Name+" have no case here")

			bls := c14BlindedBranches(fc.fn)
			good, why, pos, n := true, "", fc.fn.Pos(), 0
			for _, in := range an.Instrs(fc.fn, false) {
				v, ok := in.(ssa.Value)
				if !ok {
					continue
				}
				field, _, ok := w.payloadSel(v)
				if !ok {
					continue
				}
				short := w.Payload[field]
				for _, k := range fc.cases {
					if !c14Edge(k.Eq, k.Ne, in.Block()) {
						continue
					}
					n++
					if k.Short != short {
						good, why, pos = false, fmt.Sprintf("the %s case accesses payload field %s of version %s", k.Short, field, short), in.Pos()
					}
				}
				if !hasBl[short] {
					continue
				}
				isBl := strings.HasSuffix(field, "Blinded")
				for _, br := range bls {
					onT, onF := c14Edge(br.T, br.F, in.Block()), c14Edge(br.F, br.T, in.Block())
					if (onT && !isBl) || (onF && isBl) {
						pol := "blinded"
						if onF {
							pol = "non-blinded"
						}
						good, why, pos = false, fmt.Sprintf("payload field %s is accessed on the %s branch", field, pol), in.Pos()
					}
				}
			}
			_ = n
			c.Check(name+" case↔payload pairing", pos, good, why)
		}
	}
}

// ---------------------------------------------------------------------------------------------
// M3 decode-nullable payloads are validated before they are dereferenced (E7)

// c14Nullable: payload fields of w that UnmarshalJSON can leave nil: the field is assigned a local
// pointer whose address was handed to json.Unmarshal (JSON null resets it to nil) and no nil test of
// that pointer rejects before the assignment.
func c14Nullable(c *rt.Ctx, w c14Wrap) (map[string]token.Pos, bool) {
	fn := c.FnOpt("core." + w.Name + ".UnmarshalJSON")
	if fn == nil {
		return nil, false
	}
	out := map[string]token.Pos{}
	for _, in := range an.Instrs(fn, false) {
		st, ok := in.(*ssa.Store)
		if !ok {
			continue
		}
		field, _, ok := w.payloadSel(st.Addr)
		if !ok {
			continue
		}
		ld, ok := st.Val.(*ssa.UnOp)
		if !ok || ld.Op != token.MUL {
			continue
		}
		al, ok := ld.X.(*ssa.Alloc)
		if !ok {
			continue
		}
		passed := false
		for _, ref := range *al.Referrers() {
			mi, ok := ref.(*ssa.MakeInterface)
			if !ok {
				continue
			}
			for _, r2 := range *mi.Referrers() {
				if call, ok := r2.(*ssa.Call); ok && an.Static("encoding/json.Unmarshal")(&call.Call) {
					passed = true
				}
			}
		}
		if !passed {
			continue
		}
		guarded := false
		for _, ref := range *al.Referrers() {
			l2, ok := ref.(*ssa.UnOp)
			if !ok || l2.Op != token.MUL {
				continue
			}
			for _, cd := range an.CondsOn(fn, l2) {
				if cd.Other == nil || !an.IsNilConst(cd.Other) || (cd.Op != token.EQL && cd.Op != token.NEQ) {
					continue
				}
				nilSucc := cd.Succ(cd.Op == token.EQL)
				if an.Dominates(cd.If, st) && an.EdgeCuts(nilSucc, st, nil) {
					if succ, any := c14Success(nilSucc); !succ && any {
						guarded = true
					}
				}
			}
		}
		if !guarded {
			out[field] = st.Pos()
		}
	}
	return out, true
}

type c14NilTest struct {
	If               *ssa.If
	NilSucc, NonNil  *ssa.BasicBlock
	Field            string
	RejectsWithError bool
}

type c14Touch struct {
	unguarded  []string // "field@pos" of dereferences with no nil test / validating accessor before them
	unguardedP []token.Pos
	unguardedF []string
	validates  map[string]bool // field -> nil test whose nil edge returns an error
	libChecked []*ssa.Call     // error-checked accessor calls on the embedded library value
	libAny     []*ssa.Call
}

// c14ErrDerived: v is e or a call taking e (errors.Wrap(e, …)).
func c14ErrDerived(v, e ssa.Value) bool {
	if v == e {
		return true
	}
	if call, ok := v.(*ssa.Call); ok {
		for _, a := range call.Call.Args {
			if a == e {
				return true
			}
		}
	}
	return false
}

// c14TouchOf analyses how method fn of wrapper w uses the decode-nullable payload fields of its receiver.
func c14TouchOf(fn *ssa.Function, w c14Wrap, nullable map[string]token.Pos) c14Touch {
	t := c14Touch{validates: map[string]bool{}}
	recv := fn.Params[0]
	hasErr := false
	res := fn.Signature.Results()
	for i := 0; i < res.Len(); i++ {
		if an.IsErrorType(res.At(i).Type()) {
			hasErr = true
		}
	}
	// library accessors called on the embedded value of the receiver
	for _, in := range an.Instrs(fn, false) {
		call, ok := in.(*ssa.Call)
		if !ok {
			continue
		}
		f := call.Call.StaticCallee()
		if f == nil || f.Signature.Recv() == nil || len(call.Call.Args) == 0 {
			continue
		}
		rn := c14Named(f.Signature.Recv().Type())
		if rn == nil || rn.Obj() != w.L.Obj() || !rootedAt(call.Call.Args[0], recv) {
			continue
		}
		t.libAny = append(t.libAny, call)
		if !hasErr {
			continue
		}
		errs, _ := an.StatusOf(call, -1)
		checked := false
		for _, e := range errs {
			for _, cd := range an.CondsOn(fn, e) {
				if cd.Other == nil || !an.IsNilConst(cd.Other) || (cd.Op != token.EQL && cd.Op != token.NEQ) {
					continue
				}
				fail := cd.Succ(cd.Op == token.NEQ)
				rets := c14ReachRets(fail)
				ok := len(rets) > 0
				for _, r := range rets {
					ev := c14ErrOf(r)
					if ev == nil || !c14ErrDerived(ev, e) {
						ok = false
					}
				}
				if ok {
					checked = true
				}
			}
		}
		if checked {
			t.libChecked = append(t.libChecked, call)
		}
	}
	// loads of nullable payload fields of the receiver
	type load struct {
		v     *ssa.UnOp
		field string
	}
	var loads []load
	for _, in := range an.Instrs(fn, false) {
		ld, ok := in.(*ssa.UnOp)
		if !ok || ld.Op != token.MUL {
			continue
		}
		field, base, ok := w.payloadSel(ld.X)
		if !ok {
			continue
		}
		if _, isN := nullable[field]; !isN || !rootedAt(base, recv) {
			continue
		}
		loads = append(loads, load{ld, field})
	}
	var tests []c14NilTest
	for _, l := range loads {
		for _, cd := range an.CondsOn(fn, l.v) {
			if cd.Other == nil || !an.IsNilConst(cd.Other) || (cd.Op != token.EQL && cd.Op != token.NEQ) {
				continue
			}
			nt := c14NilTest{If: cd.If, NilSucc: cd.Succ(cd.Op == token.EQL), NonNil: cd.Succ(cd.Op != token.EQL), Field: l.field}
			if hasErr {
				succ, any := c14Success(nt.NilSucc)
				nt.RejectsWithError = any && !succ
				// every return on the nil edge must carry a non-nil constant-free error
				for _, r := range c14ReachRets(nt.NilSucc) {
					if e := c14ErrOf(r); e == nil || c14IsNil(e) {
						nt.RejectsWithError = false
					}
				}
			}
			tests = append(tests, nt)
		}
	}
	for _, l := range loads {
		for _, ref := range *l.v.Referrers() {
			deref := false
			switch x := ref.(type) {
			case *ssa.FieldAddr:
				deref = x.X == ssa.Value(l.v)
			case *ssa.Field:
				deref = x.X == ssa.Value(l.v)
			case *ssa.UnOp:
				deref = x.Op == token.MUL && x.X == ssa.Value(l.v)
			case *ssa.IndexAddr:
				deref = x.X == ssa.Value(l.v)
			case ssa.CallInstruction:
				cc := x.Common()
				if !cc.IsInvoke() && len(cc.Args) > 0 && cc.Args[0] == ssa.Value(l.v) {
					if f := cc.StaticCallee(); f != nil && f.Signature.Recv() != nil {
						deref = true // method on a possibly nil pointer
					}
				}
			}
			if !deref {
				continue
			}
			guarded := false
			for _, nt := range tests {
				if nt.Field == l.field && an.Dominates(nt.If, ref) && an.EdgeCuts(nt.NilSucc, ref, nil) {
					guarded = true
				}
			}
			for _, g := range t.libChecked {
				if ok, _ := an.Guarded(g, ref, an.DefaultGuard); ok {
					guarded = true
				}
			}
			if !guarded {
				t.unguardedF = append(t.unguardedF, l.field)
				t.unguardedP = append(t.unguardedP, posOf(ref))
			}
		}
	}
	// a field counts as validated for later methods when every version's nil test rejects with an error;
	// per field: some nil test of it rejects with an error and dominates all success returns that follow its case
	for _, nt := range tests {
		if nt.RejectsWithError {
			t.validates[nt.Field] = true
		}
	}
	return t
}

// c14LibValidates confirms (on the library's source) that accessor f of the embedded library struct
// nil-tests payload fields itself or one call level below it.
func c14LibValidates(c *rt.Ctx, f *ssa.Function, w c14Wrap) (bool, string) {
	obj := f.Object()
	if obj == nil || !obj.Pos().IsValid() {
		return false, "no source position for " + an.FuncName(f)
	}
	file := c.P.Fset.Position(obj.Pos()).Filename
	if file == "" {
		return false, "no source file for " + an.FuncName(f)
	}
	af, err := parser.ParseFile(token.NewFileSet(), file, nil, parser.SkipObjectResolution)
	if err != nil {
		return false, "cannot parse " + file
	}
	recvName := func(fd *ast.FuncDecl) (typ, name string) {
		if fd.Recv == nil || len(fd.Recv.List) != 1 {
			return "", ""
		}
		t := fd.Recv.List[0].Type
		if s, ok := t.(*ast.StarExpr); ok {
			t = s.X
		}
		id, ok := t.(*ast.Ident)
		if !ok {
			return "", ""
		}
		if len(fd.Recv.List[0].Names) == 1 {
			name = fd.Recv.List[0].Names[0].Name
		}
		return id.Name, name
	}
	find := func(method string) *ast.FuncDecl {
		for _, d := range af.Decls {
			if fd, ok := d.(*ast.FuncDecl); ok && fd.Name.Name == method && fd.Body != nil {
				if tn, _ := recvName(fd); tn == w.L.Obj().Name() {
					return fd
				}
			}
		}
		return nil
	}
	count := func(fd *ast.FuncDecl) (n int, callees []string) {
		_, rn := recvName(fd)
		ast.Inspect(fd.Body, func(nd ast.Node) bool {
			switch x := nd.(type) {
			case *ast.BinaryExpr:
				if x.Op != token.EQL && x.Op != token.NEQ {
					return true
				}
				for _, pair := range [][2]ast.Expr{{x.X, x.Y}, {x.Y, x.X}} {
					id, isNil := pair[1].(*ast.Ident)
					sel, isSel := pair[0].(*ast.SelectorExpr)
					if isNil && id.Name == "nil" && isSel {
						if base, ok := sel.X.(*ast.Ident); ok && base.Name == rn {
							if _, isP := w.Payload[sel.Sel.Name]; isP {
								n++
							}
						}
					}
				}
			case *ast.CallExpr:
				if sel, ok := x.Fun.(*ast.SelectorExpr); ok {
					if base, ok := sel.X.(*ast.Ident); ok && base.Name == rn && rn != "" {
						callees = append(callees, sel.Sel.Name)
					}
				}
			}
			return true
		})
		return
	}
	fd := find(f.Name())
	if fd == nil {
		return false, "declaration of " + an.FuncName(f) + " not found in " + file
	}
	n, callees := count(fd)
	for _, cn := range callees {
		if g := find(cn); g != nil {
			k, _ := count(g)
			n += k
		}
	}
	if n == 0 {
		return false, an.FuncName(f) + " contains no nil test of a version payload (directly or one call below)"
	}
	return true, fmt.Sprintf("%d payload nil tests", n)
}

func c14M3(c *rt.Ctx) {
	ws := map[string]c14Wrap{}
	for _, w := range c14Wrappers(c) {
		ws[w.Name] = w
	}
	// receive prefix: the order in which VerifyEth2SignedData calls the methods of the decoded value
	vf := c.Fn("core.VerifyEth2SignedData")
	var data *ssa.Parameter
	for _, p := range vf.Params {
		if an.TypeName(p.Type()) == "core.Eth2SignedData" {
			data = p
		}
	}
	if data == nil {
		c.Bail("VerifyEth2SignedData: no Eth2SignedData parameter")
	}
	var prefix []ssa.CallInstruction
	for _, ci := range an.Calls(vf, func(cc *ssa.CallCommon) bool { return cc.IsInvoke() && cc.Value == ssa.Value(data) }, false) {
		prefix = append(prefix, ci)
	}
	if len(prefix) < 2 {
		c.Bail("VerifyEth2SignedData: expected calls on the signed data")
	}
	sort.SliceStable(prefix, func(i, j int) bool { return an.Dominates(prefix[i], prefix[j]) })
	for i := 0; i+1 < len(prefix); i++ {
		if !an.Dominates(prefix[i], prefix[i+1]) {
			c.Bail("VerifyEth2SignedData: calls on the signed data are not totally ordered")
		}
	}
	var order []string
	for i, ci := range prefix {
		m := ci.Common().Method.Name()
		order = append(order, m)
		sig := ci.Common().Signature().Results()
		hasErr := false
		for k := 0; k < sig.Len(); k++ {
			if an.IsErrorType(sig.At(k).Type()) {
				hasErr = true
			}
		}
		if !hasErr || i+1 == len(prefix) {
			continue
		}
		good, why := true, ""
		for _, later := range prefix[i+1:] {
			if ok, w := an.Guarded(ci, later, an.DefaultGuard); !ok {
				good, why = false, later.Common().Method.Name()+"() is called although "+m+"() may have failed: "+w
			}
		}
		c.Check("core.VerifyEth2SignedData "+m+" error checked before later calls", ci.Pos(), good, why)
	}
	c.Note("M3 receive prefix: %s", strings.Join(order, " → "))

	n := 0
	for _, nt := range implementors(c, lookupIface(c, "core", "Eth2SignedData"), "core") {
		w, ok := ws[nt.Obj().Name()]
		if !ok {
			continue // delegates decoding to the library type; not decided here
		}
		n++
		tn := "core." + w.Name
		nullable, found := c14Nullable(c, w)
		if !found {
			c.Unsure(tn+" decode-nullable payloads", nt.Obj().Pos(), "UnmarshalJSON not found")
			continue
		}
		c.Good(tn+" decode-nullable payloads", nt.Obj().Pos(), "fields left nil by JSON null: "+strings.Join(c14SortedKeys(nullable), ","))
		libValidated := ""
		validated := map[string]string{}
		reported := map[string]bool{}
		for _, m := range order {
			fn := c.FnOpt(tn + "." + m)
			if fn == nil {
				c.Unsure(tn+"."+m, nt.Obj().Pos(), "method of the receive prefix not found")
				continue
			}
			t := c14TouchOf(fn, w, nullable)
			good, why, pos := true, "", fn.Pos()
			for i, f := range t.unguardedF {
				if libValidated != "" || validated[f] != "" || reported[f] {
					continue
				}
				reported[f] = true
				good, pos = false, t.unguardedP[i]
				why = fmt.Sprintf("payload %s is nil after decoding JSON null (UnmarshalJSON stores it unchecked) and %s() dereferences it with no nil test or validating accessor earlier in the receive prefix (%s): a peer-supplied message panics the process",
					f, m, strings.Join(order, "→"))
			}
			c.Check(tn+"."+m+" validates nullable payloads before use", pos, good, why)
			for _, g := range t.libChecked {
				ok, w2 := c14LibValidates(c, g.Call.StaticCallee(), w)
				if ok {
					libValidated = m
				} else if len(nullable) > 0 {
					c.Unsure(tn+"."+m+" accessor "+g.Call.StaticCallee().Name(), g.Pos(), "cannot confirm that the library accessor validates the payload: "+w2)
				}
			}
			for f := range t.validates {
				if validated[f] == "" {
					validated[f] = m
				}
			}
		}
	}
	if n == 0 {
		c.Bail("no versioned Eth2SignedData implementor found")
	}

	// unsigned data decided by consensus: dutydb consumes the decoded value only through its clone
	for _, fn := range an.PkgFuncs(c.SSAPkg("core/dutydb")) {
		if fn.Parent() != nil {
			continue
		}
		for _, p := range fn.Params {
			if _, isPtr := p.Type().(*types.Pointer); isPtr || an.TypeName(p.Type()) != "core.UnsignedData" {
				continue
			}
			good, why := true, ""
			nClone := 0
			for _, ref := range *p.Referrers() {
				ci, ok := ref.(ssa.CallInstruction)
				if !ok || !ci.Common().IsInvoke() || ci.Common().Value != ssa.Value(p) || ci.Common().Method.Name() != "Clone" {
					if _, isDbg := ref.(*ssa.DebugRef); isDbg {
						continue
					}
					good, why = false, "the decoded value is used directly ("+fmt.Sprintf("%T", ref)+"), not through its re-encoded clone"
					continue
				}
				nClone++
				if ci.Value() == nil {
					continue
				}
				for _, r2 := range *ci.Value().Referrers() {
					ex, ok := r2.(*ssa.Extract)
					if !ok || ex.Index != 0 {
						continue
					}
					for _, use := range *ex.Referrers() {
						if ok, w := an.Guarded(ci, use, an.DefaultGuard); !ok {
							good, why = false, "the clone is used although Clone() may have failed: "+w
						}
					}
				}
			}
			if nClone == 0 && good {
				good, why = false, "the decoded value is never cloned"
			}
			c.Check(an.FuncName(fn)+" uses decoded unsigned data only via Clone()", fn.Pos(), good, why)
		}
	}
}

var c14Mutants = []Mutant{
	// M1
	{ID: "C14-M1-signed-case-retargeted", File: "core/proto.go", Expect: "M1|ParSignedDataFromProto covers DutyRandao",
		Old: "case DutyRandao:", New: "case DutyInfoSync:"},
	{ID: "C14-M1-signed-default-accepts", File: "core/proto.go", Expect: "M1|ParSignedDataFromProto default",
		Old: "\tdefault:\n\t\treturn ParSignedData{}, errors.New(\"unsupported duty type\")\n",
		New: "\tdefault:\n\t\tsignedData = Signature{}\n"},
	{ID: "C14-M1-unsigned-case-retargeted", File: "core/unsigneddata.go", Expect: "M1|unmarshalUnsignedData covers DutyAggregator",
		Old: "\tcase DutyAggregator:\n\t\tvar respVersioned", New: "\tcase DutyPrepareAggregator:\n\t\tvar respVersioned"},
	{ID: "C14-M1-unsigned-default-nil", File: "core/unsigneddata.go", Expect: "M1|unmarshalUnsignedData default",
		Old: "return nil, errors.New(\"unsupported unsigned data duty type\")", New: "return nil, nil"},
	// M2
	{ID: "C14-M2-priority-nondeterministic", File: "core/priority/prioritiser.go", Expect: "M2|core/priority.hashProto marshals",
		Old: "Deterministic: true", New: "Deterministic: false"},
	{ID: "C14-M2-qbft-plain-marshal", File: "core/consensus/qbft/msg.go", Expect: "M2|core/consensus/qbft.hashProto marshals",
		Old: "proto.MarshalOptions{Deterministic: true}.Marshal(msg)", New: "proto.Marshal(msg)"},
	{ID: "C14-M2-priority-hash-other-bytes", File: "core/priority/prioritiser.go", Expect: "M2|core/priority.hashProto hashes",
		Old: "hh.PutBytes(b)", New: "hh.PutBytes(b[:0])"},
	{ID: "C14-M2-qbft-extra-step", File: "core/consensus/qbft/msg.go", Expect: "M2|siblings",
		Old: "\thh.Merkleize(index)\n", New: "\thh.Merkleize(index)\n\thh.Merkleize(index)\n"},
	{ID: "C14-M2-qbft-marshal-error-weakened", File: "core/consensus/qbft/msg.go", Expect: "M2|core/consensus/qbft.hashProto hashes",
		Old: "if err != nil {\n\t\treturn [32]byte{}, errors.Wrap(err, \"marshal proto\")", New: "if err != nil && len(b) > 0 {\n\t\treturn [32]byte{}, errors.Wrap(err, \"marshal proto\")"},
	// M3
	{ID: "C14-M3-proposal-epoch-error-weakened", File: "core/eth2signeddata.go", Expect: "M3|core.VersionedSignedProposal.MessageRoot",
		Old: "slot, err := p.Slot()\n\tif err != nil {", New: "slot, err := p.Slot()\n\tif err != nil && slot != 0 {"},
	{ID: "C14-M3-verify-root-before-epoch", File: "core/eth2signeddata.go", Expect: "M3|core.VersionedSignedProposal.MessageRoot",
		Old: "\tepoch, err := data.Epoch(ctx, eth2Cl)\n\tif err != nil {\n\t\treturn err\n\t}\n\n\tsigRoot, err := data.MessageRoot()\n\tif err != nil {\n\t\treturn err\n\t}\n",
		New: "\tsigRoot, err := data.MessageRoot()\n\tif err != nil {\n\t\treturn err\n\t}\n\n\tepoch, err := data.Epoch(ctx, eth2Cl)\n\tif err != nil {\n\t\treturn err\n\t}\n"},
	{ID: "C14-M3-verify-epoch-error-dropped", File: "core/eth2signeddata.go", Expect: "M3|VerifyEth2SignedData Epoch",
		Old: "\tepoch, err := data.Epoch(ctx, eth2Cl)\n\tif err != nil {\n\t\treturn err\n\t}", New: "\tepoch, err := data.Epoch(ctx, eth2Cl)\n\tif err != nil {\n\t\tepoch = 0\n\t}"},
	{ID: "C14-M3-dutydb-uses-decoded-directly", File: "core/dutydb/memory.go", Expect: "M3|storeProposalUnsafe",
		Old: "proposal, ok := cloned.(core.VersionedProposal)", New: "proposal, ok := unsignedData.(core.VersionedProposal)",
		More: [][2]string{{"cloned, err := unsignedData.Clone() // Clone before storing.\n\tif err != nil {\n\t\treturn err\n\t}\n\n\tproposal", "_, err := unsignedData.Clone() // Clone before storing.\n\tif err != nil {\n\t\treturn err\n\t}\n\n\tproposal"}}},
	{ID: "C14-M3-aggproof-epoch-skips-accessor", File: "core/eth2signeddata.go", Expect: "M3|core.VersionedSignedAggregateAndProof.Epoch",
		Old: "slot, err := ap.Slot()\n\tif err != nil {\n\t\treturn 0, err\n\t}\n", New: "slot, err := ap.Slot()\n\tif err != nil {\n\t\treturn 0, err\n\t}\n\n\tslot = ap.Electra.Message.Aggregate.Data.Slot\n",
		More: [][2]string{{"func (ap VersionedSignedAggregateAndProof) Epoch(ctx context.Context, eth2Cl eth2wrap.Client) (eth2p0.Epoch, error) {\n\tslot, err := ap.Slot()\n\tif err != nil {\n\t\treturn 0, err\n\t}\n", "func (ap VersionedSignedAggregateAndProof) Epoch(ctx context.Context, eth2Cl eth2wrap.Client) (eth2p0.Epoch, error) {\n\tslot, err := ap.Slot()\n\tif err != nil && slot > 0 {\n\t\treturn 0, err\n\t}\n"}}},
	// M4
	{ID: "C14-M4-signed-recover-swallowed", File: "core/proto.go", Expect: "M4|core.ParSignedDataFromProto recovers",
		Old: "\t\t\toerr = recoverPanicErr(r)\n\t\t}\n\t}()\n\n\tif err := protonil.Check(data)", New: "\t\t\t_ = recoverPanicErr(r)\n\t\t}\n\t}()\n\n\tif err := protonil.Check(data)"},
	{ID: "C14-M4-unsigned-not-deferred", File: "core/proto.go", Expect: "M4|core.UnsignedDataSetFromProto recovers",
		Old: "(_ UnsignedDataSet, oerr error) {\n\tdefer func() {", New: "(_ UnsignedDataSet, oerr error) {\n\tfunc() {"},
	{ID: "C14-M4-unsigned-recover-conditional", File: "core/proto.go", Expect: "M4|core.UnsignedDataSetFromProto recovers",
		Old: "\t\tif r := recover(); r != nil {\n\t\t\toerr = recoverPanicErr(r)\n\t\t}\n\t}()\n\n\tif set == nil", New: "\t\tif r := recover(); r != nil && typ.Valid() {\n\t\t\toerr = recoverPanicErr(r)\n\t\t}\n\t}()\n\n\tif set == nil"},
	// M5
	{ID: "C14-M5-randao-returns-receiver", File: "core/signeddata.go", Expect: "M5|core.SignedRandao.clone",
		Old: "return SignedRandao{}, errors.Wrap(err, \"clone randao\")\n\t}\n\n\treturn resp, nil", New: "return SignedRandao{}, errors.Wrap(err, \"clone randao\")\n\t}\n\n\treturn s, nil"},
	{ID: "C14-M5-attdata-codec-error-weakened", File: "core/unsigneddata.go", Expect: "M5|core.AttestationData.Clone",
		Old: "err := cloneSSZMarshaler(a, &resp)\n\tif err != nil {\n\t\treturn nil, errors.Wrap(err, \"clone attestation\")", New: "err := cloneSSZMarshaler(a, &resp)\n\tif err != nil && sszMarshallingEnabled {\n\t\treturn nil, errors.Wrap(err, \"clone attestation\")"},
	{ID: "C14-M5-ssz-helper-decodes-other-bytes", File: "core/signeddata.go", Expect: "M5|core.cloneSSZMarshaler",
		Old: "v.UnmarshalSSZ(bytes)", New: "v.UnmarshalSSZ(bytes[:0])"},
	{ID: "C14-M5-versioned-aggatt-encodes-fresh", File: "core/unsigneddata.go", Expect: "M5|core.VersionedAggregatedAttestation.Clone",
		Old: "var resp VersionedAggregatedAttestation\n\n\terr := cloneSSZMarshaler(a, &resp)", New: "var resp VersionedAggregatedAttestation\n\n\terr := cloneSSZMarshaler(resp, &resp)"},
	{ID: "C14-M5-signature-aliases", File: "core/signeddata.go", Expect: "M5|core.Signature.clone",
		Old: "\tresp := make([]byte, len(s))\n\tcopy(resp, s)\n\n\treturn resp", New: "\tresp := []byte(s)\n\n\treturn resp"},
	{ID: "C14-M5-contributions-append-original", File: "core/unsigneddata.go", Expect: "M5|core.SyncContributions.Clone",
		Old: "resp = append(resp, clonedContrib)", New: "_ = clonedContrib\n\t\tresp = append(resp, contrib)"},
	{ID: "C14-M5-json-helper-error-replaced", File: "core/signeddata.go", Expect: "M5|core.cloneJSONMarshaler",
		Old: "bytes, err := data.MarshalJSON()\n\tif err != nil {\n\t\treturn errors.Wrap(err, \"marshal data\")\n\t}\n\n\tif err := json.Unmarshal", New: "bytes, err := data.MarshalJSON()\n\tif err != nil {\n\t\tbytes = []byte(\"{}\")\n\t}\n\n\tif err := json.Unmarshal"},
	// M6
	{ID: "C14-M6-att-setsig-no-fulu", File: "core/signeddata.go", Expect: "M6|core.VersionedAttestation.SetSignature handles",
		Old: "\tcase eth2spec.DataVersionFulu:\n\t\tresp.Fulu.Signature = sig.ToETH2()\n\tdefault:\n\t\treturn nil, errors.New(\"unknown attestation version\"", New: "\tdefault:\n\t\treturn nil, errors.New(\"unknown attestation version\""},
	{ID: "C14-M6-proposal-root-wrong-field", File: "core/signeddata.go", Expect: "M6|core.VersionedSignedProposal.MessageRoot case",
		Old: "return p.Capella.Message.HashTreeRoot()", New: "return p.Bellatrix.Message.HashTreeRoot()"},
	{ID: "C14-M6-proposal-sig-blinded-flipped", File: "core/signeddata.go", Expect: "M6|core.VersionedSignedProposal.Signature case",
		Old: "if p.Blinded {\n\t\t\treturn SigFromETH2(p.DenebBlinded.Signature)", New: "if !p.Blinded {\n\t\t\treturn SigFromETH2(p.DenebBlinded.Signature)"},
	{ID: "C14-M6-aggproof-ssz-no-altair", File: "core/ssz.go", Expect: "M6|core.VersionedSignedAggregateAndProof.sszValFromVersion",
		Old: "case eth2util.DataVersionAltair:\n\t\tif ap.Altair == nil {", New: "case eth2util.DataVersionUnknown:\n\t\tif ap.Altair == nil {"},
	{ID: "C14-M6-aggatt-json-wrong-slot", File: "core/unsigneddata.go", Expect: "M6|core.VersionedAggregatedAttestation.UnmarshalJSON case",
		Old: "return errors.Wrap(err, \"unmarshal capella\")\n\t\t}\n\n\t\tresp.Capella = att", New: "return errors.Wrap(err, \"unmarshal capella\")\n\t\t}\n\n\t\tresp.Deneb = att"},
	{ID: "C14-M6-att-ctor-wrong-field", File: "core/signeddata.go", Expect: "M6|core.NewVersionedAttestation case",
		Old: "case eth2spec.DataVersionElectra:\n\t\tif att.Electra == nil {\n\t\t\treturn VersionedAttestation{},", New: "case eth2spec.DataVersionElectra:\n\t\tif att.Deneb == nil {\n\t\t\treturn VersionedAttestation{},"},
}
