package rules

// M8 — the decoder mirrors the encoder's choice of wire format.
//
// core.marshal picks the format from the *type* of the value alone (SSZ whenever the value implements
// ssz.Marshaler), so SSZ bytes of such a value can start with any byte. core.unmarshal therefore has to
//   (a) attempt UnmarshalSSZ(data) on every path on which the target is known to implement ssz.Unmarshaler before
//       it returns - whether SSZ is tried must not depend on the content of data;
//   (b) report success when that attempt succeeded (not the outcome of another decoder);
//   (c) decode a target that does not implement ssz.Unmarshaler with json.Unmarshal(data, target);
//   (d) return nil only after a decoder that is known to have succeeded.
// Decided per path by the symbolic explorer (helpers of the package explored in place), so the shape of the
// function (nested ifs, early returns, a "trySSZ" helper, named results) does not matter.

import (
	"go/types"

	"golang.org/x/tools/go/ssa"

	"charonverif/internal/an"
	"charonverif/internal/rt"
)

func c14IsSSZUnmarshalerIface(t types.Type) bool {
	it, ok := t.Underlying().(*types.Interface)
	if !ok {
		return false
	}
	for i := 0; i < it.NumMethods(); i++ {
		if it.Method(i).Name() == "UnmarshalSSZ" {
			return true
		}
	}
	return false
}

func init() {
	Extend("C14", "(M8) core.unmarshal tries UnmarshalSSZ(data) on every path on which the target implements ssz.Unmarshaler (the choice of format does not depend on the bytes, as marshal chooses by type), reports success when that attempt succeeded, decodes other targets with json.Unmarshal(data, target) and returns nil only after a decoder succeeded.",
		func(*rt.Ctx) {},
		Mutant{ID: "C14-M8-json-prefix-sniffed-first", File: "core/proto.go", Expect: "M8|attempts SSZ",
			Old: "if unmarshaller, ok := v.(ssz.Unmarshaler); ok {", New: "if unmarshaller, ok := v.(ssz.Unmarshaler); ok && !bytes.HasPrefix(bytes.TrimSpace(data), []byte(\"{\")) {"},
		Mutant{ID: "C14-M8-ssz-skipped-for-some-lengths", File: "core/proto.go", Expect: "M8|attempts SSZ",
			Old: "if unmarshaller, ok := v.(ssz.Unmarshaler); ok {", New: "if unmarshaller, ok := v.(ssz.Unmarshaler); ok && len(data)%2 == 0 {"},
		Mutant{ID: "C14-M8-ssz-success-falls-through-to-json", File: "core/proto.go", Expect: "M8|reports success",
			Old: "if err := unmarshaller.UnmarshalSSZ(data); err == nil {\n\t\t\treturn nil\n\t\t} else if", New: "if err := unmarshaller.UnmarshalSSZ(data); err == nil {\n\t\t\t_ = err\n\t\t} else if"},
		Mutant{ID: "C14-M8-json-only-types-rejected", File: "core/proto.go", Expect: "M8|decodes targets without SSZ",
			Old: "\t// Else try json\n\tif err := json.Unmarshal(data, v); err != nil {", New: "\t// Else try json\n\tif _, isSSZ := v.(ssz.Unmarshaler); !isSSZ {\n\t\treturn errors.New(\"no ssz\")\n\t}\n\n\tif err := json.Unmarshal(data, v); err != nil {"},
		Mutant{ID: "C14-M8-json-error-weakened", File: "core/proto.go", Expect: "M8|returns nil only",
			Old: "\t// Else try json\n\tif err := json.Unmarshal(data, v); err != nil {", New: "\t// Else try json\n\tif err := json.Unmarshal(data, v); err != nil && len(data) > 1 {"})
}

func c14M8(c *rt.Ctx) {
	fn := c.Fn("core.unmarshal")
	var dataP, valP *ssa.Parameter
	for _, p := range fn.Params {
		switch t := p.Type().Underlying().(type) {
		case *types.Slice:
			if b, ok := t.Elem().Underlying().(*types.Basic); ok && b.Kind() == types.Uint8 && dataP == nil {
				dataP = p
			}
		case *types.Interface:
			if valP == nil {
				valP = p
			}
		}
	}
	if dataP == nil || valP == nil || !an.IsErrorType(fn.Signature.Results().At(fn.Signature.Results().Len()-1).Type()) {
		c.Bail("core.unmarshal: expected (data []byte, v any) error")
	}
	isSSZ := func(cc *ssa.CallCommon) bool { return cc.IsInvoke() && cc.Method.Name() == "UnmarshalSSZ" }
	isDecoder := func(cc *ssa.CallCommon) bool { return isSSZ(cc) || c14IsJSONUnmarshal(cc) }
	const (
		kAttempt = "core.unmarshal attempts SSZ for every target that implements ssz.Unmarshaler"
		kSuccess = "core.unmarshal reports success when the SSZ attempt succeeded"
		kJSON    = "core.unmarshal decodes targets without SSZ support as JSON"
		kChecked = "core.unmarshal returns nil only after a decoder succeeded"
	)
	agg := newC14Agg()
	for _, k := range []string{kAttempt, kSuccess, kJSON, kChecked} {
		agg.add(k, fn.Pos(), c14OK, "")
	}
	var data, val symCV
	type assertKey struct {
		ta *ssa.TypeAssert
		f  int
	}
	nAssert, nReturns := 0, 0
	inline := c14InlineIf(fn, isDecoder)
	complete := symExplore(fn, symHooks{
		Init: func(x *symX) { data, val = x.R(dataP), x.R(valP) },
		Inline: func(x *symX, site ssa.CallInstruction, callee *ssa.Function) bool {
			if inline(x, site, callee) {
				return true
			}
			if !c14SamePkg(callee, fn) {
				return false
			}
			if callee.Parent() != nil {
				return true
			}
			for _, a := range site.Common().Args { // helpers that classify the target or the data
				if r := x.R(a); r == val || r == data {
					return len(callee.Blocks) < 40
				}
			}
			return false
		},
		Before: func(x *symX, in ssa.Instruction) {
			ta, ok := in.(*ssa.TypeAssert)
			if !ok || !c14IsSSZUnmarshalerIface(ta.AssertedType) || x.R(ta.X) != val {
				return
			}
			nAssert++
		},
		After: func(x *symX, in ssa.Instruction) {
			// the same question asked twice has the same answer: a repeated assertion of the target inherits the
			// outcome the path has already established
			ta, ok := in.(*ssa.TypeAssert)
			if !ok || !ta.CommaOk || !c14IsSSZUnmarshalerIface(ta.AssertedType) || x.R(ta.X) != val {
				return
			}
			fid, _ := x.Frame()
			for k, v := range x.st.eqf {
				prev, ok := k.v.(*ssa.TypeAssert)
				if !ok || k.p != "#1" || (prev == ta && k.f == fid) || !types.Identical(prev.AssertedType, ta.AssertedType) || x.st.resolve(prev.X, k.f) != val {
					continue
				}
				x.st.eqf[symCV{v: ta, f: fid, p: "#1"}] = v
				return
			}
		},
		Return: func(x *symX, ret *ssa.Return, res []symCV) {
			nReturns++
			errc := res[len(res)-1]
			retNil := x.NilCV(errc)
			// what is known about "target implements ssz.Unmarshaler" on this path
			supports := int8(0) // +1 yes, -1 no, 0 not tested
			for k, v := range x.st.eqf {
				ta, ok := k.v.(*ssa.TypeAssert)
				if !ok || k.p != "#1" || !c14IsSSZUnmarshalerIface(ta.AssertedType) || v.Kind() != 1 /* constant.Bool */ {
					continue
				}
				if x.st.resolve(ta.X, k.f) != val {
					continue
				}
				if v.ExactString() == "true" {
					supports = 1
				} else if supports == 0 {
					supports = -1
				}
			}
			// the decoder calls executed on this path
			var ssz, js *symEvent
			sszOther := false
			tr := x.Trace()
			for i := range tr {
				ev := &tr[i]
				call, ok := ev.In.(*ssa.Call)
				if !ok {
					continue
				}
				switch {
				case isSSZ(&call.Call):
					if len(ev.Args) == 1 && ev.Args[0] == data {
						ssz = ev
					} else {
						sszOther = true
					}
				case c14IsJSONUnmarshal(&call.Call):
					if len(ev.Args) == 2 && ev.Args[0] == data && x.UnboxCV(ev.Args[1]) == x.UnboxCV(val) {
						js = ev
					}
				}
			}
			pos := ret.Pos()
			if !pos.IsValid() {
				pos = fn.Pos()
			}
			// (a)
			if supports == 1 && ssz == nil {
				if sszOther {
					agg.add(kAttempt, fn.Pos(), c14Unsure, "UnmarshalSSZ is applied to something other than the received bytes")
				} else {
					agg.add(kAttempt, fn.Pos(), c14Bad, "a path returns for a target that implements ssz.Unmarshaler without having tried UnmarshalSSZ(data): whether SSZ is tried depends on the content of the data, but marshal() emits SSZ for such a value whatever its bytes (valid SSZ that happens to look like the other format is rejected)")
				}
			}
			// (b)
			if ssz != nil && x.CallOK(ssz.In.(*ssa.Call), ssz.Frame) == 1 {
				switch {
				case retNil == 1:
					agg.add(kSuccess, fn.Pos(), c14Bad, "an error is returned although UnmarshalSSZ(data) succeeded")
				case js != nil:
					agg.add(kSuccess, fn.Pos(), c14Bad, "after UnmarshalSSZ(data) succeeded the data is decoded again as JSON and that outcome is returned")
				case retNil == 0:
					agg.add(kSuccess, fn.Pos(), c14Unsure, "cannot tell whether success is reported after UnmarshalSSZ(data) succeeded")
				}
			}
			// (c)
			if supports == -1 && js == nil {
				escaped := false
				for _, ev := range tr {
					if call, ok := ev.In.(*ssa.Call); ok && !isDecoder(&call.Call) {
						for _, a := range ev.Args {
							if x.UnboxCV(a) == x.UnboxCV(val) {
								escaped = true
							}
						}
					}
				}
				if escaped {
					agg.add(kJSON, fn.Pos(), c14Unsure, "a target without SSZ support is handed to a decoder the rule does not know")
				} else {
					agg.add(kJSON, fn.Pos(), c14Bad, "a path returns for a target that does not implement ssz.Unmarshaler without json.Unmarshal(data, target): JSON-only types cannot be decoded")
				}
			}
			// (d)
			if retNil == -1 {
				okDec := false
				for _, ev := range []*symEvent{ssz, js} {
					if ev != nil && x.CallOK(ev.In.(*ssa.Call), ev.Frame) == 1 {
						okDec = true
					}
				}
				if !okDec {
					agg.add(kChecked, fn.Pos(), c14Bad, "nil is returned on a path on which no decoder is known to have succeeded")
				}
			}
		},
	})
	if !complete {
		agg.add(kAttempt, fn.Pos(), c14Unsure, "path exploration exceeded its budget")
	}
	if nAssert == 0 {
		agg.add(kAttempt, fn.Pos(), c14Unsure, "no type assertion of the target to ssz.Unmarshaler found: cannot tell how the format is chosen")
	}
	if nReturns == 0 {
		agg.add(kChecked, fn.Pos(), c14Unsure, "no return reached")
	}
	agg.flush(c)
}
