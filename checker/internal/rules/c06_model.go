package rules

import (
	"go/constant"
	"go/token"
	"go/types"
	"strings"

	"golang.org/x/tools/go/ssa"

	"charonverif/internal/an"
	"charonverif/internal/rt"
)

// c06Model is the package-level view shared by the C06 rules: which functions may run during a call
// instruction (static callee, function literals and method values passed as arguments), who mentions a
// function, and the transitive "may insert into data map" summary. Everything is keyed by resolved
// functions / struct fields; helper extraction, closures and generic helpers are followed.
type c06Model struct {
	c      *rt.Ctx
	pkg    *ssa.Package
	funcs  []*ssa.Function // declared functions and their literals
	all    []*ssa.Function // funcs + instances of the package's generic functions that are called
	refs   map[*ssa.Function][]ssa.Instruction
	mayIns map[*ssa.Function]map[string]bool
	mayDel map[*ssa.Function]map[string]bool
	fnMemo map[ssa.Value]c06FnMemo
}

type c06FnMemo struct {
	set c06FnSet
	ok  bool
}

func c06NewModel(c *rt.Ctx, rel string) *c06Model {
	m := &c06Model{c: c, pkg: c.SSAPkg(rel), refs: map[*ssa.Function][]ssa.Instruction{}}
	m.funcs = an.PkgFuncs(m.pkg)
	seen := map[*ssa.Function]bool{}
	var add func(f *ssa.Function)
	add = func(f *ssa.Function) {
		if f == nil || seen[f] || f.Blocks == nil {
			return
		}
		seen[f] = true
		m.all = append(m.all, f)
		for _, in := range an.Instrs(f, false) {
			// operands that denote package functions
			for _, op := range an.Operands(in) {
				if g := m.funcOf(op); g != nil && m.inPkg(g) {
					if _, isMC := in.(*ssa.MakeClosure); isMC || op == ssa.Value(g) || c06IsBound(op) {
						m.refs[g] = append(m.refs[g], in)
					}
					add(g)
				}
			}
		}
		for _, a := range f.AnonFuncs {
			add(a)
		}
	}
	for _, f := range m.funcs {
		add(f)
	}
	c06Cur = m
	return m
}

// c06IsBound: v is a bound-method closure / thunk value.
func c06IsBound(v ssa.Value) bool {
	if mc, ok := v.(*ssa.MakeClosure); ok {
		if f, ok := mc.Fn.(*ssa.Function); ok {
			return f.Synthetic != ""
		}
	}
	return false
}

// top returns the outermost enclosing declared function.
func c06Top(f *ssa.Function) *ssa.Function {
	for f.Parent() != nil {
		f = f.Parent()
	}
	return an.Orig(f)
}

func (m *c06Model) inPkg(f *ssa.Function) bool {
	return f != nil && c06Top(f).Pkg == m.pkg
}

// funcOf resolves a value to the function it denotes (function literal, declared function, generic instance,
// method value through its synthetic wrapper); nil for dynamic values.
func (m *c06Model) funcOf(v ssa.Value) *ssa.Function {
	if v == nil {
		return nil
	}
	v = an.Resolve(v)
	var f *ssa.Function
	switch x := v.(type) {
	case *ssa.Function:
		f = x
	case *ssa.MakeClosure:
		f, _ = x.Fn.(*ssa.Function)
	}
	if f == nil {
		return nil
	}
	if f.Synthetic != "" && f.Origin() == nil {
		// bound method wrapper / thunk: the wrapped method
		if obj, ok := f.Object().(*types.Func); ok {
			if g := m.c.P.SSA.FuncValue(obj); g != nil {
				return g
			}
		}
		return nil
	}
	return f
}

// during lists the package functions that may run while the call instruction executes: its static callee and
// every function value passed to it as an argument (the callee is assumed to call them synchronously).
func (m *c06Model) during(in ssa.Instruction) []*ssa.Function {
	ci, ok := in.(ssa.CallInstruction)
	if !ok {
		return nil
	}
	if _, isGo := in.(*ssa.Go); isGo {
		return nil
	}
	cc := ci.Common()
	var out []*ssa.Function
	if !cc.IsInvoke() {
		if f := m.funcOf(cc.Value); f != nil && m.inPkg(f) && f.Blocks != nil {
			out = append(out, f)
		}
	}
	for _, a := range cc.Args {
		if _, isSig := a.Type().Underlying().(*types.Signature); !isSig {
			continue
		}
		if f := m.argFn(a); f != nil && m.inPkg(f) && f.Blocks != nil {
			out = append(out, f)
		}
		out = append(out, m.carried(a)...)
	}
	if !cc.IsInvoke() && len(out) == 0 || (!cc.IsInvoke() && m.funcOf(cc.Value) == nil) {
		if _, isBuiltin := cc.Value.(*ssa.Builtin); !isBuiltin && m.funcOf(cc.Value) == nil {
			if f := m.argFn(cc.Value); f != nil && m.inPkg(f) && f.Blocks != nil {
				out = append(out, f) // a function value with a single possible target
			}
		}
	}
	return out
}

// dataInserts lists the MapUpdate instructions of fn (literals excluded) on a MemDB data map, with the field.
func (m *c06Model) dataInserts(fn *ssa.Function) map[*ssa.MapUpdate]string {
	out := map[*ssa.MapUpdate]string{}
	for _, in := range an.Instrs(fn, false) {
		if mu, ok := in.(*ssa.MapUpdate); ok {
			if k, ok := c06MapField(mu.Map); ok && c06IsData(k) {
				out[mu] = k
			}
		}
	}
	return out
}

func c06IsData(key string) bool {
	for _, f := range c06DataMaps {
		if key == dutydb+"."+f {
			return true
		}
	}
	return false
}

// inserts is the transitive may-insert summary (through static calls, literals and method values).
func (m *c06Model) inserts(fn *ssa.Function) map[string]bool {
	if m.mayIns == nil {
		m.mayIns = map[*ssa.Function]map[string]bool{}
		for _, f := range m.all {
			m.mayIns[f] = map[string]bool{}
			for _, k := range m.dataInserts(f) {
				m.mayIns[f][k] = true
			}
		}
		for changed := true; changed; {
			changed = false
			for _, f := range m.all {
				for _, in := range an.Instrs(f, false) {
					for _, g := range m.mayDuring(in) {
						for k := range m.mayIns[g] {
							if !m.mayIns[f][k] {
								m.mayIns[f][k] = true
								changed = true
							}
						}
					}
				}
			}
		}
	}
	return m.mayIns[fn]
}

// deletes is the transitive may-delete summary (delete/clear on a MemDB map field), keyed by field.
func (m *c06Model) deletes(fn *ssa.Function) map[string]bool {
	if m.mayDel == nil {
		m.mayDel = map[*ssa.Function]map[string]bool{}
		for _, f := range m.all {
			m.mayDel[f] = map[string]bool{}
			for _, in := range an.Instrs(f, false) {
				if k, ok := c06DeleteOf(in); ok {
					m.mayDel[f][k] = true
				}
			}
		}
		for changed := true; changed; {
			changed = false
			for _, f := range m.all {
				for _, in := range an.Instrs(f, false) {
					for _, g := range m.mayDuring(in) {
						for k := range m.mayDel[g] {
							if !m.mayDel[f][k] {
								m.mayDel[f][k] = true
								changed = true
							}
						}
					}
				}
			}
		}
	}
	return m.mayDel[fn]
}

// c06DeleteOf: the instruction is delete(m, k) / clear(m) on a MemDB map field.
func c06DeleteOf(in ssa.Instruction) (string, bool) {
	call, ok := in.(*ssa.Call)
	if !ok {
		return "", false
	}
	if b, ok := call.Call.Value.(*ssa.Builtin); ok && (b.Name() == "delete" || b.Name() == "clear") && len(call.Call.Args) > 0 {
		if k, ok := c06MapField(call.Call.Args[0]); ok && strings.HasPrefix(k, dutydb+".") {
			return k, true
		}
	}
	return "", false
}

// insertSites lists the instructions of fn during which a data map may be written: direct map updates and
// calls that (transitively, or through a function value they are given) insert.
func (m *c06Model) insertSites(fn *ssa.Function) []ssa.Instruction {
	var out []ssa.Instruction
	for _, in := range an.Instrs(fn, false) {
		if mu, ok := in.(*ssa.MapUpdate); ok {
			if _, ok := m.dataInserts(fn)[mu]; ok {
				out = append(out, in)
			}
			continue
		}
		for _, g := range m.mayDuring(in) {
			if len(m.inserts(g)) > 0 {
				out = append(out, in)
				break
			}
		}
	}
	return out
}

func c06Exported(f *ssa.Function) bool {
	if f.Parent() != nil {
		return false
	}
	return f.Object() != nil && f.Object().Exported()
}

// refsOK: every mention of f is a synchronous use (callee position, argument of a call, or creation of a
// literal / method value that is itself only called or passed to a call).
func (m *c06Model) refsOK(f *ssa.Function) bool {
	for _, in := range m.refs[f] {
		if !c06SyncUse(in, f, m) {
			return false
		}
	}
	return true
}

func c06SyncUse(in ssa.Instruction, f *ssa.Function, m *c06Model) bool {
	switch x := in.(type) {
	case *ssa.Go:
		return false
	case ssa.CallInstruction:
		return true // callee or argument of a (deferred) call
	case *ssa.MakeClosure:
		for _, ref := range *x.Referrers() {
			switch r := ref.(type) {
			case *ssa.Go:
				return false
			case ssa.CallInstruction:
			case *ssa.Store:
				// spilled local holding the literal: every load must be called / passed
				al, ok := r.Addr.(*ssa.Alloc)
				if !ok || an.UniqueStore(al) == nil {
					return false
				}
				for _, ar := range *al.Referrers() {
					if ld, ok := ar.(*ssa.UnOp); ok {
						for _, lr := range *ld.Referrers() {
							if _, ok := lr.(ssa.CallInstruction); !ok {
								return false
							}
							if _, isGo := lr.(*ssa.Go); isGo {
								return false
							}
						}
					}
				}
			case *ssa.DebugRef:
			default:
				return false
			}
		}
		return true
	}
	return false
}

// ---------------------------------------------------------------------------------------------
// Frames: following values into static in-package callees, literals and generic instances with
// parameter/argument and free-variable/binding substitution.

type c06Frame struct {
	fn   *ssa.Function
	call *ssa.CallCommon  // the call that entered fn (arguments ↔ parameters); nil at the root
	mc   *ssa.MakeClosure // creation of the literal (bindings ↔ free variables)
	mcFr *c06Frame        // frame in which mc was created
	up   *c06Frame        // frame of the call site
	d    int
}

// chase follows a value through parameters / free variables / spilled locals to its definition in an outer frame.
func (m *c06Model) chase(v ssa.Value, fr *c06Frame) (ssa.Value, *c06Frame) {
	for i := 0; i < 16; i++ {
		v = an.Resolve(v)
		switch x := v.(type) {
		case *ssa.Parameter:
			if fr == nil || fr.call == nil || fr.up == nil {
				return v, fr
			}
			idx := -1
			for i, p := range fr.fn.Params {
				if p == x {
					idx = i
				}
			}
			if idx < 0 || idx >= len(fr.call.Args) || fr.call.IsInvoke() {
				return v, fr
			}
			v, fr = fr.call.Args[idx], fr.up
		case *ssa.FreeVar:
			if fr == nil || fr.mc == nil {
				return v, fr
			}
			idx := -1
			for i, p := range fr.fn.FreeVars {
				if p == x {
					idx = i
				}
			}
			if idx < 0 || idx >= len(fr.mc.Bindings) {
				return v, fr
			}
			v, fr = fr.mc.Bindings[idx], fr.mcFr
			// a captured variable is captured by reference: the binding is the Alloc, a load of it follows
		default:
			return v, fr
		}
	}
	return v, fr
}

// enter builds the frame of the function called by c (evaluated in fr); nil if it is not a package function with a body.
func (m *c06Model) enter(c *ssa.CallCommon, fr *c06Frame) *c06Frame {
	if c.IsInvoke() || (fr != nil && fr.d > 4) {
		return nil
	}
	v, vf := m.chase(c.Value, fr)
	d := 0
	if fr != nil {
		d = fr.d + 1
	}
	switch x := v.(type) {
	case *ssa.Function:
		if m.inPkg(x) && x.Blocks != nil && (x.Synthetic == "" || x.Origin() != nil) {
			return &c06Frame{fn: x, call: c, up: fr, d: d}
		}
	case *ssa.MakeClosure:
		if f, ok := x.Fn.(*ssa.Function); ok && m.inPkg(f) && f.Blocks != nil && f.Synthetic == "" {
			return &c06Frame{fn: f, call: c, mc: x, mcFr: vf, up: fr, d: d}
		}
	}
	return nil
}

// result resolves result #idx of a call to the value returned by the callee (single return statement), in the callee's frame.
func (m *c06Model) result(call *ssa.Call, idx int, fr *c06Frame) (ssa.Value, *c06Frame, bool) {
	nf := m.enter(&call.Call, fr)
	if nf == nil {
		return nil, nil, false
	}
	rets := an.Returns(nf.fn)
	if len(rets) != 1 || idx >= len(rets[0].Results) {
		return nil, nil, false
	}
	return returnValues(rets[0])[idx], nf, true
}

// step peels one frame-crossing layer off v: parameter → argument, free variable → binding, call result → returned value.
func (m *c06Model) step(v ssa.Value, fr *c06Frame) (ssa.Value, *c06Frame, bool) {
	v = an.Unwrap(v)
	switch x := v.(type) {
	case *ssa.Parameter, *ssa.FreeVar:
		nv, nf := m.chase(v, fr)
		if nv != v || nf != fr {
			return nv, nf, true
		}
	case *ssa.Extract:
		if call, ok := x.Tuple.(*ssa.Call); ok {
			return m.result(call, x.Index, fr)
		}
	case *ssa.Call:
		if x.Call.Signature().Results().Len() == 1 {
			return m.result(x, 0, fr)
		}
	}
	return nil, nil, false
}

// fieldOf is an.FieldOf across frames: the struct field a value is loaded from / an element of.
func (m *c06Model) fieldOf(v ssa.Value, fr *c06Frame) (string, bool) {
	for i := 0; i < 32; i++ {
		if k, _, ok := an.FieldOf(v); ok {
			return k, true
		}
		v = an.Resolve(v)
		switch x := v.(type) {
		case *ssa.UnOp:
			if x.Op != token.MUL {
				return "", false
			}
			v = x.X
		case *ssa.IndexAddr:
			v = x.X
		case *ssa.Index:
			v = x.X
		case *ssa.Lookup:
			v = x.X
		case *ssa.Slice:
			v = x.X
		case *ssa.Next:
			v = x.Iter
		case *ssa.Range:
			v = x.X
		case *ssa.Alloc:
			src := an.UniqueStore(x)
			if src == nil {
				return "", false
			}
			v = src
		case *ssa.Extract:
			if _, isCall := x.Tuple.(*ssa.Call); isCall {
				nv, nf, ok := m.step(v, fr)
				if !ok {
					return "", false
				}
				v, fr = nv, nf
			} else {
				v = x.Tuple
			}
		default:
			nv, nf, ok := m.step(v, fr)
			if !ok {
				return "", false
			}
			v, fr = nv, nf
		}
	}
	return "", false
}

// elemOf is Loop.ElemOf across frames: v (in frame fr) is derived by field selection / loads / accessor calls from
// the element of the collection that loop l (in frame lfr) iterates over.
func (m *c06Model) elemOf(v ssa.Value, fr *c06Frame, l *an.Loop, lfr *c06Frame) bool {
	for i := 0; i < 32; i++ {
		if fr == lfr && l.ElemOf(v) {
			return true
		}
		v = an.Unwrap(v)
		switch x := v.(type) {
		case *ssa.UnOp:
			if x.Op != token.MUL {
				return false
			}
			v = x.X
		case *ssa.FieldAddr:
			v = x.X
		case *ssa.Field:
			v = x.X
		case *ssa.Alloc:
			src := an.UniqueStore(x)
			if src == nil {
				return false
			}
			v = src
		case *ssa.Extract:
			if _, isCall := x.Tuple.(*ssa.Call); !isCall {
				return false
			}
			nv, nf, ok := m.step(v, fr)
			if !ok {
				return false
			}
			v, fr = nv, nf
		default:
			nv, nf, ok := m.step(v, fr)
			if !ok {
				return false
			}
			v, fr = nv, nf
		}
	}
	return false
}

// ---------------------------------------------------------------------------------------------
// Small value helpers

// c06DependsOn: v is computed from src (backward slice through operands, bounded).
func c06DependsOn(v, src ssa.Value) bool {
	seen := map[ssa.Value]bool{}
	var walk func(v ssa.Value, d int) bool
	walk = func(v ssa.Value, d int) bool {
		if v == src {
			return true
		}
		if d > 48 || seen[v] {
			return false
		}
		seen[v] = true
		in, ok := v.(ssa.Instruction)
		if !ok {
			return false
		}
		for _, op := range an.Operands(in) {
			if walk(op, d+1) {
				return true
			}
		}
		// a local (its address, or a load of it) depends on what was stored into it
		if al, ok := v.(*ssa.Alloc); ok {
			// everything stored into the local, its fields and elements (composite literals, tables of structs, arrays
			// filled in a loop), at any nesting depth
			var stored func(addr ssa.Value, n int) bool
			stored = func(addr ssa.Value, n int) bool {
				if n > 6 {
					return false
				}
				for _, ref := range *addr.Referrers() {
					switch r := ref.(type) {
					case *ssa.Store:
						if r.Addr == addr && walk(r.Val, d+1) {
							return true
						}
					case *ssa.FieldAddr:
						if r.X == addr && stored(r, n+1) {
							return true
						}
					case *ssa.IndexAddr:
						if r.X == addr && stored(r, n+1) {
							return true
						}
					}
				}
				return false
			}
			if stored(al, 0) {
				return true
			}
		}
		return false
	}
	return walk(v, 0)
}

// c06KeyEquiv: two map keys denote the same value: an.Equiv, or two composite literals of the same type whose fields
// are assigned equivalent values (`m[k{a, b}]` spelled twice).
func c06KeyEquiv(a, b ssa.Value) bool {
	if an.Equiv(a, b) {
		return true
	}
	la, ok1 := an.Unwrap(a).(*ssa.UnOp)
	lb, ok2 := an.Unwrap(b).(*ssa.UnOp)
	if !ok1 || !ok2 || la.Op != token.MUL || lb.Op != token.MUL {
		return false
	}
	aa, ok1 := la.X.(*ssa.Alloc)
	ab, ok2 := lb.X.(*ssa.Alloc)
	if !ok1 || !ok2 || !types.Identical(aa.Type(), ab.Type()) {
		return false
	}
	fa, ok1 := c06LiteralFields(aa)
	fb, ok2 := c06LiteralFields(ab)
	if !ok1 || !ok2 || len(fa) != len(fb) {
		return false
	}
	for i, va := range fa {
		vb, ok := fb[i]
		if !ok || !c06KeyEquiv(va, vb) {
			return false
		}
	}
	return true
}

// c06LiteralFields: the local is only used as a composite literal (each field stored at most once, then loaded whole).
func c06LiteralFields(al *ssa.Alloc) (map[int]ssa.Value, bool) {
	out := map[int]ssa.Value{}
	for _, ref := range *al.Referrers() {
		switch r := ref.(type) {
		case *ssa.FieldAddr:
			for _, fr := range *r.Referrers() {
				st, ok := fr.(*ssa.Store)
				if !ok || st.Addr != ssa.Value(r) {
					return nil, false
				}
				if _, dup := out[r.Field]; dup {
					return nil, false
				}
				out[r.Field] = st.Val
			}
		case *ssa.UnOp, *ssa.DebugRef:
		default:
			return nil, false
		}
	}
	return out, true
}

// c06ReturnsNonNilErr: the return yields a non-nil error on this path (phis and defer spill slots resolved by
// the valuation where possible; a non-constant error value counts as non-nil only if it is not a phi with a nil edge).
func c06ErrOf(r *ssa.Return) (ssa.Value, bool) {
	for _, v := range returnValues(r) {
		if an.IsErrorType(v.Type()) {
			return v, true
		}
	}
	return nil, false
}

// c06SuccessReturn: the return may report success (its error result is, or may be, nil). Functions without an
// error result always "succeed".
func c06SuccessReturn(r *ssa.Return) bool {
	e, has := c06ErrOf(r)
	if !has {
		return true
	}
	return c06MayBeNil(e, map[ssa.Value]bool{})
}

func c06MayBeNil(v ssa.Value, seen map[ssa.Value]bool) bool {
	v = an.Unwrap(v)
	if seen[v] {
		return false
	}
	seen[v] = true
	switch x := v.(type) {
	case *ssa.Const:
		return x.Value == nil
	case *ssa.Phi:
		for _, e := range x.Edges {
			if c06MayBeNil(e, seen) {
				return true
			}
		}
		return false
	case *ssa.Call:
		// errors.New / errors.Wrap of the app package and fmt.Errorf never return nil; a helper that builds the error
		// (every return of it yields a non-nil error) neither; anything else may
		return c06CallMayReturnNil(x, 0, seen, 0)
	case *ssa.Extract:
		if call, ok := x.Tuple.(*ssa.Call); ok {
			return c06CallMayReturnNil(call, x.Index, seen, 0)
		}
		return true
	case *ssa.MakeInterface:
		return false
	case *ssa.UnOp:
		// a package-level sentinel (`var ErrX = errors.New(..)`) is never nil
		if x.Op == token.MUL {
			if _, isGlobal := x.X.(*ssa.Global); isGlobal {
				return false
			}
		}
		return true
	}
	return true
}

func c06CallMayReturnNil(call *ssa.Call, idx int, seen map[ssa.Value]bool, d int) bool {
	f := call.Call.StaticCallee()
	if f == nil {
		return true
	}
	switch an.FuncName(f) {
	case "app/errors.New", "app/errors.Wrap", "errors.New", "fmt.Errorf":
		return false
	}
	if f.Blocks == nil || len(seen) > 64 {
		return true
	}
	rets := an.Returns(f)
	if len(rets) == 0 {
		return true
	}
	for _, r := range rets {
		vals := returnValues(r)
		if idx >= len(vals) || !an.IsErrorType(vals[idx].Type()) || c06MayBeNil(vals[idx], seen) {
			return true
		}
	}
	return false
}

// c06NonNilOnEdge: v is an error value that is known to be non-nil when control has passed the branch `err != nil`
// dominating the return; used to classify `if err != nil { return err }`.
func c06ErrReturnNonNil(r *ssa.Return) bool {
	e, has := c06ErrOf(r)
	if !has {
		return false
	}
	if !c06MayBeNil(e, map[ssa.Value]bool{}) {
		return true
	}
	// guarded: some `e != nil` branch whose true edge dominates the return
	fn := r.Parent()
	for _, cd := range an.CondsOn(fn, an.Unwrap(e)) {
		if cd.Other != nil && an.IsNilConst(cd.Other) && (cd.Op == token.NEQ || cd.Op == token.EQL) {
			nonNil := cd.Succ(cd.Op == token.NEQ)
			other := cd.Succ(cd.Op != token.NEQ)
			if nonNil != other && (nonNil == r.Block() || nonNil.Dominates(r.Block())) && len(nonNil.Preds) == 1 {
				return true
			}
		}
	}
	return false
}

func c06IntConst(c *rt.Ctx, pkgRel, name string) constant.Value {
	return constant.MakeInt64(constOf(c, pkgRel, name))
}
