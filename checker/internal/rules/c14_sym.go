package rules

// A small path-sensitive symbolic explorer over go/ssa used by the C14 rules.
//
// Every obligation of C14 is a statement about the values and facts that hold at some instruction on
// every (or some) path of a function: "the bytes put into the hasher are the checked result of the
// deterministic Marshal call", "a successful return is reachable when the duty type is K", "the payload
// pointer is known non-nil where it is dereferenced". Instead of matching the block shape of today's
// source, the rules run this explorer and inspect the state at the interesting instructions:
//
//   - paths are enumerated depth-first (each block at most twice per frame and path, so loops are
//     unrolled once); a branch whose condition is decided by the facts of the path takes only the
//     feasible edge, otherwise both edges are taken and the corresponding fact is learned;
//   - phis are resolved by the edge they were entered from, loads of local variables by the last store
//     on the path (field-sensitive; variables whose address escapes are invalidated by calls), value
//     projections (x.f) are canonical tokens, so hoisting into locals, named results, named bools,
//     short-circuit conditions, tuple assignment and spilled variables do not change what is seen;
//   - static callees selected by the rule (usually in-package helpers) are *inlined*: the callee is
//     explored with its parameters bound to the resolved arguments and the caller continues once for
//     every return path, so moving logic into helper functions or closures is transparent;
//   - facts: nil / non-nil, equal / not-equal to a constant.
//
// Whatever is not understood resolves to an opaque token of its own - the explorer never invents a
// fact. When its step budget is exhausted the run is reported incomplete and the rule ends UNDECIDED.

import (
	"fmt"
	"go/constant"
	"go/token"
	"go/types"
	"os"
	"strings"
	"sync"

	"golang.org/x/tools/go/ssa"

	"charonverif/internal/an"
)

// symCV is a canonical value: an SSA value in a frame instance, optionally a projection path of it
// ("@3.2" = content at field 2 of the memory it points to, epoch 3; ".1" = field 1 of the value;
// "#0" = tuple component).
type symCV struct {
	v ssa.Value
	f int
	p string
}

func (c symCV) String() string {
	if c.v == nil {
		return "<nil>"
	}
	return fmt.Sprintf("%s/%d%s", c.v.Name(), c.f, c.p)
}

type symVKey struct {
	v ssa.Value
	f int
}

type symAKey struct {
	base symCV
	path string
}

type symEvent struct {
	In    ssa.Instruction
	Frame int
	Args  []symCV // resolved arguments of a call (nil otherwise)
	Recv  symCV   // resolved receiver value of an interface method call
	Base  symCV   // store: resolved base of the address
	Path  string  // store: component path below Base
	Val   symCV   // store: resolved stored value
	Addr  bool    // store: the address could be named
	Elems []symCV // append(s, e1, e2...): the resolved appended elements (nil for append(s, t...))
}

type symFrame struct {
	fn     *ssa.Function
	id     int
	caller *symFrame
	site   ssa.CallInstruction
	depth  int
}

type symState struct {
	val     map[symVKey]symCV
	tup     map[symVKey][]symCV
	mem     map[symAKey]symCV
	snap    map[symCV]map[string]symCV
	escaped map[symCV]bool
	nilf    map[symCV]int8
	eqf     map[symCV]constant.Value
	nef     map[symCV][]constant.Value
	epoch   int
	nframe  int
	trace   []symEvent
	visits  map[symBKey]int
	user    map[string]bool // rule-defined path flags
}

type symBKey struct {
	b *ssa.BasicBlock
	f int
}

func newSymState() *symState {
	return &symState{val: map[symVKey]symCV{}, tup: map[symVKey][]symCV{}, mem: map[symAKey]symCV{}, snap: map[symCV]map[string]symCV{}, escaped: map[symCV]bool{},
		nilf: map[symCV]int8{}, eqf: map[symCV]constant.Value{}, nef: map[symCV][]constant.Value{}, visits: map[symBKey]int{}, user: map[string]bool{}}
}

func symCloneMap[K comparable, V any](m map[K]V) map[K]V {
	out := make(map[K]V, len(m)+4)
	for k, v := range m {
		out[k] = v
	}
	return out
}

func (s *symState) fork() *symState {
	n := &symState{val: symCloneMap(s.val), tup: symCloneMap(s.tup), mem: symCloneMap(s.mem), snap: symCloneMap(s.snap), escaped: symCloneMap(s.escaped),
		nilf: symCloneMap(s.nilf), eqf: symCloneMap(s.eqf), nef: symCloneMap(s.nef), epoch: s.epoch, nframe: s.nframe,
		trace: s.trace[:len(s.trace):len(s.trace)], visits: symCloneMap(s.visits), user: symCloneMap(s.user)}
	return n
}

// symHooks are supplied by a rule.
type symHooks struct {
	// Inline decides whether a static call is explored inside the callee (nil = never).
	Inline func(x *symX, site ssa.CallInstruction, callee *ssa.Function) bool
	// Before is called for every instruction about to be executed on a path.
	Before func(x *symX, in ssa.Instruction)
	// After is called after a non-call, non-terminator instruction was executed (its value can be resolved).
	After func(x *symX, in ssa.Instruction)
	// Return is called for every return of the root function with the resolved results.
	Return func(x *symX, ret *ssa.Return, res []symCV)
	// Init may add facts to the initial state.
	Init func(x *symX)
	// Budget is the maximal number of executed instructions over all paths (default 400000).
	Budget int
	// MaxDepth bounds inlining (default 4).
	MaxDepth int
	// MaxVisits bounds how often one block is entered per frame on one path (default 2: loops run at most once).
	MaxVisits int
}

// symX is the cursor handed to hooks: the current frame and state.
type symX struct {
	run *symRun
	fr  *symFrame
	st  *symState
}

type symRun struct {
	h         symHooks
	steps     int
	exhausted bool
	root      *ssa.Function
}

// symExplore explores fn; it returns false when the budget was exhausted (results incomplete).
func symExplore(fn *ssa.Function, h symHooks) bool {
	if h.Budget == 0 {
		h.Budget = 400000
	}
	if h.MaxDepth == 0 {
		h.MaxDepth = 4
	}
	if h.MaxVisits == 0 {
		h.MaxVisits = 2
	}
	r := &symRun{h: h, root: fn}
	if fn == nil || len(fn.Blocks) == 0 {
		return false
	}
	st := newSymState()
	fr := &symFrame{fn: fn, id: 0}
	x := &symX{run: r, fr: fr, st: st}
	if h.Init != nil {
		h.Init(x)
	}
	r.block(fr, fn.Blocks[0], nil, st, nil)
	if os.Getenv("C14_SYMSTAT") != "" && r.steps > 20000 {
		fmt.Fprintf(os.Stderr, "symstat %s steps=%d exhausted=%v\n", an.FuncName(fn), r.steps, r.exhausted)
	}
	return !r.exhausted
}

// ---------------------------------------------------------------------------------------------
// resolution

func symIsConstLike(v ssa.Value) bool {
	switch v.(type) {
	case *ssa.Const, *ssa.Global, *ssa.Function, *ssa.Builtin:
		return true
	}
	return false
}

// R resolves an SSA value of the current frame to its canonical value on this path.
func (x *symX) R(v ssa.Value) symCV { return x.st.resolve(v, x.fr.id) }

func (s *symState) resolve(v ssa.Value, f int) symCV {
	for i := 0; i < 64; i++ {
		if v == nil {
			return symCV{}
		}
		if symIsConstLike(v) {
			return symCV{v: v}
		}
		if c, ok := s.val[symVKey{v, f}]; ok {
			return c
		}
		switch y := v.(type) {
		case *ssa.ChangeType:
			v = y.X
			continue
		case *ssa.ChangeInterface:
			v = y.X
			continue
		case *ssa.Convert:
			// conversions between named types of the same underlying basic/pointer kind keep the value
			if types.Identical(y.X.Type().Underlying(), y.Type().Underlying()) {
				v = y.X
				continue
			}
			return symCV{v: v, f: f}
		case *ssa.Extract:
			if t, ok := s.tup[symVKey{y.Tuple, f}]; ok && y.Index < len(t) {
				return t[y.Index]
			}
			return symCV{v: y.Tuple, f: f, p: fmt.Sprintf("#%d", y.Index)}
		case *ssa.Field:
			return s.project(s.resolve(y.X, f), fmt.Sprintf(".%d", y.Field))
		case *ssa.Slice:
			if y.Low == nil && y.High == nil && y.Max == nil {
				if _, isPtr := y.X.Type().Underlying().(*types.Pointer); !isPtr {
					v = y.X
					continue
				}
			}
			return symCV{v: v, f: f}
		}
		return symCV{v: v, f: f}
	}
	return symCV{v: v, f: f}
}

// project selects a component of a canonical struct value.
func (s *symState) project(base symCV, sel string) symCV {
	if sn, ok := s.snap[base]; ok {
		if c, ok := sn[sel]; ok {
			return c
		}
		// nested: a snapshot entry for a prefix of sel
		for p, c := range sn {
			if p != symZero && p != sel && symPathCovers(p, sel) {
				return s.project(c, sel[len(p):])
			}
		}
		if _, isZero := sn[symZero]; isZero {
			return symCV{v: base.v, f: base.f, p: symZero + sel}
		}
	}
	return symCV{v: base.v, f: base.f, p: base.p + sel}
}

// addr resolves an address-valued SSA value to (base, path). ok=false: not an address we can name.
func (s *symState) addr(v ssa.Value, f int) (symCV, string, bool) {
	path := ""
	for i := 0; i < 32; i++ {
		switch y := v.(type) {
		case *ssa.Alloc:
			return symCV{v: y, f: f}, path, true
		case *ssa.FieldAddr:
			path = fmt.Sprintf(".%d", y.Field) + path
			v = y.X
			continue
		case *ssa.IndexAddr:
			idx := "?"
			if k, ok := y.Index.(*ssa.Const); ok && k.Value != nil {
				idx = k.Value.ExactString()
			} else {
				idx = s.resolve(y.Index, f).String()
			}
			path = "[" + idx + "]" + path
			v = y.X
			continue
		case *ssa.ChangeType:
			v = y.X
			continue
		}
		break
	}
	c := s.resolve(v, f)
	if c.v == nil {
		return symCV{}, "", false
	}
	if al, ok := c.v.(*ssa.Alloc); ok && c.p == "" {
		return symCV{v: al, f: c.f}, path, true
	}
	// an address computed in another frame (handed to an inlined helper or bound into a closure): keep decomposing
	if c.p == "" && (c.v != v || c.f != f) {
		switch c.v.(type) {
		case *ssa.FieldAddr, *ssa.IndexAddr:
			if base, p2, ok := s.addr(c.v, c.f); ok {
				return base, p2 + path, true
			}
		}
	}
	// a pointer value (parameter, loaded pointer, call result): name the memory by the pointer itself
	return c, path, true
}

func (s *symState) isLocal(base symCV) bool {
	_, ok := base.v.(*ssa.Alloc)
	return ok && base.p == "" && !s.escaped[base]
}

// pathCovers: inner names outer itself or a component of it.
func symPathCovers(outer, inner string) bool {
	if !strings.HasPrefix(inner, outer) {
		return false
	}
	return len(inner) == len(outer) || inner[len(outer)] == '.' || inner[len(outer)] == '['
}

const symZero = "\x00zero"

// load returns the canonical content of memory (base, path); in is the load instruction.
func (s *symState) load(base symCV, path string, in ssa.Value, f int) symCV {
	if c, ok := s.mem[symAKey{base, path}]; ok {
		return c
	}
	// a store to an enclosing aggregate
	for k, c := range s.mem {
		if k.base == base && k.path != path && symPathCovers(k.path, path) {
			return s.project(c, path[len(k.path):])
		}
	}
	// loading an aggregate some of whose components were stored individually: snapshot
	var parts map[string]symCV
	for k, c := range s.mem {
		if k.base == base && k.path != path && symPathCovers(path, k.path) {
			if parts == nil {
				parts = map[string]symCV{}
			}
			parts[k.path[len(path):]] = c
		}
	}
	fresh := s.isLocal(base)
	if parts != nil {
		c := symCV{v: in, f: f}
		if fresh {
			parts[symZero] = symCV{} // unassigned components of a never-escaped local are zero
		}
		s.snap[c] = parts
		return c
	}
	if fresh {
		return symCV{v: base.v, f: base.f, p: symZero + path}
	}
	return symCV{v: base.v, f: base.f, p: base.p + fmt.Sprintf("@%d%s", s.epoch, path)}
}

func (s *symState) store(base symCV, path string, val symCV) {
	for k := range s.mem {
		if k.base == base && (symPathCovers(k.path, path) || symPathCovers(path, k.path)) {
			delete(s.mem, k)
		}
	}
	s.mem[symAKey{base, path}] = val
}

// invalidate forgets what is known about memory other code can reach.
func (s *symState) invalidate() {
	s.epoch++
	for k := range s.mem {
		if !s.isLocal(k.base) {
			delete(s.mem, k)
		}
	}
}

// escape marks the local whose address is v (if any) as reachable by other code.
func (s *symState) escape(v ssa.Value, f int) {
	for i := 0; i < 8; i++ {
		switch y := v.(type) {
		case *ssa.MakeInterface:
			v = y.X
			continue
		case *ssa.ChangeType:
			v = y.X
			continue
		case *ssa.ChangeInterface:
			v = y.X
			continue
		case *ssa.Slice:
			v = y.X
			continue
		}
		break
	}
	if _, isPtr := v.Type().Underlying().(*types.Pointer); !isPtr {
		return
	}
	base, _, ok := s.addr(v, f)
	if !ok {
		return
	}
	if _, isAlloc := base.v.(*ssa.Alloc); isAlloc && base.p == "" {
		s.escaped[base] = true
	}
}

// ---------------------------------------------------------------------------------------------
// facts

// Nil: +1 known non-nil, -1 known nil, 0 unknown.
func (x *symX) Nil(v ssa.Value) int8 { return x.st.nilOf(v, x.fr.id, 0) }

// NilCV is Nil for an already resolved value.
func (x *symX) NilCV(c symCV) int8 { return x.st.nilOfCV(c, 0) }

func (s *symState) nilOf(v ssa.Value, f int, d int) int8 {
	switch y := v.(type) {
	case *ssa.Const:
		if symIsNilConst(y) {
			return -1
		}
		if y.Value == nil {
			return 0 // zero value of a struct/array type
		}
		return 1
	case *ssa.MakeInterface:
		return 1
	case *ssa.ChangeInterface:
		return s.nilOf(y.X, f, d+1)
	}
	return s.nilOfCV(s.resolve(v, f), d)
}

func (s *symState) nilOfCV(c symCV, d int) int8 {
	if c.v == nil {
		return 0
	}
	if k, ok := s.nilf[c]; ok {
		return k
	}
	if c.p == "" {
		switch y := c.v.(type) {
		case *ssa.Const:
			if symIsNilConst(y) {
				return -1
			}
			if y.Value == nil {
				return 0
			}
			return 1
		case *ssa.MakeInterface, *ssa.Alloc, *ssa.FieldAddr, *ssa.IndexAddr, *ssa.MakeMap, *ssa.MakeSlice, *ssa.MakeChan, *ssa.MakeClosure, *ssa.Function, *ssa.Global:
			return 1
		case *ssa.Call:
			if an.IsErrorType(y.Type()) && symAlwaysNonNilErr(y.Call.StaticCallee(), 0, 0) {
				return 1
			}
		}
	}
	if strings.HasPrefix(c.p, "#") {
		if call, ok := c.v.(*ssa.Call); ok {
			var idx int
			fmt.Sscanf(c.p, "#%d", &idx)
			res := call.Call.Signature().Results()
			if idx < res.Len() && an.IsErrorType(res.At(idx).Type()) && symAlwaysNonNilErr(call.Call.StaticCallee(), idx, 0) {
				return 1
			}
		}
	}
	if strings.HasPrefix(c.p, symZero) {
		return -1 // component of the zero value of a local
	}
	return 0
}

var (
	symNonNilMu   sync.Mutex
	symNonNilMemo = map[*ssa.Function]map[int]int8{} // thorough-tier variants are analysed concurrently
)

func symNonNilGet(fn *ssa.Function, idx int) (int8, bool) {
	symNonNilMu.Lock()
	defer symNonNilMu.Unlock()
	v, ok := symNonNilMemo[fn][idx]
	return v, ok
}

func symNonNilSet(fn *ssa.Function, idx int, v int8) {
	symNonNilMu.Lock()
	defer symNonNilMu.Unlock()
	if symNonNilMemo[fn] == nil {
		symNonNilMemo[fn] = map[int]int8{}
	}
	symNonNilMemo[fn][idx] = v
}

// symAlwaysNonNilErr: result idx of fn is a non-nil error on every return (error constructors).
func symAlwaysNonNilErr(fn *ssa.Function, idx, depth int) bool {
	if fn == nil || depth > 4 {
		return false
	}
	name := an.FuncName(fn)
	switch name {
	case "errors.New", "fmt.Errorf":
		return true
	}
	if fn.Blocks == nil {
		return false
	}
	if k, ok := symNonNilGet(fn, idx); ok {
		return k > 0
	}
	symNonNilSet(fn, idx, -1)
	rets := an.Returns(fn)
	good := len(rets) > 0
	for _, r := range rets {
		if fn.Recover != nil && r.Block() == fn.Recover {
			continue
		}
		vals := returnValues(r)
		if idx >= len(vals) {
			good = false
			break
		}
		switch y := vals[idx].(type) {
		case *ssa.MakeInterface:
		case *ssa.Call:
			if !symAlwaysNonNilErr(y.Call.StaticCallee(), 0, depth+1) {
				good = false
			}
		default:
			good = false
		}
	}
	if good {
		symNonNilSet(fn, idx, 1)
	}
	return good
}

func (s *symState) constOf(c symCV) (constant.Value, bool) {
	if k, ok := c.v.(*ssa.Const); ok && c.p == "" && k.Value != nil {
		return k.Value, true
	}
	if k, ok := s.eqf[c]; ok {
		return k, true
	}
	return nil, false
}

// Const returns the constant a value is known to equal on this path.
func (x *symX) Const(v ssa.Value) (constant.Value, bool) { return x.st.constOf(x.R(v)) }

// Bool evaluates a boolean value under the facts of the path: +1 true, -1 false, 0 unknown.
func (x *symX) Bool(v ssa.Value) int8 { return x.st.boolOf(v, x.fr.id, 0) }

func (s *symState) boolOf(v ssa.Value, f int, d int) int8 {
	if d > 12 {
		return 0
	}
	c := s.resolve(v, f)
	if k, ok := s.constOf(c); ok && k.Kind() == constant.Bool {
		if constant.BoolVal(k) {
			return 1
		}
		return -1
	}
	if c.p != "" {
		return 0
	}
	switch y := c.v.(type) {
	case *ssa.UnOp:
		if y.Op == token.NOT {
			return -s.boolOf(y.X, c.f, d+1)
		}
	case *ssa.BinOp:
		switch y.Op {
		case token.EQL, token.NEQ:
			r := s.eqOf(y.X, y.Y, c.f)
			if y.Op == token.NEQ {
				r = -r
			}
			return r
		case token.LSS, token.LEQ, token.GTR, token.GEQ:
			a, ok1 := s.constOf(s.resolve(y.X, c.f))
			b, ok2 := s.constOf(s.resolve(y.Y, c.f))
			if ok1 && ok2 && a.Kind() == b.Kind() && (a.Kind() == constant.Int || a.Kind() == constant.Float || a.Kind() == constant.String) {
				if constant.Compare(a, y.Op, b) {
					return 1
				}
				return -1
			}
		}
	}
	return 0
}

// isNilConst: the nil constant of a type that has one (go/ssa also writes zero structs/arrays as value-less constants).
func symIsNilConst(v ssa.Value) bool {
	k, ok := v.(*ssa.Const)
	if !ok || k.Value != nil {
		return false
	}
	switch k.Type().Underlying().(type) {
	case *types.Pointer, *types.Interface, *types.Slice, *types.Map, *types.Chan, *types.Signature:
		return true
	case *types.Basic:
		return k.Type().Underlying().(*types.Basic).Kind() == types.UntypedNil || k.Type().Underlying().(*types.Basic).Kind() == types.UnsafePointer
	}
	return false
}

func (s *symState) eqOf(a, b ssa.Value, f int) int8 {
	if symIsNilConst(a) || symIsNilConst(b) {
		o := a
		if symIsNilConst(a) {
			o = b
		}
		if symIsNilConst(o) {
			return 1
		}
		switch s.nilOf(o, f, 0) {
		case 1:
			return -1
		case -1:
			return 1
		}
		return 0
	}
	ca, cb := s.resolve(a, f), s.resolve(b, f)
	ka, oka := s.constOf(ca)
	kb, okb := s.constOf(cb)
	if oka && okb && ka.Kind() == kb.Kind() && ka.Kind() != constant.Unknown {
		if constant.Compare(ka, token.EQL, kb) {
			return 1
		}
		return -1
	}
	ne := func(c symCV, k constant.Value) bool {
		for _, x := range s.nef[c] {
			if x.Kind() == k.Kind() && constant.Compare(x, token.EQL, k) {
				return true
			}
		}
		return false
	}
	if oka && ne(cb, ka) || okb && ne(ca, kb) {
		return -1
	}
	if ca == cb && ca.v != nil {
		if b, ok := ca.v.Type().Underlying().(*types.Basic); !ok || b.Info()&types.IsFloat == 0 {
			return 1
		}
	}
	return 0
}

// assume records that boolean v has the given truth on this path.
func (s *symState) assume(v ssa.Value, f int, truth bool, d int) {
	if d > 12 {
		return
	}
	c := s.resolve(v, f)
	if c.p == "" {
		switch y := c.v.(type) {
		case *ssa.UnOp:
			if y.Op == token.NOT {
				s.assume(y.X, c.f, !truth, d+1)
				return
			}
		case *ssa.BinOp:
			if y.Op == token.EQL || y.Op == token.NEQ {
				eq := truth == (y.Op == token.EQL)
				if symIsNilConst(y.X) || symIsNilConst(y.Y) {
					o := y.X
					if symIsNilConst(y.X) {
						o = y.Y
					}
					if _, isMI := o.(*ssa.MakeInterface); isMI {
						return
					}
					oc := s.resolve(o, c.f)
					if oc.v != nil && !symIsConstLike(oc.v) {
						if eq {
							s.nilf[oc] = -1
						} else {
							s.nilf[oc] = 1
						}
					}
					return
				}
				ca, cb := s.resolve(y.X, c.f), s.resolve(y.Y, c.f)
				ka, oka := s.constOf(ca)
				kb, okb := s.constOf(cb)
				switch {
				case oka && !okb:
					s.learn(cb, ka, eq)
				case okb && !oka:
					s.learn(ca, kb, eq)
				}
				// fall through: also remember the comparison itself
			}
		}
	}
	if c.v != nil && !symIsConstLike(c.v) {
		s.eqf[c] = constant.MakeBool(truth)
	}
}

func (s *symState) learn(c symCV, k constant.Value, eq bool) {
	if c.v == nil || symIsConstLike(c.v) {
		return
	}
	if eq {
		s.eqf[c] = k
	} else {
		s.nef[c] = append(s.nef[c][:len(s.nef[c]):len(s.nef[c])], k)
	}
}

// AssumeEq adds the fact that v equals constant k (used by rule Init hooks).
func (x *symX) AssumeEq(v ssa.Value, k constant.Value) { x.st.learn(x.R(v), k, true) }

// AssumeNil adds a nilness fact.
func (x *symX) AssumeNil(v ssa.Value, nonNil bool) {
	c := x.R(v)
	if nonNil {
		x.st.nilf[c] = 1
	} else {
		x.st.nilf[c] = -1
	}
}

// clear forgets facts about a value that is being (re)defined.
func (s *symState) clear(v ssa.Value, f int) {
	c := symCV{v: v, f: f}
	delete(s.nilf, c)
	delete(s.eqf, c)
	delete(s.nef, c)
	delete(s.snap, c)
	if _, isTuple := v.Type().(*types.Tuple); isTuple {
		for k := range s.nilf {
			if k.v == v && k.f == f {
				delete(s.nilf, k)
			}
		}
		for k := range s.eqf {
			if k.v == v && k.f == f {
				delete(s.eqf, k)
			}
		}
		for k := range s.nef {
			if k.v == v && k.f == f {
				delete(s.nef, k)
			}
		}
	}
}

// ---------------------------------------------------------------------------------------------
// execution

type symCont func(st *symState, results []symCV)

func (r *symRun) block(fr *symFrame, b, pred *ssa.BasicBlock, st *symState, k symCont) {
	if r.exhausted {
		return
	}
	vk := symBKey{b, fr.id}
	if st.visits[vk] >= r.h.MaxVisits {
		return
	}
	st.visits[vk]++
	// phis (simultaneous)
	if pred != nil {
		idx := -1
		for i, p := range b.Preds {
			if p == pred {
				idx = i
			}
		}
		var phis []*ssa.Phi
		var vals []symCV
		for _, in := range b.Instrs {
			ph, ok := in.(*ssa.Phi)
			if !ok {
				break
			}
			phis = append(phis, ph)
			if idx >= 0 && idx < len(ph.Edges) {
				// keep the non-nil-interface knowledge of a MakeInterface edge
				vals = append(vals, st.resolve(ph.Edges[idx], fr.id))
			} else {
				vals = append(vals, symCV{v: ph, f: fr.id})
			}
		}
		for i, ph := range phis {
			st.clear(ph, fr.id)
			st.val[symVKey{ph, fr.id}] = vals[i]
		}
	}
	r.instrs(fr, b, 0, st, k)
}

func (r *symRun) instrs(fr *symFrame, b *ssa.BasicBlock, from int, st *symState, k symCont) {
	x := &symX{run: r, fr: fr, st: st}
	for i := from; i < len(b.Instrs); i++ {
		in := b.Instrs[i]
		r.steps++
		if r.steps > r.h.Budget {
			r.exhausted = true
			return
		}
		if _, isPhi := in.(*ssa.Phi); isPhi {
			continue
		}
		if r.h.Before != nil {
			r.h.Before(x, in)
		}
		switch y := in.(type) {
		case *ssa.UnOp:
			st.clear(y, fr.id)
			delete(st.val, symVKey{y, fr.id})
			if y.Op == token.MUL {
				if base, path, ok := st.addr(y.X, fr.id); ok {
					st.val[symVKey{y, fr.id}] = st.load(base, path, y, fr.id)
				}
			}
		case *ssa.Store:
			val := st.resolve(y.Val, fr.id)
			st.escape(y.Val, fr.id)
			ev := symEvent{In: in, Frame: fr.id, Val: val}
			if base, path, ok := st.addr(y.Addr, fr.id); ok {
				if !st.isLocal(base) {
					st.invalidate()
				}
				st.store(base, path, val)
				ev.Base, ev.Path, ev.Addr = base, path, true
			} else {
				st.invalidate()
			}
			st.trace = append(st.trace[:len(st.trace):len(st.trace)], ev)
		case *ssa.MapUpdate:
			st.escape(y.Value, fr.id)
			st.trace = append(st.trace[:len(st.trace):len(st.trace)], symEvent{In: in, Frame: fr.id})
		case *ssa.Send:
			st.escape(y.X, fr.id)
		case *ssa.Alloc:
			base := symCV{v: y, f: fr.id}
			for k := range st.mem {
				if k.base == base {
					delete(st.mem, k)
				}
			}
			delete(st.escaped, base)
		case *ssa.MakeClosure:
			st.clear(y, fr.id)
			if lit, ok := y.Fn.(*ssa.Function); ok {
				for bi, bd := range y.Bindings {
					if symClosureWrites(lit, bi) {
						st.escape(bd, fr.id)
					}
				}
			}
		case *ssa.Defer:
			st.trace = append(st.trace[:len(st.trace):len(st.trace)], symEvent{In: in, Frame: fr.id, Args: x.args(y.Common())})
			for _, a := range y.Call.Args {
				st.escape(a, fr.id)
			}
		case *ssa.Go:
			for _, a := range y.Call.Args {
				st.escape(a, fr.id)
			}
			st.invalidate()
		case *ssa.Lookup:
			st.clear(y, fr.id)
			delete(st.val, symVKey{y, fr.id})
			delete(st.tup, symVKey{y, fr.id})
			st.lookupTable(y, fr.id)
		case *ssa.Call:
			r.call(fr, b, i, y, st, k)
			return
		case *ssa.If:
			switch st.boolOf(y.Cond, fr.id, 0) {
			case 1:
				r.block(fr, b.Succs[0], b, st, k)
			case -1:
				r.block(fr, b.Succs[1], b, st, k)
			default:
				s2 := st.fork()
				st.assume(y.Cond, fr.id, true, 0)
				r.block(fr, b.Succs[0], b, st, k)
				s2.assume(y.Cond, fr.id, false, 0)
				r.block(fr, b.Succs[1], b, s2, k)
			}
			return
		case *ssa.Jump:
			r.block(fr, b.Succs[0], b, st, k)
			return
		case *ssa.Return:
			res := make([]symCV, len(y.Results))
			for j, v := range y.Results {
				res[j] = st.resolve(v, fr.id)
			}
			if fr.caller == nil {
				if r.h.Return != nil {
					r.h.Return(x, y, res)
				}
				return
			}
			if k != nil {
				k(st, res)
			}
			return
		case *ssa.Panic:
			return
		case ssa.Value:
			// any other value-defining instruction: a fresh opaque value
			st.clear(y, fr.id)
			delete(st.val, symVKey{y, fr.id})
			if mi, ok := in.(*ssa.MakeInterface); ok {
				st.escape(mi.X, fr.id)
			}
		}
		if r.h.After != nil {
			r.h.After(x, in)
		}
	}
	// block without terminator (should not happen)
}

// ---------------------------------------------------------------------------------------------
// constant dispatch tables: a package-level map that is built once by the package initialiser from constant keys
// and never written again. A lookup with a key that is known on the path then has a known outcome, so a
// `switch typ { case K: ... }` rewritten as `table[typ]` keeps its per-key meaning.

const symInitFrame = -1 // frame id of values computed by the package initialiser

type symTable struct {
	entries map[string]ssa.Value // constant key (exact string) -> value stored by the initialiser
}

var (
	symTableMu   sync.Mutex
	symTableMemo = map[*ssa.Global]*symTable{}
)

func symTableOf(g *ssa.Global) *symTable {
	symTableMu.Lock()
	defer symTableMu.Unlock()
	if t, ok := symTableMemo[g]; ok {
		return t
	}
	t := symBuildTable(g)
	symTableMemo[g] = t
	return t
}

func symBuildTable(g *ssa.Global) *symTable {
	if g.Pkg == nil || g.Object() == nil || g.Object().Exported() {
		return nil
	}
	pt, ok := g.Type().Underlying().(*types.Pointer)
	if !ok {
		return nil
	}
	if _, isMap := pt.Elem().Underlying().(*types.Map); !isMap {
		return nil
	}
	initFn := g.Pkg.Func("init")
	if initFn == nil {
		return nil
	}
	var fns []*ssa.Function
	var add func(f *ssa.Function)
	add = func(f *ssa.Function) {
		if f == nil || f.Blocks == nil {
			return
		}
		fns = append(fns, f)
		for _, a := range f.AnonFuncs {
			add(a)
		}
	}
	for _, f := range an.PkgFuncs(g.Pkg) {
		if f.Parent() == nil {
			add(f)
		}
	}
	add(initFn)
	var made *ssa.MakeMap
	for _, f := range fns {
		for _, b := range f.Blocks {
			for _, in := range b.Instrs {
				if _, isDbg := in.(*ssa.DebugRef); isDbg {
					continue
				}
				for _, op := range in.Operands(nil) {
					if op == nil || *op != ssa.Value(g) {
						continue
					}
					switch y := in.(type) {
					case *ssa.Store:
						mm, isMM := y.Val.(*ssa.MakeMap)
						if y.Addr != ssa.Value(g) || f != initFn || made != nil || !isMM {
							return nil // assigned elsewhere / more than once / not a literal
						}
						made = mm
					case *ssa.UnOp:
						// a read of the table: it may only be looked up, ranged over or measured
						if y.Op != token.MUL || y.Referrers() == nil {
							return nil
						}
						for _, ref := range *y.Referrers() {
							switch r := ref.(type) {
							case *ssa.Lookup:
								if r.X != ssa.Value(y) {
									return nil
								}
							case *ssa.Range, *ssa.DebugRef:
							case *ssa.Call:
								if b, isB := r.Call.Value.(*ssa.Builtin); !isB || b.Name() != "len" {
									return nil
								}
							default:
								return nil
							}
						}
					default:
						return nil // address taken
					}
				}
			}
		}
	}
	if made == nil || made.Referrers() == nil {
		return nil
	}
	t := &symTable{entries: map[string]ssa.Value{}}
	for _, ref := range *made.Referrers() {
		switch r := ref.(type) {
		case *ssa.MapUpdate:
			k, isK := r.Key.(*ssa.Const)
			if r.Map != ssa.Value(made) || !isK || k.Value == nil {
				return nil
			}
			t.entries[k.Value.ExactString()] = r.Value
		case *ssa.Store:
			if r.Val != ssa.Value(made) {
				return nil
			}
		case *ssa.DebugRef:
		default:
			return nil
		}
	}
	return t
}

// lookupTable gives `table[key]` its value when the table is a constant dispatch table and the key is known.
func (s *symState) lookupTable(lk *ssa.Lookup, f int) {
	m := s.resolve(lk.X, f)
	g, ok := m.v.(*ssa.Global)
	if !ok || !strings.HasPrefix(m.p, "@") || strings.ContainsAny(m.p[1:], ".[#@") {
		return
	}
	k, ok := s.constOf(s.resolve(lk.Index, f))
	if !ok {
		return
	}
	t := symTableOf(g)
	if t == nil {
		return
	}
	mt, _ := lk.X.Type().Underlying().(*types.Map)
	if mt == nil {
		return
	}
	var val symCV
	v, found := t.entries[k.ExactString()]
	if found {
		val = s.resolve(v, symInitFrame)
	} else {
		switch mt.Elem().Underlying().(type) {
		case *types.Pointer, *types.Interface, *types.Slice, *types.Map, *types.Chan, *types.Signature:
			val = symCV{v: ssa.NewConst(nil, mt.Elem())}
		default:
			val = symCV{v: lk, f: f, p: "#0"}
			if !lk.CommaOk {
				val = symCV{v: lk, f: f}
			}
		}
	}
	if lk.CommaOk {
		s.tup[symVKey{lk, f}] = []symCV{val, {v: ssa.NewConst(constant.MakeBool(found), types.Typ[types.Bool])}}
		return
	}
	if val.v != ssa.Value(lk) {
		s.val[symVKey{lk, f}] = val
	}
}

// DynCallee returns the function a call through a function value resolves to on this path (nil: unknown).
func (x *symX) DynCallee(call *ssa.Call) *ssa.Function {
	if call.Call.IsInvoke() || call.Call.StaticCallee() != nil {
		return nil
	}
	c := x.R(call.Call.Value)
	if c.p != "" {
		return nil
	}
	switch y := c.v.(type) {
	case *ssa.MakeClosure:
		f, _ := y.Fn.(*ssa.Function)
		return f
	case *ssa.Function:
		return y
	}
	return nil
}

// symClosureWrites: the function literal stores through (or leaks) its free variable #idx.
func symClosureWrites(lit *ssa.Function, idx int) bool {
	if idx >= len(lit.FreeVars) {
		return true
	}
	fv := lit.FreeVars[idx]
	refs := fv.Referrers()
	if refs == nil {
		return true
	}
	for _, ref := range *refs {
		switch y := ref.(type) {
		case *ssa.UnOp, *ssa.DebugRef:
		case *ssa.FieldAddr, *ssa.IndexAddr:
			v := ref.(ssa.Value)
			for _, r2 := range *v.Referrers() {
				if _, isLoad := r2.(*ssa.UnOp); !isLoad {
					return true
				}
			}
		case *ssa.MakeClosure:
			if inner, ok := y.Fn.(*ssa.Function); ok {
				for bi, bd := range y.Bindings {
					if bd == ssa.Value(fv) && symClosureWrites(inner, bi) {
						return true
					}
				}
			} else {
				return true
			}
		default:
			return true
		}
	}
	return false
}

// symIsForwarder: a synthetic bound-method wrapper or method-expression thunk.
func symIsForwarder(fn *ssa.Function) bool {
	return fn != nil && (strings.HasPrefix(fn.Synthetic, "bound method wrapper") || strings.HasPrefix(fn.Synthetic, "thunk for") || strings.HasPrefix(fn.Synthetic, "wrapper for"))
}

func (x *symX) args(cc *ssa.CallCommon) []symCV {
	out := make([]symCV, len(cc.Args))
	for i, a := range cc.Args {
		out[i] = x.R(a)
	}
	return out
}

func symPureBuiltin(cc *ssa.CallCommon) bool {
	b, ok := cc.Value.(*ssa.Builtin)
	if !ok {
		return false
	}
	switch b.Name() {
	case "len", "cap", "min", "max", "real", "imag", "complex", "recover", "print", "println":
		return true
	}
	return false
}

func (r *symRun) call(fr *symFrame, b *ssa.BasicBlock, i int, call *ssa.Call, st *symState, k symCont) {
	x := &symX{run: r, fr: fr, st: st}
	args := x.args(&call.Call)
	ev := symEvent{In: call, Frame: fr.id, Args: args}
	if call.Call.IsInvoke() {
		ev.Recv = st.resolve(call.Call.Value, fr.id)
	}
	if b, ok := call.Call.Value.(*ssa.Builtin); ok && b.Name() == "append" && len(call.Call.Args) == 2 {
		if sl, ok := call.Call.Args[1].(*ssa.Slice); ok && sl.Low == nil && sl.High == nil {
			if al, ok := sl.X.(*ssa.Alloc); ok {
				if pt, ok := al.Type().Underlying().(*types.Pointer); ok {
					if arr, ok := pt.Elem().Underlying().(*types.Array); ok {
						base := symCV{v: al, f: fr.id}
						for i := int64(0); i < arr.Len(); i++ {
							ev.Elems = append(ev.Elems, st.load(base, fmt.Sprintf("[%d]", i), nil, fr.id))
						}
					}
				}
			}
		}
	}
	st.trace = append(st.trace[:len(st.trace):len(st.trace)], ev)
	st.clear(call, fr.id)
	delete(st.val, symVKey{call, fr.id})
	delete(st.tup, symVKey{call, fr.id})
	callee := call.Call.StaticCallee()
	// a call through a function value that resolves, on this path, to a known closure / function (a func-typed
	// parameter of an inlined helper, a closure held in a local): the callee is known after all
	var dynClosure *ssa.MakeClosure
	dynFrame := 0
	if callee == nil && !call.Call.IsInvoke() {
		if _, isB := call.Call.Value.(*ssa.Builtin); !isB {
			c := st.resolve(call.Call.Value, fr.id)
			if c.p == "" {
				switch y := c.v.(type) {
				case *ssa.MakeClosure:
					if f, ok := y.Fn.(*ssa.Function); ok {
						callee, dynClosure, dynFrame = f, y, c.f
					}
				case *ssa.Function:
					callee = y
				}
			}
		}
	}
	inline := false
	if callee != nil && len(callee.Blocks) > 0 && fr.depth < r.h.MaxDepth && r.h.Inline != nil {
		rec := false
		for p := fr; p != nil; p = p.caller {
			if p.fn == callee {
				rec = true
			}
		}
		if !rec {
			// bound-method wrappers and thunks only forward to the method: always stepped into (the method call
			// inside is then subject to the rule's Inline decision like any other static call)
			inline = symIsForwarder(callee) || r.h.Inline(x, call, callee)
		}
	}
	if !inline {
		if !symPureBuiltin(&call.Call) {
			for _, a := range call.Call.Args {
				st.escape(a, fr.id)
			}
			if call.Call.IsInvoke() {
				st.escape(call.Call.Value, fr.id)
			}
			if _, isB := call.Call.Value.(*ssa.Builtin); !isB {
				st.invalidate()
			}
		}
		// append(s, ...) of a tracked slice etc. stay opaque values
		r.instrs(fr, b, i+1, st, k)
		return
	}
	st.nframe++
	nf := &symFrame{fn: callee, id: st.nframe, caller: fr, site: call, depth: fr.depth + 1}
	for pi, p := range callee.Params {
		if pi < len(args) {
			st.val[symVKey{p, nf.id}] = args[pi]
		}
	}
	if dynClosure != nil {
		for bi, bd := range dynClosure.Bindings {
			if bi < len(callee.FreeVars) {
				st.val[symVKey{callee.FreeVars[bi], nf.id}] = st.resolve(bd, dynFrame)
			}
		}
	} else if mc, ok := call.Call.Value.(*ssa.MakeClosure); ok {
		for bi, bd := range mc.Bindings {
			if bi < len(callee.FreeVars) {
				st.val[symVKey{callee.FreeVars[bi], nf.id}] = st.resolve(bd, fr.id)
			}
		}
	} else if len(callee.FreeVars) > 0 {
		// closure held in a variable: resolve the MakeClosure through the path state
		c := st.resolve(call.Call.Value, fr.id)
		if mc, ok := c.v.(*ssa.MakeClosure); ok && c.p == "" {
			for bi, bd := range mc.Bindings {
				if bi < len(callee.FreeVars) {
					st.val[symVKey{callee.FreeVars[bi], nf.id}] = st.resolve(bd, c.f)
				}
			}
		}
	}
	r.block(nf, callee.Blocks[0], nil, st, func(s2 *symState, res []symCV) {
		if len(res) == 1 {
			s2.val[symVKey{call, fr.id}] = res[0]
		} else if len(res) > 1 {
			s2.tup[symVKey{call, fr.id}] = res
		}
		r.instrs(fr, b, i+1, s2, k)
	})
}

// ---------------------------------------------------------------------------------------------
// helpers for rules

// Trace returns the events executed so far on the path.
func (x *symX) Trace() []symEvent { return x.st.trace }

// Frame returns the current frame id and function.
func (x *symX) Frame() (int, *ssa.Function) { return x.fr.id, x.fr.fn }

// InRoot reports whether the cursor is in the root function.
func (x *symX) InRoot() bool { return x.fr.caller == nil }

// Flag / SetFlag are path-local marks for rules.
func (x *symX) Flag(k string) bool { return x.st.user[k] }
func (x *symX) SetFlag(k string)   { x.st.user[k] = true }

// Unbox peels interface boxing / conversions from an SSA value of the current frame and resolves it.
func (x *symX) Unbox(v ssa.Value) symCV {
	for i := 0; i < 8; i++ {
		switch y := v.(type) {
		case *ssa.MakeInterface:
			v = y.X
			continue
		case *ssa.ChangeInterface:
			v = y.X
			continue
		case *ssa.ChangeType:
			v = y.X
			continue
		}
		break
	}
	c := x.R(v)
	return x.st.unboxCV(c)
}

func (s *symState) unboxCV(c symCV) symCV {
	for i := 0; i < 8 && c.p == "" && c.v != nil; i++ {
		switch y := c.v.(type) {
		case *ssa.MakeInterface:
			c = s.resolve(y.X, c.f)
			continue
		}
		break
	}
	return c
}

// IsClosureArg: the argument is, on this path, a closure or bound method value (a helper that receives one is
// likely to call it; rules step into such helpers so that the closure's body is seen where it runs).
func (x *symX) IsClosureArg(v ssa.Value) bool {
	if _, isSig := v.Type().Underlying().(*types.Signature); !isSig {
		return false
	}
	c := x.R(v)
	_, ok := c.v.(*ssa.MakeClosure)
	return ok && c.p == ""
}

// UnboxCV peels interface boxing from a resolved value.
func (x *symX) UnboxCV(c symCV) symCV { return x.st.unboxCV(c) }

// ErrOfCall returns the canonical error result of a call event's instruction (ok=false if the callee has none).
func symErrOf(call *ssa.Call, frame int, st *symState) (symCV, bool) {
	res := call.Call.Signature().Results()
	for i := res.Len() - 1; i >= 0; i-- {
		if an.IsErrorType(res.At(i).Type()) {
			if res.Len() == 1 {
				return st.resolve(call, frame), true
			}
			if t, ok := st.tup[symVKey{call, frame}]; ok && i < len(t) {
				return t[i], true
			}
			return symCV{v: call, f: frame, p: fmt.Sprintf("#%d", i)}, true
		}
	}
	return symCV{}, false
}

// CallOK reports whether the error result of the call (executed in frame) is known nil on this path:
// +1 known nil (call succeeded), -1 known non-nil, 0 unknown. A call without error result yields +1.
func (x *symX) CallOK(call *ssa.Call, frame int) int8 {
	e, ok := symErrOf(call, frame, x.st)
	if !ok {
		return 1
	}
	return -x.st.nilOfCV(e, 0)
}

// Chain identifies the inlining context of the current frame (the call sites above it).
func (x *symX) Chain() string {
	var sb strings.Builder
	for p := x.fr; p != nil && p.site != nil; p = p.caller {
		fmt.Fprintf(&sb, "%p>", p.site)
	}
	return sb.String()
}

// RootFn returns the function the exploration started from.
func (x *symX) RootFn() *ssa.Function { return x.run.root }
