package rules

import (
	"go/token"
	"go/types"
	"strings"

	"golang.org/x/tools/go/ssa"

	"charonverif/internal/an"
	"charonverif/internal/rt"
)

// V7 — "a cluster member decides at most once per duty" across instances: the per-duty instance.IO of
// core/consensus/qbft (Running/Proposed/Participated markers, ErrCh) is what makes a later Propose/Participate for
// a duty join the existing (possibly finished) instance instead of starting a second qbft.Run with empty state.
// It may therefore be dropped only when the duty has expired: every key removed from the instances map is a duty
// received from the Deadliner's expiry channel.
//
// (Same property as rule IX of c01x.go, which is owned by another worker; IX follows the removed key one call
// level up only, so a removal in a function that merely forwards its own duty parameter — runInstance, propose —
// was never traced to its callers.) Here the removed key is followed backwards through parameters to every
// in-package call site (go/defer included), captured variables, local cells, phis and in-package call results
// until its origins are reached; the verdict is three-valued:
//   - every origin is a receive from a channel obtained from core.Deadliner.C()          ⇒ holds
//   - an origin is a parameter of an exported function/method (a duty chosen by the API caller), a value
//     received from another channel, or a foreign call result                            ⇒ VIOLATION
//   - anything else (map iteration, fields, dynamic callers)                             ⇒ UNDECIDED

var c03n5InstanceMutants = []Mutant{
	{ID: "C03-V7-delete-io-after-run", File: c03G, Expect: "V7|instances",
		Old: "\tif !inst.MaybeStart() { // Participate was already called, instance is running.\n\t\treturn <-inst.ErrCh\n\t}\n\n\treturn c.runInstance(ctx, duty)\n",
		New: "\tif !inst.MaybeStart() { // Participate was already called, instance is running.\n\t\treturn <-inst.ErrCh\n\t}\n\n\tdefer c.deleteInstanceIO(duty)\n\n\treturn c.runInstance(ctx, duty)\n"},
	{ID: "C03-V7-delete-io-on-errch-send", File: c03G, Expect: "V7|instances",
		Old: "\t\tinst.ErrCh <- err // Send resulting error to errCh.\n",
		New: "\t\tinst.ErrCh <- err // Send resulting error to errCh.\n\n\t\tc.mutable.Lock()\n\t\tdelete(c.mutable.instances, duty)\n\t\tc.mutable.Unlock()\n"},
	{ID: "C03-V7-delete-io-expired-on-add", File: c03G, Expect: "V7|instances",
		Old: "\t\tlog.Warn(ctx, \"Skipping consensus for expired/exempt duty\", nil, z.Any(\"duty\", duty))\n",
		New: "\t\tlog.Warn(ctx, \"Skipping consensus for expired/exempt duty\", nil, z.Any(\"duty\", duty))\n\t\tc.deleteInstanceIO(duty)\n"},
}

type c03n5Origin struct {
	kind c03Tri // c03Yes: expiry channel; c03No: positively something else; c03Maybe: untraced
	pos  token.Pos
	what string
}

type c03n5Tracer struct {
	funcs []*ssa.Function
	sites map[*ssa.Function][]ssa.CallInstruction // static call sites per callee (origin of generics)
	seen  map[ssa.Value]bool
}

func c03n5NewTracer(pkg *ssa.Package) *c03n5Tracer {
	t := &c03n5Tracer{funcs: an.PkgFuncs(pkg), sites: map[*ssa.Function][]ssa.CallInstruction{}, seen: map[ssa.Value]bool{}}
	for _, fn := range t.funcs {
		for _, in := range an.Instrs(fn, false) {
			ci, ok := in.(ssa.CallInstruction)
			if !ok {
				continue
			}
			cc := ci.Common()
			if g := an.Orig(cc.StaticCallee()); g != nil {
				t.sites[g] = append(t.sites[g], ci)
				continue
			}
			// an immediately applied function literal
			if mc, ok := cc.Value.(*ssa.MakeClosure); ok {
				if g, ok := mc.Fn.(*ssa.Function); ok {
					t.sites[g] = append(t.sites[g], ci)
				}
			}
		}
	}
	return t
}

// usedAsValue: fn (or a bound-method/closure wrapper of it) is an operand other than the callee of a call.
func (t *c03n5Tracer) usedAsValue(fn *ssa.Function) bool {
	for _, f := range t.funcs {
		for _, in := range an.Instrs(f, false) {
			for _, op := range an.Operands(in) {
				var g *ssa.Function
				switch x := op.(type) {
				case *ssa.Function:
					g = x
				case *ssa.MakeClosure:
					g, _ = x.Fn.(*ssa.Function)
				}
				if g == nil {
					continue
				}
				if g != fn && !(g.Synthetic != "" && an.FuncName(g) == an.FuncName(fn)) {
					continue
				}
				if ci, ok := in.(ssa.CallInstruction); ok && ci.Common().Value == op {
					continue
				}
				if _, isMC := op.(*ssa.MakeClosure); isMC && g == fn && fn.Parent() != nil {
					// a function literal: applied in place or through a local; its call sites are looked up by the caller
					continue
				}
				return true
			}
		}
	}
	return false
}

// cellStores lists the values stored into the local cell al, in its function and the literals capturing it.
func (t *c03n5Tracer) cellStores(al ssa.Value, d int) (vals []ssa.Value, ok bool) {
	if d > 4 || al.Referrers() == nil {
		return nil, false
	}
	ok = true
	for _, r := range *al.Referrers() {
		switch x := r.(type) {
		case *ssa.Store:
			if x.Addr == al {
				vals = append(vals, x.Val)
			} else {
				ok = false // the address escapes into another cell
			}
		case *ssa.UnOp, *ssa.DebugRef:
		case *ssa.MakeClosure:
			g, isFn := x.Fn.(*ssa.Function)
			if !isFn {
				ok = false
				continue
			}
			for i, b := range x.Bindings {
				if b != al || i >= len(g.FreeVars) {
					continue
				}
				vs, o := t.cellStores(g.FreeVars[i], d+1)
				vals = append(vals, vs...)
				ok = ok && o
			}
		default:
			ok = false
		}
	}
	return vals, ok
}

// cellOf resolves an address to the local cell (Alloc) it denotes, through captured variables.
func (t *c03n5Tracer) cellOf(addr ssa.Value, d int) *ssa.Alloc {
	if d > 4 {
		return nil
	}
	switch x := addr.(type) {
	case *ssa.Alloc:
		return x
	case *ssa.FreeVar:
		if b := t.binding(x); b != nil {
			return t.cellOf(b, d+1)
		}
	}
	return nil
}

func (t *c03n5Tracer) binding(fv *ssa.FreeVar) ssa.Value {
	fn := fv.Parent()
	idx := -1
	for i, q := range fn.FreeVars {
		if q == fv {
			idx = i
		}
	}
	if idx < 0 || fn.Parent() == nil {
		return nil
	}
	var found ssa.Value
	for _, in := range an.Instrs(fn.Parent(), false) {
		if mc, ok := in.(*ssa.MakeClosure); ok && mc.Fn == ssa.Value(fn) && idx < len(mc.Bindings) {
			if found != nil && found != mc.Bindings[idx] {
				return nil
			}
			found = mc.Bindings[idx]
		}
	}
	return found
}

// origins follows v backwards to the places its value comes from. isChan: v is the channel of a receive.
func (t *c03n5Tracer) origins(v ssa.Value, isChan bool, d int) []c03n5Origin {
	unknown := func(what string) []c03n5Origin {
		return []c03n5Origin{{c03Maybe, posOfValue(v), what}}
	}
	if v == nil || d > 12 {
		return unknown("the value could not be followed further")
	}
	v = an.Unwrap(v)
	if t.seen[v] {
		return nil
	}
	t.seen[v] = true
	recvFrom := func(ch ssa.Value, pos token.Pos) []c03n5Origin {
		var out []c03n5Origin
		for _, o := range t.origins(ch, true, d+1) {
			if o.kind == c03No {
				o.what = "received from a channel that is not the deadliner's expiry channel (" + o.what + ")"
				if o.pos == token.NoPos {
					o.pos = pos
				}
			}
			out = append(out, o)
		}
		if len(out) == 0 {
			return []c03n5Origin{{c03Maybe, pos, "the channel of the receive could not be traced"}}
		}
		return out
	}
	switch x := v.(type) {
	case *ssa.Parameter:
		fn := x.Parent()
		idx := c03ParamIdx(fn, x)
		var out []c03n5Origin
		if fn.Parent() == nil && fn.Object() != nil && fn.Object().Exported() {
			what := "the duty parameter of the exported " + an.FuncName(fn) + " (chosen by the caller, not an expired duty)"
			if isChan {
				what = "a channel parameter of the exported " + an.FuncName(fn)
			}
			out = append(out, c03n5Origin{c03No, x.Pos(), what})
		} else if t.usedAsValue(fn) {
			out = append(out, c03n5Origin{c03Maybe, x.Pos(), an.FuncName(fn) + " is used as a function value: not all of its callers are known"})
		}
		sites := t.sites[fn]
		if len(sites) == 0 && len(out) == 0 {
			return unknown("no caller of " + an.FuncName(fn) + " was found")
		}
		for _, s := range sites {
			if idx < 0 || idx >= len(s.Common().Args) {
				out = append(out, c03n5Origin{c03Maybe, s.Pos(), "argument not found at a call site"})
				continue
			}
			out = append(out, t.origins(s.Common().Args[idx], isChan, d+1)...)
		}
		return out
	case *ssa.FreeVar:
		if b := t.binding(x); b != nil {
			return t.origins(b, isChan, d+1)
		}
		return unknown("a captured variable whose binding was not found")
	case *ssa.Phi:
		var out []c03n5Origin
		for _, e := range x.Edges {
			out = append(out, t.origins(e, isChan, d+1)...)
		}
		return out
	case *ssa.UnOp:
		switch x.Op {
		case token.ARROW:
			if isChan {
				return unknown("a channel received from a channel")
			}
			return recvFrom(x.X, x.Pos())
		case token.MUL:
			if al := t.cellOf(x.X, 0); al != nil {
				vals, ok := t.cellStores(al, 0)
				var out []c03n5Origin
				for _, sv := range vals {
					out = append(out, t.origins(sv, isChan, d+1)...)
				}
				if !ok || len(vals) == 0 {
					out = append(out, c03n5Origin{c03Maybe, x.Pos(), "a local variable whose assignments could not all be found"})
				}
				return out
			}
			if fa, ok := x.X.(*ssa.FieldAddr); ok && isChan {
				// a channel kept in a struct field: every assignment of that field in the package
				key := an.FieldKey(fa.X.Type(), fa.Field)
				var out []c03n5Origin
				n := 0
				for _, fn := range t.funcs {
					for _, in := range an.Instrs(fn, false) {
						st, ok := in.(*ssa.Store)
						if !ok {
							continue
						}
						if sfa, ok := st.Addr.(*ssa.FieldAddr); ok && an.FieldKey(sfa.X.Type(), sfa.Field) == key {
							n++
							out = append(out, t.origins(st.Val, true, d+1)...)
						}
					}
				}
				if n == 0 {
					return unknown("a channel field that is never assigned in the package")
				}
				return out
			}
			return unknown("a value loaded from a field or element")
		}
	case *ssa.Extract:
		switch tup := x.Tuple.(type) {
		case *ssa.UnOp: // v, ok := <-ch
			if tup.Op == token.ARROW && x.Index == 0 && !isChan {
				return recvFrom(tup.X, tup.Pos())
			}
		case *ssa.Select:
			k, n := x.Index-2, 0
			for _, st := range tup.States {
				if st.Dir != types.RecvOnly {
					continue
				}
				if n == k && !isChan {
					return recvFrom(st.Chan, st.Pos)
				}
				n++
			}
		case *ssa.Call:
			if g := an.Orig(tup.Call.StaticCallee()); g != nil && g.Blocks != nil && g.Pkg == t.pkgOf() {
				var out []c03n5Origin
				for _, r := range an.Returns(g) {
					if x.Index < len(r.Results) {
						out = append(out, t.origins(r.Results[x.Index], isChan, d+1)...)
					}
				}
				if len(out) > 0 {
					return out
				}
			}
		}
		return unknown("a component of a tuple that could not be followed")
	case *ssa.Call:
		cc := &x.Call
		if cc.IsInvoke() {
			if isChan && an.CalleeName(cc) == "iface:core.Deadliner.C" {
				return []c03n5Origin{{c03Yes, x.Pos(), "Deadliner.C()"}}
			}
			if isChan {
				return []c03n5Origin{{c03No, x.Pos(), an.CalleeName(cc)}}
			}
			return []c03n5Origin{{c03No, x.Pos(), "the result of " + an.CalleeName(cc) + ", not a received expiry"}}
		}
		if g := an.Orig(cc.StaticCallee()); g != nil {
			if g.Blocks != nil && g.Pkg == t.pkgOf() {
				var out []c03n5Origin
				for _, r := range an.Returns(g) {
					if len(r.Results) > 0 {
						out = append(out, t.origins(r.Results[0], isChan, d+1)...)
					}
				}
				if len(out) > 0 {
					return out
				}
				return unknown("a helper result that could not be followed")
			}
			if isChan {
				return []c03n5Origin{{c03No, x.Pos(), "the result of " + an.FuncName(g)}}
			}
			return []c03n5Origin{{c03No, x.Pos(), "the result of " + an.FuncName(g) + ", not a received expiry"}}
		}
		return unknown("the result of a dynamic call")
	case *ssa.MakeChan:
		return []c03n5Origin{{c03No, x.Pos(), "a channel made locally"}}
	}
	return unknown("a value of a shape that is not followed")
}

func (t *c03n5Tracer) pkgOf() *ssa.Package {
	if len(t.funcs) == 0 {
		return nil
	}
	return c03Outer(t.funcs[0]).Pkg
}

func posOfValue(v ssa.Value) token.Pos {
	if v == nil {
		return token.NoPos
	}
	return v.Pos()
}

func c03V7(c *rt.Ctx) {
	pkg := c.SSAPkg(c03Q)
	funcs := an.PkgFuncs(pkg)
	isInstances := func(v ssa.Value) bool {
		m, isMap := v.Type().Underlying().(*types.Map)
		return isMap && an.TypeName(m.Key()) == "core.Duty" && strings.Contains(an.TypeName(m.Elem()), "instance.IO")
	}
	n := 0
	for _, fn := range funcs {
		for _, in := range an.Instrs(fn, false) {
			ci, ok := in.(ssa.CallInstruction)
			if !ok {
				continue
			}
			cc := ci.Common()
			b, ok := cc.Value.(*ssa.Builtin)
			if !ok || (b.Name() != "delete" && b.Name() != "clear") || len(cc.Args) == 0 || !isInstances(cc.Args[0]) {
				continue
			}
			n++
			key := an.FuncName(fn) + " removes from the consensus instances only an expired duty"
			if b.Name() == "clear" || len(cc.Args) < 2 {
				c.Bad(key, ci.Pos(), "all per-duty consensus instance state is dropped at once: a late Propose/Participate for a decided duty starts a second instance and decides again")
				continue
			}
			t := c03n5NewTracer(pkg)
			os := t.origins(cc.Args[1], false, 0)
			var bad, unsure *c03n5Origin
			good := 0
			for i := range os {
				switch os[i].kind {
				case c03No:
					if bad == nil {
						bad = &os[i]
					}
				case c03Maybe:
					if unsure == nil {
						unsure = &os[i]
					}
				default:
					good++
				}
			}
			switch {
			case bad != nil:
				c.Bad(key, ci.Pos(), "the instance state (Running/Proposed/Participated markers, ErrCh) of a duty that did not expire is removed — the removed key is "+bad.what+
					": a later Propose/Participate for the same duty starts a second qbft instance with empty state and Decide fires again")
			case unsure != nil || good == 0:
				why := "no origin found"
				if unsure != nil {
					why = unsure.what
				}
				c.Unsure(key, ci.Pos(), "the removed duty could not be traced to a receive from Deadliner.C(): "+why)
			default:
				c.Good(key, ci.Pos(), "every origin of the removed key is a receive from Deadliner.C()")
			}
		}
	}
	if n == 0 {
		c.Bail("no removal from the consensus instances map found")
	}
}
