package rules

// c10n4_sigverify.go — H7 (C10 hardening round 4): the success paths of eth2util/signing.Verify.
//
// Every partial signature that enters a node (validatorapi.verifyPartialSig, parsigex NewEth2Verifier) is
// admitted through core.VerifyEth2SignedData -> signing.Verify. "Verifies for the object's own signing root,
// domain and epoch under the public share" therefore requires of signing.Verify:
//
//	on every path on which signing.Verify may return a nil error, either
//	 (a) tbls.Verify succeeded on (the pubkey parameter, the result of GetDataRoot(domain, epoch, root) of THIS
//	     call's parameters whose error was nil, the signature parameter), or
//	 (b) the path was admitted by a condition (a memo hit: map lookup / in-package predicate / Load-style call)
//	     that is a function of ALL of pubkey, domain, epoch, message root and signature (directly, or through the
//	     signing root computed from domain, epoch and root by GetDataRoot).
//
// A memo whose key leaves one of them out admits a signature verified for one (domain, epoch, root, share) under
// another: positive evidence, VIOLATION. A path that returns nil with neither is a VIOLATION too. Values whose
// provenance is not followed give UNDECIDED. Insertions into a memo map that is consulted on an admitting path
// must happen only after (a) held, under a key that again names all five inputs.
//
// The rule is value/fact based (c10sym.go): helper extraction, if/switch, early return vs single exit, named
// conditions, the order of the zero-signature test and the root computation do not matter.

import (
	"fmt"
	"go/types"
	"sort"
	"strings"

	"golang.org/x/tools/go/ssa"

	"charonverif/internal/an"
	"charonverif/internal/rt"
)

const (
	c10SigningPkg  = "eth2util/signing"
	c10SigVerify   = c10SigningPkg + ".Verify"
	c10SigDataRoot = c10SigningPkg + ".GetDataRoot"
	c10TblsVerify  = "tbls.Verify"
	c10SigFile     = "eth2util/signing/signing.go"
)

func init() {
	Extend("C10", "(H7) signing.Verify returns nil only after tbls.Verify succeeded on (pubkey, GetDataRoot(domain, epoch, root) of this call, signature), or through a memo whose key is a function of all of pubkey, domain, epoch, message root and signature; a memo is filled only after such a verification.",
		func(c *rt.Ctx) { c.Rule("H7", 4, func() { c10H7(c) }) }, c10H7Mutants...)
}

// c10H7Inputs: the five inputs of signing.Verify, by type.
var c10H7Inputs = []struct{ name, typ string }{
	{"pubkey", "tbls.PublicKey"},
	{"domain", c10SigningPkg + ".DomainName"},
	{"epoch", "phase0.Epoch"},
	{"message root", "phase0.Root"},
	{"signature", "phase0.BLSSignature"},
}

func c10H7(c *rt.Ctx) {
	fn := c.Fn(c10SigVerify)
	sums := c10NewSums()
	keepRoot := func(f *ssa.Function) bool { return an.FuncName(f) == c10SigDataRoot }
	top := &c10W{fn: fn, sums: sums, noInline: keepRoot}
	tcx := top.cx(c10NewState())
	inputs := make([]*c10T, len(c10H7Inputs))
	for i, in := range c10H7Inputs {
		for _, p := range fn.Params {
			if strings.HasSuffix(an.TypeName(p.Type()), in.typ) {
				if inputs[i] != nil {
					c.Bail("signing.Verify: more than one parameter of type %s", in.typ)
				}
				inputs[i] = tcx.term(p)
			}
		}
		if inputs[i] == nil {
			c.Bail("signing.Verify: no parameter of type %s", in.typ)
		}
	}
	isCall := func(name string) func(ssa.Instruction) bool {
		return func(in ssa.Instruction) bool {
			call, ok := in.(ssa.CallInstruction)
			return ok && an.Static(name)(call.Common())
		}
	}
	tblsSites := c10Down(fn, isCall(c10TblsVerify))
	if len(tblsSites) == 0 {
		c.Bail("no call to tbls.Verify in (or below) signing.Verify")
	}
	if len(c10Down(fn, isCall(c10SigDataRoot))) == 0 {
		c.Bail("no call to GetDataRoot in (or below) signing.Verify")
	}
	mentions := func(t, in *c10T) bool { return c10Mentions(t, func(s *c10T) bool { return s.s == in.s }) }
	// missing lists the inputs t is not a function of
	missing := func(t *c10T) []string {
		var out []string
		for i, in := range inputs {
			if !mentions(t, in) {
				out = append(out, c10H7Inputs[i].name)
			}
		}
		return out
	}
	// verified: the state knows a tbls.Verify success on the right operands; why: what is wrong otherwise
	verified := func(cx c10Cx) (ok, unsure bool, why string) {
		facts := c10SuccessFacts(cx.st, c10TblsVerify)
		if len(facts) == 0 {
			return false, false, ""
		}
		for _, t := range facts {
			c10Debug("H7 tbls.Verify fact %s", t)
			if len(t.args) != 3 {
				return false, true, "tbls.Verify: unexpected arity"
			}
			switch {
			case !c10RootedAt(t.args[0], inputs[0]):
				why = "tbls.Verify is not given the pubkey parameter"
				unsure = c10LeafUnsure(t.args[0], c10SigningPkg+".")
				continue
			case !mentions(t.args[2], inputs[4]):
				why = "tbls.Verify is not given the signature parameter"
				unsure = c10LeafUnsure(t.args[2], c10SigningPkg+".")
				continue
			}
			// the message: the value result of a GetDataRoot call on this call's domain, epoch and root whose error is nil
			var root *c10T
			if call, rcx := c10H7RootOf(cx, t, tblsSites); call != nil {
				root = rcx.term(call)
			} else {
				// (the term of the message itself may name the call: values passed through phis / spills)
				c10Walk(t.args[1], func(s *c10T) {
					if s.op == "call" && c10CallName(s) == c10SigDataRoot {
						root = s
					}
				})
			}
			switch {
			case root == nil || root.op != "call":
				why = "the message given to tbls.Verify is not followed to the signing root computed by GetDataRoot"
				unsure = !c10H7IsInput(t.args[1], inputs)
				continue
			case cx.lookupFact(c10mk("ext", "1", root)) != c10Nil:
				why = "the error of GetDataRoot does not stop the verification"
				unsure = cx.st.taint
				continue
			}
			rootArgs := root.args
			var miss []string
			for i := 1; i <= 3; i++ {
				found := false
				for _, a := range rootArgs {
					if c10RootedAt(a, inputs[i]) {
						found = true
					}
				}
				if !found {
					miss = append(miss, c10H7Inputs[i].name)
				}
			}
			if len(miss) > 0 {
				why = "the signing root verified is not computed from this call's " + strings.Join(miss, ", ")
				unsure = false
				continue
			}
			return true, false, ""
		}
		return false, unsure, why
	}
	// ---- (1) success returns
	var below []string
	for _, site := range append(c10Down(fn, isCall(c10SigDataRoot)), tblsSites...) {
		below = append(below, fmt.Sprintf(":%p", site.in))
	}
	w := &c10W{fn: fn, tracked: c10Named(c10TblsVerify, c10SigDataRoot), sums: sums, noInline: keepRoot}
	states, rets := c10SuccessStates(w)
	if w.overflow || len(states) == 0 {
		c.Bail("signing.Verify: success paths not enumerable")
	}
	type agg struct {
		good  int
		memo  int
		bad   string
		maybe string
	}
	byRet := map[*ssa.Return]*agg{}
	var order []*ssa.Return
	memoMaps := map[string]*c10T{}
	for i, st := range states {
		a := byRet[rets[i]]
		if a == nil {
			a = &agg{}
			byRet[rets[i]] = a
			order = append(order, rets[i])
		}
		cx := w.cx(st)
		ok, unsure, why := verified(cx)
		if ok {
			a.good++
			continue
		}
		if why != "" {
			if unsure {
				a.maybe = why
			} else {
				a.bad = why
			}
			continue
		}
		// no verification on this path: what admitted it?
		adm := c10H7Admissions(st, below)
		c10Debug("H7 unverified success state, %d admissions %v taint=%v", len(adm), adm, st.taint)
		c10DebugState(st)
		switch {
		case len(adm) == 0 && st.taint:
			a.maybe = "the status of the verification is tested in a way that is not understood"
		case len(adm) == 0:
			a.bad = "signing.Verify can return a nil error without tbls.Verify having succeeded"
		default:
			best := []string(nil)
			full := false
			for _, t := range adm {
				m := missing(t)
				if len(m) == 0 {
					full = true
				}
				if best == nil || len(m) < len(best) {
					best = m
				}
				if (t.op == "lookup" || t.op == "lookupok" || t.op == "lookup2") && len(t.args) == 2 {
					memoMaps[t.args[0].s] = t.args[0]
				}
			}
			if full {
				a.memo++
			} else {
				opaque := false
				for _, t := range adm {
					if c10H7Opaque(t) {
						opaque = true
					}
				}
				msg := fmt.Sprintf("signing.Verify returns nil without tbls.Verify when a condition holds that does not depend on the %s of this call (a memo of verified signatures must be keyed by pubkey, domain, epoch, message root and signature)", strings.Join(best, ", "))
				if opaque || st.taint {
					a.maybe = msg
				} else {
					a.bad = msg
				}
			}
		}
	}
	for _, r := range order {
		a := byRet[r]
		switch {
		case a.bad != "":
			c.Bad("signing.Verify nil only via tbls.Verify(pubkey, GetDataRoot(domain, epoch, root), signature)", posOf(r), a.bad)
		case a.maybe != "":
			c.Unsure("signing.Verify nil only via tbls.Verify(pubkey, GetDataRoot(domain, epoch, root), signature)", posOf(r), a.maybe)
		default:
			if a.good > 0 {
				c.Good("signing.Verify nil only via tbls.Verify(pubkey, GetDataRoot(domain, epoch, root), signature)", posOf(r), "")
			}
			if a.memo > 0 {
				c.Good("signing.Verify memo hit keyed by all inputs", posOf(r), "")
			}
		}
	}
	// vacuity guards counted as instances: the operands are the parameters (3 inputs of the root, pubkey, signature)
	c.Good("signing.Verify inputs resolved", fn.Pos(), "")
	c.Good("signing.Verify reaches tbls.Verify", fn.Pos(), "")
	c.Good("signing.Verify reaches GetDataRoot", fn.Pos(), "")
	// ---- (2) a memo map consulted on an admitting path is filled only after the verification, under a full key
	if len(memoMaps) == 0 {
		return
	}
	ups := c10Down(fn, func(in ssa.Instruction) bool { _, ok := in.(*ssa.MapUpdate); return ok })
	for _, site := range ups {
		up := site.in.(*ssa.MapUpdate)
		sts, sw, overflow := c10StatesAtSite(func(f *ssa.Function, ch c10Chain) *c10W {
			return &c10W{fn: f, ch: ch, tracked: c10Named(c10TblsVerify, c10SigDataRoot), sums: sums, noInline: keepRoot}
		}, site)
		if overflow {
			c.Unsure("signing.Verify memo filled only after verification", posOf(up), "paths to the insertion not enumerable")
			continue
		}
		for _, st := range sts {
			cx := c10Cx{w: sw, ch: site.ch, st: st}
			if _, isMemo := memoMaps[cx.term(up.Map).s]; !isMemo {
				continue
			}
			v := c10Verdict{ok: true}
			if ok, unsure, why := verified(cx); !ok {
				if why == "" {
					why = "tbls.Verify has not succeeded"
				}
				v = c10Verdict{unsure: unsure || st.taint, why: "an entry is added to the memo of verified signatures on a path on which " + why}
			} else if kv := c10mk("entry", "", cx.term(up.Key), cx.term(up.Value)); len(missing(kv)) > 0 {
				// (an input may be remembered as the value and compared on the hit)
				v = c10Verdict{unsure: c10H7Opaque(kv), why: "the memo of verified signatures is filled under a key that does not include the " + strings.Join(missing(kv), ", ")}
			}
			v.report(c, "signing.Verify memo filled only after verification", posOf(up))
			if !v.ok {
				break
			}
		}
	}
}

// c10H7IsInput: the term is (a slice / field path of) one of the inputs themselves.
func c10H7IsInput(t *c10T, inputs []*c10T) bool {
	for t.op == "slice" && len(t.args) > 0 {
		t = t.args[0]
	}
	for _, in := range inputs {
		if c10RootedAt(t, in) {
			return true
		}
	}
	return false
}

// c10H7RootOf follows the message operand of the tbls.Verify call described by fact to the GetDataRoot call whose
// value result it is: through slicing, single-assignment locals, parameters of the call chain and the value result
// of an in-package helper.
func c10H7RootOf(cx c10Cx, fact *c10T, sites []c10At) (*ssa.Call, c10Cx) {
	for _, site := range sites {
		call, ok := site.in.(*ssa.Call)
		if !ok {
			continue
		}
		scx := c10Cx{w: cx.w, ch: site.ch, st: cx.st}
		if scx.term(call).s != fact.s || len(call.Call.Args) != 3 {
			continue
		}
		v := call.Call.Args[1]
		for i := 0; i < 16; i++ {
			v = c10Strip(v)
			switch x := v.(type) {
			case *ssa.Slice:
				v = x.X
			case *ssa.Alloc:
				s := c10WholeStore(x)
				if s == nil {
					return nil, scx
				}
				v = s
			case *ssa.UnOp:
				if al, isAl := c10Strip(x.X).(*ssa.Alloc); isAl && c10WholeStore(al) != nil {
					v = c10WholeStore(al)
					continue
				}
				s, ncx := scx.source(x)
				if s == ssa.Value(x) {
					return nil, scx
				}
				v, scx = s, ncx
			case *ssa.Parameter, *ssa.FreeVar, *ssa.Phi:
				s, ncx := scx.source(x)
				if s == v {
					return nil, scx
				}
				v, scx = s, ncx
			case *ssa.Extract:
				c, isCall := x.Tuple.(*ssa.Call)
				if !isCall {
					return nil, scx
				}
				if x.Index == 0 && an.Static(c10SigDataRoot)(&c.Call) {
					return c, scx
				}
				r, ncx, ok := scx.inline(c, x.Index)
				if !ok {
					return nil, scx
				}
				v, scx = r, ncx
			case *ssa.Call:
				r, ncx, ok := scx.inline(x, 0)
				if !ok {
					return nil, scx
				}
				v, scx = r, ncx
			default:
				return nil, scx
			}
		}
	}
	return nil, cx
}

// c10Walk visits every sub-term.
func c10Walk(t *c10T, f func(*c10T)) {
	f(t)
	for _, a := range t.args {
		c10Walk(a, f)
	}
}

// c10H7Admissions: the conditions known on the path that can stand for "already verified": a map lookup that
// yielded true / present (or false for an inverted memo), a predicate or Load-style call whose boolean result
// is known. Status facts of GetDataRoot / tbls.Verify and comparisons with constants are not admissions.
func c10H7Admissions(st *c10State, below []string) []*c10T {
	var keys []string
	for k := range st.facts {
		keys = append(keys, k)
	}
	sort.Strings(keys)
	var out []*c10T
	for _, k := range keys {
		f := st.facts[k]
		t := f.t
		if t.is("ext") && len(t.args) == 1 && (t.args[0].op == "call" || t.args[0].op == "dyn" || t.args[0].op == "invoke") {
			t = t.args[0]
		}
		inner := false
		for _, b := range below {
			// established inside GetDataRoot / tbls.Verify (or below): a consequence of their status
			if strings.Contains(t.name, b) {
				inner = true
			}
		}
		if inner {
			continue
		}
		switch t.op {
		case "lookup", "lookupok", "lookup2":
			if f.a == c10True || f.a == c10False {
				out = append(out, t)
			}
		case "eq":
			// v == m[key] style memo (the stored value is compared with an input)
			for _, a := range t.args {
				if f.a == c10True && (a.op == "lookup" || a.op == "lookup2") {
					out = append(out, t)
				}
			}
		case "call", "dyn", "invoke":
			n := c10CallName(t)
			if n == c10TblsVerify || n == c10SigDataRoot {
				continue
			}
			if f.a == c10True || f.a == c10False {
				out = append(out, t)
			}
		}
	}
	return out
}

// c10H7Opaque: the term contains a value the engine does not follow (so "does not mention an input" is not
// positive evidence).
func c10H7Opaque(t *c10T) bool {
	return c10Mentions(t, func(s *c10T) bool {
		switch s.op {
		case "opaque", "deep", "phi", "freevar", "alloc", "recv":
			return true
		}
		return false
	})
}

var _ = types.Typ

// Seeded one-edit variants of signing.Verify (each replaces the function as a whole; all type-check).
const c10H7VerifyOld = "// Verify returns an error if the signature doesn't match the eth2 domain signed root.\nfunc Verify(ctx context.Context, eth2Cl eth2wrap.Client, domain DomainName, epoch eth2p0.Epoch, sigRoot eth2p0.Root,\n\tsignature eth2p0.BLSSignature, pubkey tbls.PublicKey,\n) error {\n\tsigData, err := GetDataRoot(ctx, eth2Cl, domain, epoch, sigRoot)\n\tif err != nil {\n\t\treturn err\n\t}\n\n\tvar zeroSig eth2p0.BLSSignature\n\tif signature == zeroSig {\n\t\treturn errors.New(\"no signature found\")\n\t}\n\n\treturn tbls.Verify(pubkey, sigData[:], tbls.Signature(signature))\n}\n"

var c10H7Mutants = []Mutant{
	{ID: "C10-H7-memo-key-without-domain", File: c10SigFile, Expect: "H7|nil only via",
		Old: c10H7VerifyOld,
		New: "type seenSig struct {\n\tpubkey    tbls.PublicKey\n\tepoch     eth2p0.Epoch\n\tsigRoot   eth2p0.Root\n\tsignature eth2p0.BLSSignature\n}\n\nvar seenSigs = make(map[seenSig]bool)\n\n// Verify returns an error if the signature doesn't match the eth2 domain signed root.\nfunc Verify(ctx context.Context, eth2Cl eth2wrap.Client, domain DomainName, epoch eth2p0.Epoch, sigRoot eth2p0.Root,\n\tsignature eth2p0.BLSSignature, pubkey tbls.PublicKey,\n) error {\n\tif seenSigs[seenSig{pubkey, epoch, sigRoot, signature}] {\n\t\treturn nil\n\t}\n\n\tsigData, err := GetDataRoot(ctx, eth2Cl, domain, epoch, sigRoot)\n\tif err != nil {\n\t\treturn err\n\t}\n\n\tvar zeroSig eth2p0.BLSSignature\n\tif signature == zeroSig {\n\t\treturn errors.New(\"no signature found\")\n\t}\n\n\tif err := tbls.Verify(pubkey, sigData[:], tbls.Signature(signature)); err != nil {\n\t\treturn err\n\t}\n\n\tseenSigs[seenSig{pubkey, epoch, sigRoot, signature}] = true\n\n\treturn nil\n}\n"},
	{ID: "C10-H7-memo-key-without-pubkey", File: c10SigFile, Expect: "H7|nil only via",
		Old: c10H7VerifyOld,
		New: "var verifiedRoots = make(map[[32]byte]eth2p0.BLSSignature)\n\n// Verify returns an error if the signature doesn't match the eth2 domain signed root.\nfunc Verify(ctx context.Context, eth2Cl eth2wrap.Client, domain DomainName, epoch eth2p0.Epoch, sigRoot eth2p0.Root,\n\tsignature eth2p0.BLSSignature, pubkey tbls.PublicKey,\n) error {\n\tsigData, err := GetDataRoot(ctx, eth2Cl, domain, epoch, sigRoot)\n\tif err != nil {\n\t\treturn err\n\t}\n\n\tvar zeroSig eth2p0.BLSSignature\n\tif signature == zeroSig {\n\t\treturn errors.New(\"no signature found\")\n\t}\n\n\tif prev, ok := verifiedRoots[sigData]; ok && prev == signature {\n\t\treturn nil\n\t}\n\n\terr = tbls.Verify(pubkey, sigData[:], tbls.Signature(signature))\n\tif err == nil {\n\t\tverifiedRoots[sigData] = signature\n\t}\n\n\treturn err\n}\n"},
	{ID: "C10-H7-memo-filled-before-verify", File: c10SigFile, Expect: "H7|memo filled only after verification",
		Old: c10H7VerifyOld,
		New: "type sigRequest struct {\n\tpubkey    tbls.PublicKey\n\tdomain    DomainName\n\tepoch     eth2p0.Epoch\n\tsigRoot   eth2p0.Root\n\tsignature eth2p0.BLSSignature\n}\n\nvar sigRequests = make(map[sigRequest]struct{})\n\n// Verify returns an error if the signature doesn't match the eth2 domain signed root.\nfunc Verify(ctx context.Context, eth2Cl eth2wrap.Client, domain DomainName, epoch eth2p0.Epoch, sigRoot eth2p0.Root,\n\tsignature eth2p0.BLSSignature, pubkey tbls.PublicKey,\n) error {\n\treq := sigRequest{pubkey: pubkey, domain: domain, epoch: epoch, sigRoot: sigRoot, signature: signature}\n\tif _, ok := sigRequests[req]; ok {\n\t\treturn nil\n\t}\n\n\tsigData, err := GetDataRoot(ctx, eth2Cl, domain, epoch, sigRoot)\n\tif err != nil {\n\t\treturn err\n\t}\n\n\tvar zeroSig eth2p0.BLSSignature\n\tif signature == zeroSig {\n\t\treturn errors.New(\"no signature found\")\n\t}\n\n\tsigRequests[req] = struct{}{}\n\n\treturn tbls.Verify(pubkey, sigData[:], tbls.Signature(signature))\n}\n"},
	{ID: "C10-H7-memo-predicate-without-epoch", File: c10SigFile, Expect: "H7|nil only via",
		Old: c10H7VerifyOld,
		New: "var knownSigs = make(map[string]bool)\n\n// knownSig returns true if the signature was verified before.\nfunc knownSig(pubkey tbls.PublicKey, domain DomainName, sigRoot eth2p0.Root, signature eth2p0.BLSSignature) bool {\n\treturn knownSigs[string(pubkey[:])+string(domain)+string(sigRoot[:])+string(signature[:])]\n}\n\n// Verify returns an error if the signature doesn't match the eth2 domain signed root.\nfunc Verify(ctx context.Context, eth2Cl eth2wrap.Client, domain DomainName, epoch eth2p0.Epoch, sigRoot eth2p0.Root,\n\tsignature eth2p0.BLSSignature, pubkey tbls.PublicKey,\n) error {\n\tknown := knownSig(pubkey, domain, sigRoot, signature)\n\tsigData, err := GetDataRoot(ctx, eth2Cl, domain, epoch, sigRoot)\n\tif err != nil {\n\t\treturn err\n\t}\n\n\tvar zeroSig eth2p0.BLSSignature\n\tif signature == zeroSig {\n\t\treturn errors.New(\"no signature found\")\n\t}\n\n\tif !known {\n\t\tif err := tbls.Verify(pubkey, sigData[:], tbls.Signature(signature)); err != nil {\n\t\t\treturn err\n\t\t}\n\t}\n\n\tknownSigs[string(pubkey[:])+string(domain)+string(sigRoot[:])+string(signature[:])] = true\n\n\treturn nil\n}\n"},
	{ID: "C10-H7-zero-root-admitted", File: c10SigFile, Expect: "H7|nil only via",
		Old: c10H7VerifyOld,
		New: "// Verify returns an error if the signature doesn't match the eth2 domain signed root.\nfunc Verify(ctx context.Context, eth2Cl eth2wrap.Client, domain DomainName, epoch eth2p0.Epoch, sigRoot eth2p0.Root,\n\tsignature eth2p0.BLSSignature, pubkey tbls.PublicKey,\n) error {\n\tsigData, err := GetDataRoot(ctx, eth2Cl, domain, epoch, sigRoot)\n\tif err != nil {\n\t\treturn err\n\t}\n\n\tvar zeroSig eth2p0.BLSSignature\n\tif signature == zeroSig {\n\t\treturn errors.New(\"no signature found\")\n\t}\n\n\tif sigRoot == (eth2p0.Root{}) {\n\t\treturn nil\n\t}\n\n\treturn tbls.Verify(pubkey, sigData[:], tbls.Signature(signature))\n}\n"},
}
