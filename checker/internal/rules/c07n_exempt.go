package rules

// P6 / P10 and the attribution of P7 findings, stated on the mechanism instead of on function names: the
// *tracking function* is whichever function writes exemptEntries back; the *eviction* is whatever removal
// from entries is reached from it (inline, in a helper, in a helper that is handed the tracked list).

import (
	"go/constant"
	"go/token"
	"go/types"
	"strings"

	"golang.org/x/tools/go/packages"
	"golang.org/x/tools/go/ssa"

	"charonverif/internal/an"
)

// c07capEvictOwner is the stable key under which the removals performed by the exempt-cap eviction are
// reported (it is the key of the recorded known finding; the eviction is recognised by what it does - a
// removal from entries reached from the function that maintains exemptEntries - not by this name).
const c07capEvictOwner = "core/parsigdb.MemDB.evictExemptShareEntryUnsafe"

// trackers: the functions that write exemptEntries back.
func (k *c07k) trackers() []*ssa.Function {
	var out []*ssa.Function
	for _, fn := range k.ix.Funcs {
		for _, up := range mapUpdates(fn, c07exempt) {
			if up.Parent() == fn {
				out = append(out, fn)
				break
			}
		}
	}
	return out
}

// capRemovals: the removals from entries reached from a tracking function.
func (k *c07k) capRemovals() []c07capRemoval {
	if k.capDone {
		return k.capRems
	}
	k.capDone = true
	seen := map[ssa.Instruction]bool{}
	for _, fn := range k.trackers() {
		fr := &c07frame{fn: fn}
		for _, in := range an.Instrs(fn, false) {
			for _, r := range k.removalsFrom(in, fr) {
				if !seen[r.in] {
					seen[r.in] = true
					k.capRems = append(k.capRems, r)
				}
			}
		}
	}
	return k.capRems
}

// removalOwner names the construct a removal from entries belongs to.
func (k *c07k) removalOwner(in ssa.Instruction, fn *ssa.Function) string {
	for _, r := range k.capRemovals() {
		if r.in == in {
			return c07capEvictOwner
		}
	}
	return an.FuncName(fn)
}

// p6 decides, for tracking function fn with write-backs ups: (a) once the tracked list exceeds the cap every
// path to a write-back passes an eviction (a removal from entries); (b) fn runs exactly for exempt duties.
func (k *c07k) p6(fn *ssa.Function, ups []*ssa.MapUpdate, limit, exemptC int64) {
	c := k.c
	// prior: the tracked list as looked up; grown: the list with the new key appended. The cap test may be
	// written on either (`len(grown) > max` after, `len(prior) >= max` before the append).
	var grown, prior ssa.Value
	var priorLk *ssa.Lookup
	for _, in := range an.Instrs(fn, false) {
		lk, ok := in.(*ssa.Lookup)
		if !ok || !c07exempt(lk.X) {
			continue
		}
		if priorLk != nil && !an.Equiv(priorLk, lk) && !an.Equiv(priorLk.Index, lk.Index) {
			c.Bail("trackExemptUnsafe: the tracked list is looked up under several keys")
		}
		if priorLk != nil {
			continue
		}
		priorLk = lk
		prior = lk
		if lk.CommaOk {
			prior = nil
			for _, ref := range *lk.Referrers() {
				if ex, ok := ref.(*ssa.Extract); ok && ex.Index == 0 {
					prior = ex
				}
			}
		}
	}
	derives := func(v ssa.Value) (direct, ok bool) { // v is prior, or prior re-sliced / merged
		direct = true
		for i := 0; i < 6; i++ {
			v = an.Resolve(v)
			if lk := c07lookupOf(v); lk != nil {
				return direct, c07exempt(lk.X)
			}
			switch x := v.(type) {
			case *ssa.Slice:
				v, direct = x.X, false
			case *ssa.Phi:
				for _, e := range x.Edges {
					if lk := c07lookupOf(e); lk != nil && c07exempt(lk.X) {
						return false, true
					}
				}
				return false, false
			default:
				return false, false
			}
		}
		return false, false
	}
	appends := 0
	for _, in := range an.Instrs(fn, false) {
		if call, ok := c07isBuiltin2(in, "append"); ok && len(call.Call.Args) == 2 {
			if direct, ok := derives(call.Call.Args[0]); ok {
				appends++
				if direct {
					grown = call
				}
			}
		}
	}
	if prior == nil || appends != 1 {
		c.Bail("trackExemptUnsafe: expected one lookup of exemptEntries[ek] and one append of the new key to it")
	}
	// assume the cap is exceeded (len(prior)+1 > limit): every path to a write-back must evict first
	env := an.H07Env{LenMin: func(x ssa.Value) (int64, bool) {
		switch an.Resolve(x) {
		case grown:
			return limit + 1, grown != nil
		case prior:
			return limit, true
		}
		return 0, false
	}}
	huge := an.H07Env{LenMin: func(x ssa.Value) (int64, bool) {
		r := an.Resolve(x)
		return 1 << 40, r == prior || (grown != nil && r == grown)
	}}
	isEvict := func(in ssa.Instruction) bool {
		if _, ok := c07removal(in); ok {
			return true
		}
		call, ok := in.(*ssa.Call)
		return ok && k.mustRemove(call, env, 0)
	}
	mayEvict := func(in ssa.Instruction) bool { return len(k.removalsFrom(in, &c07frame{fn: fn})) > 0 }
	capTests, evicts := 0, 0
	for _, b := range fn.Blocks {
		for _, in := range b.Instrs {
			if mayEvict(in) {
				evicts++
			}
		}
	}
	// a recognised cap test: a branch comparing the length of the tracked list with a constant (decided once the
	// list is assumed arbitrarily long) one edge of which leads to the eviction - in the tracking function or in the
	// callee that evicts. Whether its constant is the right one is what the path search below decides.
	for _, b := range fn.Blocks {
		iff, ok := b.Instrs[len(b.Instrs)-1].(*ssa.If)
		if !ok {
			continue
		}
		if _, isCmp := huge.Eval(iff.Cond); !isCmp {
			continue
		}
		for _, b2 := range fn.Blocks {
			for _, in := range b2.Instrs {
				if mayEvict(in) && (an.H07EdgeDominates(b, 0, b2) || an.H07EdgeDominates(b, 1, b2)) {
					capTests++
				}
			}
		}
	}
	if capTests == 0 {
		for _, in := range an.Instrs(fn, false) {
			if call, ok := in.(*ssa.Call); ok && mayEvict(in) && k.mustRemove(call, huge, 0) {
				capTests++ // the callee evicts once the list it is given is long enough
			}
		}
	}
	for _, up := range ups {
		path, reach := an.H07Path(fn, nil, up, isEvict, env.Prune(), nil)
		if reach && evicts > 0 && (capTests == 0 || c07pathHasFlagBranch(path)) {
			c.Unsure("trackExemptUnsafe cap before write-back", posOf(up), "the entry is evicted under a cap test that is not recognised")
			continue
		}
		c.Check("trackExemptUnsafe cap before write-back", posOf(up), !reach,
			"write-back of the per-share list is not preceded by the cap test that evicts the oldest entry: with more than maxExemptEntriesPerShare tracked keys path "+an.PathString(c.P, path)+" reaches it without evicting")
	}
	// called only on the exempt edge, and the flag is `status == DeadlineExempt`
	sites := k.callsOf(fn)
	if len(sites) == 0 {
		c.Bail("no static call of trackExemptUnsafe in the package")
	}
	for _, call := range sites {
		caller := call.Parent()
		v := c07Bad("trackExemptUnsafe is not called exactly on the exempt edge")
		seen := false
		// the flag: a parameter, or a field of a parameter object
		var cands []ssa.Value
		for _, p := range caller.Params {
			cands = append(cands, p)
		}
		for _, in := range an.Instrs(caller, false) {
			if val, isVal := in.(ssa.Value); isVal {
				if _, isField := c07fieldRead(val); isField && !c07entries(val) {
					cands = append(cands, val)
				}
			}
		}
		for _, p := range cands {
			b, ok := p.Type().Underlying().(*types.Basic)
			if !ok {
				continue
			}
			for _, cd := range an.CondsOn(caller, p) {
				switch {
				case b.Kind() == types.Bool && cd.Other == nil:
					seen = true
					if an.H07CondEdgeDominates(cd, true, call.Block()) {
						v = k.statusIs(p, exemptC, 0)
					}
				case b.Info()&types.IsInteger != 0 && cd.Other != nil && (cd.Op == token.EQL || cd.Op == token.NEQ):
					// an enum instead of a bool: `policy == retainCapped`
					cst, isC := an.Resolve(cd.Other).(*ssa.Const)
					if !isC || cst.Value == nil {
						continue
					}
					seen = true
					if an.H07CondEdgeDominates(cd, cd.Op == token.EQL, call.Block()) {
						v = k.statusIsEnum(p, cst.Value, exemptC, 0)
					}
				}
			}
		}
		if !seen && v.st == c07bad {
			for _, b := range caller.Blocks {
				if iff, ok := b.Instrs[len(b.Instrs)-1].(*ssa.If); ok && an.Dominates(iff, call) {
					v = c07Unsure("the condition under which trackExemptUnsafe is called is not a test of a flag parameter")
				}
			}
		}
		k.report("store tracks exempt entries", call.Pos(), v)
	}
}

// statusIsEnum: v equals enum constant c exactly when the status returned by deadliner.Add is `want`
// (v is a variable assigned c on the `status == want` edge and other constants elsewhere), possibly handed
// down through parameters of in-package functions that are only called statically.
func (k *c07k) statusIsEnum(v ssa.Value, cst constant.Value, want int64, depth int) c07v {
	v = an.Resolve(v)
	// the result of a classifier of the status (`policy, ok := retentionOf(status)`)
	if cv, is := k.classifiesStatus(v, cst, want); is {
		return cv
	}
	// a field of a parameter object (`b.policy`): every value stored into that field
	if _, isParam := v.(*ssa.Parameter); !isParam && depth <= 3 {
		if key, _, isField := an.FieldOf(v); isField && !strings.HasPrefix(key, memdb+".") {
			vals := k.fieldStores(key)
			if len(vals) > 0 {
				out := c07Ok()
				for _, sv := range vals {
					out = out.and(k.statusIsEnum(sv, cst, want, depth+1))
				}
				return out
			}
		}
	}
	switch x := v.(type) {
	case *ssa.Parameter:
		sites, closed := k.ix.Callers(x.Parent())
		if !closed || len(sites) == 0 || depth > 3 {
			return c07Unsure("flag is a parameter of a function that is not only called statically")
		}
		out := c07Ok()
		for _, s := range sites {
			a := an.H07ArgFor(s, an.H07ParamIndex(x))
			if a == nil {
				return c07Unsure("cannot map the flag parameter to an argument")
			}
			out = out.and(k.statusIsEnum(a, cst, want, depth+1))
		}
		return out
	case *ssa.Const:
		return c07Bad("flag is a constant")
	case *ssa.Phi:
		fn := x.Parent()
		// the branches on `status == want`
		var conds []an.Cond
		for _, in := range an.Instrs(fn, false) {
			call, ok := in.(*ssa.Call)
			if !ok || !an.Invoke("core.Deadliner.Add")(&call.Call) {
				continue
			}
			for _, cd := range an.CondsOn(fn, call) {
				if n, ok := an.ConstInt(cd.Other); ok && n == want && (cd.Op == token.EQL || cd.Op == token.NEQ) {
					conds = append(conds, cd)
				}
			}
		}
		if len(conds) == 0 {
			return c07Unsure("flag is a variable whose assignments do not recognisably depend on the status returned by deadliner.Add")
		}
		nSame := 0
		for i, e := range x.Edges {
			ec, isC := an.Resolve(e).(*ssa.Const)
			if !isC || ec.Value == nil || ec.Value.Kind() != cst.Kind() {
				return c07Unsure("flag is a variable that is assigned something that is not a constant")
			}
			same := constant.Compare(ec.Value, token.EQL, cst)
			loc := c07loc{blk: x.Block().Preds[i], phiBlk: x.Block()}
			onWant, onOther := false, false
			for _, cd := range conds {
				if loc.edgeHolds(cd, cd.Op == token.EQL) {
					onWant = true
				}
				if loc.edgeHolds(cd, cd.Op != token.EQL) {
					onOther = true
				}
			}
			switch {
			case same && onWant:
				nSame++
			case same && onOther:
				return c07Bad("flag takes the tracking value for a status other than DeadlineExempt")
			case !same && onWant:
				return c07Bad("flag does not take the tracking value for DeadlineExempt")
			case same:
				return c07Unsure("flag takes the tracking value on a path that does not recognisably depend on the deadliner status")
			}
		}
		if nSame == 0 {
			return c07Bad("flag never takes the tracking value")
		}
		return c07Ok()
	}
	return c07Unsure("origin of the exempt flag is not recognised")
}

// p10 decides that what the eviction removes from entries is the oldest tracked key: element 0 of the
// tracked list (as looked up, or with the new key appended).
func (k *c07k) p10() int {
	n := 0
	for _, rem := range k.capRemovals() {
		n++
		v := c07Unsure("origin of the evicted key is not recognised")
		if rem.key == nil {
			k.report("trackExemptUnsafe evicts the oldest tracked entry", rem.in.Pos(), c07Unsure("entries is cleared"))
			continue
		}
		kv, kfr := rem.fr.root(rem.key)
		if _, isParam := kv.(*ssa.Parameter); isParam && kfr.up == nil {
			v = c07Bad("") // the key handed to the tracking function: the entry just stored
		}
		if coll, idx, ok := an.H07ElemRef(kv); ok {
			if n0, isC := an.ConstInt(idx); !isC {
				v = c07Unsure("evicted key is a tracked entry at a non-constant position")
				if sub, ok := an.Resolve(idx).(*ssa.BinOp); ok && sub.Op == token.SUB && an.H07IsLen(sub.X) != nil {
					v = c07Bad("") // counted from the end of the list: the newest entries
				}
			} else if n0 != 0 {
				v = c07Bad("")
			} else if k.fromExempt(coll, kfr, 0) {
				v = c07Ok()
			}
		}
		if ld, ok := kv.(*ssa.UnOp); ok && ld.Op == token.MUL && v.st == c07unsure {
			if _, isAlloc := ld.X.(*ssa.Alloc); isAlloc {
				v = c07Unsure("evicted key is a local assigned in several places")
			}
		}
		if v.st == c07bad {
			v.why = "the entry evicted at the cap is not element 0 of the tracked list: the partial just stored is deleted again (store still reports success) and threshold is never reached for new duties"
		}
		k.report("trackExemptUnsafe evicts the oldest tracked entry", rem.in.Pos(), v)
	}
	return n
}

// ---------------------------------------------------------------------------------------------
// anchors resolved by structure, so that renaming a private field or the matcher does not blind the rules

// c07fields maps the role of a MemDB field to its current name. The roles are recognised by type:
// entries map[K][]core.ParSignedData, keysByDuty map[core.Duty][]K, exemptEntries map[*][]K,
// threshSubs []func(..., map[...]...) error, threshold the only int, mu the mutex.
var c07fields = map[string]string{}

func c07f(role string) string {
	if n, ok := c07fields[role]; ok {
		return memdb + "." + n
	}
	return memdb + "." + role
}

func c07resolveFields(c interface {
	Pkg(string) *packages.Package
}) {
	for _, r := range []string{"entries", "keysByDuty", "exemptEntries", "threshSubs", "threshold", "mu"} {
		c07fields[r] = r
	}
	obj := c.Pkg("core/parsigdb").Types.Scope().Lookup("MemDB")
	if obj == nil {
		return
	}
	st, ok := obj.Type().Underlying().(*types.Struct)
	if !ok {
		return
	}
	found := map[string][]string{}
	var keyT types.Type
	for i := 0; i < st.NumFields(); i++ {
		if m, ok := st.Field(i).Type().Underlying().(*types.Map); ok && an.TypeName(m.Elem()) == "[]core.ParSignedData" {
			found["entries"] = append(found["entries"], st.Field(i).Name())
			keyT = m.Key()
		}
	}
	for i := 0; i < st.NumFields(); i++ {
		f := st.Field(i)
		switch t := f.Type().Underlying().(type) {
		case *types.Map:
			sl, ok := t.Elem().Underlying().(*types.Slice)
			if !ok || keyT == nil || !types.Identical(sl.Elem(), keyT) {
				continue
			}
			if an.TypeName(t.Key()) == "core.Duty" {
				found["keysByDuty"] = append(found["keysByDuty"], f.Name())
			} else {
				found["exemptEntries"] = append(found["exemptEntries"], f.Name())
			}
		case *types.Slice:
			if sig, ok := t.Elem().Underlying().(*types.Signature); ok && sig.Params().Len() > 0 {
				if _, isMap := sig.Params().At(sig.Params().Len() - 1).Type().Underlying().(*types.Map); isMap {
					if named, isNamed := sig.Params().At(sig.Params().Len() - 1).Type().(*types.Named); !isNamed || named == nil {
						found["threshSubs"] = append(found["threshSubs"], f.Name())
					}
				}
			}
		case *types.Basic:
			if t.Kind() == types.Int {
				found["threshold"] = append(found["threshold"], f.Name())
			}
		case *types.Struct:
			if n := an.TypeName(f.Type()); n == "sync.Mutex" || n == "sync.RWMutex" {
				found["mu"] = append(found["mu"], f.Name())
			}
		}
	}
	for role, names := range found {
		if len(names) == 1 { // ambiguous or missing roles keep their recorded name (the rule then ends UNDECIDED)
			c07fields[role] = names[0]
		}
	}
}

// matcherFn: the threshold matcher - by its recorded name, else the only function of the package with a list
// and an int among its parameters that returns (list, bool, error).
func (k *c07k) matcherFn(name string) *ssa.Function {
	if f := k.c.FnOpt(name); f != nil {
		return f
	}
	var cands []*ssa.Function
	for _, fn := range k.ix.Funcs {
		if fn.Parent() != nil {
			continue
		}
		sig := fn.Signature
		res := sig.Results()
		if res.Len() != 3 || an.TypeName(res.At(0).Type()) != "[]core.ParSignedData" || !an.IsErrorType(res.At(2).Type()) {
			continue
		}
		if b, ok := res.At(1).Type().Underlying().(*types.Basic); !ok || b.Kind() != types.Bool {
			continue
		}
		hasList, hasInt := false, false
		for _, p := range fn.Params {
			if an.TypeName(p.Type()) == "[]core.ParSignedData" {
				hasList = true
			}
			if b, ok := p.Type().Underlying().(*types.Basic); ok && b.Kind() == types.Int {
				hasInt = true
			}
		}
		if hasList && hasInt && !k.growsEntries(fn) {
			cands = append(cands, fn)
		}
	}
	if len(cands) != 1 {
		k.c.Bail("function %s not found and the threshold matcher is not recognisable by its signature (%d candidates)", name, len(cands))
	}
	return cands[0]
}
