package rules

import (
	"fmt"
	"go/constant"
	"go/token"
	"go/types"
	"os"

	"golang.org/x/tools/go/ssa"

	"charonverif/internal/an"
	"charonverif/internal/rt"
)

// C03 — consensus validity and integrity (DESIGN §5). Package core/qbft (generic SSA bodies) plus the
// Decide callback of core/consensus/qbft. The obligations are decided with the valuation-driven
// evaluator of c03x.go ("under assumption A the point is unreachable / every return yields k"), so
// that they are insensitive to the spelling of the guards (named booleans, merged or split
// conditions, inverted polarity, switch vs if-chains, single-exit style, hoisted locals) and follow
// in-package helpers and function literals. Anchors of Run are resolved in c03run.go.

const c03Q = "core/consensus/qbft"

func init() {
	Register(&Prop{
		ID: "C03",
		Decides: "core/qbft: (V1) every Definition.Decide call of Run lies behind the decided-latch test of the receive case (once the latch list is non-empty neither classify nor Decide can be reached), " +
			"on every path from the call back to the event loop the latch variable holds the very qcommit passed to Decide, and the latch is never cleared where a decision may already exist; " +
			"(V2) every PRE-PREPARE broadcast carrying the node's own input is unreachable when that input (same assignment) is the zero value (receive case and broadcastOwnPrePrepare), " +
			"and isJustifiedPrePrepare returns false whenever msg.Value() is the zero value; " +
			"(V3) classify returns UponQuorumCommits only where len(list) >= Quorum() holds for the returned list = filterMsgs(flatten(buffer), COMMIT, msg.Round(), msg.Value()), " +
			"returns UponJustifiedDecided only for a DECIDED message with its own justification, for a DECIDED message isJustified returns exactly the verdict of isJustifiedDecided (which accepts only behind a quorum of COMMITs of the message's justification, round and value), " +
			"the filter function, walked in the activation of each of those two commit-quorum calls under 'the element's Type()/Round()/Value() differs from the criterion this caller passes', cannot reach an instruction that adds the element to its result (a criterion is applied for every value the caller can pass, the zero value included), " +
			"and Run calls Decide only for those two rules with (msg.Value(), msg.Round(), classify's justification); " +
			"(V4) the Decide callback of core/consensus/qbft hands subscribers UnmarshalNew of qcommit[i].Values()[valueHash] (checked lookup by the decided hash; Values() is the recomputed-hash map, C05-A3); " +
			"(V5) the only other PRE-PREPARE value is pv of getSingleJustifiedPrPv(justification), unreachable when its ok result is false, inside the UponQuorumRoundChanges branch, with classify handing over the checked result of getJustifiedQrc. " +
			"(V6) walked under 'msg.Type() == PRE-PREPARE and every Definition.IsLeader(instance, msg.Round(), msg.Source()) call yields false', every reachable return of isJustified (helpers entered) yields false: a PRE-PREPARE is accepted only from the designated leader of its round; " +
			"(V7) core/consensus/qbft: every key removed from the per-duty instances map (map[core.Duty]*instance.IO), followed backwards through parameters to all in-package call sites, captured variables, local cells and helper results, is a duty received from a channel obtained from core.Deadliner.C() (the once-only Running/Proposed/Participated markers of a decided duty survive until the duty expires, so a late Propose/Participate cannot start a second instance). " +
			"Relies on C02-Q1/Q2/Q4 (source-unique quorums, justified-before-classified, justification predicates) and C05-A1/A3 (values map keyed by recomputed hashes).",
		NotDecided: "'some leader proposed the value' as a history property over schedules and adversaries; that Quorum() > 0 (a decided qcommit is non-empty, so the latch test sees it); purity of the Msg accessors.",
		Run:        c03,
		Mutants:    append(append(c03Mutants, c03n5LeaderMutants...), c03n5InstanceMutants...),
	})
}

func c03(c *rt.Ctx) {
	c.Rule("V1", 4, func() { c03V1(c) })
	c.Rule("V2", 2, func() { c03V2(c) })
	c.Rule("V3", 20, func() { c03V3(c) })
	c.Rule("V4", 4, func() { c03V4(c) })
	c.Rule("V5", 7, func() { c03V5(c) })
	c.Rule("V6", 1, func() { c03V6(c) })
	c.Rule("V7", 1, func() { c03V7(c) })
}

// ---------------------------------------------------------------------------------------------
// V1 — single, latched decision

// c03Latch is a comparison in Run (or a function literal on the call chain) telling whether a decision
// has been recorded.
type c03Latch struct {
	bin     *ssa.BinOp
	x       ssa.Value // the tested list
	decided bool      // truth value of bin once the list is non-empty
	fr      *c03Frame // activation the comparison is evaluated in
}

// c03Latches finds `len(x) > 0`-style comparisons (and x != nil) on lists of type typ in fn; length
// comparisons against something that is not a recognised constant are returned as odd.
func c03Latches(fn *ssa.Function, typ types.Type) (out []c03Latch, odd []c03Latch) {
	for _, in := range an.Instrs(fn, false) {
		bin, ok := in.(*ssa.BinOp)
		if !ok || !c03IsCmp(bin.Op) {
			continue
		}
		x, y, op := bin.X, bin.Y, bin.Op
		if arg := c03LenArg(y); arg != nil || (c03SameType(y.Type(), typ) && !an.IsNilConst(y)) {
			x, y, op = y, x, c03Flip(op)
		}
		if arg := c03LenArg(x); arg != nil {
			if !c03SameType(arg.Type(), typ) {
				continue
			}
			n, isC := an.ConstInt(y)
			if !isC {
				if _, isT := c03Threshold(y); !isT {
					odd = append(odd, c03Latch{bin: bin, x: arg})
				}
				continue
			}
			switch {
			case (op == token.GTR || op == token.NEQ) && n == 0, op == token.GEQ && n == 1:
				out = append(out, c03Latch{bin: bin, x: arg, decided: true})
			case (op == token.EQL || op == token.LEQ) && n == 0, op == token.LSS && n == 1:
				out = append(out, c03Latch{bin: bin, x: arg, decided: false})
			default:
				odd = append(odd, c03Latch{bin: bin, x: arg})
			}
			continue
		}
		if c03SameType(x.Type(), typ) && an.IsNilConst(y) {
			switch op {
			case token.NEQ:
				out = append(out, c03Latch{bin: bin, x: x, decided: true})
			case token.EQL:
				out = append(out, c03Latch{bin: bin, x: x, decided: false})
			}
		}
	}
	return
}

// cuts: the latch comparison is evaluated on every path to sink s (of activation sfr), and once it says
// "decided" the sink cannot be reached without evaluating it again.
func (l c03Latch) cuts(r *c03Run, sfr *c03Frame, s ssa.Instruction) (good bool, unsure bool, why string) {
	if !r.dominatesPt(l.fr, l.bin, sfr, s) {
		return false, true, "the decided-test does not dominate it"
	}
	reach, und := r.reachAfter(r.eng.under(c03NoFacts().val(l.bin, c03Bool(l.decided))), l.fr, l.bin, sfr, s)
	if und {
		return false, true, "too many paths"
	}
	if reach {
		return false, false, "it is reachable although the test says that a decision is already recorded"
	}
	return true, false, ""
}

// c03Delivered returns the values phi p (in a loop header) receives along every CFG path from
// block `from` back to the header; ok=false if the search was cut short.
func c03Delivered(from *ssa.BasicBlock, p *ssa.Phi) (vals []ssa.Value, ok bool) {
	h := p.Block()
	seen := map[ssa.Value]bool{}
	onPath := map[*ssa.BasicBlock]bool{}
	budget := 20000
	resolve := func(v ssa.Value, env map[*ssa.Phi]ssa.Value) ssa.Value {
		for i := 0; i < 16; i++ {
			ph, isPhi := v.(*ssa.Phi)
			if !isPhi {
				return v
			}
			nv, has := env[ph]
			if !has {
				return v
			}
			v = nv
		}
		return v
	}
	predIdx := func(s, b *ssa.BasicBlock) int {
		for i, q := range s.Preds {
			if q == b {
				return i
			}
		}
		return -1
	}
	var walk func(b *ssa.BasicBlock, env map[*ssa.Phi]ssa.Value)
	walk = func(b *ssa.BasicBlock, env map[*ssa.Phi]ssa.Value) {
		if budget--; budget < 0 {
			return
		}
		onPath[b] = true
		defer delete(onPath, b)
		for _, s := range b.Succs {
			idx := predIdx(s, b)
			if idx < 0 {
				continue
			}
			if s == h {
				if v := resolve(p.Edges[idx], env); !seen[v] {
					seen[v] = true
					vals = append(vals, v)
				}
				continue
			}
			if onPath[s] {
				continue
			}
			nenv := make(map[*ssa.Phi]ssa.Value, len(env)+2)
			for k, v := range env {
				nenv[k] = v
			}
			for _, in := range s.Instrs {
				ph, isPhi := in.(*ssa.Phi)
				if !isPhi {
					break
				}
				nenv[ph] = resolve(ph.Edges[idx], env)
			}
			walk(s, nenv)
		}
	}
	walk(from, map[*ssa.Phi]ssa.Value{})
	return vals, budget >= 0
}

// c03DerivedFrom: q occurs among the (transitive, shallow) operands of v (clone, re-slice, append of q).
func c03DerivedFrom(v, q ssa.Value, d int) bool {
	if v == q {
		return true
	}
	in, ok := v.(ssa.Instruction)
	if !ok || d > 3 {
		return false
	}
	for _, op := range an.Operands(in) {
		if c03DerivedFrom(op, q, d+1) {
			return true
		}
	}
	return false
}

func c03LoopOf(fn *ssa.Function, header *ssa.BasicBlock) *an.Loop {
	for _, l := range an.Loops(fn) {
		if l.Header == header {
			return l
		}
	}
	return nil
}

// c03Flow follows the assignments of one captured variable along the control flow of Run and the
// function literals it calls (entered at their call sites, left into the calling activation).
type c03Flow struct {
	r       *c03Run
	cell    *c03Cell
	q       ssa.Value // the value the variable should hold
	qfr     *c03Frame
	targets map[ssa.Instruction]bool
	floor   *c03Frame // do not continue into the caller of this activation
	seen    map[c03FlowKey]bool
	sub     map[c03FlowSub]*c03Frame
	touch   map[*ssa.Function]int
	arrived []int // states at the targets: 1 holds q, 2 holds something else, 3 unknown
	budget  int
}

type c03FlowKey struct {
	fr *c03Frame
	at ssa.Instruction
	s  int
}

type c03FlowSub struct {
	fr *c03Frame
	in ssa.Instruction
}

// touches: g (or a function literal it calls) assigns the variable or contains a target.
func (f *c03Flow) touches(g *ssa.Function) bool {
	switch f.touch[g] {
	case 1:
		return true
	case 2, 3:
		return false
	}
	f.touch[g] = 3
	res := false
	for _, in := range an.Instrs(g, false) {
		if f.targets[in] {
			res = true
		}
		switch x := in.(type) {
		case *ssa.Store:
			if f.r.cellAddr(x.Addr) == f.cell {
				res = true
			}
		case ssa.CallInstruction:
			if !x.Common().IsInvoke() {
				if h := f.r.closureOf(x.Common().Value); h != nil && h != f.r.fn && h != g && f.touches(h) {
					res = true
				}
			}
		}
	}
	if res {
		f.touch[g] = 1
	} else {
		f.touch[g] = 2
	}
	return res
}

func (f *c03Flow) run(fr *c03Frame, b *ssa.BasicBlock, i int, s int) {
	if f.budget--; f.budget < 0 {
		f.arrived = append(f.arrived, 3)
		return
	}
	for ; i < len(b.Instrs); i++ {
		in := b.Instrs[i]
		if f.targets[in] {
			f.arrived = append(f.arrived, s)
			return
		}
		switch x := in.(type) {
		case *ssa.Store:
			if f.r.cellAddr(x.Addr) == f.cell {
				if f.r.sameAt(fr, x.Val, f.qfr, f.q) {
					s = 1
				} else {
					s = 2
				}
				if os.Getenv("C03DEBUG") != "" {
					fmt.Fprintf(os.Stderr, "c03: flow store in %s: %s -> state %d\n", fr.fn.Name(), x.String(), s)
				}
			}
		case *ssa.Return:
			if fr == f.floor || fr.up == nil || fr.site == nil {
				return
			}
			k := c03FlowKey{fr.up, fr.site, s}
			if f.seen[k] {
				return
			}
			f.seen[k] = true
			sb := fr.site.Block()
			for j, y := range sb.Instrs {
				if y == ssa.Instruction(fr.site) {
					f.run(fr.up, sb, j+1, s)
				}
			}
			return
		case ssa.CallInstruction:
			if x.Common().IsInvoke() {
				continue
			}
			g := f.r.closureOf(x.Common().Value)
			if g == nil || g == f.r.fn || !f.touches(g) {
				continue
			}
			if _, isCall := x.(*ssa.Call); !isCall || fr.depth() >= 7 || fr.has(g) || len(g.Blocks) == 0 || len(g.Params) != len(x.Common().Args) {
				s = 3
				continue
			}
			sk := c03FlowSub{fr, in}
			nf := f.sub[sk]
			if nf == nil {
				nf = &c03Frame{fn: g, up: fr, site: x}
				f.sub[sk] = nf
			}
			k := c03FlowKey{nf, g.Blocks[0].Instrs[0], s}
			if f.seen[k] {
				return
			}
			f.seen[k] = true
			f.run(nf, g.Blocks[0], 0, s)
			return // control continues after the call when the callee returns
		}
	}
	for _, nb := range b.Succs {
		if len(nb.Instrs) == 0 {
			continue
		}
		k := c03FlowKey{fr, nb.Instrs[0], s}
		if f.seen[k] {
			continue
		}
		f.seen[k] = true
		f.run(fr, nb, 0, s)
	}
}

func (f *c03Flow) verdict() int {
	if len(f.arrived) == 0 {
		return 0
	}
	v := 1
	for _, a := range f.arrived {
		if a == 2 {
			return 2
		}
		if a == 3 {
			v = 3
		}
	}
	return v
}

// c03CellHolds: the latch is the captured variable `cell`. On every path from the Decide call dc (of
// activation dfr) to the next load of the cell by a latch comparison, the last assignment of the cell is
// the qcommit q.
func c03CellHolds(r *c03Run, cell *c03Cell, tests map[ssa.Instruction]bool, dfr *c03Frame, dc ssa.CallInstruction, q ssa.Value) (good, unsure bool, why string) {
	mk := func(targets map[ssa.Instruction]bool, floor *c03Frame) *c03Flow {
		return &c03Flow{r: r, cell: cell, q: q, qfr: dfr, targets: targets, floor: floor, seen: map[c03FlowKey]bool{},
			sub: map[c03FlowSub]*c03Frame{}, touch: map[*ssa.Function]int{}, budget: 50000}
	}
	// what the variable holds when the Decide call is reached (assignments in the activation of dc only)
	pre := mk(map[ssa.Instruction]bool{dc: true}, dfr)
	pre.run(dfr, dfr.fn.Blocks[0], 0, 2)
	state := pre.verdict()
	if os.Getenv("C03DEBUG") != "" {
		fmt.Fprintf(os.Stderr, "c03: cellHolds pre verdict=%d arrived=%v\n", state, pre.arrived)
	}
	if state == 0 {
		state = 2
	}
	post := mk(tests, nil)
	idx := 0
	for i, in := range dc.Block().Instrs {
		if in == ssa.Instruction(dc) {
			idx = i + 1
		}
	}
	post.run(dfr, dc.Block(), idx, state)
	if os.Getenv("C03DEBUG") != "" {
		fmt.Fprintf(os.Stderr, "c03: cellHolds post arrived=%v\n", post.arrived)
	}
	switch post.verdict() {
	case 1:
		return true, false, ""
	case 2:
		return false, false, "on a path from the Decide call back to the decided-test the latch variable does not hold the qcommit passed to Decide"
	case 3:
		return false, true, "the assignments of the latch variable could not be followed through the function literals of Run"
	}
	return false, true, "no path from the Decide call back to the decided-test"
}

func c03V1(c *rt.Ctx) {
	r := c03NewRun(c)
	decides := c03DecideCalls(r)
	if len(decides) == 0 {
		c.Bail("Run: no call through Definition.Decide found")
	}
	var qt types.Type
	for _, dc := range decides {
		if len(dc.Common().Args) != 5 {
			c.Bail("Definition.Decide: unexpected arity")
		}
		qt = dc.Common().Args[4].Type()
	}
	// latch tests of the activations on the call chains to classify and to the Decide calls
	var latches []c03Latch
	undecidedWhy := ""
	onChain := map[*ssa.Function]bool{}
	collect := func(fr *c03Frame) {
		for f := fr; f != nil; f = f.up {
			if onChain[f.fn] {
				continue
			}
			onChain[f.fn] = true
			ls, odd := c03Latches(f.fn, qt)
			for _, l := range ls {
				l.fr = f
				latches = append(latches, l)
			}
			for _, o := range odd {
				// only a list that can carry the decision from one event to the next matters: a state
				// variable, or a value carried around the event loop
				_, isPhi := an.Unwrap(o.x).(*ssa.Phi)
				if isPhi || r.cellOf(o.x) != nil {
					undecidedWhy = "a length test of a message list in Run compares with something other than a recognised constant"
				}
			}
		}
	}
	collect(r.cfr)
	dfrs := map[ssa.CallInstruction]*c03Frame{}
	for _, dc := range decides {
		if dfr := r.frameOf(dc.Parent()); dfr != nil {
			dfrs[dc] = dfr
			collect(dfr)
		}
	}
	// a latch test in a function literal off the call chains cannot be related to the control flow
	latchCell := func(cell *c03Cell) bool {
		for _, st := range r.stores(cell) {
			for _, dc := range decides {
				if dfr := dfrs[dc]; dfr != nil {
					for _, sf := range r.framesOf(st.Parent()) {
						if c03IsAncestor(sf, dfr) && r.sameAt(sf, st.Val, dfr, dc.Common().Args[4]) {
							return true
						}
					}
				}
			}
		}
		return false
	}
	for _, f := range r.all {
		if onChain[f] {
			continue
		}
		l, _ := c03Latches(f, qt)
		for _, x := range l {
			if cell := r.cellOf(x.x); cell != nil && latchCell(cell) && undecidedWhy == "" {
				undecidedWhy = "a function literal of Run outside the call chain tests whether the list that records the decision is empty"
			}
		}
	}
	sameVar := func(a, b c03Latch) bool {
		if ca := r.cellOf(a.x); ca != nil {
			return ca == r.cellOf(b.x)
		}
		pa, ok1 := an.Unwrap(a.x).(*ssa.Phi)
		pb, ok2 := an.Unwrap(b.x).(*ssa.Phi)
		if !ok1 || !ok2 {
			return a.x == b.x
		}
		web, _ := c03PhiWeb(pa)
		return web[pb]
	}
	// holds: on every path from the Decide call back to the latch test the latch holds the qcommit argument
	holds := func(l c03Latch, dfr *c03Frame, dc ssa.CallInstruction) (good bool, unsure bool, why string) {
		q := dc.Common().Args[4]
		if cell := r.cellOf(l.x); cell != nil {
			tests := map[ssa.Instruction]bool{}
			for _, o := range latches {
				if sameVar(l, o) {
					if ld, ok := an.Unwrap(o.x).(*ssa.UnOp); ok {
						tests[ld] = true
					}
				}
			}
			return c03CellHolds(r, cell, tests, dfr, dc, q)
		}
		p, isPhi := an.Unwrap(l.x).(*ssa.Phi)
		if !isPhi || dfr != r.root || l.fr != r.root {
			return false, false, "the tested list is never assigned the qcommit passed to Decide"
		}
		loop := c03LoopOf(r.fn, p.Block())
		if loop == nil || !loop.Body[dc.Block()] {
			return false, false, "the tested list is not carried around the event loop containing the Decide call"
		}
		vals, complete := c03Delivered(dc.Block(), p)
		if !complete {
			return false, true, "too many paths from the Decide call to the loop header"
		}
		if len(vals) == 0 {
			return false, true, "no path from the Decide call back to the event loop"
		}
		web, _ := c03PhiWeb(p)
		for _, v := range vals {
			if r.same(v, q) {
				continue
			}
			if ph, ok := v.(*ssa.Phi); (ok && web[ph]) || an.IsNilConst(v) {
				return false, false, "on a path from the Decide call back to the event loop the latch is not set to the qcommit passed to Decide"
			}
			if c03DerivedFrom(v, q, 0) {
				return false, true, "the latch is set to a value derived from, but not identical to, the qcommit passed to Decide"
			}
			if _, isPhi := v.(*ssa.Phi); isPhi {
				return false, true, "the value the latch is set to is merged from several assignments"
			}
			return false, false, "on a path from the Decide call back to the event loop the latch is set to something other than the qcommit passed to Decide"
		}
		return true, false, ""
	}
	flagHint := ""
	{
		// where no list-length test guards Decide, the decision may be recorded in another form (a boolean or enum
		// state variable set where Decide is called, or carried around the event loop); the rule does not
		// follow that form, which is not evidence that the mechanism is absent
		for _, dc := range decides {
			for _, in := range an.Instrs(dc.Parent(), false) {
				st, ok := in.(*ssa.Store)
				if !ok || r.cellAddr(st.Addr) == nil {
					continue
				}
				// only assignments tied to the Decide call: on the same straight path, and not already on the
				// way to classify (initialisation, per-event bookkeeping)
				if !(an.Dominates(st, dc) || an.Dominates(dc, st)) || (r.classify.Parent() == st.Parent() && an.Dominates(st, r.classify)) {
					continue
				}
				if b, ok := st.Val.Type().Underlying().(*types.Basic); ok && b.Info()&(types.IsBoolean|types.IsInteger) != 0 {
					if _, isConst := an.Unwrap(st.Val).(*ssa.Const); isConst {
						flagHint = "the decision may be recorded in a flag (a state variable is set to a constant where Decide is called) instead of the qcommit list"
					}
				}
			}
		}
		for _, in := range an.Instrs(r.fn, false) {
			ph, ok := in.(*ssa.Phi)
			if !ok {
				continue
			}
			if b, ok := ph.Type().Underlying().(*types.Basic); ok && b.Kind() == types.Bool && c03LoopOf(r.fn, ph.Block()) != nil {
				_, inputs := c03PhiWeb(ph)
				for _, e := range inputs {
					if k, isConst := e.(*ssa.Const); isConst && k.Value != nil && k.Value.Kind() == constant.Bool && constant.BoolVal(k.Value) {
						flagHint = "the decision may be recorded in a boolean carried around the event loop instead of the qcommit list"
					}
				}
			}
		}
	}
	var used []c03Latch
	for _, dc := range decides {
		dfr := dfrs[dc]
		if dfr == nil {
			c.Unsure("Run Decide call", dc.Pos(), "Definition.Decide is called from a function literal of Run that is not reached through exactly one call chain")
			continue
		}
		if _, isCall := dc.(*ssa.Call); !isCall {
			c.Unsure("Run Decide call", dc.Pos(), "Definition.Decide is deferred or started as a goroutine")
			continue
		}
		// the tests that matter are those evaluated on every path to the Decide call
		relevant := latches
		var dom []c03Latch
		for _, l := range latches {
			if r.dominatesPt(l.fr, l.bin, dfr, dc) {
				dom = append(dom, l)
			}
		}
		if len(dom) > 0 {
			relevant = dom
		} else if flagHint != "" {
			for _, key := range []string{"Run Decide→decision latch set to qcommit", "Run decided-test cuts off Decide", "Run decided-test cuts off classify"} {
				c.Unsure(key, dc.Pos(), "no list-length test is evaluated on every path to Decide; "+flagHint)
			}
			continue
		}
		var mine []c03Latch
		why, unsure := "Run has no `len(list) > 0` test of a qcommit-typed list", false
		for _, l := range relevant {
			g, u, w := holds(l, dfr, dc)
			if g {
				mine = append(mine, l)
			} else {
				why = w
				unsure = unsure || u
			}
		}
		key := "Run Decide→decision latch set to qcommit"
		switch {
		case len(mine) > 0:
			c.Good(key, dc.Pos(), "every path back to the event loop carries the qcommit in the tested list")
		case unsure || undecidedWhy != "":
			c.Unsure(key, dc.Pos(), why+"; "+undecidedWhy)
		default:
			c.Bad(key, dc.Pos(), why+": a second justified DECIDED or COMMIT quorum calls Decide again")
		}
		cands := mine
		if len(cands) == 0 {
			cands = relevant
		}
		for _, sk := range []struct {
			fr   *c03Frame
			in   ssa.Instruction
			what string
		}{{dfr, dc, "Decide"}, {r.cfr, r.classify, "classify"}} {
			key := "Run decided-test cuts off " + sk.what
			good, unsure, definite, why := false, false, false, "no decided-test found"
			for _, l := range cands {
				g, u, w := l.cuts(r, sk.fr, sk.in)
				switch {
				case g:
					good = true
				case u:
					unsure = true
					if !definite {
						why = w
					}
				default:
					definite = true
					why = w
				}
			}
			switch {
			case good:
				c.Good(key, posOf(sk.in), "")
			case (unsure && !definite) || (len(cands) == 0 && undecidedWhy != ""):
				c.Unsure(key, posOf(sk.in), why+"; "+undecidedWhy)
			default:
				c.Bad(key, posOf(sk.in), sk.what+" is not confined to the undecided edge of the latch test: "+why)
			}
		}
		for _, l := range cands {
			if g, _, _ := l.cuts(r, dfr, dc); g || len(mine) > 0 {
				used = append(used, l)
			}
		}
	}
	// never cleared where a decision may exist
	done := map[*ssa.BinOp]bool{}
	for _, l := range used {
		if done[l.bin] {
			continue
		}
		done[l.bin] = true
		eng := r.eng.under(c03NoFacts().val(l.bin, c03Bool(l.decided)))
		// harmful: 0 no, 1 yes, 2 unknown
		harmful := func(fr *c03Frame, at ssa.Instruction) int {
			if !c03IsAncestor(l.fr, fr) {
				// the test lies in a helper that has returned when the assignment executes
				if !r.dominatesPt(l.fr, l.bin, fr, at) {
					return 1
				}
				reach, und := r.reachAfter(eng, l.fr, l.bin, fr, at)
				switch {
				case und:
					return 2
				case reach:
					return 1
				}
				return 0
			}
			if top, ok := c03Lift(fr, l.fr, at); ok && top.Block() != l.bin.Block() && !an.CanReach(l.bin.Block(), top.Block(), nil) {
				return 0 // cannot execute once the test has been evaluated (initialisation before the event loop)
			}
			if !r.dominatesPt(l.fr, l.bin, fr, at) {
				return 1
			}
			reach, und := r.reachAfter(eng, l.fr, l.bin, fr, at)
			switch {
			case und:
				return 2
			case reach:
				return 1
			}
			return 0
		}
		var bad ssa.Instruction
		unknown := false
		if cell := r.cellOf(l.x); cell != nil {
			for _, st := range r.stores(cell) {
				if !an.IsNilConst(st.Val) {
					continue
				}
				if st.Parent() == r.fn && st.Block().Index == 0 {
					continue // initialisation
				}
				frs := r.framesOf(st.Parent())
				if len(frs) == 0 {
					unknown = true
				}
				for _, sf := range frs {
					switch harmful(sf, st) {
					case 1:
						bad = st
					case 2:
						unknown = true
					}
				}
			}
		} else if p, ok := an.Unwrap(l.x).(*ssa.Phi); ok {
			web, _ := c03PhiWeb(p)
			loop := c03LoopOf(r.fn, p.Block())
			for ph := range web {
				for i, e := range ph.Edges {
					if !an.IsNilConst(e) || i >= len(ph.Block().Preds) {
						continue
					}
					pred := ph.Block().Preds[i]
					if loop != nil && !loop.Body[pred] {
						continue // initial value
					}
					switch harmful(r.root, pred.Instrs[len(pred.Instrs)-1]) {
					case 1:
						bad = pred.Instrs[len(pred.Instrs)-1]
					case 2:
						unknown = true
					}
				}
			}
		}
		switch {
		case bad != nil:
			c.Bad("Run decision latch never cleared", posOf(bad), "the latch is reset to nil at a point reachable after a decision: the next DECIDED/COMMIT quorum calls Decide a second time")
		case unknown:
			c.Unsure("Run decision latch never cleared", l.bin.Pos(), "whether a nil assignment of the latch can execute after a decision could not be decided")
		default:
			c.Good("Run decision latch never cleared", l.bin.Pos(), "no nil assignment outside the undecided edge")
		}
	}
}

var _ = fmt.Sprintf
var _ = constant.MakeBool

// ---------------------------------------------------------------------------------------------
// V2 — zero value never proposed / accepted

// c03InputCell finds the state cell of Run that receives the node's own input value (receive
// from the <-chan V parameter).
func c03InputCell(r *c03Run, vt types.Type) *c03Cell {
	var param *ssa.Parameter
	for _, p := range r.fn.Params {
		if ch, ok := p.Type().Underlying().(*types.Chan); ok && c03SameType(ch.Elem(), vt) {
			if param != nil {
				r.c.Bail("Run: several input value channels")
			}
			param = p
		}
	}
	if param == nil {
		r.c.Bail("Run: no <-chan V parameter")
	}
	fromParam := func(ch ssa.Value) bool {
		ch = an.Resolve(ch)
		if ch == ssa.Value(param) {
			return true
		}
		if ph, ok := ch.(*ssa.Phi); ok {
			_, ins := c03PhiWeb(ph)
			for _, in := range ins {
				if an.Resolve(in) == ssa.Value(param) {
					return true
				}
			}
		}
		if cell := r.cellOf(ch); cell != nil {
			for _, st := range r.stores(cell) {
				if an.Resolve(st.Val) == ssa.Value(param) {
					return true
				}
			}
		}
		return false
	}
	var cell *c03Cell
	found := false
	for _, in := range an.Instrs(r.fn, false) {
		var recv ssa.Value
		switch x := in.(type) {
		case *ssa.Select:
			n := 0
			for _, st := range x.States {
				if st.Dir != types.RecvOnly {
					continue
				}
				if fromParam(st.Chan) {
					for _, ref := range *x.Referrers() {
						if ex, ok := ref.(*ssa.Extract); ok && ex.Index == 2+n {
							recv = ex
						}
					}
					found = true
				}
				n++
			}
		case *ssa.UnOp:
			if x.Op == token.ARROW && fromParam(x.X) {
				recv, found = x, true
				if x.CommaOk {
					recv = nil
					for _, ref := range *x.Referrers() {
						if ex, ok := ref.(*ssa.Extract); ok && ex.Index == 0 {
							recv = ex
						}
					}
				}
			}
		}
		if recv == nil {
			continue
		}
		for _, st := range c03StoresOf(r, recv, 0) {
			if a := r.cellAddr(st.Addr); a != nil {
				if cell != nil && cell != a {
					r.c.Bail("Run: the received input value is stored into several variables")
				}
				cell = a
			}
		}
	}
	if !found {
		r.c.Bail("Run: no receive from the input value channel")
	}
	if cell == nil {
		r.c.Bail("Run: the received input value is not kept in a state variable shared with the helper closures")
	}
	return cell
}

// c03StoresOf: the stores whose value is v (looking through conversions and single-edge phis).
func c03StoresOf(r *c03Run, v ssa.Value, d int) []*ssa.Store {
	var out []*ssa.Store
	if v.Referrers() == nil || d > 3 {
		return nil
	}
	for _, ref := range *v.Referrers() {
		switch x := ref.(type) {
		case *ssa.Store:
			if x.Val == v {
				out = append(out, x)
			}
		case *ssa.ChangeType:
			out = append(out, c03StoresOf(r, x, d+1)...)
		case *ssa.Phi:
			if len(x.Edges) == 1 {
				out = append(out, c03StoresOf(r, x, d+1)...)
			}
		}
	}
	return out
}

// c03ZeroTest is a boolean value telling whether some value is the zero value.
type c03ZeroTest struct {
	v      ssa.Value // the boolean
	tested ssa.Value // the tested operand
	zero   bool      // truth value of v when tested is zero
}

// c03ZeroTestsIn lists isZeroVal(x) calls and comparisons of x with zeroVal()/a zero local/nil in fn.
func c03ZeroTestsIn(fn *ssa.Function) []c03ZeroTest {
	isZero := func(x ssa.Value) bool {
		x = an.Unwrap(x)
		if c03Static(x, "zeroVal") != nil {
			return true
		}
		if k, ok := x.(*ssa.Const); ok {
			return k.Value == nil || k.IsNil()
		}
		if ld, ok := x.(*ssa.UnOp); ok && ld.Op == token.MUL {
			if al, ok := ld.X.(*ssa.Alloc); ok {
				if sts, local := c03LocalStores(al); local && len(sts) == 0 {
					return true
				}
			}
		}
		return false
	}
	var out []c03ZeroTest
	for _, in := range an.Instrs(fn, false) {
		switch x := in.(type) {
		case *ssa.Call:
			if c03Static(x, "isZeroVal") != nil && len(x.Call.Args) == 1 {
				out = append(out, c03ZeroTest{x, x.Call.Args[0], true})
			}
		case *ssa.BinOp:
			if x.Op != token.EQL && x.Op != token.NEQ {
				continue
			}
			switch {
			case isZero(x.Y) && !isZero(x.X):
				out = append(out, c03ZeroTest{x, x.X, x.Op == token.EQL})
			case isZero(x.X) && !isZero(x.Y):
				out = append(out, c03ZeroTest{x, x.Y, x.Op == token.EQL})
			}
		}
	}
	return out
}

func c03V2(c *rt.Ctx) {
	r := c03NewRun(c)
	pps := c03PrePrepares(r)
	cell := c03InputCell(r, pps[0].inner.Common().Args[5].Type())
	isCellLoad := func(v ssa.Value) bool { return r.cellOf(v) == cell }
	// sameVersion: the operand of a zero test denotes the very value the variable holds at `anchor` (the
	// load feeding the broadcast, or a call site on the way to it)
	sameVersion := func(tested ssa.Value, anchor ssa.Instruction) (same bool, why string) {
		tested = an.Unwrap(tested)
		if tl, ok := tested.(*ssa.UnOp); ok && r.cellOf(tl) == cell {
			if ssa.Instruction(tl) == anchor {
				return true, ""
			}
			if tl.Parent() != anchor.Parent() {
				return false, ""
			}
			if w := r.writeBetween(tl, anchor, cell); w != nil {
				return false, "the input value can be re-assigned between the zero-value test and the broadcast"
			}
			if !c03PathAvoiding(tl, anchor, nil) {
				return false, ""
			}
			return true, ""
		}
		if ld, ok := anchor.(*ssa.UnOp); ok {
			if cv := r.cellValue(ld); cv != nil && r.sameAt(r.eng.root(ld.Parent()), cv, r.eng.root(ld.Parent()), tested) {
				return true, ""
			}
		}
		return false, ""
	}
	type cand struct {
		z  c03ZeroTest
		at ssa.Instruction
	}
	// helperTests: the zero tests that in-package helpers called in fn apply to an argument accepted by
	// `matches` (the input value handed to `checkInput(v) error`, `usable(v) bool`, ...). The verdict of the
	// helper is followed by the evaluator (boolean results, nil-ness of error results).
	helperTests := func(fn *ssa.Function, matches func(arg ssa.Value) bool) []cand {
		var out []cand
		for _, in := range an.Instrs(fn, false) {
			call, ok := in.(*ssa.Call)
			if !ok || call.Call.IsInvoke() || call.Call.StaticCallee() == nil {
				continue
			}
			g := r.eng.callee(&call.Call)
			if g == nil || g.Parent() != nil || len(g.Params) != len(call.Call.Args) || c03Static(call, "isZeroVal") != nil {
				continue
			}
			for i, a := range call.Call.Args {
				if !matches(a) {
					continue
				}
				for _, z := range c03ZeroTestsIn(g) {
					if an.Resolve(z.tested) != ssa.Value(g.Params[i]) {
						continue
					}
					if _, isInstr := z.v.(ssa.Instruction); isInstr {
						out = append(out, cand{z: c03ZeroTest{z.v, nil, z.zero}, at: call})
					}
				}
			}
		}
		return out
	}
	var guardedAt func(fr *c03Frame, anchor, use ssa.Instruction, depth int) (good bool, unsure bool, why string)
	guardedAt = func(fr *c03Frame, anchor, use ssa.Instruction, depth int) (good bool, unsure bool, why string) {
		fn := anchor.Parent()
		var cands []cand
		reassigned := ""
		for _, z := range c03ZeroTestsIn(fn) {
			same, w := sameVersion(z.tested, anchor)
			if w != "" {
				reassigned = w
			}
			if !same {
				continue
			}
			if at, ok := z.v.(ssa.Instruction); ok {
				cands = append(cands, cand{z: z, at: at})
			}
		}
		cands = append(cands, helperTests(fn, func(a ssa.Value) bool {
			same, _ := sameVersion(a, anchor)
			return same
		})...)
		// a function literal whose boolean result is decided by a zero test of the variable
		for _, in := range an.Instrs(fn, false) {
			call, ok := in.(*ssa.Call)
			if !ok || call.Call.IsInvoke() {
				continue
			}
			g := r.closureOf(call.Call.Value)
			if g == nil || g == r.fn || g.Signature.Results().Len() != 1 || r.writers(cell)[g] {
				continue
			}
			var inner []c03ZeroTest
			for _, z := range c03ZeroTestsIn(g) {
				if isCellLoad(z.tested) {
					inner = append(inner, z)
				}
			}
			if len(inner) == 0 {
				continue
			}
			verdict := func(zero bool) (constant.Value, int) {
				f := c03NoFacts()
				for _, z := range inner {
					f.val(z.v, c03Bool(z.zero == zero))
				}
				return r.eng.under(f).evalCall(fr, call, 0)
			}
			kz, s1 := verdict(true)
			kn, s2 := verdict(false)
			if s1 != c03Known || s2 != c03Known || kz.Kind() != constant.Bool || constant.BoolVal(kz) == constant.BoolVal(kn) {
				continue
			}
			if ssa.Instruction(call) == anchor || r.writeBetween(call, anchor, cell) != nil || !(an.Dominates(call, anchor) || c03PathAvoiding(call, anchor, nil)) {
				continue
			}
			cands = append(cands, cand{z: c03ZeroTest{call, nil, constant.BoolVal(kz)}, at: call})
		}
		if len(cands) == 0 {
			if reassigned != "" {
				return false, false, reassigned
			}
			// the test may be made by the caller of this function literal
			if fr.up != nil && fr.site != nil && depth < 4 && len(fn.Blocks) > 0 && len(fn.Blocks[0].Instrs) > 0 {
				first := fn.Blocks[0].Instrs[0]
				if first == anchor || r.writeBetween(first, anchor, cell) == nil {
					if !r.mayWrite(first, cell) {
						return guardedAt(fr.up, fr.site, fr.site, depth+1)
					}
				}
			}
			return false, false, "no zero-value test of the input value precedes the broadcast"
		}
		facts := c03NoFacts()
		for _, cd := range cands {
			facts.val(cd.z.v, c03Bool(cd.z.zero))
		}
		eng := r.eng.under(facts)
		why = "the zero-value test does not dominate the broadcast"
		dominated := false
		for _, cd := range cands {
			if !an.Dominates(cd.at, use) {
				continue
			}
			dominated = true
			reach, und := eng.reachableFrom(fr, cd.at, use)
			if und {
				unsure = true
				continue
			}
			if !reach {
				return true, false, ""
			}
			why = "the broadcast is reachable although the tested input value is zero"
		}
		if !dominated {
			return false, true, why
		}
		return false, unsure, why
	}
	guardedUse := func(fr *c03Frame, ld *ssa.UnOp, use ssa.Instruction) (good bool, unsure bool, why string) {
		return guardedAt(fr, ld, use, 0)
	}
	type seenKey struct {
		ld  ssa.Value
		use ssa.Instruction
		fr  *c03Frame
	}
	seen := map[seenKey]bool{}
	// one obligation per (load, consuming call), whatever the number of call chains leading to it
	aggs := map[seenKey]*ownAgg{}
	var order []*ownAgg
	defer func() {
		for _, a := range order {
			a.tri.report(c, a.key, a.pos, "", "a PRE-PREPARE can be broadcast with the zero value as own proposal: "+a.why, a.why)
		}
	}()
	for _, b := range pps {
		v, vfr, use := b.value(r)
		switch {
		case isCellLoad(v):
			ld := an.Unwrap(v).(*ssa.UnOp)
			if seen[seenKey{ld, use, vfr}] {
				continue
			}
			seen[seenKey{ld, use, vfr}] = true
			where := "receive case"
			if ld.Parent() != r.fn {
				where = "helper closure"
			}
			key := "Run PRE-PREPARE own input is non-zero (" + where + ")"
			ak := seenKey{ld, use, nil}
			a := aggs[ak]
			if a == nil {
				a = &ownAgg{key: key, pos: posOf(ld)}
				aggs[ak] = a
				order = append(order, a)
			}
			if use == nil || use.Parent() != ld.Parent() {
				a.add(c03Maybe, "the call consuming the loaded input value was not found")
				continue
			}
			good, unsure, why := guardedUse(vfr, ld, use)
			switch {
			case good:
				a.add(c03Yes, "")
			case unsure:
				a.add(c03Maybe, why)
			default:
				a.add(c03No, why)
			}
		case func() bool {
			// the received input itself (not re-read from the state variable)
			rv, rfr := r.eng.resolve(vfr, v)
			if use == nil || rfr != vfr {
				return false
			}
			for _, st := range r.stores(cell) {
				if sv, _ := r.eng.resolve(r.eng.root(st.Parent()), st.Val); sv == rv && st.Parent() == vfr.fn {
					return true
				}
			}
			return false
		}():
			rv, _ := r.eng.resolve(vfr, v)
			if seen[seenKey{rv, use, vfr}] {
				continue
			}
			seen[seenKey{rv, use, vfr}] = true
			key := "Run PRE-PREPARE own input is non-zero (receive case)"
			facts := c03NoFacts()
			var tests []ssa.Instruction
			for _, z := range c03ZeroTestsIn(vfr.fn) {
				if tv, _ := r.eng.resolve(vfr, z.tested); tv == rv {
					facts.val(z.v, c03Bool(z.zero))
					if at, ok := z.v.(ssa.Instruction); ok {
						tests = append(tests, at)
					}
				}
			}
			for _, cd := range helperTests(vfr.fn, func(a ssa.Value) bool { tv, _ := r.eng.resolve(vfr, a); return tv == rv }) {
				facts.val(cd.z.v, c03Bool(cd.z.zero))
				tests = append(tests, cd.at)
			}
			tri, why := c03No, "no zero-value test of the input value precedes the broadcast"
			for _, at := range tests {
				if !an.Dominates(at, use) {
					if tri == c03No {
						tri, why = c03Maybe, "the zero-value test does not dominate the broadcast"
					}
					continue
				}
				reach, und := r.eng.under(facts).reachableFrom(vfr, at, use)
				switch {
				case und:
					tri, why = c03Maybe, "reachability of the broadcast for a zero input could not be decided"
				case !reach:
					tri = c03Yes
				default:
					tri, why = c03No, "the broadcast is reachable although the tested input value is zero"
				}
				if tri != c03Maybe {
					break
				}
			}
			tri.report(c, key, use.Pos(), "", "a PRE-PREPARE can be broadcast with the zero value as own proposal: "+why, why)
		case r.pvOf(v) != nil:
			// the justified prepared value: V5
		case func() bool { _, _, traced := r.pvOrigins(vfr, v, use, -1, 0); return traced }():
			// the justified prepared value handed out by a helper: V5
		default:
			rv, _ := r.eng.resolve(vfr, v)
			positive := false
			switch x := rv.(type) {
			case *ssa.Const:
				positive = true
			case *ssa.UnOp:
				positive = x.Op == token.MUL && r.cellOf(x) != nil && r.cellOf(x) != cell
			case *ssa.Call:
				positive = x.Call.IsInvoke() || c03Static(x, "zeroVal") != nil
			case *ssa.Extract:
				_, isCall := x.Tuple.(*ssa.Call)
				positive = isCall && r.pvOf(x) == nil
			}
			if isCellLoad(rv) || r.pvOf(rv) != nil {
				positive = false
			}
			if seen[seenKey{rv, b.inner, nil}] {
				continue
			}
			seen[seenKey{rv, b.inner, nil}] = true
			if positive {
				c.Bad("Run PRE-PREPARE value provenance", b.inner.Pos(),
					"a PRE-PREPARE carries a value that is neither the node's own input nor the prepared value of getSingleJustifiedPrPv")
			} else {
				c.Unsure("Run PRE-PREPARE value provenance", b.inner.Pos(), "the value of a PRE-PREPARE broadcast could not be traced to the node's own input or to getSingleJustifiedPrPv")
			}
		}
	}
	// isJustifiedPrePrepare returns false whenever msg.Value() is the zero value
	fn := c.Fn(c03P + ".isJustifiedPrePrepare")
	msg := c03ParamOfType(c, fn, c03P+".Msg")
	eng := c03NewEng(fn.Pkg)
	fr := eng.root(fn)
	zt := "zero?(m:Value(" + eng.term(fr, msg) + "))"
	key := "isJustifiedPrePrepare rejects the zero value"
	st, at, why := c03AllReturn(eng.under(c03NoFacts().term(zt, c03Bool(true))), fr, false)
	switch st {
	case c03Known:
		c.Good(key, fn.Pos(), "under isZeroVal(msg.Value()) every return yields false")
	case c03Opaque:
		c.Unsure(key, at, "assuming msg.Value() is the zero value, "+why)
	default:
		c.Bad(key, at, "a PRE-PREPARE proposing the zero value is accepted (and can then be prepared, committed and decided): assuming msg.Value() is the zero value, "+why)
	}
}

// ownAgg merges the verdicts of one own-input broadcast over the call chains that lead to it.
type ownAgg struct {
	key string
	pos token.Pos
	tri c03Tri
	why string
}

func (a *ownAgg) add(t c03Tri, why string) {
	if (t == c03No && a.tri != c03No) || (t == c03Maybe && a.tri == c03Yes) {
		a.tri, a.why = t, why
	}
}

// c03AllReturn: under the engine's assumption every return of fr.fn that can be reached yields the
// boolean `want` as its first result. Status c03Known = yes; c03Free = a return yields something else
// (or something independent of the assumption); c03Opaque = could not be decided.
func c03AllReturn(e *c03Eng, fr *c03Frame, want bool) (status int, at token.Pos, why string) {
	w := e.walk(fr, nil, 0, nil)
	if w.truncated {
		return c03Opaque, fr.fn.Pos(), "too many paths"
	}
	if len(w.rets) == 0 {
		return c03Opaque, fr.fn.Pos(), "no return can be reached"
	}
	status = c03Known
	for _, rt := range w.rets {
		res := returnValues(rt.ret)
		if len(res) == 0 {
			return c03Opaque, posOf(rt.ret), "the function has no result"
		}
		k, st := e.eval(fr, res[0], rt.pe)
		switch {
		case st == c03Known && k.Kind() == constant.Bool && constant.BoolVal(k) == want:
		case st == c03Known:
			if w.opaque {
				return c03Opaque, posOf(rt.ret), fmt.Sprintf("a return yielding %v may be reachable (a branch on the way could not be looked into)", !want)
			}
			return c03Free, posOf(rt.ret), fmt.Sprintf("a reachable return yields %v", !want)
		case st == c03Free:
			if status != c03Opaque {
				status, at, why = c03Free, posOf(rt.ret), fmt.Sprintf("a reachable return yields a verdict that is not determined to be %v", want)
			}
		default:
			status, at, why = c03Opaque, posOf(rt.ret), "the verdict of a reachable return could not be evaluated"
		}
	}
	if status != c03Known && w.opaque {
		return c03Opaque, at, why + " (a branch on the way could not be looked into)"
	}
	return status, at, why
}

const c03F = "core/qbft/qbft.go"
const c03G = "core/consensus/qbft/qbft.go"

var c03Mutants = []Mutant{
	// V1
	{ID: "C03-V1-latch-never-set", File: c03F, Expect: "V1|latch set",
		Old: "\t\t\t\tqCommit = justification\n", New: ""},
	{ID: "C03-V1-latch-set-after-early-break", File: c03F, Expect: "V1|latch set",
		Old: "\t\t\t\tqCommit = justification\n\t\t\t\tqCommitValue = msg.Value()\n\n\t\t\t\tstopTimer()\n\n\t\t\t\ttimerChan = nil\n\n\t\t\t\td.Decide(ctx, instance, msg.Value(), msg.Round(), justification)\n",
		New: "\t\t\t\tstopTimer()\n\n\t\t\t\ttimerChan = nil\n\n\t\t\t\td.Decide(ctx, instance, msg.Value(), msg.Round(), justification)\n\n\t\t\t\tif ctx.Err() != nil {\n\t\t\t\t\tbreak\n\t\t\t\t}\n\n\t\t\t\tqCommit = justification\n\t\t\t\tqCommitValue = msg.Value()\n"},
	{ID: "C03-V1-latch-wrong-list", File: c03F, Expect: "V1|latch set",
		Old: "\t\t\t\tqCommit = justification\n", New: "\t\t\t\tqCommit = preparedJustification\n"},
	{ID: "C03-V1-decided-branch-falls-through", File: c03F, Expect: "V1|cuts off",
		Old: "\t\t\t\t\terr = broadcastMsg(MsgDecided, qCommitValue, qCommit)\n\t\t\t\t}\n\n\t\t\t\tbreak\n",
		New: "\t\t\t\t\terr = broadcastMsg(MsgDecided, qCommitValue, qCommit)\n\t\t\t\t}\n"},
	{ID: "C03-V1-decided-break-only-on-resend", File: c03F, Expect: "V1|cuts off",
		Old: "\t\t\t\t\terr = broadcastMsg(MsgDecided, qCommitValue, qCommit)\n\t\t\t\t}\n\n\t\t\t\tbreak\n",
		New: "\t\t\t\t\terr = broadcastMsg(MsgDecided, qCommitValue, qCommit)\n\n\t\t\t\t\tbreak\n\t\t\t\t}\n"},
	{ID: "C03-V1-latch-test-inverted", File: c03F, Expect: "V1|cuts off",
		Old: "\t\t\tif len(qCommit) > 0 {", New: "\t\t\tif len(qCommit) == 0 {"},
	{ID: "C03-V1-latch-cleared-on-input", File: c03F, Expect: "V1|never cleared",
		Old: "\t\t\tinputValueCh = nil // Don't read from this channel again.\n",
		New: "\t\t\tinputValueCh = nil // Don't read from this channel again.\n\t\t\tqCommit = nil\n"},
	// V2
	{ID: "C03-V2-no-input-zero-test", File: c03F, Expect: "V2|receive case",
		Old: "\t\t\tif isZeroVal(inputValue) {\n\t\t\t\treturn errors.New(\"zero input value not supported\")\n\t\t\t}\n\n", New: ""},
	{ID: "C03-V2-zero-input-logged", File: c03F, Expect: "V2|receive case",
		Old: "\t\t\t\treturn errors.New(\"zero input value not supported\")\n",
		New: "\t\t\t\tlog.Warn(ctx, \"zero input value not supported\", nil)\n"},
	{ID: "C03-V2-own-preprepare-tests-other-value", File: c03F, Expect: "V2|helper closure",
		Old: "\t\tif isZeroVal(inputValue) {\n\t\t\t// Can't broadcast", New: "\t\tif isZeroVal(preparedValue) {\n\t\t\t// Can't broadcast"},
	{ID: "C03-V2-own-preprepare-cache-and-broadcast", File: c03F, Expect: "V2|helper closure",
		Old: "\t\t\tppjCache = justification\n\t\t\treturn nil\n", New: "\t\t\tppjCache = justification\n"},
	{ID: "C03-V2-input-reset-before-broadcast", File: c03F, Expect: "V2|helper closure",
		Old: "\t\treturn broadcastMsg(MsgPrePrepare, inputValue, justification)",
		New: "\t\tinputValue = zeroVal[V]()\n\n\t\treturn broadcastMsg(MsgPrePrepare, inputValue, justification)"},
	{ID: "C03-V2-preprepare-other-value", File: c03F, Expect: "V2|value provenance",
		Old: "err = broadcastMsg(MsgPrePrepare, inputValue, ppjCache)", New: "err = broadcastMsg(MsgPrePrepare, preparedValue, ppjCache)"},
	{ID: "C03-V2-accept-zero-preprepare", File: c03F, Expect: "V2|isJustifiedPrePrepare",
		Old: "\tif isZeroVal(msg.Value()) {\n\t\treturn false\n\t}\n\n", New: ""},
	{ID: "C03-V2-accept-zero-preprepare-round1", File: c03F, Expect: "V2|isJustifiedPrePrepare",
		Old: "\tif isZeroVal(msg.Value()) {\n\t\treturn false", New: "\tif isZeroVal(msg.Value()) && msg.Round() > 1 {\n\t\treturn false"},
	// V3
	{ID: "C03-V3-classify-counts-prepares", File: c03F, Expect: "V3|COMMIT messages",
		Old: "filterByRoundAndValue(flatten(buffer), MsgCommit, msg.Round(), msg.Value())", New: "filterByRoundAndValue(flatten(buffer), MsgPrepare, msg.Round(), msg.Value())"},
	{ID: "C03-V3-classify-any-value", File: c03F, Expect: "V3|message's value",
		Old: "commits := filterByRoundAndValue(flatten(buffer), MsgCommit, msg.Round(), msg.Value())", New: "commits := filterMsgs(flatten(buffer), MsgCommit, msg.Round(), nil, nil, nil)"},
	{ID: "C03-V3-classify-fplus1-commits", File: c03F, Expect: "V3|behind len(commits)",
		Old: "if len(commits) >= d.Quorum() {", New: "if len(commits) >= d.Faulty()+1 {"},
	{ID: "C03-V3-classify-returns-other-list", File: c03F, Expect: "V3|UponQuorumCommits",
		Old: "return UponQuorumCommits, commits", New: "return UponQuorumCommits, flatten(buffer)"},
	{ID: "C03-V3-classify-commit-quorum-not-required", File: c03F, Expect: "V3|behind len(commits)",
		Old: "\t\tif len(commits) >= d.Quorum() {\n\t\t\treturn UponQuorumCommits, commits\n\t\t}\n",
		New: "\t\tif len(commits) >= d.Quorum() || msg.Source() == process {\n\t\t\treturn UponQuorumCommits, commits\n\t\t}\n"},
	{ID: "C03-V3-decided-any-value", File: c03F, Expect: "V3|message's value",
		Old: "\tv := msg.Value()\n\tcommits := filterMsgs(msg.Justification(), MsgCommit, msg.Round(), &v, nil, nil)",
		New: "\tcommits := filterMsgs(msg.Justification(), MsgCommit, msg.Round(), nil, nil, nil)"},
	{ID: "C03-V3-decided-inline-any-value", File: c03F, Expect: "V3|message's value",
		Old: "\t\treturn isJustifiedDecided(d, msg)", New: "\t\treturn len(filterMsgs(msg.Justification(), MsgCommit, msg.Round(), nil, nil, nil)) >= d.Quorum()"},
	{ID: "C03-V3-decided-inline-counts-prepares", File: c03F, Expect: "V3|counts COMMITs",
		Old: "\t\treturn isJustifiedDecided(d, msg)", New: "\t\tdv := msg.Value()\n\n\t\treturn len(filterMsgs(msg.Justification(), MsgPrepare, msg.Round(), &dv, nil, nil)) >= d.Quorum()"},
	{ID: "C03-V3-decided-inline-fplus1", File: c03F, Expect: "V3|isJustified DECIDED",
		Old: "\t\treturn isJustifiedDecided(d, msg)", New: "\t\tdv := msg.Value()\n\n\t\treturn len(filterMsgs(msg.Justification(), MsgCommit, msg.Round(), &dv, nil, nil)) >= d.Faulty()+1"},
	{ID: "C03-V3-decided-not-checked", File: c03F, Expect: "V3|isJustified DECIDED",
		Old: "\t\treturn isJustifiedDecided(d, msg)", New: "\t\treturn true"},
	{ID: "C03-V3-decided-weakened", File: c03F, Expect: "V3|isJustified DECIDED",
		Old: "\t\treturn isJustifiedDecided(d, msg)", New: "\t\treturn isJustifiedDecided(d, msg) || len(msg.Justification()) > 0"},
	{ID: "C03-V3-decided-own-justification-ignored", File: c03F, Expect: "V3|returns msg.Justification()",
		Old: "\t\treturn UponJustifiedDecided, msg.Justification()", New: "\t\treturn UponJustifiedDecided, flatten(buffer)"},
	{ID: "C03-V3-decide-other-value", File: c03F, Expect: "V3|Decide value",
		Old: "d.Decide(ctx, instance, msg.Value(), msg.Round(), justification)", New: "d.Decide(ctx, instance, preparedValue, msg.Round(), justification)"},
	{ID: "C03-V3-decide-on-unjust-round-changes", File: c03F, Expect: "V3|only upon",
		Old:  "\t\t\tcase UponQuorumCommits, UponJustifiedDecided: // Algorithm 2:8",
		New:  "\t\t\tcase UponQuorumCommits, UponJustifiedDecided, UponUnjustQuorumRoundChanges: // Algorithm 2:8",
		More: [][2]string{{"\t\t\tcase UponUnjustQuorumRoundChanges:\n\t\t\t\t// Ignore bug or byzantine\n\n", ""}}},
	{ID: "C03-V3-decide-message-justification", File: c03F, Expect: "V3|qcommit is classify",
		Old: "d.Decide(ctx, instance, msg.Value(), msg.Round(), justification)", New: "d.Decide(ctx, instance, msg.Value(), msg.Round(), msg.Justification())"},
	// V4
	{ID: "C03-V4-first-value", File: c03G, Expect: "V4|payload",
		Old: "\t\t\tanyValue, ok := msg.Values()[valueHash]\n",
		New: "\t\t\tvar anyValue *anypb.Any\n\n\t\t\tok = false\n\n\t\t\tfor _, v := range msg.Values() {\n\t\t\t\tanyValue, ok = v, true\n\t\t\t\tbreak\n\t\t\t}\n\n\t\t\t_ = valueHash\n"},
	{ID: "C03-V4-prepared-value-key", File: c03G, Expect: "V4|payload",
		Old: "anyValue, ok := msg.Values()[valueHash]", New: "anyValue, ok := msg.Values()[msg.PreparedValue()]"},
	{ID: "C03-V4-unmarshal-error-logged", File: c03G, Expect: "V4|unmarshal error",
		Old: "This indicates a serialization issue in the QBFT protocol and should be reported\", err)\n\t\t\t\treturn\n",
		New: "This indicates a serialization issue in the QBFT protocol and should be reported\", err)\n"},
	{ID: "C03-V4-missing-hash-logged", File: c03G, Expect: "V4|presence",
		Old: "This indicates state inconsistency in the QBFT protocol and should be reported\", nil)\n\t\t\t\treturn\n",
		New: "This indicates state inconsistency in the QBFT protocol and should be reported\", nil)\n"},
	{ID: "C03-V4-values-accessor-wire-order", File: "core/consensus/qbft/msg.go", Expect: "V4|Msg.Values",
		Old: "func (m Msg) Values() map[[32]byte]*anypb.Any {\n\treturn m.values\n",
		New: "func (m Msg) Values() map[[32]byte]*anypb.Any {\n\tresp := make(map[[32]byte]*anypb.Any)\n\tfor _, v := range m.values {\n\t\tresp[m.valueHash] = v\n\t}\n\n\treturn resp\n"},
	// V5
	{ID: "C03-V5-leader-proposes-own-value", File: c03F, Expect: "V5|re-proposes",
		Old: "err = broadcastMsg(MsgPrePrepare, pv, justification)", New: "err = broadcastOwnPrePrepare(justification)\n\t\t\t\t\t_ = pv"},
	{ID: "C03-V5-pv-without-quorum", File: c03F, Expect: "V5|ok edge",
		Old: "if ok && compareFailureRound != pr {", New: "if ok || compareFailureRound != pr {"},
	{ID: "C03-V5-ok-ignored", File: c03F, Expect: "V5|ok edge",
		Old: "if ok && compareFailureRound != pr {", New: "if _ = ok; compareFailureRound != pr {"},
	{ID: "C03-V5-pv-from-whole-buffer", File: c03F, Expect: "V5|extracted from",
		Old: "\t\t\t\tpr, pv, ok := getSingleJustifiedPrPv(d, justification)", New: "\t\t\t\tpr, pv, ok := getSingleJustifiedPrPv(d, flatten(buffer))"},
	{ID: "C03-V5-reproposal-without-justification", File: c03F, Expect: "V5|carries classify",
		Old: "err = broadcastMsg(MsgPrePrepare, pv, justification)", New: "err = broadcastMsg(MsgPrePrepare, pv, preparedJustification)"},
	{ID: "C03-V5-qrc-ok-ignored", File: c03F, Expect: "V5|checked getJustifiedQrc",
		Old: "\t\tqrc, ok := getJustifiedQrc(d, all, msg.Round())\n\t\tif !ok {\n\t\t\treturn UponUnjustQuorumRoundChanges, nil\n\t\t}\n",
		New: "\t\tqrc, _ := getJustifiedQrc(d, all, msg.Round())\n"},
	{ID: "C03-V5-classify-returns-all", File: c03F, Expect: "V5|checked getJustifiedQrc",
		Old: "\t\treturn UponQuorumRoundChanges, qrc", New: "\t\t_ = qrc\n\n\t\treturn UponQuorumRoundChanges, all"},
	// added with the valuation-driven reformulation (named booleans, helpers, equal-by-guard criteria)
	{ID: "C03-V1-decided-only-for-round-change", File: c03F, Expect: "V1|cuts off",
		Old: "\t\t\tif len(qCommit) > 0 {\n\t\t\t\tif msg.Source() != process && msg.Type() == MsgRoundChange && // Algorithm 3:17\n\t\t\t\t\tallowDecidedResend",
		New: "\t\t\tif len(qCommit) > 0 && msg.Type() == MsgRoundChange {\n\t\t\t\tif msg.Source() != process && msg.Type() == MsgRoundChange && // Algorithm 3:17\n\t\t\t\t\tallowDecidedResend"},
	{ID: "C03-V2-input-tested-before-assignment", File: c03F, Expect: "V2|receive case",
		Old: "\t\tcase inputValue = <-inputValueCh:\n\t\t\tif isZeroVal(inputValue) {\n\t\t\t\treturn errors.New(\"zero input value not supported\")\n\t\t\t}\n",
		New: "\t\tcase received := <-inputValueCh:\n\t\t\tif isZeroVal(inputValue) && round > 1 {\n\t\t\t\treturn errors.New(\"zero input value not supported\")\n\t\t\t}\n\n\t\t\tinputValue = received\n"},
	{ID: "C03-V2-accept-zero-after-compare-failure", File: c03F, Expect: "V2|isJustifiedPrePrepare",
		Old: "\tif isZeroVal(msg.Value()) {\n\t\treturn false", New: "\tif isZeroVal(msg.Value()) && compareFailureRound == 0 {\n\t\treturn false"},
	{ID: "C03-V3-classify-commits-of-current-round", File: c03F, Expect: "V3|message's round",
		Old: "\t\t// Ignore other rounds, since COMMIT isn't justified.\n\t\tif msg.Round() != round {\n\t\t\treturn UponNothing, nil\n\t\t}\n\n\t\tcommits := filterByRoundAndValue(flatten(buffer), MsgCommit, msg.Round(), msg.Value())",
		New: "\t\tcommits := filterByRoundAndValue(flatten(buffer), MsgCommit, round, msg.Value())"},
	{ID: "C03-V3-prepare-quorum-decides", File: c03F, Expect: "V3|COMMIT messages",
		Old: "\t\t\treturn UponQuorumPrepares, prepares", New: "\t\t\treturn UponQuorumCommits, prepares"},
	{ID: "C03-V3-decided-accepted-like-commit", File: c03F, Expect: "V3|isJustified DECIDED",
		Old: "\tcase MsgPrepare, MsgCommit:\n\t\treturn true\n\tcase MsgRoundChange:\n\t\treturn isJustifiedRoundChange(d, msg)\n\tcase MsgDecided:\n\t\treturn isJustifiedDecided(d, msg)\n",
		New: "\tcase MsgPrepare, MsgCommit, MsgDecided:\n\t\treturn true\n\tcase MsgRoundChange:\n\t\treturn isJustifiedRoundChange(d, msg)\n"},
	{ID: "C03-V3-decided-fplus1-suffices", File: c03F, Expect: "V3|isJustifiedDecided verdict",
		Old: "\treturn len(commits) >= d.Quorum()\n}\n\n// isJustifiedPrePrepare", New: "\treturn len(commits) >= d.Quorum() || len(commits) >= d.Faulty()+1\n}\n\n// isJustifiedPrePrepare"},
	{ID: "C03-V4-missing-hash-only-late-rounds", File: c03G, Expect: "V4|presence",
		Old: "\t\t\tanyValue, ok := msg.Values()[valueHash]\n\t\t\tif !ok {", New: "\t\t\tanyValue, ok := msg.Values()[valueHash]\n\t\t\tif !ok && round > 1 {"},
	{ID: "C03-V4-unmarshal-error-only-late-rounds", File: c03G, Expect: "V4|unmarshal error",
		Old: "\t\t\tvalue, err := anyValue.UnmarshalNew()\n\t\t\tif err != nil {", New: "\t\t\tvalue, err := anyValue.UnmarshalNew()\n\t\t\tif err != nil && round > 1 {"},
	{ID: "C03-V5-pv-when-pr-positive", File: c03F, Expect: "V5|ok edge",
		Old: "if ok && compareFailureRound != pr {", New: "if compareFailureRound != pr && (ok || pr > 0) {"},
	// round 4: the filter function itself applies the criteria the commit quorum is filtered with (c03n4_filter.go)
	{ID: "C03-V3-filter-zero-value-means-unset", File: c03F, Expect: "V3|messages of the given value",
		Old: "\t\tif value != nil && msg.Value() != *value {", New: "\t\tif value != nil && !isZeroVal(*value) && msg.Value() != *value {"},
	{ID: "C03-V3-filter-value-check-deleted", File: c03F, Expect: "V3|messages of the given value",
		Old: "\t\tif value != nil && msg.Value() != *value {\n\t\t\tcontinue\n\t\t}\n\n", New: ""},
	{ID: "C03-V3-filter-value-only-when-prepared-given", File: c03F, Expect: "V3|messages of the given value",
		Old: "\t\tif value != nil && msg.Value() != *value {", New: "\t\tif value != nil && pv != nil && msg.Value() != *value {"},
	{ID: "C03-V3-filter-round-only-late-rounds", File: c03F, Expect: "V3|messages of the given round",
		Old: "\t\tif round != msg.Round() {", New: "\t\tif round != msg.Round() && round > 1 {"},
	{ID: "C03-V3-filter-prepares-pass-type-check", File: c03F, Expect: "V3|messages of the given type",
		Old: "\t\tif typ != msg.Type() {", New: "\t\tif typ != msg.Type() && msg.Type() != MsgPrepare {"},
	{ID: "C03-V5-reproposal-on-unjust-qrc", File: c03F, Expect: "V5|only upon",
		Old:  "\t\t\tcase UponQuorumRoundChanges: // Algorithm 3:11",
		New:  "\t\t\tcase UponQuorumRoundChanges, UponUnjustQuorumRoundChanges: // Algorithm 3:11",
		More: [][2]string{{"\t\t\tcase UponUnjustQuorumRoundChanges:\n\t\t\t\t// Ignore bug or byzantine\n\n", ""}}},
}
