package rules

import (
	"fmt"
	"go/constant"
	"go/token"
	"go/types"

	"golang.org/x/tools/go/ssa"

	"charonverif/internal/an"
	"charonverif/internal/rt"
)

// C03 — consensus validity and integrity (DESIGN §5). Package core/qbft (generic SSA bodies, shared
// helpers with c02.go) plus the Decide callback of core/consensus/qbft.

const c03Q = "core/consensus/qbft"

func init() {
	Register(&Prop{
		ID: "C03",
		Decides: "core/qbft: (V1) every Definition.Decide call of Run lies behind the decided-latch test of the receive case (the decided edge reaches neither classify nor Decide), " +
			"on every path from the call back to the event loop the latch variable holds the very qcommit passed to Decide, and the latch is never cleared where a decision may already exist; " +
			"(V2) every PRE-PREPARE broadcast carrying the node's own input loads it behind a zero-value test of that input with no intervening re-assignment (receive case and broadcastOwnPrePrepare), " +
			"and isJustifiedPrePrepare rejects a zero value before any accepting return; " +
			"(V3) classify returns UponQuorumCommits only behind len(commits) >= Quorum() with commits = filterMsgs(flatten(buffer), COMMIT, msg.Round(), msg.Value()) and returns that list, " +
			"returns UponJustifiedDecided only for a DECIDED message with its own justification, isJustified routes DECIDED to isJustifiedDecided (which counts COMMITs of the message's round and value, as C02-Q4), " +
			"and Run calls Decide only for those two rules with (msg.Value(), msg.Round(), classify's justification); " +
			"(V4) the Decide callback of core/consensus/qbft hands subscribers UnmarshalNew of qcommit[i].Values()[valueHash] (checked lookup by the decided hash; Values() is the recomputed-hash map, C05-A3); " +
			"(V5) the only other PRE-PREPARE value is pv of getSingleJustifiedPrPv(justification) on its ok edge inside the UponQuorumRoundChanges branch, with classify handing over the checked result of getJustifiedQrc. " +
			"Relies on C02-Q1/Q2/Q4 (source-unique quorums, justified-before-classified, justification predicates) and C05-A1/A3 (values map keyed by recomputed hashes).",
		NotDecided: "'some leader proposed the value' as a history property over schedules and adversaries; that Quorum() > 0 (a decided qcommit is non-empty, so the latch test sees it); purity of the Msg accessors.",
		Run:        c03,
		Mutants:    c03Mutants,
	})
}

func c03(c *rt.Ctx) {
	c.Rule("V1", 4, func() { c03V1(c) })
	c.Rule("V2", 5, func() { c03V2(c) })
	c.Rule("V3", 17, func() { c03V3(c) })
	c.Rule("V4", 4, func() { c03V4(c) })
	c.Rule("V5", 7, func() { c03V5(c) })
}

// ---------------------------------------------------------------------------------------------
// shared helpers

// c03DecideCalls returns the calls through Definition.Decide in Run and its closures.
func c03DecideCalls(r *c02Run) []ssa.CallInstruction {
	var out []ssa.CallInstruction
	for _, f := range r.all {
		for _, in := range an.Instrs(f, false) {
			if ci, ok := in.(ssa.CallInstruction); ok && c02Callee(ci.Common()) == "field:"+c02P+".Definition.Decide" {
				out = append(out, ci)
			}
		}
	}
	return out
}

// c03RuleCut cuts the edges on which classify's rule equals one of the given constants.
func c03RuleCut(r *c02Run, rules ...int64) func(b *ssa.BasicBlock, i int) bool {
	return func(b *ssa.BasicBlock, i int) bool {
		iff, ok := b.Instrs[len(b.Instrs)-1].(*ssa.If)
		if !ok {
			return false
		}
		bin, ok := iff.Cond.(*ssa.BinOp)
		if !ok || (bin.Op != token.EQL && bin.Op != token.NEQ) {
			return false
		}
		other := bin.Y
		if bin.X != r.ruleV {
			if bin.Y != r.ruleV {
				return false
			}
			other = bin.X
		}
		n, isC := an.ConstInt(other)
		if !isC {
			return false
		}
		for _, k := range rules {
			if n == k {
				return (bin.Op == token.EQL && i == 0) || (bin.Op == token.NEQ && i == 1)
			}
		}
		return false
	}
}

// c03Latch is a branch of Run testing whether a decision has been recorded.
type c03Latch struct {
	iff     *ssa.If
	x       ssa.Value // the tested slice
	decided int       // successor index taken once the slice is non-empty
}

// c03Latches finds `len(x) > 0`-style tests (and x != nil) on slices of type typ in fn; tests of the
// length against something that is not a recognised constant are returned as unrecognised.
func c03Latches(fn *ssa.Function, typ types.Type) (out []c03Latch, unrecognised []*ssa.If) {
	for _, b := range fn.Blocks {
		iff, ok := b.Instrs[len(b.Instrs)-1].(*ssa.If)
		if !ok {
			continue
		}
		bin, ok := iff.Cond.(*ssa.BinOp)
		if !ok || !c02IsCmp(bin.Op) {
			continue
		}
		x, y, op := bin.X, bin.Y, bin.Op
		if arg := c02LenArg(y); arg != nil || (types.Identical(y.Type(), typ) && !an.IsNilConst(y)) {
			x, y, op = y, x, c02Flip(op)
		}
		if arg := c02LenArg(x); arg != nil && types.Identical(arg.Type(), typ) {
			n, isC := an.ConstInt(y)
			if !isC {
				unrecognised = append(unrecognised, iff)
				continue
			}
			dec := -1
			switch {
			case (op == token.GTR || op == token.NEQ) && n == 0, op == token.GEQ && n == 1:
				dec = 0
			case (op == token.EQL || op == token.LEQ) && n == 0, op == token.LSS && n == 1:
				dec = 1
			}
			if dec < 0 {
				unrecognised = append(unrecognised, iff)
				continue
			}
			out = append(out, c03Latch{iff, arg, dec})
			continue
		}
		if types.Identical(x.Type(), typ) && an.IsNilConst(y) {
			switch op {
			case token.NEQ:
				out = append(out, c03Latch{iff, x, 0})
			case token.EQL:
				out = append(out, c03Latch{iff, x, 1})
			}
		}
	}
	return
}

// c03Cuts: the latch test dominates sink and its decided edge cannot reach sink without being tested again.
func (l c03Latch) cuts(sink ssa.Instruction) (bool, string) {
	ib := l.iff.Block()
	if ib == sink.Block() || !ib.Dominates(sink.Block()) {
		return false, "the decided-test does not dominate it"
	}
	if !an.EdgeCuts(ib.Succs[l.decided], sink, map[*ssa.BasicBlock]bool{ib: true}) {
		return false, "it is reachable from the edge taken when a decision is already recorded"
	}
	return true, ""
}

// c03Delivered returns the values phi p (in a loop header) receives along every CFG path from
// block `from` back to the header; ok=false if the search was cut short.
func c03Delivered(from *ssa.BasicBlock, p *ssa.Phi) (vals []ssa.Value, ok bool) {
	h := p.Block()
	seen := map[ssa.Value]bool{}
	onPath := map[*ssa.BasicBlock]bool{}
	budget := 20000
	resolve := func(v ssa.Value, env map[*ssa.Phi]ssa.Value) ssa.Value {
		for i := 0; i < 16; i++ {
			ph, isPhi := v.(*ssa.Phi)
			if !isPhi {
				return v
			}
			nv, has := env[ph]
			if !has {
				return v
			}
			v = nv
		}
		return v
	}
	predIdx := func(s, b *ssa.BasicBlock) int {
		for i, q := range s.Preds {
			if q == b {
				return i
			}
		}
		return -1
	}
	var walk func(b *ssa.BasicBlock, env map[*ssa.Phi]ssa.Value)
	walk = func(b *ssa.BasicBlock, env map[*ssa.Phi]ssa.Value) {
		if budget--; budget < 0 {
			return
		}
		onPath[b] = true
		defer delete(onPath, b)
		for _, s := range b.Succs {
			idx := predIdx(s, b)
			if idx < 0 {
				continue
			}
			if s == h {
				if v := resolve(p.Edges[idx], env); !seen[v] {
					seen[v] = true
					vals = append(vals, v)
				}
				continue
			}
			if onPath[s] {
				continue
			}
			nenv := make(map[*ssa.Phi]ssa.Value, len(env)+2)
			for k, v := range env {
				nenv[k] = v
			}
			for _, in := range s.Instrs {
				ph, isPhi := in.(*ssa.Phi)
				if !isPhi {
					break
				}
				nenv[ph] = resolve(ph.Edges[idx], env)
			}
			walk(s, nenv)
		}
	}
	walk(from, map[*ssa.Phi]ssa.Value{})
	return vals, budget >= 0
}

// c03DerivedFrom: q occurs among the (transitive, shallow) operands of v (clone, re-slice, append of q).
func c03DerivedFrom(v, q ssa.Value, d int) bool {
	if v == q {
		return true
	}
	in, ok := v.(ssa.Instruction)
	if !ok || d > 3 {
		return false
	}
	for _, op := range an.Operands(in) {
		if c03DerivedFrom(op, q, d+1) {
			return true
		}
	}
	return false
}

// c03ReachUnder: like an.C05ReachUnder (control can flow from just after `from` to sink when every
// branch decided by env takes only the decided successor), but also decides a branch on a phi of
// the branching block from the edge it was entered by (the shape of `a && b` / `a || b`).
func c03ReachUnder(from, sink ssa.Instruction, env an.C05Env) bool {
	type state struct{ b, pred *ssa.BasicBlock }
	if from.Block() == sink.Block() && an.Dominates(from, sink) {
		return true
	}
	next := func(b, pred *ssa.BasicBlock) []*ssa.BasicBlock {
		iff, ok := b.Instrs[len(b.Instrs)-1].(*ssa.If)
		if !ok {
			return b.Succs
		}
		penv := func(v ssa.Value) (constant.Value, bool) {
			if k, ok := env(v); ok {
				return k, true
			}
			if ph, ok := v.(*ssa.Phi); ok && ph.Block() == b && pred != nil {
				for i, q := range b.Preds {
					if q == pred {
						return an.C05Eval(ph.Edges[i], env)
					}
				}
			}
			return nil, false
		}
		if k, ok := an.C05Eval(iff.Cond, penv); ok && k.Kind() == constant.Bool {
			if constant.BoolVal(k) {
				return b.Succs[:1]
			}
			return b.Succs[1:2]
		}
		return b.Succs
	}
	seen := map[state]bool{}
	var work []state
	for _, s := range next(from.Block(), nil) {
		work = append(work, state{s, from.Block()})
	}
	for len(work) > 0 {
		st := work[len(work)-1]
		work = work[:len(work)-1]
		if seen[st] || st.b == from.Block() {
			continue
		}
		seen[st] = true
		if st.b == sink.Block() {
			return true
		}
		for _, s := range next(st.b, st.pred) {
			work = append(work, state{s, st.b})
		}
	}
	return false
}

func c03LoopOf(fn *ssa.Function, header *ssa.BasicBlock) *an.Loop {
	for _, l := range an.Loops(fn) {
		if l.Header == header {
			return l
		}
	}
	return nil
}

// ---------------------------------------------------------------------------------------------
// V1 — single, latched decision

func c03V1(c *rt.Ctx) {
	r := c02NewRun(c)
	decides := c03DecideCalls(r)
	if len(decides) == 0 {
		c.Bail("Run: no call through Definition.Decide found")
	}
	var qt types.Type
	for _, dc := range decides {
		if len(dc.Common().Args) != 5 {
			c.Bail("Definition.Decide: unexpected arity")
		}
		qt = dc.Common().Args[4].Type()
	}
	latches, odd := c03Latches(r.fn, qt)
	undecidedWhy := ""
	if len(odd) > 0 {
		undecidedWhy = "a length test of a message list in Run compares with something other than a recognised constant"
	}
	// (a) holds: on every path from the Decide call back to the loop header the latch holds the qcommit argument
	holds := func(l c03Latch, dc ssa.CallInstruction) (good bool, unsure bool, why string) {
		q := dc.Common().Args[4]
		if cell := r.cellOf(l.x); cell != nil {
			any := false
			for _, st := range r.stores(cell) {
				if st.Val == q {
					any = true
					if st.Parent() == r.fn && st.Block() == dc.Block() {
						return true, false, ""
					}
				}
			}
			if any {
				return false, true, "the latch is a captured variable assigned the qcommit away from the Decide call"
			}
			return false, false, "the tested list is never assigned the qcommit passed to Decide"
		}
		p, isPhi := an.Unwrap(l.x).(*ssa.Phi)
		if !isPhi {
			return false, false, "the tested list is never assigned the qcommit passed to Decide"
		}
		loop := c03LoopOf(r.fn, p.Block())
		if loop == nil || !loop.Body[dc.Block()] {
			return false, false, "the tested list is not carried around the event loop containing the Decide call"
		}
		vals, complete := c03Delivered(dc.Block(), p)
		if !complete {
			return false, true, "too many paths from the Decide call to the loop header"
		}
		if len(vals) == 0 {
			return false, true, "no path from the Decide call back to the event loop"
		}
		web, _ := c02PhiWeb(p)
		for _, v := range vals {
			if v == q {
				continue
			}
			if ph, ok := v.(*ssa.Phi); (ok && web[ph]) || an.IsNilConst(v) {
				return false, false, "on a path from the Decide call back to the event loop the latch is not set to the qcommit passed to Decide"
			}
			if c03DerivedFrom(v, q, 0) {
				return false, true, "the latch is set to a value derived from, but not identical to, the qcommit passed to Decide"
			}
			return false, false, "on a path from the Decide call back to the event loop the latch is set to something other than the qcommit passed to Decide"
		}
		return true, false, ""
	}
	var used []c03Latch
	for _, dc := range decides {
		if dc.Parent() != r.fn {
			c.Unsure("Run Decide call", dc.Pos(), "Definition.Decide is called from a helper closure of Run")
			continue
		}
		if _, isCall := dc.(*ssa.Call); !isCall {
			c.Unsure("Run Decide call", dc.Pos(), "Definition.Decide is deferred or started as a goroutine")
			continue
		}
		var mine []c03Latch
		why, unsure := "Run has no `len(list) > 0` test of a qcommit-typed list", false
		for _, l := range latches {
			g, u, w := holds(l, dc)
			if g {
				mine = append(mine, l)
			} else {
				why = w
				unsure = unsure || u
			}
		}
		key := "Run Decide→decision latch set to qcommit"
		switch {
		case len(mine) > 0:
			c.Good(key, dc.Pos(), "every path back to the event loop carries the qcommit in the tested list")
		case unsure || (len(latches) == 0 && undecidedWhy != ""):
			c.Unsure(key, dc.Pos(), why+"; "+undecidedWhy)
		default:
			c.Bad(key, dc.Pos(), why+": a second justified DECIDED or COMMIT quorum calls Decide again")
		}
		cands := mine
		if len(cands) == 0 {
			cands = latches
		}
		for _, sk := range []struct {
			in   ssa.Instruction
			what string
		}{{dc, "Decide"}, {r.classify, "classify"}} {
			key := "Run decided-test cuts off " + sk.what
			good, why := false, "no decided-test found"
			for _, l := range cands {
				g, w := l.cuts(sk.in)
				if g {
					good = true
				} else {
					why = w
				}
			}
			if !good && len(cands) == 0 && undecidedWhy != "" {
				c.Unsure(key, posOf(sk.in), undecidedWhy)
				continue
			}
			c.Check(key, posOf(sk.in), good, sk.what+" is not confined to the undecided edge of the latch test: "+why)
		}
		for _, l := range cands {
			if g, _ := l.cuts(dc); g || len(mine) > 0 {
				used = append(used, l)
			}
		}
	}
	// (d) never cleared where a decision may exist
	done := map[*ssa.If]bool{}
	for _, l := range used {
		if done[l.iff] {
			continue
		}
		done[l.iff] = true
		ib := l.iff.Block()
		harmful := func(b *ssa.BasicBlock) bool {
			return !ib.Dominates(b) || b == ib || an.CanReach(ib.Succs[l.decided], b, map[*ssa.BasicBlock]bool{ib: true})
		}
		var bad ssa.Instruction
		if cell := r.cellOf(l.x); cell != nil {
			for _, st := range r.stores(cell) {
				if !an.IsNilConst(st.Val) {
					continue
				}
				if st.Parent() != r.fn || (st.Block().Index != 0 && harmful(st.Block())) {
					bad = st
				}
			}
		} else if p, ok := an.Unwrap(l.x).(*ssa.Phi); ok {
			web, _ := c02PhiWeb(p)
			loop := c03LoopOf(r.fn, p.Block())
			for ph := range web {
				for i, e := range ph.Edges {
					if !an.IsNilConst(e) || i >= len(ph.Block().Preds) {
						continue
					}
					pred := ph.Block().Preds[i]
					if loop != nil && !loop.Body[pred] {
						continue // initial value
					}
					if harmful(pred) {
						bad = pred.Instrs[len(pred.Instrs)-1]
					}
				}
			}
		}
		if bad != nil {
			c.Bad("Run decision latch never cleared", posOf(bad), "the latch is reset to nil at a point reachable after a decision: the next DECIDED/COMMIT quorum calls Decide a second time")
		} else {
			c.Good("Run decision latch never cleared", l.iff.Pos(), "no nil assignment outside the undecided edge")
		}
	}
}

// ---------------------------------------------------------------------------------------------
// V2 — zero value never proposed / accepted

// c03InputCell finds the state cell of Run that receives the node's own input value (select receive
// from the <-chan V parameter).
func c03InputCell(r *c02Run, vt types.Type) *ssa.Alloc {
	var param *ssa.Parameter
	for _, p := range r.fn.Params {
		if ch, ok := p.Type().Underlying().(*types.Chan); ok && types.Identical(ch.Elem(), vt) {
			if param != nil {
				r.c.Bail("Run: several input value channels")
			}
			param = p
		}
	}
	if param == nil {
		r.c.Bail("Run: no <-chan V parameter")
	}
	fromParam := func(ch ssa.Value) bool {
		if ch == ssa.Value(param) {
			return true
		}
		if ph, ok := ch.(*ssa.Phi); ok {
			_, ins := c02PhiWeb(ph)
			for _, in := range ins {
				if in == ssa.Value(param) {
					return true
				}
			}
		}
		return false
	}
	var cell *ssa.Alloc
	found := false
	for _, in := range an.Instrs(r.fn, false) {
		var recv ssa.Value
		switch x := in.(type) {
		case *ssa.Select:
			n := 0
			for _, st := range x.States {
				if st.Dir != types.RecvOnly {
					continue
				}
				if fromParam(st.Chan) {
					for _, ref := range *x.Referrers() {
						if ex, ok := ref.(*ssa.Extract); ok && ex.Index == 2+n {
							recv = ex
						}
					}
					found = true
				}
				n++
			}
		case *ssa.UnOp:
			if x.Op == token.ARROW && fromParam(x.X) {
				recv, found = x, true
				if x.CommaOk {
					recv = nil
					for _, ref := range *x.Referrers() {
						if ex, ok := ref.(*ssa.Extract); ok && ex.Index == 0 {
							recv = ex
						}
					}
				}
			}
		}
		if recv == nil {
			continue
		}
		for _, ref := range *recv.Referrers() {
			if st, ok := ref.(*ssa.Store); ok && st.Val == recv {
				if a := r.cellAddr(st.Addr); a != nil {
					if cell != nil && cell != a {
						r.c.Bail("Run: the received input value is stored into several variables")
					}
					cell = a
				}
			}
		}
	}
	if !found {
		r.c.Bail("Run: no receive from the input value channel")
	}
	if cell == nil {
		r.c.Bail("Run: the received input value is not kept in a state variable shared with the helper closures")
	}
	return cell
}

// c03PrePrepares returns the PRE-PREPARE broadcasts of Run (lifted to call sites in Run proper).
func c03PrePrepares(r *c02Run) []c02Bcast {
	pp := r.msgType("MsgPrePrepare")
	var out []c02Bcast
	for _, b := range r.bcasts() {
		n, ok := an.ConstInt(b.args[1])
		if !ok {
			r.c.Unsure("Run broadcast with computed type", b.site.Pos(), "message type of a broadcast is not a constant")
			continue
		}
		if n != pp {
			continue
		}
		if b.open {
			r.c.Unsure("Run PRE-PREPARE broadcast", b.inner.Pos(), "PRE-PREPARE broadcast not attributable to a call site in Run")
			continue
		}
		out = append(out, b)
	}
	if len(out) == 0 {
		r.c.Bail("Run: no PRE-PREPARE broadcast found")
	}
	return out
}

// c03PvOf: v is result #1 of a getSingleJustifiedPrPv call.
func c03PvOf(v ssa.Value) *ssa.Call {
	ex, ok := an.Unwrap(v).(*ssa.Extract)
	if !ok || ex.Index != 1 {
		return nil
	}
	return c02Static(ex.Tuple, "getSingleJustifiedPrPv")
}

func c03V2(c *rt.Ctx) {
	r := c02NewRun(c)
	pps := c03PrePrepares(r)
	cell := c03InputCell(r, pps[0].inner.Common().Args[5].Type())
	stores := r.stores(cell)
	storing := map[*ssa.Function]bool{}
	for _, st := range stores {
		storing[st.Parent()] = true
	}
	isCellLoad := func(v ssa.Value) bool { return r.cellOf(v) == cell }
	// uses of a loaded input value: the calls (other than the zero test itself) taking it as argument
	usesOf := func(ld *ssa.UnOp) []ssa.Instruction {
		var out []ssa.Instruction
		for _, ref := range *ld.Referrers() {
			ci, ok := ref.(ssa.CallInstruction)
			if !ok || c02Callee(ci.Common()) == c02P+".isZeroVal" {
				continue
			}
			for _, a := range ci.Common().Args {
				if a == ssa.Value(ld) {
					out = append(out, ci)
					break
				}
			}
		}
		return out
	}
	guardedUse := func(ld *ssa.UnOp, use ssa.Instruction) (bool, string) {
		fn := ld.Parent()
		why := "no zero-value test of the input value precedes the broadcast"
		for z, pol := range c02ZeroTests(fn, isCellLoad) {
			var tested ssa.Instruction
			for _, op := range an.Operands(z.(ssa.Instruction)) {
				if isCellLoad(op) {
					tested, _ = an.Unwrap(op).(ssa.Instruction)
				}
			}
			if tested == nil {
				continue
			}
			for _, cd := range an.CondsOn(fn, z) {
				if cd.Other != nil {
					continue
				}
				ib := cd.If.Block()
				if !an.Dominates(cd.If, use) {
					why = "the zero-value test does not dominate the broadcast"
					continue
				}
				if an.CanReach(cd.Succ(pol), use.Block(), map[*ssa.BasicBlock]bool{ib: true}) {
					why = "the zero edge of the test still reaches the broadcast"
					continue
				}
				if tested == ssa.Instruction(ld) {
					return true, ""
				}
				// no re-assignment between the tested load and the broadcast load
				var between ssa.Instruction
				for _, in := range an.Instrs(fn, false) {
					via := false
					switch x := in.(type) {
					case *ssa.Store:
						via = r.cellAddr(x.Addr) == cell
					case ssa.CallInstruction:
						if f := r.closureOf(x.Common().Value); f != nil && !x.Common().IsInvoke() {
							for _, g := range an.Closure(f) {
								via = via || storing[g]
							}
						}
					}
					if !via {
						continue
					}
					stop := func(i ssa.Instruction) bool { return i == tested }
					_, a := c02PathAvoiding(tested, in, stop)
					_, b := c02PathAvoiding(in, ld, stop)
					if a && b {
						between = in
					}
				}
				if between != nil {
					why = "the input value can be re-assigned between the zero-value test and the broadcast"
					continue
				}
				return true, ""
			}
		}
		return false, why
	}
	guarded := func(ld *ssa.UnOp) (bool, string) {
		uses := usesOf(ld)
		if len(uses) == 0 {
			return false, "the call consuming the loaded input value was not found"
		}
		for _, u := range uses {
			if ok, why := guardedUse(ld, u); !ok {
				return false, why
			}
		}
		return true, ""
	}
	seen := map[ssa.Value]bool{}
	for _, b := range pps {
		v := b.args[5]
		switch {
		case isCellLoad(v):
			ld := an.Unwrap(v).(*ssa.UnOp)
			if seen[ld] {
				continue
			}
			seen[ld] = true
			where := "receive case"
			if ld.Parent() != r.fn {
				where = "helper closure"
			}
			ok, why := guarded(ld)
			c.Check("Run PRE-PREPARE own input is non-zero ("+where+")", posOf(ld), ok,
				"a PRE-PREPARE can be broadcast with the zero value as own proposal: "+why)
		case c03PvOf(v) != nil:
			// the justified prepared value: V5
		default:
			c.Bad("Run PRE-PREPARE value provenance", b.site.Pos(),
				"a PRE-PREPARE carries a value that is neither the node's own input nor the prepared value of getSingleJustifiedPrPv")
		}
	}
	// isJustifiedPrePrepare rejects the zero value before any accepting return
	fn := c.Fn(c02P + ".isJustifiedPrePrepare")
	msg := c02ParamOfType(c, fn, c02P+".Msg")
	rets := c02AcceptRets(fn, 0)
	if len(rets) == 0 {
		c.Bail("isJustifiedPrePrepare never accepts")
	}
	zero := c02ZeroTests(fn, func(v ssa.Value) bool { return c02IsMsgCallOn(v, "Value", msg) })
	for _, ret := range rets {
		good, why := false, "no zero-value test of msg.Value()"
		for z, pol := range zero {
			for _, cd := range an.CondsOn(fn, z) {
				if cd.Other != nil {
					continue
				}
				if cd.If.Block().Dominates(ret.Block()) && !an.CanReach(cd.Succ(pol), ret.Block(), nil) {
					good = true
				} else {
					why = "the zero-value edge can still reach the accepting return"
				}
			}
		}
		c.Check("isJustifiedPrePrepare rejects the zero value", posOf(ret), good, "a PRE-PREPARE proposing the zero value is accepted (and can then be prepared, committed and decided): "+why)
	}
}

// ---------------------------------------------------------------------------------------------
// V3 — decision backed by commits for that value and round

type c03RetPoint struct {
	at   ssa.Instruction
	blk  *ssa.BasicBlock
	rule ssa.Value
	just ssa.Value
}

// c03RetPoints expands the returns of a (rule, justification) function into the points at which
// the pair is chosen (looking through a result phi in the return block).
func c03RetPoints(fn *ssa.Function) []c03RetPoint {
	var out []c03RetPoint
	for _, r := range an.Returns(fn) {
		if len(r.Results) != 2 {
			continue
		}
		ph, ok := r.Results[0].(*ssa.Phi)
		if !ok || ph.Block() != r.Block() {
			out = append(out, c03RetPoint{r, r.Block(), r.Results[0], r.Results[1]})
			continue
		}
		for i, e := range ph.Edges {
			pred := r.Block().Preds[i]
			j := r.Results[1]
			if jp, ok := j.(*ssa.Phi); ok && jp.Block() == r.Block() {
				j = jp.Edges[i]
			}
			out = append(out, c03RetPoint{pred.Instrs[len(pred.Instrs)-1], pred, e, j})
		}
	}
	return out
}

func c03V3(c *rt.Ctx) {
	fn := c.Fn(c02P + ".classify")
	msg := c02ParamOfType(c, fn, c02P+".Msg")
	var buffer *ssa.Parameter
	for _, p := range fn.Params {
		if an.IsMapType(p.Type()) {
			if buffer != nil {
				c.Bail("classify: several map parameters")
			}
			buffer = p
		}
	}
	if buffer == nil {
		c.Bail("classify: no buffer parameter")
	}
	uqc := constOf(c, c02P, "UponQuorumCommits")
	ujd := constOf(c, c02P, "UponJustifiedDecided")
	commitT := constOf(c, c02P, "MsgCommit")
	decidedT := constOf(c, c02P, "MsgDecided")
	nC, nD := 0, 0
	for _, pt := range c03RetPoints(fn) {
		n, isC := an.ConstInt(pt.rule)
		if !isC {
			c.Unsure("classify returned rule", posOf(pt.at), "classify returns a computed rule; only constant rules per return are recognised")
			continue
		}
		switch n {
		case uqc:
			nC++
			// quorum comparison over the returned list, on whose reached edge the return lies
			good, why := false, "no `len(list) >= d.Quorum()` test over the returned list"
			for _, in := range an.Instrs(fn, false) {
				bin, ok := in.(*ssa.BinOp)
				if !ok || !c02IsCmp(bin.Op) {
					continue
				}
				count, op := bin.X, bin.Op
				k, isT := c02Threshold(bin.Y)
				if !isT {
					if k, isT = c02Threshold(bin.X); !isT {
						continue
					}
					count, op = bin.Y, c02Flip(bin.Op)
				}
				if k != "quorum" || c02LenArg(count) != pt.just {
					continue
				}
				idx := -1
				switch op {
				case token.GEQ:
					idx = 0
				case token.LSS:
					idx = 1
				}
				if idx < 0 {
					why = "the quorum comparison is neither `>=` nor `<`"
					continue
				}
				for _, iff := range c02IfOf(bin) {
					if c02EdgeDom(iff.Block(), idx, pt.blk) {
						good = true
					} else {
						why = "the return does not lie on the quorum-reached edge"
					}
				}
			}
			c.Check("classify UponQuorumCommits behind len(commits) >= Quorum() of the returned list", posOf(pt.at), good,
				"a decision can be triggered without a quorum of the returned COMMITs: "+why)
			sp, ok := c02Filter(pt.just, 0)
			if !ok {
				c.Bad("classify UponQuorumCommits list is a filterMsgs result", posOf(pt.at), "the qcommit returned with UponQuorumCommits is not a (wrapped) filterMsgs result")
				continue
			}
			fl := c02Static(sp.msgs, "flatten")
			c.Check("classify commits filtered from flatten(buffer)", posOf(pt.at), fl != nil && fl.Call.Args[0] == ssa.Value(buffer),
				"the COMMITs are not taken from the buffer of justified messages")
			tn, tc := an.ConstInt(sp.typ)
			c.Check("classify commits are COMMIT messages", posOf(pt.at), tc && tn == commitT, "the quorum backing a decision is not filtered by type COMMIT")
			c.Check("classify commits of the message's round", posOf(pt.at), c02IsMsgCallOn(sp.round, "Round", msg), "COMMITs are not filtered by msg.Round(): commits of different rounds add up")
			c.Check("classify commits for the message's value", posOf(pt.at), sp.value != nil && c02IsMsgCallOn(sp.value, "Value", msg) && sp.pr == nil && sp.pv == nil,
				"COMMITs are not filtered by msg.Value(): commits for different values add up to a quorum and the decided value is not the committed one")
		case ujd:
			nD++
			good, why := false, "no `msg.Type() == MsgDecided` test"
			for _, in := range an.Instrs(fn, false) {
				bin, ok := in.(*ssa.BinOp)
				if !ok || (bin.Op != token.EQL && bin.Op != token.NEQ) {
					continue
				}
				x, y := bin.X, bin.Y
				if !c02IsMsgCallOn(x, "Type", msg) {
					x, y = y, x
				}
				if k, isK := an.ConstInt(y); !c02IsMsgCallOn(x, "Type", msg) || !isK || k != decidedT {
					continue
				}
				idx := 0
				if bin.Op == token.NEQ {
					idx = 1
				}
				for _, iff := range c02IfOf(bin) {
					if c02EdgeDom(iff.Block(), idx, pt.blk) {
						good = true
					} else {
						why = "the return does not lie on the MsgDecided edge"
					}
				}
			}
			c.Check("classify UponJustifiedDecided only for a DECIDED message", posOf(pt.at), good, "a message that did not pass isJustifiedDecided triggers a decision: "+why)
			c.Check("classify UponJustifiedDecided returns msg.Justification()", posOf(pt.at), c02IsMsgCallOn(pt.just, "Justification", msg),
				"the qcommit returned with UponJustifiedDecided is not the justification that isJustifiedDecided counted")
		}
	}
	if nC == 0 {
		c.Unsure("classify UponQuorumCommits", fn.Pos(), "no return of UponQuorumCommits found")
	}
	if nD == 0 {
		c.Unsure("classify UponJustifiedDecided", fn.Pos(), "no return of UponJustifiedDecided found")
	}

	// isJustified routes DECIDED to isJustifiedDecided
	{
		ij := c.Fn(c02P + ".isJustified")
		m := c02ParamOfType(c, ij, c02P+".Msg")
		cut := func(b *ssa.BasicBlock, i int) bool {
			iff, ok := b.Instrs[len(b.Instrs)-1].(*ssa.If)
			if !ok {
				return false
			}
			bin, ok := iff.Cond.(*ssa.BinOp)
			if !ok || (bin.Op != token.EQL && bin.Op != token.NEQ) {
				return false
			}
			x, y := bin.X, bin.Y
			if !c02IsMsgCallOn(x, "Type", m) {
				x, y = y, x
			}
			k, isK := an.ConstInt(y)
			if !c02IsMsgCallOn(x, "Type", m) || !isK {
				return false
			}
			truth := (k == decidedT) == (bin.Op == token.EQL)
			return (i == 0) != truth
		}
		reach := c02ReachCut(ij.Blocks[0], cut)
		isDecidedCall := func(v ssa.Value) bool {
			call := c02Static(v, "isJustifiedDecided")
			return call != nil && len(call.Call.Args) == 2 && call.Call.Args[1] == ssa.Value(m)
		}
		n := 0
		for _, ret := range an.Returns(ij) {
			if !reach[ret.Block()] || len(ret.Results) != 1 {
				continue
			}
			n++
			good := true
			if ph, ok := ret.Results[0].(*ssa.Phi); ok && ph.Block() == ret.Block() {
				for i, e := range ph.Edges {
					if reach[ret.Block().Preds[i]] && !isDecidedCall(e) {
						good = false
					}
				}
			} else {
				good = isDecidedCall(ret.Results[0])
			}
			c.Check("isJustified DECIDED→isJustifiedDecided(msg)", posOf(ret), good, "for a DECIDED message isJustified does not return the verdict of isJustifiedDecided on that message")
		}
		if n == 0 {
			c.Unsure("isJustified DECIDED→isJustifiedDecided(msg)", ij.Pos(), "no return reachable for a DECIDED message (panics?)")
		}
	}
	// what isJustifiedDecided counts (same obligations as C02-Q4b, helper re-used)
	c02Q4Decided(c)

	// Run: Decide only for the two deciding rules, with the value/round of the message and classify's justification
	r := c02NewRun(c)
	c.Check("Run classify consumes the received message", r.classify.Pos(), r.classify.Call.Args[5] == r.recvMsg, "classify is not applied to the message received from Transport.Receive")
	reach := c02ReachCut(r.fn.Blocks[0], c03RuleCut(r, uqc, ujd))
	for _, dc := range c03DecideCalls(r) {
		if dc.Parent() != r.fn {
			c.Unsure("Run Decide call", dc.Pos(), "Definition.Decide is called from a helper closure of Run")
			continue
		}
		a := dc.Common().Args
		c.Check("Run Decide only upon UponQuorumCommits/UponJustifiedDecided", dc.Pos(), !reach[dc.Block()],
			"Decide is reachable for a rule other than UponQuorumCommits and UponJustifiedDecided")
		c.Check("Run Decide value is msg.Value()", dc.Pos(), c02IsMsgCallOn(a[2], "Value", r.recvMsg), "the decided value is not the value of the message whose commit quorum was counted")
		c.Check("Run Decide round is msg.Round()", dc.Pos(), c02IsMsgCallOn(a[3], "Round", r.recvMsg), "the decided round is not the round of the message whose commit quorum was counted")
		c.Check("Run Decide qcommit is classify's justification", dc.Pos(), a[4] == r.justV, "the qcommit handed to Decide is not the commit quorum returned by classify")
	}
}

// ---------------------------------------------------------------------------------------------
// V4 — delivered payload is looked up by the decided hash

func c03V4(c *rt.Ctx) {
	nd := c.Fn(c03Q + ".newDefinition")
	var dec *ssa.Function
	for _, in := range an.Instrs(nd, false) {
		st, ok := in.(*ssa.Store)
		if !ok {
			continue
		}
		fa, ok := st.Addr.(*ssa.FieldAddr)
		if !ok || c02Strip(an.FieldKey(fa.X.Type(), fa.Field)) != c02P+".Definition.Decide" {
			continue
		}
		var f *ssa.Function
		switch x := st.Val.(type) {
		case *ssa.MakeClosure:
			f, _ = x.Fn.(*ssa.Function)
		case *ssa.Function:
			f = x
		}
		if f == nil || dec != nil {
			c.Bail("newDefinition: Definition.Decide is not assigned exactly one function literal")
		}
		dec = f
	}
	if dec == nil {
		c.Bail("newDefinition: no assignment of Definition.Decide found")
	}
	if len(dec.Params) != 5 {
		c.Bail("Decide callback: unexpected signature")
	}
	hashP, qcP := dec.Params[2], dec.Params[4]
	// Msg.Values returns the values field
	vals := c.Fn(c03Q + ".Msg.Values")
	{
		good := len(an.Returns(vals)) > 0
		for _, ret := range an.Returns(vals) {
			k, base, ok := an.FieldOf(ret.Results[0])
			if !ok || k != c03Q+".Msg.values" || !rootedAt(base, vals.Params[0]) {
				good = false
			}
		}
		c.Check("Msg.Values returns the recomputed-hash map", vals.Pos(), good, "Msg.Values() does not return the receiver's values field (the map keyed by recomputed hashes)")
	}
	// subscriber calls
	var sinks []ssa.CallInstruction
	for _, in := range an.Instrs(dec, true) {
		ci, ok := in.(ssa.CallInstruction)
		if !ok || ci.Common().IsInvoke() || ci.Common().StaticCallee() != nil {
			continue
		}
		if an.TypeName(ci.Common().Value.Type()) == c03Q+".subscriber" {
			sinks = append(sinks, ci)
		}
	}
	if len(sinks) == 0 {
		c.Bail("Decide callback: no call of a subscriber found")
	}
	// fromQcommit: m is (a type assertion of) an element of the qcommit parameter
	fromQcommit := func(m ssa.Value) bool {
		m = an.Unwrap(m)
		if ex, ok := m.(*ssa.Extract); ok && ex.Index == 0 {
			m = ex.Tuple
		}
		if ta, ok := m.(*ssa.TypeAssert); ok {
			m = an.Unwrap(ta.X)
		}
		ld, ok := m.(*ssa.UnOp)
		if !ok || ld.Op != token.MUL {
			return false
		}
		ia, ok := ld.X.(*ssa.IndexAddr)
		return ok && ia.X == ssa.Value(qcP)
	}
	// derivedFromValues: v comes out of some Values()/values map of a message by other means than the keyed lookup
	isValuesMap := func(m ssa.Value) (ssa.Value, bool) {
		m = an.Unwrap(m)
		if call, ok := m.(*ssa.Call); ok && !call.Call.IsInvoke() && call.Call.StaticCallee() == vals && len(call.Call.Args) == 1 {
			return call.Call.Args[0], true
		}
		if k, base, ok := an.FieldOf(m); ok && k == c03Q+".Msg.values" {
			return base, true
		}
		return nil, false
	}
	var viaRange func(v ssa.Value, d int) bool
	viaRange = func(v ssa.Value, d int) bool {
		if d > 6 {
			return false
		}
		switch x := an.Unwrap(v).(type) {
		case *ssa.Phi:
			for _, e := range x.Edges {
				if viaRange(e, d+1) {
					return true
				}
			}
		case *ssa.Extract:
			if nx, ok := x.Tuple.(*ssa.Next); ok {
				if rg, ok := nx.Iter.(*ssa.Range); ok {
					_, is := isValuesMap(rg.X)
					return is
				}
			}
		}
		return false
	}
	for _, sk := range sinks {
		args := sk.Common().Args
		if len(args) != 3 {
			c.Unsure("Decide callback subscriber call", sk.Pos(), "unexpected subscriber arity")
			continue
		}
		key := "Decide callback payload is Values()[valueHash] of a qcommit message"
		ex, ok := an.Unwrap(args[2]).(*ssa.Extract)
		var um *ssa.Call
		if ok && ex.Index == 0 {
			um, _ = ex.Tuple.(*ssa.Call)
		}
		if um == nil || um.Call.IsInvoke() || um.Call.StaticCallee() == nil || um.Call.StaticCallee().Name() != "UnmarshalNew" || len(um.Call.Args) != 1 {
			c.Unsure(key, sk.Pos(), "the payload is not the result of anypb UnmarshalNew")
			continue
		}
		g, w := an.Guarded(um, sk, an.DefaultGuard)
		c.Check("Decide callback checks the unmarshal error", sk.Pos(), g, "subscribers are called although unmarshalling the decided value failed: "+w)
		anyV := an.Unwrap(um.Call.Args[0])
		lex, ok := anyV.(*ssa.Extract)
		var lk *ssa.Lookup
		if ok && lex.Index == 0 {
			lk, _ = lex.Tuple.(*ssa.Lookup)
		} else if l2, ok := anyV.(*ssa.Lookup); ok {
			lk = l2
		}
		if lk == nil {
			if viaRange(anyV, 0) {
				c.Bad(key, sk.Pos(), "the payload is an arbitrary entry of the message's values map, not the entry of the decided hash: a value nobody agreed on is handed to the duty store")
			} else {
				c.Unsure(key, sk.Pos(), "the payload is not a lookup in a values map")
			}
			continue
		}
		recv, isVals := isValuesMap(lk.X)
		switch {
		case !isVals:
			c.Unsure(key, sk.Pos(), "the payload is looked up in a map that is not Msg.Values()")
		case lk.Index != ssa.Value(hashP):
			c.Bad(key, sk.Pos(), "the payload is not looked up by the decided value hash")
		case !fromQcommit(recv):
			c.Unsure(key, sk.Pos(), "the values map does not belong to a message of the qcommit parameter")
		default:
			c.Good(key, sk.Pos(), "UnmarshalNew(qcommit[i].(Msg).Values()[valueHash])")
		}
		if lk.CommaOk {
			okv := c05Extract(lk, 1)
			good := okv != nil && !c03ReachUnder(lk, sk, func(v ssa.Value) (constant.Value, bool) {
				if v == okv {
					return constant.MakeBool(false), true
				}
				return nil, false
			})
			c.Check("Decide callback checks presence of the decided hash", sk.Pos(), good, "subscribers are called although the decided hash is not in the values map")
		} else {
			c.Unsure("Decide callback checks presence of the decided hash", sk.Pos(), "plain lookup: a missing hash yields a nil payload")
		}
	}
}

// ---------------------------------------------------------------------------------------------
// V5 — re-proposal of the justified prepared value

func c03V5(c *rt.Ctx) {
	r := c02NewRun(c)
	uqrc := constOf(c, c02P, "UponQuorumRoundChanges")
	reach := c02ReachCut(r.fn.Blocks[0], c03RuleCut(r, uqrc))
	n := 0
	for _, b := range c03PrePrepares(r) {
		g := c03PvOf(b.args[5])
		if g == nil {
			continue
		}
		n++
		if b.site.Parent() != r.fn || g.Parent() != r.fn {
			c.Unsure("Run re-proposal", b.site.Pos(), "re-proposal is broadcast from a helper closure")
			continue
		}
		ok, w := an.Guarded(g, b.site, an.GuardOpt{BoolIdx: 2, BoolWant: true, NoErr: true})
		c.Check("Run re-proposal of pv only on the ok edge of getSingleJustifiedPrPv", b.site.Pos(), ok,
			"a PRE-PREPARE proposes a 'prepared value' that is not backed by a quorum of PREPAREs: "+w)
		c.Check("Run re-proposal pv extracted from classify's justification", b.site.Pos(), len(g.Call.Args) == 2 && g.Call.Args[1] == r.justV,
			"pv is not extracted from the justified ROUND-CHANGE quorum returned by classify")
		c.Check("Run re-proposal carries classify's justification", b.site.Pos(), b.args[8] == r.justV,
			"the PRE-PREPARE re-proposing pv does not carry the ROUND-CHANGE quorum that justifies it")
		c.Check("Run re-proposal only upon UponQuorumRoundChanges", b.site.Pos(), !reach[b.site.Block()],
			"a prepared value is proposed outside the UponQuorumRoundChanges rule")
	}
	if n == 0 {
		c.Bad("Run UponQuorumRoundChanges re-proposes the justified prepared value", r.classify.Pos(),
			"no PRE-PREPARE broadcast carries pv of getSingleJustifiedPrPv: a new leader proposes its own value although another may already be prepared (and decided elsewhere)")
	} else {
		c.Good("Run UponQuorumRoundChanges re-proposes the justified prepared value", r.classify.Pos(), fmt.Sprintf("%d PRE-PREPARE broadcast(s) carry pv", n))
	}
	// classify hands over the checked result of getJustifiedQrc
	fn := c.Fn(c02P + ".classify")
	msg := c02ParamOfType(c, fn, c02P+".Msg")
	m := 0
	for _, pt := range c03RetPoints(fn) {
		k, isC := an.ConstInt(pt.rule)
		if !isC || k != uqrc {
			continue
		}
		m++
		key := "classify UponQuorumRoundChanges returns the checked getJustifiedQrc result"
		ex, ok := an.Unwrap(pt.just).(*ssa.Extract)
		var call *ssa.Call
		if ok && ex.Index == 0 {
			call = c02Static(ex.Tuple, "getJustifiedQrc")
		}
		if call == nil {
			c.Bad(key, posOf(pt.at), "the justification returned with UponQuorumRoundChanges is not the result of getJustifiedQrc")
			continue
		}
		g, w := an.Guarded(call, pt.at, an.GuardOpt{BoolIdx: 1, BoolWant: true, NoErr: true})
		c.Check(key, posOf(pt.at), g, "the ok result of getJustifiedQrc does not gate the rule: "+w)
		a := call.Call.Args
		fl := c02Static(a[1], "flatten")
		c.Check("classify getJustifiedQrc over the buffer and msg.Round()", posOf(pt.at), len(a) == 3 && fl != nil && an.IsMapType(fl.Call.Args[0].Type()) && c02IsMsgCallOn(a[2], "Round", msg),
			"the justified ROUND-CHANGE quorum is not computed from the buffered messages of the message's round")
	}
	if m == 0 {
		c.Unsure("classify UponQuorumRoundChanges", fn.Pos(), "no return of UponQuorumRoundChanges found")
	}
}

// ---------------------------------------------------------------------------------------------

const c03F = "core/qbft/qbft.go"
const c03G = "core/consensus/qbft/qbft.go"

var c03Mutants = []Mutant{
	// V1
	{ID: "C03-V1-latch-never-set", File: c03F, Expect: "V1|latch set",
		Old: "\t\t\t\tqCommit = justification\n", New: ""},
	{ID: "C03-V1-latch-set-after-early-break", File: c03F, Expect: "V1|latch set",
		Old: "\t\t\t\tqCommit = justification\n\t\t\t\tqCommitValue = msg.Value()\n\n\t\t\t\tstopTimer()\n\n\t\t\t\ttimerChan = nil\n\n\t\t\t\td.Decide(ctx, instance, msg.Value(), msg.Round(), justification)\n",
		New: "\t\t\t\tstopTimer()\n\n\t\t\t\ttimerChan = nil\n\n\t\t\t\td.Decide(ctx, instance, msg.Value(), msg.Round(), justification)\n\n\t\t\t\tif ctx.Err() != nil {\n\t\t\t\t\tbreak\n\t\t\t\t}\n\n\t\t\t\tqCommit = justification\n\t\t\t\tqCommitValue = msg.Value()\n"},
	{ID: "C03-V1-latch-wrong-list", File: c03F, Expect: "V1|latch set",
		Old: "\t\t\t\tqCommit = justification\n", New: "\t\t\t\tqCommit = preparedJustification\n"},
	{ID: "C03-V1-decided-branch-falls-through", File: c03F, Expect: "V1|cuts off",
		Old: "\t\t\t\t\terr = broadcastMsg(MsgDecided, qCommitValue, qCommit)\n\t\t\t\t}\n\n\t\t\t\tbreak\n",
		New: "\t\t\t\t\terr = broadcastMsg(MsgDecided, qCommitValue, qCommit)\n\t\t\t\t}\n"},
	{ID: "C03-V1-decided-break-only-on-resend", File: c03F, Expect: "V1|cuts off",
		Old: "\t\t\t\t\terr = broadcastMsg(MsgDecided, qCommitValue, qCommit)\n\t\t\t\t}\n\n\t\t\t\tbreak\n",
		New: "\t\t\t\t\terr = broadcastMsg(MsgDecided, qCommitValue, qCommit)\n\n\t\t\t\t\tbreak\n\t\t\t\t}\n"},
	{ID: "C03-V1-latch-test-inverted", File: c03F, Expect: "V1|cuts off",
		Old: "\t\t\tif len(qCommit) > 0 {", New: "\t\t\tif len(qCommit) == 0 {"},
	{ID: "C03-V1-latch-cleared-on-input", File: c03F, Expect: "V1|never cleared",
		Old: "\t\t\tinputValueCh = nil // Don't read from this channel again.\n",
		New: "\t\t\tinputValueCh = nil // Don't read from this channel again.\n\t\t\tqCommit = nil\n"},
	// V2
	{ID: "C03-V2-no-input-zero-test", File: c03F, Expect: "V2|receive case",
		Old: "\t\t\tif isZeroVal(inputValue) {\n\t\t\t\treturn errors.New(\"zero input value not supported\")\n\t\t\t}\n\n", New: ""},
	{ID: "C03-V2-zero-input-logged", File: c03F, Expect: "V2|receive case",
		Old: "\t\t\t\treturn errors.New(\"zero input value not supported\")\n",
		New: "\t\t\t\tlog.Warn(ctx, \"zero input value not supported\", nil)\n"},
	{ID: "C03-V2-own-preprepare-tests-other-value", File: c03F, Expect: "V2|helper closure",
		Old: "\t\tif isZeroVal(inputValue) {\n\t\t\t// Can't broadcast", New: "\t\tif isZeroVal(preparedValue) {\n\t\t\t// Can't broadcast"},
	{ID: "C03-V2-own-preprepare-cache-and-broadcast", File: c03F, Expect: "V2|helper closure",
		Old: "\t\t\tppjCache = justification\n\t\t\treturn nil\n", New: "\t\t\tppjCache = justification\n"},
	{ID: "C03-V2-input-reset-before-broadcast", File: c03F, Expect: "V2|helper closure",
		Old: "\t\treturn broadcastMsg(MsgPrePrepare, inputValue, justification)",
		New: "\t\tinputValue = zeroVal[V]()\n\n\t\treturn broadcastMsg(MsgPrePrepare, inputValue, justification)"},
	{ID: "C03-V2-preprepare-other-value", File: c03F, Expect: "V2|value provenance",
		Old: "err = broadcastMsg(MsgPrePrepare, inputValue, ppjCache)", New: "err = broadcastMsg(MsgPrePrepare, preparedValue, ppjCache)"},
	{ID: "C03-V2-accept-zero-preprepare", File: c03F, Expect: "V2|isJustifiedPrePrepare",
		Old: "\tif isZeroVal(msg.Value()) {\n\t\treturn false\n\t}\n\n", New: ""},
	{ID: "C03-V2-accept-zero-preprepare-round1", File: c03F, Expect: "V2|isJustifiedPrePrepare",
		Old: "\tif isZeroVal(msg.Value()) {\n\t\treturn false", New: "\tif isZeroVal(msg.Value()) && msg.Round() > 1 {\n\t\treturn false"},
	// V3
	{ID: "C03-V3-classify-counts-prepares", File: c03F, Expect: "V3|COMMIT messages",
		Old: "filterByRoundAndValue(flatten(buffer), MsgCommit, msg.Round(), msg.Value())", New: "filterByRoundAndValue(flatten(buffer), MsgPrepare, msg.Round(), msg.Value())"},
	{ID: "C03-V3-classify-any-value", File: c03F, Expect: "V3|message's value",
		Old: "commits := filterByRoundAndValue(flatten(buffer), MsgCommit, msg.Round(), msg.Value())", New: "commits := filterMsgs(flatten(buffer), MsgCommit, msg.Round(), nil, nil, nil)"},
	{ID: "C03-V3-classify-fplus1-commits", File: c03F, Expect: "V3|behind len(commits)",
		Old: "if len(commits) >= d.Quorum() {", New: "if len(commits) >= d.Faulty()+1 {"},
	{ID: "C03-V3-classify-returns-other-list", File: c03F, Expect: "V3|UponQuorumCommits",
		Old: "return UponQuorumCommits, commits", New: "return UponQuorumCommits, flatten(buffer)"},
	{ID: "C03-V3-classify-commit-quorum-not-required", File: c03F, Expect: "V3|behind len(commits)",
		Old: "\t\tif len(commits) >= d.Quorum() {\n\t\t\treturn UponQuorumCommits, commits\n\t\t}\n",
		New: "\t\tif len(commits) >= d.Quorum() || msg.Source() == process {\n\t\t\treturn UponQuorumCommits, commits\n\t\t}\n"},
	{ID: "C03-V3-decided-any-value", File: c03F, Expect: "V3|message's value",
		Old: "\tv := msg.Value()\n\tcommits := filterMsgs(msg.Justification(), MsgCommit, msg.Round(), &v, nil, nil)",
		New: "\tcommits := filterMsgs(msg.Justification(), MsgCommit, msg.Round(), nil, nil, nil)"},
	{ID: "C03-V3-decided-not-checked", File: c03F, Expect: "V3|isJustified DECIDED",
		Old: "\t\treturn isJustifiedDecided(d, msg)", New: "\t\treturn true"},
	{ID: "C03-V3-decided-weakened", File: c03F, Expect: "V3|isJustified DECIDED",
		Old: "\t\treturn isJustifiedDecided(d, msg)", New: "\t\treturn isJustifiedDecided(d, msg) || len(msg.Justification()) > 0"},
	{ID: "C03-V3-decided-own-justification-ignored", File: c03F, Expect: "V3|returns msg.Justification()",
		Old: "\t\treturn UponJustifiedDecided, msg.Justification()", New: "\t\treturn UponJustifiedDecided, flatten(buffer)"},
	{ID: "C03-V3-decide-other-value", File: c03F, Expect: "V3|Decide value",
		Old: "d.Decide(ctx, instance, msg.Value(), msg.Round(), justification)", New: "d.Decide(ctx, instance, preparedValue, msg.Round(), justification)"},
	{ID: "C03-V3-decide-on-unjust-round-changes", File: c03F, Expect: "V3|only upon",
		Old:  "\t\t\tcase UponQuorumCommits, UponJustifiedDecided: // Algorithm 2:8",
		New:  "\t\t\tcase UponQuorumCommits, UponJustifiedDecided, UponUnjustQuorumRoundChanges: // Algorithm 2:8",
		More: [][2]string{{"\t\t\tcase UponUnjustQuorumRoundChanges:\n\t\t\t\t// Ignore bug or byzantine\n\n", ""}}},
	{ID: "C03-V3-decide-message-justification", File: c03F, Expect: "V3|qcommit is classify",
		Old: "d.Decide(ctx, instance, msg.Value(), msg.Round(), justification)", New: "d.Decide(ctx, instance, msg.Value(), msg.Round(), msg.Justification())"},
	// V4
	{ID: "C03-V4-first-value", File: c03G, Expect: "V4|payload",
		Old: "\t\t\tanyValue, ok := msg.Values()[valueHash]\n",
		New: "\t\t\tvar anyValue *anypb.Any\n\n\t\t\tok = false\n\n\t\t\tfor _, v := range msg.Values() {\n\t\t\t\tanyValue, ok = v, true\n\t\t\t\tbreak\n\t\t\t}\n\n\t\t\t_ = valueHash\n"},
	{ID: "C03-V4-prepared-value-key", File: c03G, Expect: "V4|payload",
		Old: "anyValue, ok := msg.Values()[valueHash]", New: "anyValue, ok := msg.Values()[msg.PreparedValue()]"},
	{ID: "C03-V4-unmarshal-error-logged", File: c03G, Expect: "V4|unmarshal error",
		Old: "This indicates a serialization issue in the QBFT protocol and should be reported\", err)\n\t\t\t\treturn\n",
		New: "This indicates a serialization issue in the QBFT protocol and should be reported\", err)\n"},
	{ID: "C03-V4-missing-hash-logged", File: c03G, Expect: "V4|presence",
		Old: "This indicates state inconsistency in the QBFT protocol and should be reported\", nil)\n\t\t\t\treturn\n",
		New: "This indicates state inconsistency in the QBFT protocol and should be reported\", nil)\n"},
	{ID: "C03-V4-values-accessor-wire-order", File: "core/consensus/qbft/msg.go", Expect: "V4|Msg.Values",
		Old: "func (m Msg) Values() map[[32]byte]*anypb.Any {\n\treturn m.values\n",
		New: "func (m Msg) Values() map[[32]byte]*anypb.Any {\n\tresp := make(map[[32]byte]*anypb.Any)\n\tfor _, v := range m.values {\n\t\tresp[m.valueHash] = v\n\t}\n\n\treturn resp\n"},
	// V5
	{ID: "C03-V5-leader-proposes-own-value", File: c03F, Expect: "V5|re-proposes",
		Old: "err = broadcastMsg(MsgPrePrepare, pv, justification)", New: "err = broadcastOwnPrePrepare(justification)\n\t\t\t\t\t_ = pv"},
	{ID: "C03-V5-pv-without-quorum", File: c03F, Expect: "V5|ok edge",
		Old: "if ok && compareFailureRound != pr {", New: "if ok || compareFailureRound != pr {"},
	{ID: "C03-V5-ok-ignored", File: c03F, Expect: "V5|ok edge",
		Old: "if ok && compareFailureRound != pr {", New: "if _ = ok; compareFailureRound != pr {"},
	{ID: "C03-V5-pv-from-whole-buffer", File: c03F, Expect: "V5|extracted from",
		Old: "\t\t\t\tpr, pv, ok := getSingleJustifiedPrPv(d, justification)", New: "\t\t\t\tpr, pv, ok := getSingleJustifiedPrPv(d, flatten(buffer))"},
	{ID: "C03-V5-reproposal-without-justification", File: c03F, Expect: "V5|carries classify",
		Old: "err = broadcastMsg(MsgPrePrepare, pv, justification)", New: "err = broadcastMsg(MsgPrePrepare, pv, preparedJustification)"},
	{ID: "C03-V5-qrc-ok-ignored", File: c03F, Expect: "V5|checked getJustifiedQrc",
		Old: "\t\tqrc, ok := getJustifiedQrc(d, all, msg.Round())\n\t\tif !ok {\n\t\t\treturn UponUnjustQuorumRoundChanges, nil\n\t\t}\n",
		New: "\t\tqrc, _ := getJustifiedQrc(d, all, msg.Round())\n"},
	{ID: "C03-V5-classify-returns-all", File: c03F, Expect: "V5|checked getJustifiedQrc",
		Old: "\t\treturn UponQuorumRoundChanges, qrc", New: "\t\t_ = qrc\n\n\t\treturn UponQuorumRoundChanges, all"},
}
