package rules

import (
	"errors"
	"fmt"
	"go/constant"
	"go/token"
	"go/types"
	"sort"
	"time"

	"golang.org/x/tools/go/ssa"

	"charonverif/internal/an"
	"charonverif/internal/rt"
)

// U2 (offset arithmetic): the functions registered in slotOffsets are pure integer / float arithmetic on the
// slot duration. They are evaluated *symbolically on the SSA form* (a constant folder over the function
// bodies, no charon code is run) for a spread of slot durations; the duty must not be released before its
// fraction of the slot (attester 1/3, aggregator and sync contribution 2/3) for ANY slot duration, in
// particular not for durations that are not a multiple of 3 s (quantising the duration to whole seconds /
// milliseconds before the division, a smaller fraction, a subtracted constant all release the duty early).
// Anything the folder cannot evaluate (calls without body, non-numeric values, loops over data) is UNDECIDED.

var errC15Opaque = errors.New("opaque")

type c15Cell struct{ v any }

// c15Struct is a struct value: one cell per field.
type c15Struct struct{ f []*c15Cell }

func c15ZeroOf(t types.Type) any {
	switch u := t.Underlying().(type) {
	case *types.Basic:
		switch {
		case u.Info()&types.IsInteger != 0:
			return int64(0)
		case u.Info()&types.IsFloat != 0:
			return float64(0)
		case u.Info()&types.IsBoolean != 0:
			return false
		}
	case *types.Struct:
		st := &c15Struct{}
		for i := 0; i < u.NumFields(); i++ {
			st.f = append(st.f, &c15Cell{v: c15ZeroOf(u.Field(i).Type())})
		}
		return st
	}
	return nil
}

func c15CopyVal(v any) any {
	st, ok := v.(*c15Struct)
	if !ok {
		return v
	}
	out := &c15Struct{}
	for _, f := range st.f {
		out.f = append(out.f, &c15Cell{v: c15CopyVal(f.v)})
	}
	return out
}

type c15Closure struct {
	fn   *ssa.Function
	bind []any
}

type c15Interp struct {
	steps int
	why   string
}

func (it *c15Interp) fail(format string, a ...any) error {
	if it.why == "" {
		it.why = fmt.Sprintf(format, a...)
	}
	return errC15Opaque
}

func c15IsUnsigned(t types.Type) bool {
	b, ok := t.Underlying().(*types.Basic)
	return ok && b.Info()&types.IsUnsigned != 0
}

// c15Wrap truncates an integer result to the width of its type.
func c15Wrap(v int64, t types.Type) int64 {
	b, ok := t.Underlying().(*types.Basic)
	if !ok {
		return v
	}
	switch b.Kind() {
	case types.Int8:
		return int64(int8(v))
	case types.Int16:
		return int64(int16(v))
	case types.Int32:
		return int64(int32(v))
	case types.Uint8:
		return int64(uint8(v))
	case types.Uint16:
		return int64(uint16(v))
	case types.Uint32:
		return int64(uint32(v))
	}
	return v
}

func (it *c15Interp) constVal(k *ssa.Const) (any, error) {
	if k.Value == nil {
		return nil, it.fail("nil / zero constant of type %s", k.Type())
	}
	switch k.Value.Kind() {
	case constant.Bool:
		return constant.BoolVal(k.Value), nil
	case constant.Int:
		if b, ok := k.Type().Underlying().(*types.Basic); ok && b.Info()&types.IsFloat != 0 {
			f, _ := constant.Float64Val(k.Value)
			return f, nil
		}
		if n, ok := constant.Int64Val(k.Value); ok {
			return n, nil
		}
		if n, ok := constant.Uint64Val(k.Value); ok {
			return int64(n), nil
		}
	case constant.Float:
		if b, ok := k.Type().Underlying().(*types.Basic); ok && b.Info()&types.IsInteger != 0 {
			if n, ok := constant.Int64Val(constant.ToInt(k.Value)); ok {
				return n, nil
			}
		}
		f, _ := constant.Float64Val(k.Value)
		return f, nil
	}
	return nil, it.fail("constant %s", k)
}

// call evaluates fn on args (bind = values of its free variables).
func (it *c15Interp) call(fn *ssa.Function, bind []any, args []any, depth int) ([]any, error) {
	if fn == nil || len(fn.Blocks) == 0 {
		return nil, it.fail("call of a function without body (%v)", fn)
	}
	if depth > 12 {
		return nil, it.fail("call depth")
	}
	if len(args) != len(fn.Params) || len(bind) != len(fn.FreeVars) {
		return nil, it.fail("arity of %s", fn)
	}
	env := map[ssa.Value]any{}
	for i, p := range fn.Params {
		env[p] = args[i]
	}
	for i, fv := range fn.FreeVars {
		env[fv] = bind[i]
	}
	get := func(v ssa.Value) (any, error) {
		switch x := v.(type) {
		case *ssa.Const:
			return it.constVal(x)
		case *ssa.Function:
			return &c15Closure{fn: x}, nil
		}
		if r, ok := env[v]; ok {
			return r, nil
		}
		return nil, it.fail("value %s (%T) in %s", v.Name(), v, fn)
	}
	var prev *ssa.BasicBlock
	blk := fn.Blocks[0]
	for {
		// phis first (parallel assignment)
		var phiVals []any
		var phis []*ssa.Phi
		for _, in := range blk.Instrs {
			phi, ok := in.(*ssa.Phi)
			if !ok {
				break
			}
			idx := -1
			for i, p := range blk.Preds {
				if p == prev {
					idx = i
				}
			}
			if idx < 0 {
				return nil, it.fail("phi without predecessor")
			}
			v, err := get(phi.Edges[idx])
			if err != nil {
				return nil, err
			}
			phis, phiVals = append(phis, phi), append(phiVals, v)
		}
		for i, phi := range phis {
			env[phi] = phiVals[i]
		}
		var next *ssa.BasicBlock
		for _, in := range blk.Instrs[len(phis):] {
			it.steps++
			if it.steps > 200000 {
				return nil, it.fail("step limit")
			}
			switch x := in.(type) {
			case *ssa.DebugRef:
			case *ssa.Alloc:
				env[x] = &c15Cell{v: c15ZeroOf(c15Deref(x.Type()))}
			case *ssa.FieldAddr:
				b, err := get(x.X)
				if err != nil {
					return nil, err
				}
				cell, _ := b.(*c15Cell)
				if cell == nil {
					return nil, it.fail("field address of %T", b)
				}
				st, _ := cell.v.(*c15Struct)
				if st == nil || x.Field >= len(st.f) {
					return nil, it.fail("field address in %T", cell.v)
				}
				env[x] = st.f[x.Field]
			case *ssa.Field:
				b, err := get(x.X)
				if err != nil {
					return nil, err
				}
				st, _ := b.(*c15Struct)
				if st == nil || x.Field >= len(st.f) || st.f[x.Field].v == nil {
					return nil, it.fail("field of %T", b)
				}
				env[x] = c15CopyVal(st.f[x.Field].v)
			case *ssa.Store:
				a, err := get(x.Addr)
				if err != nil {
					return nil, err
				}
				cell, ok := a.(*c15Cell)
				if !ok {
					return nil, it.fail("store through %T", a)
				}
				v, err := get(x.Val)
				if err != nil {
					return nil, err
				}
				cell.v = c15CopyVal(v)
			case *ssa.UnOp:
				v, err := get(x.X)
				if err != nil {
					return nil, err
				}
				r, err := it.unop(x, v)
				if err != nil {
					return nil, err
				}
				env[x] = r
			case *ssa.BinOp:
				a, err := get(x.X)
				if err != nil {
					return nil, err
				}
				b, err := get(x.Y)
				if err != nil {
					return nil, err
				}
				r, err := it.binop(x.Op, a, b, x.X.Type(), x.Type())
				if err != nil {
					return nil, err
				}
				env[x] = r
			case *ssa.ChangeType:
				v, err := get(x.X)
				if err != nil {
					return nil, err
				}
				env[x] = v
			case *ssa.Convert:
				v, err := get(x.X)
				if err != nil {
					return nil, err
				}
				r, err := it.convert(v, x.Type())
				if err != nil {
					return nil, err
				}
				env[x] = r
			case *ssa.MakeClosure:
				cl := &c15Closure{fn: x.Fn.(*ssa.Function)}
				for _, b := range x.Bindings {
					v, err := get(b)
					if err != nil {
						return nil, err
					}
					cl.bind = append(cl.bind, v)
				}
				env[x] = cl
			case *ssa.Call:
				res, err := it.doCall(&x.Call, get, depth)
				if err != nil {
					return nil, err
				}
				if len(res) == 1 {
					env[x] = res[0]
				} else {
					env[x] = res
				}
			case *ssa.Extract:
				t, err := get(x.Tuple)
				if err != nil {
					return nil, err
				}
				tup, ok := t.([]any)
				if !ok || x.Index >= len(tup) {
					return nil, it.fail("extract")
				}
				env[x] = tup[x.Index]
			case *ssa.If:
				v, err := get(x.Cond)
				if err != nil {
					return nil, err
				}
				b, ok := v.(bool)
				if !ok {
					return nil, it.fail("condition %T", v)
				}
				if b {
					next = blk.Succs[0]
				} else {
					next = blk.Succs[1]
				}
			case *ssa.Jump:
				next = blk.Succs[0]
			case *ssa.Return:
				var out []any
				for _, r := range x.Results {
					v, err := get(r)
					if err != nil {
						return nil, err
					}
					out = append(out, v)
				}
				return out, nil
			default:
				return nil, it.fail("instruction %T in %s", in, fn)
			}
		}
		if next == nil {
			return nil, it.fail("block without successor in %s", fn)
		}
		prev, blk = blk, next
	}
}

func (it *c15Interp) doCall(cc *ssa.CallCommon, get func(ssa.Value) (any, error), depth int) ([]any, error) {
	if cc.IsInvoke() {
		return nil, it.fail("interface call %s", cc.Method.Name())
	}
	var args []any
	for _, a := range cc.Args {
		v, err := get(a)
		if err != nil {
			return nil, err
		}
		args = append(args, v)
	}
	if bi, ok := cc.Value.(*ssa.Builtin); ok {
		if (bi.Name() == "min" || bi.Name() == "max") && len(args) > 0 {
			best := args[0]
			for _, a := range args[1:] {
				lt, err := it.binop(token.LSS, a, best, cc.Args[0].Type(), types.Typ[types.Bool])
				if err != nil {
					return nil, err
				}
				if lt.(bool) == (bi.Name() == "min") {
					best = a
				}
			}
			return []any{best}, nil
		}
		return nil, it.fail("builtin %s", bi.Name())
	}
	if callee := cc.StaticCallee(); callee != nil {
		if mc, ok := cc.Value.(*ssa.MakeClosure); ok {
			v, err := get(mc)
			if err != nil {
				return nil, err
			}
			cl := v.(*c15Closure)
			return it.call(cl.fn, cl.bind, args, depth+1)
		}
		if len(callee.Blocks) == 0 {
			if res, ok := c15TimeIntrinsic(callee, args); ok {
				return res, nil
			}
		}
		return it.call(callee, nil, args, depth+1)
	}
	v, err := get(cc.Value)
	if err != nil {
		return nil, err
	}
	cl, ok := v.(*c15Closure)
	if !ok {
		return nil, it.fail("call of %T", v)
	}
	return it.call(cl.fn, cl.bind, args, depth+1)
}

func (it *c15Interp) unop(x *ssa.UnOp, v any) (any, error) {
	switch x.Op {
	case token.MUL:
		cell, ok := v.(*c15Cell)
		if !ok {
			return nil, it.fail("load through %T", v)
		}
		if cell.v == nil {
			// zero value of a numeric / bool local
			if b, ok := x.Type().Underlying().(*types.Basic); ok {
				switch {
				case b.Info()&types.IsInteger != 0:
					return int64(0), nil
				case b.Info()&types.IsFloat != 0:
					return float64(0), nil
				case b.Info()&types.IsBoolean != 0:
					return false, nil
				}
			}
			return nil, it.fail("load of unset %s", x.Type())
		}
		return c15CopyVal(cell.v), nil
	case token.SUB:
		switch n := v.(type) {
		case int64:
			return c15Wrap(-n, x.Type()), nil
		case float64:
			return -n, nil
		}
	case token.NOT:
		if b, ok := v.(bool); ok {
			return !b, nil
		}
	case token.XOR:
		if n, ok := v.(int64); ok {
			return c15Wrap(^n, x.Type()), nil
		}
	}
	return nil, it.fail("unary %s on %T", x.Op, v)
}

func (it *c15Interp) convert(v any, to types.Type) (any, error) {
	b, ok := to.Underlying().(*types.Basic)
	if !ok {
		return nil, it.fail("conversion to %s", to)
	}
	switch n := v.(type) {
	case int64:
		switch {
		case b.Info()&types.IsInteger != 0:
			return c15Wrap(n, to), nil
		case b.Info()&types.IsFloat != 0:
			return float64(n), nil
		}
	case float64:
		switch {
		case b.Info()&types.IsInteger != 0:
			return c15Wrap(int64(n), to), nil
		case b.Info()&types.IsFloat != 0:
			if b.Kind() == types.Float32 {
				return float64(float32(n)), nil
			}
			return n, nil
		}
	}
	return nil, it.fail("conversion of %T to %s", v, to)
}

func (it *c15Interp) binop(op token.Token, a, b any, opT, resT types.Type) (any, error) {
	switch x := a.(type) {
	case int64:
		y, ok := b.(int64)
		if !ok {
			return nil, it.fail("mixed operands %T %T", a, b)
		}
		uns := c15IsUnsigned(opT)
		switch op {
		case token.ADD:
			return c15Wrap(x+y, resT), nil
		case token.SUB:
			return c15Wrap(x-y, resT), nil
		case token.MUL:
			return c15Wrap(x*y, resT), nil
		case token.QUO, token.REM:
			if y == 0 {
				return nil, it.fail("division by zero")
			}
			if uns {
				if op == token.QUO {
					return c15Wrap(int64(uint64(x)/uint64(y)), resT), nil
				}
				return c15Wrap(int64(uint64(x)%uint64(y)), resT), nil
			}
			if op == token.QUO {
				return c15Wrap(x/y, resT), nil
			}
			return c15Wrap(x%y, resT), nil
		case token.AND:
			return x & y, nil
		case token.OR:
			return x | y, nil
		case token.XOR:
			return x ^ y, nil
		case token.AND_NOT:
			return x &^ y, nil
		case token.SHL:
			if y < 0 || y > 63 {
				return nil, it.fail("shift")
			}
			return c15Wrap(x<<uint(y), resT), nil
		case token.SHR:
			if y < 0 || y > 63 {
				return nil, it.fail("shift")
			}
			if uns {
				return c15Wrap(int64(uint64(x)>>uint(y)), resT), nil
			}
			return c15Wrap(x>>uint(y), resT), nil
		case token.EQL:
			return x == y, nil
		case token.NEQ:
			return x != y, nil
		}
		if uns {
			ux, uy := uint64(x), uint64(y)
			switch op {
			case token.LSS:
				return ux < uy, nil
			case token.LEQ:
				return ux <= uy, nil
			case token.GTR:
				return ux > uy, nil
			case token.GEQ:
				return ux >= uy, nil
			}
		}
		switch op {
		case token.LSS:
			return x < y, nil
		case token.LEQ:
			return x <= y, nil
		case token.GTR:
			return x > y, nil
		case token.GEQ:
			return x >= y, nil
		}
	case float64:
		y, ok := b.(float64)
		if !ok {
			return nil, it.fail("mixed operands %T %T", a, b)
		}
		switch op {
		case token.ADD:
			return x + y, nil
		case token.SUB:
			return x - y, nil
		case token.MUL:
			return x * y, nil
		case token.QUO:
			return x / y, nil
		case token.EQL:
			return x == y, nil
		case token.NEQ:
			return x != y, nil
		case token.LSS:
			return x < y, nil
		case token.LEQ:
			return x <= y, nil
		case token.GTR:
			return x > y, nil
		case token.GEQ:
			return x >= y, nil
		}
	case bool:
		y, ok := b.(bool)
		if !ok {
			return nil, it.fail("mixed operands %T %T", a, b)
		}
		switch op {
		case token.EQL:
			return x == y, nil
		case token.NEQ:
			return x != y, nil
		case token.AND:
			return x && y, nil
		case token.OR:
			return x || y, nil
		}
	}
	return nil, it.fail("binary %s on %T", op, a)
}

// evalIn evaluates a value of a function that is not executed as a whole (the package initialiser): constants,
// functions, closures over evaluable values and calls of evaluable functions on evaluable arguments.
func (it *c15Interp) evalIn(v ssa.Value, depth int) (any, error) {
	if depth > 8 {
		return nil, it.fail("expression depth")
	}
	get := func(w ssa.Value) (any, error) { return it.evalIn(w, depth+1) }
	switch x := v.(type) {
	case *ssa.Const:
		return it.constVal(x)
	case *ssa.Function:
		return &c15Closure{fn: x}, nil
	case *ssa.ChangeType:
		return get(x.X)
	case *ssa.Convert:
		w, err := get(x.X)
		if err != nil {
			return nil, err
		}
		return it.convert(w, x.Type())
	case *ssa.BinOp:
		a, err := get(x.X)
		if err != nil {
			return nil, err
		}
		b, err := get(x.Y)
		if err != nil {
			return nil, err
		}
		return it.binop(x.Op, a, b, x.X.Type(), x.Type())
	case *ssa.MakeClosure:
		cl := &c15Closure{fn: x.Fn.(*ssa.Function)}
		for _, b := range x.Bindings {
			w, err := get(b)
			if err != nil {
				return nil, err
			}
			cl.bind = append(cl.bind, w)
		}
		return cl, nil
	case *ssa.Call:
		res, err := it.doCall(&x.Call, get, depth)
		if err != nil {
			return nil, err
		}
		if len(res) != 1 {
			return nil, it.fail("multi-value call in initialiser")
		}
		return res[0], nil
	case *ssa.UnOp:
		if x.Op == token.MUL {
			// a single-assignment local of the initialiser
			if a, ok := x.X.(*ssa.Alloc); ok {
				if s := c15UniqueStore(a); s != nil {
					return get(s)
				}
				// a composite literal of the initialiser: a struct whose fields are each stored once
				if st, ok := c15ZeroOf(c15Deref(a.Type())).(*c15Struct); ok {
					for _, ref := range *a.Referrers() {
						switch r := ref.(type) {
						case *ssa.DebugRef:
						case *ssa.UnOp:
							if r.Op != token.MUL {
								return nil, it.fail("composite literal escapes")
							}
						case *ssa.FieldAddr:
							n := 0
							for _, r2 := range *r.Referrers() {
								fs, isStore := r2.(*ssa.Store)
								if !isStore || fs.Addr != ssa.Value(r) {
									return nil, it.fail("composite literal field escapes")
								}
								w, err := get(fs.Val)
								if err != nil {
									return nil, err
								}
								st.f[r.Field].v = w
								n++
							}
							if n != 1 {
								return nil, it.fail("composite literal field assigned %d times", n)
							}
						default:
							return nil, it.fail("composite literal escapes")
						}
					}
					return st, nil
				}
			}
		}
	}
	return nil, it.fail("initialiser value %s (%T)", v.Name(), v)
}

// c15OffsetEntries finds the (key, function value) pairs the slotOffsets table is initialised with: the map
// stored into the global (built in the package initialiser or in a function it calls) and its updates.
func c15OffsetEntries(e *c15Env, glob *ssa.Global) (entries []*ssa.MapUpdate, why string) {
	var maps []ssa.Value
	for _, fn := range e.funcs {
		for _, in := range an.Instrs(fn, false) {
			if st, ok := in.(*ssa.Store); ok && st.Addr == ssa.Value(glob) {
				maps = append(maps, c15Local(st.Val))
			}
		}
	}
	if init := e.pkg.Func("init"); init != nil {
		for _, in := range an.Instrs(init, false) {
			if st, ok := in.(*ssa.Store); ok && st.Addr == ssa.Value(glob) {
				dup := false
				for _, m := range maps {
					if m == c15Local(st.Val) {
						dup = true
					}
				}
				if !dup {
					maps = append(maps, c15Local(st.Val))
				}
			}
		}
	}
	if len(maps) != 1 {
		return nil, fmt.Sprintf("%d initialisations of slotOffsets", len(maps))
	}
	m := maps[0]
	if call, ok := m.(*ssa.Call); ok {
		// built by a helper: its single returned map
		h := call.Call.StaticCallee()
		if h == nil || len(h.Blocks) == 0 {
			return nil, "slotOffsets is initialised by a call that cannot be followed"
		}
		rets := an.Returns(h)
		if len(rets) != 1 || len(rets[0].Results) != 1 {
			return nil, "slotOffsets is initialised by a helper with several results / returns"
		}
		m = c15Local(rets[0].Results[0])
	}
	mk, ok := m.(*ssa.MakeMap)
	if !ok {
		return nil, fmt.Sprintf("slotOffsets is initialised from a %T", m)
	}
	for _, ref := range *mk.Referrers() {
		switch r := ref.(type) {
		case *ssa.MapUpdate:
			if r.Map == ssa.Value(mk) {
				entries = append(entries, r)
			}
		case *ssa.Store:
			// kept in a local of the builder: updates through loads of it
			if a, ok := r.Addr.(*ssa.Alloc); ok {
				for _, r2 := range *a.Referrers() {
					if ld, ok := r2.(*ssa.UnOp); ok && ld.Op == token.MUL {
						for _, r3 := range *ld.Referrers() {
							if mu, ok := r3.(*ssa.MapUpdate); ok && mu.Map == ssa.Value(ld) {
								entries = append(entries, mu)
							}
						}
					}
				}
			}
		}
	}
	return entries, ""
}

// c15OffsetArithmetic is the U2 obligation on the offset functions themselves.
func c15OffsetArithmetic(c *rt.Ctx, e *c15Env, glob *ssa.Global) {
	entries, why := c15OffsetEntries(e, glob)
	if why != "" || len(entries) == 0 {
		if why == "" {
			why = "no entry of the slotOffsets table could be found"
		}
		c.Unsure("slotOffsets offset functions", glob.Pos(), why)
		return
	}
	// the least fraction of the slot a duty type has to wait for (consensus spec intervals)
	type frac struct {
		name string
		n, d int64
	}
	spec := map[int64]frac{
		constOf(c, "core", "DutyAttester"):         {"DutyAttester", 1, 3},
		constOf(c, "core", "DutyAggregator"):       {"DutyAggregator", 2, 3},
		constOf(c, "core", "DutySyncContribution"): {"DutySyncContribution", 2, 3},
	}
	samples := []time.Duration{12 * time.Second, 6 * time.Second, 5 * time.Second, 4 * time.Second, 2500 * time.Millisecond,
		2 * time.Second, time.Second, 750 * time.Millisecond, 400 * time.Millisecond, 100 * time.Millisecond}
	const slack = int64(time.Microsecond) // order of integer operations / float rounding
	seen := map[int64]bool{}
	complete := true
	for _, mu := range entries {
		key, ok := an.ConstInt(mu.Key)
		if !ok {
			c.Unsure("slotOffsets entry", posOf(mu), "the duty type of the entry is not a constant")
			complete = false
			continue
		}
		fr, known := spec[key]
		if !known {
			c.Note("U2: slotOffsets entry for duty type %d has no spec fraction; its arithmetic is not checked", key)
			continue
		}
		if seen[key] {
			c.Unsure("slotOffsets["+fr.name+"]", posOf(mu), "the entry is assigned more than once")
			continue
		}
		seen[key] = true
		name := "slotOffsets[" + fr.name + "] offset arithmetic"
		it := &c15Interp{}
		fv, err := it.evalIn(mu.Value, 0)
		cl, isFn := fv.(*c15Closure)
		if err != nil || !isFn {
			c.Unsure(name, posOf(mu), "the offset function could not be evaluated: "+it.why)
			continue
		}
		bad, opaque := "", false
		for _, T := range samples {
			res, err := it.call(cl.fn, cl.bind, []any{int64(T)}, 0)
			if err != nil || len(res) != 1 {
				opaque = true
				break
			}
			got, ok := res[0].(int64)
			if !ok {
				opaque = true
				it.fail("result %T", res[0])
				break
			}
			want := int64(T) * fr.n / fr.d
			if got < want-slack {
				bad = fmt.Sprintf("for a slot duration of %s the offset is %s, less than %d/%d of the slot (%s): the duty is released early "+
					"(lossy truncation of the slot duration before the division, or a smaller fraction)", T, time.Duration(got), fr.n, fr.d, time.Duration(want))
				break
			}
		}
		pos := posOf(mu)
		if cl.fn.Pos().IsValid() && bad != "" {
			pos = cl.fn.Pos()
		}
		switch {
		case bad != "":
			c.Bad(name, pos, bad)
		case opaque:
			c.Unsure(name, posOf(mu), "the offset function could not be evaluated: "+it.why)
		default:
			c.Good(name, posOf(mu), "")
		}
	}
	keys := make([]int64, 0, len(spec))
	for k := range spec {
		keys = append(keys, k)
	}
	sort.Slice(keys, func(i, j int) bool { return keys[i] < keys[j] })
	for _, k := range keys {
		fr := spec[k]
		if complete && !seen[k] {
			// without an entry the duty is released at slot start
			c.Bad("slotOffsets["+fr.name+"] present", glob.Pos(), fmt.Sprintf("no offset is registered for %s: the duty is released at the start of the slot instead of %d/%d into it", fr.name, fr.n, fr.d))
		}
	}
}

// c15TimeIntrinsic models the arithmetic methods of time.Duration (the standard library is loaded without
// function bodies): their documented meaning, computed with the analyser's own standard library.
func c15TimeIntrinsic(fn *ssa.Function, args []any) ([]any, bool) {
	if fn.Pkg == nil || fn.Pkg.Pkg.Path() != "time" || fn.Signature.Recv() == nil || an.TypeName(fn.Signature.Recv().Type()) != "time.Duration" {
		return nil, false
	}
	ints := make([]time.Duration, len(args))
	for i, a := range args {
		n, ok := a.(int64)
		if !ok {
			return nil, false
		}
		ints[i] = time.Duration(n)
	}
	if len(ints) == 0 {
		return nil, false
	}
	d := ints[0]
	switch fn.Name() {
	case "Truncate":
		if len(ints) == 2 {
			return []any{int64(d.Truncate(ints[1]))}, true
		}
	case "Round":
		if len(ints) == 2 {
			return []any{int64(d.Round(ints[1]))}, true
		}
	case "Abs":
		return []any{int64(d.Abs())}, true
	case "Nanoseconds":
		return []any{d.Nanoseconds()}, true
	case "Microseconds":
		return []any{d.Microseconds()}, true
	case "Milliseconds":
		return []any{d.Milliseconds()}, true
	case "Seconds":
		return []any{d.Seconds()}, true
	case "Minutes":
		return []any{d.Minutes()}, true
	case "Hours":
		return []any{d.Hours()}, true
	}
	return nil, false
}
